import DS.Lemmas.World
import DS.Lemmas.WorldAlias
/-!
# C08 — a Structure stays a consistent list of atoms in one lattice under any edits

Model: `DS.Model.World` (heap of atoms and structures, `World.stepFull` for every public container
operation of `structure.py`, tied to the current source by the per-step differential check of
`harness/c08.py`).  All theorems below quantify over **all** well-formed worlds and **all**
operation histories (induction on the operation list); side conditions are explicit and are
evaluated on the pre-state of the step they constrain.

* `refines_list`, `errors_match`  — the atom sequences (as payload lists) and the exception kinds
  are those of the same history on plain lists (`ListSpec`, CPython `list` semantics).
* `lattice_inv` — every atom of every live structure refers to that structure's lattice after
  every step, provided no step links a *shared* atom to a different lattice (`Safe`, needed only by
  lattice assignment and by insertions that do not copy: `safe_of_copying`);
  `lattice_inv_unrestricted_false` + three concrete counter-example theorems: the unrestricted
  statement is false of the current code.
* `copies_disjoint`, `inserted_copies_fresh` — documented copies share no atom and no lattice with
  anything that existed before.
* `selections_share` — slice / index array / mask / tuple selections hold exactly the selected atom
  objects and the lattice object of their source.
* `no_alias : no_alias_statement` — no atom object in two slots, unless a non-copying insertion or a
  slice assignment listed it twice; **every** operation of `Op` (extended-slice assignment
  `s[i:j:k] = …` and pickle protocols 0/1 included).  `no_alias_partial` is the round-2 form (edits of
  `CoreEdit` only) and is subsumed (`dupFreeHistX_of_dupFreeHist`).  The statement recorded up to round 4
  (`no_alias_statement_plainRemain`) is **false**: `no_alias_statement_plainRemain_false`, with the
  concrete history `witnessExtSliceNoCopy` replayed on the implementation — the side condition was too
  weak for extended slices (not a defect of the code).
* `copies_disjoint_all`, `inserted_copies_fresh_all`, `selections_share_all`, `docKind` — the same
  guarantees stated over a total classification of `Op` (nothing documented as a copy / selection
  is left out of the enumeration).
-/
namespace DS.Props.C08
open DS.World

/-! ## 1. refinement of the plain-list specification -/

/-- Agreement hypothesis of the three operations that act on object *identity* (`-`, `-=`,
`remove`): among the operands, atoms with equal payload are the same atom.  (`ListSpec` works on
payload values and has no identity.)  Boolean, evaluated on the pre-state. -/
def subAgreeB (w : World) : Op → Bool
  | .sub h it => match w.view.atoms h, w.view.iter it with
    | .ok old, .ok (xs, _) => old.all (fun a => decide (w.pay a ∈ xs.map w.pay → a ∈ xs))
    | _, _ => true
  | .isub h it => match w.view.atoms h, w.view.iter it with
    | .ok old, .ok (xs, _) => old.all (fun a => decide (w.pay a ∈ xs.map w.pay → a ∈ xs))
    | _, _ => true
  | .remove h r => match w.view.atoms h, w.view.aref r with
    | .ok old, .ok x => old.all (fun y => decide (w.pay y = w.pay x → y = x))
    | _, _ => true
  | _ => true

theorem subAgreeB_sound {w : World} {op : Op} (h : subAgreeB w op = true) : SubAgree w.pay w.view op := by
  cases op <;> try trivial
  case sub hh it =>
    intro old xs b h1 h2 a ha hm
    simp only [subAgreeB, h1, h2, List.all_eq_true, decide_eq_true_eq] at h
    exact h a ha hm
  case isub hh it =>
    intro old xs b h1 h2 a ha hm
    simp only [subAgreeB, h1, h2, List.all_eq_true, decide_eq_true_eq] at h
    exact h a ha hm
  case remove hh r =>
    intro old x h1 h2 y hy he
    simp only [subAgreeB, h1, h2, List.all_eq_true, decide_eq_true_eq] at h
    exact h y hy he

/-- one step: the abstraction of the new world is the plain-list step of the abstraction, and the
outcomes (returned payload / new handle / exception kind) correspond -/
theorem step_refines {w : World} (hw : Wf w) {op : Op} (hag : subAgreeB w op = true) :
    (ListSpec.stepFull w.abs op).1 = (w.stepFull op).1.abs ∧
    World.OutRel (w.stepFull op).1 (w.stepFull op).2 (ListSpec.stepFull w.abs op).2 := by
  have R := planG_nat (World.abs_view w) op (subAgreeB_sound hag)
  simp only [ListSpec.stepFull, World.stepFull]
  rcases h1 : planG w.view op with e | act
  · rcases h2 : planG (ListSpec.view w.abs) op with e' | act'
    · simp only [h1, h2, ExRel] at R
      subst R; exact ⟨rfl, World.OutRel.err _⟩
    · simp only [h1, h2, ExRel] at R
  · rcases h2 : planG (ListSpec.view w.abs) op with e' | act'
    · simp only [h1, h2, ExRel] at R
    · simp only [h1, h2, ExRel] at R
      exact World.exec_refines hw (planG_all (World.view_all hw) h1) R

/-- the agreement hypothesis along a history -/
def HistAgree : World → List Op → Prop
  | _, [] => True
  | w, op :: ops => subAgreeB w op = true ∧ HistAgree (w.stepFull op).1 ops

/-- **refines_list**: after any history the payload lists of all live structures are what the same
history gives on plain lists -/
theorem refines_list {w : World} (hw : Wf w) (ops : List Op) (hag : HistAgree w ops) :
    (w.run ops).abs = ListSpec.run w.abs ops := by
  induction ops generalizing w with
  | nil => rfl
  | cons op ops ih =>
    simp only [World.run, ListSpec.run]
    rw [(step_refines hw hag.1).1]
    exact ih (World.stepFull_wf hw op) hag.2

/-- operations that do not act on object identity -/
def NoIdentityOp : Op → Prop
  | .sub _ _ => False
  | .isub _ _ => False
  | .remove _ _ => False
  | _ => True

theorem histAgree_of_noIdentity (w : World) (ops : List Op) (h : ∀ op ∈ ops, NoIdentityOp op) : HistAgree w ops := by
  induction ops generalizing w with
  | nil => trivial
  | cons op ops ih =>
    refine ⟨?_, ih _ (fun o ho => h o (List.mem_cons_of_mem _ ho))⟩
    have := h op (by simp)
    cases op <;> first | rfl | exact this.elim

/-- unconditional form for histories without `-`, `-=`, `remove` -/
theorem refines_list_noIdentity {w : World} (hw : Wf w) (ops : List Op) (h : ∀ op ∈ ops, NoIdentityOp op) :
    (w.run ops).abs = ListSpec.run w.abs ops :=
  refines_list hw ops (histAgree_of_noIdentity w ops h)

def errW : Except Err Res → Option Err
  | .ok _ => none
  | .error e => some e

def errS : Except Err SRes → Option Err
  | .ok _ => none
  | .error e => some e

/-- **errors_match** (one step): the step raises exactly when, and the exception kind that, the
plain-list operation raises (IndexError for out-of-range indices and bad / duplicate labels,
ValueError for an extended-slice length mismatch, a zero step, `remove` of an absent atom) -/
theorem errors_match {w : World} (hw : Wf w) {op : Op} (hag : subAgreeB w op = true) :
    errW (w.stepFull op).2 = errS (ListSpec.stepFull w.abs op).2 := by
  obtain ⟨_, h⟩ := step_refines hw hag
  revert h
  generalize (w.stepFull op).2 = a
  generalize (ListSpec.stepFull w.abs op).2 = b
  intro h
  cases h <;> rfl

def World.errTrace : World → List Op → List (Option Err)
  | _, [] => []
  | w, op :: ops => errW (w.stepFull op).2 :: World.errTrace (w.stepFull op).1 ops

def ListSpec.errTrace : SpecState → List Op → List (Option Err)
  | _, [] => []
  | s, op :: ops => errS (ListSpec.stepFull s op).2 :: ListSpec.errTrace (ListSpec.stepFull s op).1 ops

/-- **errors_match** along a whole history -/
theorem errors_match_trace {w : World} (hw : Wf w) (ops : List Op) (hag : HistAgree w ops) :
    World.errTrace w ops = ListSpec.errTrace w.abs ops := by
  induction ops generalizing w with
  | nil => rfl
  | cons op ops ih =>
    simp only [World.errTrace, ListSpec.errTrace]
    rw [errors_match hw hag.1, (step_refines hw hag.1).1]
    rw [ih (World.stepFull_wf hw op) hag.2]

/-- the statement without the agreement hypothesis; it is *not* provable for a specification on
payload values: `s - s.copy()` removes nothing (identity) while the payload lists coincide.  This is a
property of the specification's level of abstraction, not a defect of the code. -/
def refines_list_statement : Prop :=
  ∀ (w : World) (ops : List Op), Wf w → (w.run ops).abs = ListSpec.run w.abs ops

def subCopyHistory : List Op := [.mkStru, .addNew 0 1, .copy 0, .sub 0 (.stru 1)]

theorem refines_list_needs_agreement : ¬ refines_list_statement := by
  intro h
  have := h World.empty subCopyHistory World.empty_wf
  revert this
  decide

/-! ## 2. the lattice invariant -/

/-- **lattice_inv**: if every atom of every live structure refers to its structure's lattice, this
still holds after any history each of whose steps satisfies `Safe` in the state it is executed in -/
theorem lattice_inv {w : World} (hw : Wf w) (hi : w.Inv) (ops : List Op) (hs : World.SafeHist w ops) :
    (w.run ops).Inv :=
  World.run_inv hw hi ops hs

theorem safeHist_take {w : World} {ops : List Op} (hs : World.SafeHist w ops) (k : Nat) :
    World.SafeHist w (ops.take k) := by
  induction ops generalizing w k with
  | nil => simpa using hs
  | cons op ops ih =>
    cases k with
    | zero => trivial
    | succ k => exact ⟨hs.1, ih hs.2 k⟩

/-- … after *every* step of the history -/
theorem lattice_inv_every_step {w : World} (hw : Wf w) (hi : w.Inv) (ops : List Op) (hs : World.SafeHist w ops)
    (k : Nat) : (w.run (ops.take k)).Inv :=
  lattice_inv hw hi _ (safeHist_take hs k)

/-- local form, no side condition: the atoms an operation puts into (or offers to) its target refer
to the target's lattice afterwards — also when the list edit itself raises -/
theorem lattice_local {w : World} {op : Op} {p : Plan Nat} (hp : planG w.view op = .ok (.plan p)) :
    ∀ y ∈ (w.prep p).2.2, (w.stepFull op).1.alat y = World.tgtLat w p := by
  simp only [World.stepFull, hp, World.exec]
  exact World.execPlan_links w p

/-- the side condition is needed only by lattice assignment and by insertions that do not copy:
every other operation (`World.AutoSafe`: all copying forms, indexing, deletion, `+ - *`, in-place
forms, pickling, inherited list methods) satisfies it in every state where the invariant holds -/
theorem safe_of_copying {w : World} (hi : w.Inv) {op : Op} (ha : World.AutoSafe op) : World.Safe w op :=
  World.safe_of_autoSafe hi ha

/-- the side condition restricted to the steps that need it -/
def SafeHistX : World → List Op → Prop
  | _, [] => True
  | w, op :: ops => (World.AutoSafe op ∨ World.Safe w op) ∧ SafeHistX (w.stepFull op).1 ops

/-- **lattice_inv**, explicit form: only lattice assignments, `copy=False` insertions and
default-flag `extend` of a non-Structure iterable carry a hypothesis -/
theorem lattice_inv_explicit {w : World} (hw : Wf w) (hi : w.Inv) (ops : List Op) (hs : SafeHistX w ops) :
    (w.run ops).Inv := by
  induction ops generalizing w with
  | nil => exact hi
  | cons op ops ih =>
    have h1 : World.Safe w op := by
      rcases hs.1 with h | h
      · exact safe_of_copying hi h
      · exact h
    exact ih (World.stepFull_wf hw op) (World.stepFull_inv hw hi op h1) hs.2

/-- histories of copying / selecting / deleting operations keep the invariant unconditionally -/
theorem safeHistX_of_auto (w : World) (ops : List Op) (h : ∀ op ∈ ops, World.AutoSafe op) : SafeHistX w ops := by
  induction ops generalizing w with
  | nil => trivial
  | cons op ops ih => exact ⟨Or.inl (h op (by simp)), ih _ (fun o ho => h o (List.mem_cons_of_mem _ ho))⟩

theorem lattice_inv_copying {w : World} (hw : Wf w) (hi : w.Inv) (ops : List Op) (h : ∀ op ∈ ops, World.AutoSafe op) :
    (w.run ops).Inv :=
  lattice_inv_explicit hw hi ops (safeHistX_of_auto w ops h)

/-- the unrestricted statement -/
def lattice_inv_statement : Prop :=
  ∀ (w : World) (ops : List Op), Wf w → w.Inv → (w.run ops).Inv

instance (w : World) : Decidable w.Inv := by unfold World.Inv; infer_instance

theorem empty_inv : World.empty.Inv := by
  intro s hs; simp [World.empty] at hs

/-- `s = Structure(3 atoms); sel = s[1:]; sel.lattice = Lattice()` -/
def witnessSelection : List Op :=
  [.mkStru, .addNew 0 1, .addNew 0 2, .addNew 0 3, .getitem 0 (.slice ⟨some 1, none, none⟩), .setLat 1 .fresh]

/-- counter-example 1 (known finding `shared-selection-lattice`): a lattice assigned to a selection
leaves the owner's atoms referring to a foreign lattice -/
theorem counterexample_shared_selection : ¬ (World.empty.run witnessSelection).Inv := by decide

/-- **the unrestricted lattice statement is false** -/
theorem lattice_inv_unrestricted_false : ¬ lattice_inv_statement :=
  fun h => counterexample_shared_selection (h World.empty witnessSelection World.empty_wf empty_inv)

/-- `s = Structure(); t = Structure(1 atom); s.extend(t.tolist())` (default copy flag) -/
def witnessExtendDefault : List Op :=
  [.mkStru, .mkStru, .addNew 1 12, .extend 0 (.tolist 1) .dflt]

/-- counter-example 2 (finding `extend-default-adopts-foreign-atom`): `extend` with the *default*
copy flag and a plain list takes over another structure's atom objects and re-links them -/
theorem counterexample_extend_default : ¬ (World.empty.run witnessExtendDefault).Inv := by decide

/-- `s.append(t[0], copy=False)` -/
def witnessNoCopy : List Op :=
  [.mkStru, .mkStru, .addNew 1 12, .append 0 (.mem 1 0) .no]

/-- counter-example 3 (finding `shared-nocopy-lattice`) -/
theorem counterexample_nocopy : ¬ (World.empty.run witnessNoCopy).Inv := by decide

/-- `s.__setitem__(9, t[0], copy=False)` raises IndexError … -/
def witnessFailedOp : List Op :=
  [.mkStru, .mkStru, .addNew 1 12, .setitem 0 9 (.mem 1 0) false]

/-- … after it has already re-linked `t[0]` (finding `shared-nocopy-lattice:failed-op`) -/
theorem counterexample_failed_op :
    World.errTrace World.empty witnessFailedOp = [none, none, none, some .index] ∧
    ¬ (World.empty.run witnessFailedOp).Inv := by decide

/-- none of the counter-example histories satisfies the side condition (consequence of `lattice_inv`) -/
theorem witnesses_not_safe :
    ¬ World.SafeHist World.empty witnessSelection ∧ ¬ World.SafeHist World.empty witnessExtendDefault ∧
    ¬ World.SafeHist World.empty witnessNoCopy ∧ ¬ World.SafeHist World.empty witnessFailedOp :=
  ⟨fun h => counterexample_shared_selection (lattice_inv World.empty_wf empty_inv _ h),
   fun h => counterexample_extend_default (lattice_inv World.empty_wf empty_inv _ h),
   fun h => counterexample_nocopy (lattice_inv World.empty_wf empty_inv _ h),
   fun h => counterexample_failed_op.2 (lattice_inv World.empty_wf empty_inv _ h)⟩


/-! ## 3. documented copies share nothing, selections share -/

/-- operations documented to return a new Structure that is a copy -/
inductive IsCopyOp : Op → Prop
  | copy (h : Nat) : IsCopyOp (.copy h)
  | add (h : Nat) (it : Iter) : IsCopyOp (.add h it)
  | sub (h : Nat) (it : Iter) : IsCopyOp (.sub h it)
  | mul (h : Nat) (n : Int) : IsCopyOp (.mul h n)
  | pickle (h : Nat) (k : Nat) : IsCopyOp (.pickle h k)
  | deepcopy (h : Nat) : IsCopyOp (.deepcopy h)

/-- **copies_disjoint** (core): a successful copy operation returns the next handle; every atom id of
the result and its lattice id are freshly allocated -/
theorem copies_fresh {w : World} {op : Op} (hc : IsCopyOp op) {r : Nat}
    (hok : (w.stepFull op).2 = .ok (.stru r)) :
    r = w.strus.length ∧ (∀ a ∈ (w.stepFull op).1.atomsOf r, w.nextA ≤ a) ∧ (w.stepFull op).1.latOf r = w.nextL := by
  have key : (∃ p : Plan Nat, planG w.view op = .ok (.plan p) ∧ p.tgt = .new .fresh ∧ p.edit = .replace ∧
      p.flags = allTrue p.inc) →
      r = w.strus.length ∧ (∀ a ∈ (w.stepFull op).1.atomsOf r, w.nextA ≤ a) ∧ (w.stepFull op).1.latOf r = w.nextL := by
    intro ⟨p, hp, ht, he, hf⟩
    simp only [World.stepFull, hp, World.exec] at hok ⊢
    obtain ⟨h1, h2, h3, _⟩ := World.execPlan_new_fresh w p ht he hf
    rw [h1] at hok
    cases hok
    exact ⟨rfl, h2, h3⟩
  cases hc with
  | copy h =>
    rcases h1 : w.view.atoms h with e | old
    · simp [World.stepFull, planG, h1] at hok
    · exact key (by simp only [planG, h1]; exact ⟨_, rfl, rfl, rfl, rfl⟩)
  | add h it =>
    rcases h1 : w.view.atoms h with e | old
    · simp [World.stepFull, planG, h1] at hok
    · rcases h2 : w.view.iter it with e | ⟨xs, b⟩
      · simp [World.stepFull, planG, h1, h2] at hok
      · exact key (by simp only [planG, h1, h2]; exact ⟨_, rfl, rfl, rfl, rfl⟩)
  | sub h it =>
    rcases h1 : w.view.atoms h with e | old
    · simp [World.stepFull, planG, h1] at hok
    · rcases h2 : w.view.iter it with e | ⟨xs, b⟩
      · simp [World.stepFull, planG, h1, h2] at hok
      · exact key (by simp only [planG, h1, h2]; exact ⟨_, rfl, rfl, rfl, rfl⟩)
  | mul h n =>
    rcases h1 : w.view.atoms h with e | old
    · simp [World.stepFull, planG, h1] at hok
    · exact key (by simp only [planG, h1]; exact ⟨_, rfl, rfl, rfl, rfl⟩)
  | deepcopy h =>
    rcases h1 : w.view.atoms h with e | old
    · simp [World.stepFull, planG, h1] at hok
    · exact key (by simp only [planG, h1]; exact ⟨_, rfl, rfl, rfl, rfl⟩)
  | pickle h k =>
    rcases h1 : w.view.atoms h with e | old
    · simp [World.stepFull, planG, h1] at hok
    · by_cases hk : 2 ≤ k
      · exact key (by simp only [planG, h1, hk, if_true]; exact ⟨_, rfl, rfl, rfl, rfl⟩)
      · have hp : planG w.view (.pickle h k) = .ok (.copyShape h old) := by simp only [planG, h1, hk, if_false]
        simp only [World.stepFull, hp] at hok ⊢
        obtain ⟨g1, g2, g3⟩ := World.exec_copyShape_fresh w h old
        rw [g1] at hok
        cases hok
        exact ⟨rfl, g2, g3⟩

/-- **copies_disjoint**: the result of a copy operation shares no atom object with any structure or
free atom that existed before, and its lattice object is none of the earlier lattices -/
theorem copies_disjoint {w : World} (hw : Wf w) {op : Op} (hc : IsCopyOp op) {r : Nat}
    (hok : (w.stepFull op).2 = .ok (.stru r)) :
    (∀ a ∈ (w.stepFull op).1.atomsOf r, (∀ s ∈ w.strus, a ∉ s.atoms) ∧ a ∉ w.pool) ∧
    (∀ s ∈ w.strus, s.lat ≠ (w.stepFull op).1.latOf r) := by
  obtain ⟨_, h2, h3⟩ := copies_fresh hc hok
  constructor
  · intro a ha
    have := h2 a ha
    exact ⟨fun s hs hin => by have := hw.atoms s hs a hin; omega, fun hin => by have := hw.pool a hin; omega⟩
  · intro s hs heq
    have := hw.lats s hs
    omega

/-- a plan that builds a new structure from copies only: next handle, fresh atoms, the lattice asked for -/
theorem newCopy_fresh (w : World) (L : LatSrc) (old : List Nat) :
    let p : Plan Nat := { tgt := .new L, pre := none, inc := old, flags := allTrue old, edit := .replace }
    (w.execPlan p).2 = .ok (.stru w.strus.length) ∧
    (∀ a ∈ (w.execPlan p).1.atomsOf w.strus.length, w.nextA ≤ a) ∧
    (w.execPlan p).1.latOf w.strus.length = World.latSrcOf w L := by
  intro p
  cases L with
  | fresh =>
    obtain ⟨g1, g2, g3, _⟩ := World.execPlan_new_fresh w p rfl rfl rfl
    exact ⟨g1, g2, g3⟩
  | ofStru h' =>
    obtain ⟨e1, _, _, _, e5, e6⟩ := World.prep_strus w p
    obtain ⟨_, _, g3, _, _, g6⟩ := World.w1_frame w p
    rw [World.execPlan_eq]
    simp only [p, Edit.apply, World.worldFinish]
    have hh : (w.prep p).2.1 = w.strus.length := by rw [e5]; simp [World.hT, p]
    have hstr : (w.prep p).1.strus = w.strus ++ [⟨[], w.latOf h', true⟩] := by rw [e1, g6]
    obtain ⟨a1, a2⟩ := World.atomsOf_setAtoms_push (w.prep p).1 w.strus (w.latOf h') (w.prep p).2.2 hstr
    simp only [p] at hh a1 a2 e6
    rw [hh]
    refine ⟨rfl, ?_, a2⟩
    rw [a1, e6]
    intro a ha
    have := World.copySome_allTrue_fresh _ old a ha
    have g3' := g3
    simp only [p] at g3'
    omega

/-- the lattice object a constructor call asks for -/
def ctorLat (w : World) : Option LatSrc → Nat
  | some (.ofStru h') => w.latOf h'
  | _ => w.nextL

/-- copy construction `Structure(s)`, `Structure(s, lattice=L)`, `PDFFitStructure(s, lattice=t.lattice)`,
`Structure(s, title=…)`: the result is the next handle, all its atoms are fresh copies, and its lattice
is the one asked for — a new lattice object unless the caller passed the lattice of a live structure -/
theorem ctor_copies_fresh {w : World} {h : Nat} {lat : Option LatSrc} {r : Nat}
    (hok : (w.stepFull (.ctor (some (.stru h)) lat)).2 = .ok (.stru r)) :
    r = w.strus.length ∧ (∀ a ∈ (w.stepFull (.ctor (some (.stru h)) lat)).1.atomsOf r, w.nextA ≤ a) ∧
    (w.stepFull (.ctor (some (.stru h)) lat)).1.latOf r = ctorLat w lat := by
  rcases h1 : w.view.atoms h with e | old
  · simp [World.stepFull, planG, View.iter, h1] at hok
  · rcases h2 : checkLat w.view lat with e | L
    · simp [World.stepFull, planG, View.iter, h1, h2] at hok
    · have hp : planG w.view (.ctor (some (.stru h)) lat) =
          .ok (.plan { tgt := .new L, pre := none, inc := old, flags := allTrue old, edit := .replace }) := by
        simp only [planG, View.iter, h1, h2, copyFlags, if_true]
      have hL : World.latSrcOf w L = ctorLat w lat := by
        cases lat with
        | none => simp only [checkLat, Except.ok.injEq] at h2; subst h2; rfl
        | some l =>
          cases l with
          | fresh => simp only [checkLat, Except.ok.injEq] at h2; subst h2; rfl
          | ofStru h' =>
            simp only [checkLat] at h2
            rcases h3 : w.view.atoms h' with e | l
            · simp [h3] at h2
            · simp only [h3, Except.ok.injEq] at h2; subst h2; rfl
      simp only [World.stepFull, hp, World.exec] at hok ⊢
      obtain ⟨g1, g2, g3⟩ := newCopy_fresh w L old
      rw [g1] at hok
      cases hok
      exact ⟨rfl, g2, by rw [g3, hL]⟩

/-- operations documented to insert copies of the given atoms into structure `h` -/
inductive CopiesInto : Op → Nat → Prop
  | appendD (h : Nat) (a : ARef) : CopiesInto (.append h a .dflt) h
  | appendY (h : Nat) (a : ARef) : CopiesInto (.append h a .yes) h
  | insertD (h : Nat) (i : Int) (a : ARef) : CopiesInto (.insert h i a .dflt) h
  | insertY (h : Nat) (i : Int) (a : ARef) : CopiesInto (.insert h i a .yes) h
  | extendY (h : Nat) (it : Iter) : CopiesInto (.extend h it .yes) h
  | extendS (h h' : Nat) : CopiesInto (.extend h (.stru h') .dflt) h
  | iadd (h : Nat) (it : Iter) : CopiesInto (.iadd h it) h
  | imul (h : Nat) (n : Int) : CopiesInto (.imul h n) h
  | setitem (h : Nat) (i : Int) (a : ARef) : CopiesInto (.setitem h i a true) h

/-- **copies_disjoint** for in-place insertions: whatever the target holds afterwards was a member
before or is a freshly allocated copy — the caller's atom objects are never inserted -/
theorem inserted_copies_fresh {w : World} (hw : Wf w) {op : Op} {h : Nat} (hc : CopiesInto op h) :
    ∀ a ∈ (w.stepFull op).1.atomsOf h, a ∈ w.atomsOf h ∨ w.nextA ≤ a := by
  have key : (∃ p : Plan Nat, planG w.view op = .ok (.plan p) ∧ p.tgt = .old h ∧ p.flags = allTrue p.inc) →
      ∀ a ∈ (w.stepFull op).1.atomsOf h, a ∈ w.atomsOf h ∨ w.nextA ≤ a := by
    intro ⟨p, hp, ht, hf⟩
    simp only [World.stepFull, hp, World.exec]
    exact World.execPlan_old_fresh hw p h ht hf
  have err : ∀ e, planG w.view op = .error e → ∀ a ∈ (w.stepFull op).1.atomsOf h, a ∈ w.atomsOf h ∨ w.nextA ≤ a := by
    intro e he a ha
    simp only [World.stepFull, he] at ha
    exact Or.inl ha
  cases hc with
  | appendD h a | appendY h a =>
    rcases h1 : w.view.atoms h with e | old
    · exact err e (by simp only [planG, h1])
    · rcases h2 : w.view.aref a with e | x
      · exact err e (by simp only [planG, h1, h2])
      · exact key (by simp only [planG, h1, h2]; exact ⟨_, rfl, rfl, by first | rfl | simp [allTrue, copyFlags]⟩)
  | insertD h i a | insertY h i a =>
    rcases h1 : w.view.atoms h with e | old
    · exact err e (by simp only [planG, h1])
    · rcases h2 : w.view.aref a with e | x
      · exact err e (by simp only [planG, h1, h2])
      · exact key (by simp only [planG, h1, h2]; exact ⟨_, rfl, rfl, by first | rfl | simp [allTrue, copyFlags]⟩)
  | setitem h i a =>
    rcases h1 : w.view.atoms h with e | old
    · exact err e (by simp only [planG, h1])
    · rcases h2 : w.view.aref a with e | x
      · exact err e (by simp only [planG, h1, h2])
      · exact key (by simp only [planG, h1, h2]; exact ⟨_, rfl, rfl, by first | rfl | simp [allTrue, copyFlags]⟩)
  | extendY h it =>
    rcases h1 : w.view.atoms h with e | old
    · exact err e (by simp only [planG, h1])
    · rcases h2 : w.view.iter it with e | ⟨xs, b⟩
      · exact err e (by simp only [planG, h1, h2])
      · exact key (by simp only [planG, h1, h2]; exact ⟨_, rfl, rfl, by first | rfl | simp [allTrue, copyFlags]⟩)
  | extendS h h' =>
    rcases h1 : w.view.atoms h with e | old
    · exact err e (by simp only [planG, h1])
    · rcases h2 : w.view.atoms h' with e | xs
      · exact err e (by simp only [planG, h1, View.iter, h2])
      · exact key (by simp only [planG, h1, View.iter, h2]; exact ⟨_, rfl, rfl, by first | rfl | simp [allTrue, copyFlags]⟩)
  | iadd h it =>
    rcases h1 : w.view.atoms h with e | old
    · exact err e (by simp only [planG, h1])
    · rcases h2 : w.view.iter it with e | ⟨xs, b⟩
      · exact err e (by simp only [planG, h1, h2])
      · exact key (by simp only [planG, h1, h2]; exact ⟨_, rfl, rfl, by first | rfl | simp [allTrue, copyFlags]⟩)
  | imul h n =>
    rcases h1 : w.view.atoms h with e | old
    · exact err e (by simp only [planG, h1])
    · by_cases hn : n ≤ 0
      · exact key (by simp only [planG, h1, hn, if_true]; exact ⟨_, rfl, rfl, by first | rfl | simp [allTrue, copyFlags]⟩)
      · exact key (by simp only [planG, h1, hn, if_false]; exact ⟨_, rfl, rfl, by first | rfl | simp [allTrue, copyFlags]⟩)

/-- **selections_share**: indexing by slice, index array, boolean mask, tuple or list returns the
next handle; the new structure refers to the *same* lattice as its source and holds atom objects of
the source only -/
theorem selections_share {w : World} {h : Nat} {ix : Index} {r : Nat}
    (hok : (w.stepFull (.getitem h ix)).2 = .ok (.stru r)) :
    r = w.strus.length ∧ (w.stepFull (.getitem h ix)).1.latOf r = w.latOf h ∧
    ∃ idxs, (w.stepFull (.getitem h ix)).1.atomsOf r = pick (w.atomsOf h) idxs := by
  rcases h1 : w.view.atoms h with e | old
  · simp [World.stepFull, planG, h1] at hok
  · have hat := (World.view_atoms_ok h1).1
    have key : ∀ xs, planIndex w.view h old ix = .ok (selPlan h xs) →
        r = w.strus.length ∧ (w.stepFull (.getitem h ix)).1.latOf r = w.latOf h ∧
        (w.stepFull (.getitem h ix)).1.atomsOf r = xs := by
      intro xs hp
      have hp' : planG w.view (.getitem h ix) = .ok (selPlan h xs) := by simp only [planG, h1, hp]
      simp only [World.stepFull, hp', selPlan, World.exec] at hok ⊢
      obtain ⟨g1, g2, g3⟩ := World.execPlan_new_sel w
        { tgt := .new (.ofStru h), pre := none, inc := xs, flags := xs.map (fun _ => false), edit := .replace } h rfl rfl rfl
      rw [g1] at hok
      cases hok
      exact ⟨rfl, g3, g2⟩
    have atomRes : ∀ a, planIndex w.view h old ix = .ok (.retAtom a h) → False := by
      intro a hp
      have hp' : planG w.view (.getitem h ix) = .ok (.retAtom a h) := by simp only [planG, h1, hp]
      simp [World.stepFull, hp', World.exec] at hok
    have errRes : ∀ e, planIndex w.view h old ix = .error e → False := by
      intro e hp
      have hp' : planG w.view (.getitem h ix) = .error e := by simp only [planG, h1, hp]
      simp [World.stepFull, hp'] at hok
    rw [hat]
    cases ix with
    | int i =>
      simp only [planIndex] at atomRes errRes
      rcases hn : normIdx old.length i with _ | k
      · exact (errRes .index (by simp [hn])).elim
      · rcases hk : old[k]? with _ | a
        · exact (errRes .index (by simp [hn, hk])).elim
        · exact (atomRes a (by simp [hn, hk])).elim
    | label p =>
      simp only [planIndex] at atomRes errRes
      rcases hn : findLabel w.view.lab old p with e | k
      · exact (errRes e (by simp [hn])).elim
      · rcases hk : old[k]? with _ | a
        · exact (errRes .index (by simp [hn, hk])).elim
        · exact (atomRes a (by simp [hn, hk])).elim
    | slice sl =>
      rcases hn : sliceAdjust old.length sl with e | a
      · exact (errRes e (by simp [planIndex, hn])).elim
      · obtain ⟨k1, k2, k3⟩ := key (pick old (sliceIdx a)) (by simp only [planIndex, hn])
        exact ⟨k1, k2, _, k3⟩
    | arr is =>
      rcases hn : mapE (normIdxE old.length) is with e | idxs
      · exact (errRes e (by simp [planIndex, hn])).elim
      · obtain ⟨k1, k2, k3⟩ := key (pick old idxs) (by simp only [planIndex, hn])
        exact ⟨k1, k2, _, k3⟩
    | mask bs =>
      by_cases hb : bs.length ≠ old.length ∧ bs ≠ []
      · exact (errRes .index (by simp [planIndex, hb])).elim
      · obtain ⟨k1, k2, k3⟩ := key (pick old (trueIdx bs 0)) (by simp only [planIndex, hb, if_false])
        exact ⟨k1, k2, _, k3⟩
    | tuple ks =>
      by_cases hk : ks = []
      · exact (errRes .value (by simp [planIndex, hk])).elim
      · rcases hn : mapE (resolveKey w.view.lab old) ks with e | is
        · exact (errRes e (by simp [planIndex, hk, hn])).elim
        · rcases hm : mapE (normIdxE old.length) is with e | idxs
          · exact (errRes e (by simp [planIndex, hk, hn, hm])).elim
          · obtain ⟨k1, k2, k3⟩ := key (pick old idxs) (by simp only [planIndex, hk, if_false, hn, hm])
            exact ⟨k1, k2, _, k3⟩
    | keys ks =>
      rcases hn : mapE (resolveKey w.view.lab old) ks with e | is
      · exact (errRes e (by simp [planIndex, hn])).elim
      · rcases hm : mapE (normIdxE old.length) is with e | idxs
        · exact (errRes e (by simp [planIndex, hn, hm])).elim
        · obtain ⟨k1, k2, k3⟩ := key (pick old idxs) (by simp only [planIndex, hn, hm])
          exact ⟨k1, k2, _, k3⟩

/-- exact form for slices: the selection is the CPython slice of the member list -/
theorem selections_share_slice {w : World} {h : Nat} {sl : Slice} {old : List Nat} {a : Int × Int × Int}
    (h1 : w.view.atoms h = .ok old) (ha : sliceAdjust old.length sl = .ok a) :
    (w.stepFull (.getitem h (.slice sl))).2 = .ok (.stru w.strus.length) ∧
    (w.stepFull (.getitem h (.slice sl))).1.atomsOf w.strus.length = pick old (sliceIdx a) ∧
    (w.stepFull (.getitem h (.slice sl))).1.latOf w.strus.length = w.latOf h := by
  have hp : planG w.view (.getitem h (.slice sl)) = .ok (selPlan h (pick old (sliceIdx a))) := by
    simp only [planG, h1, planIndex, ha]
  simp only [World.stepFull, hp, selPlan, World.exec]
  exact World.execPlan_new_sel w _ h rfl rfl rfl


/-! ## 4. no atom object in two slots -/

/-- **no_alias** (proved part): if no live structure holds an atom twice, this still holds after any
history whose steps satisfy `World.DupFree` — on the pre-state of each step: the atoms taken over
*without copying* (explicit `copy=False`, the members a slice assignment keeps, the members an
index array / tuple selects) are pairwise different and are not members that stay in the target.
Covered edits: everything except assignment to an extended slice (step ≠ 1) and pickling with
protocol 0/1 — superseded by `no_alias` below, which has no such restriction. -/
theorem no_alias_partial {w : World} (hw : Wf w) (hn : w.NodupInv) (ops : List Op) (hd : World.DupFreeHist w ops) :
    (w.run ops).NodupInv :=
  World.run_nodup hw hn ops hd

/-! ### 4a. the statement recorded before round 5 is false (its side condition was too weak) -/

/-- the side condition as it was first written: `remain` describes the members that stay in place
for a *contiguous* slice assignment only; for an extended slice `s[i:j:k] = …` it names
`old[:start] ++ old[max stop start:]`, which says nothing about the members *between* the addressed
positions -/
def DupRequestFree (w : World) (op : Op) : Prop :=
  match planG w.view op with
  | .ok (.plan p) =>
    (World.keptOf p.inc p.flags).Nodup ∧ (∀ y ∈ World.keptOf p.inc p.flags, y ∉ remain p.edit (World.oldOf w p))
  | .ok (.copyShape _ xs) => xs.Nodup
  | _ => True

def DupRequestFreeHist : World → List Op → Prop
  | _, [] => True
  | w, op :: ops => DupRequestFree w op ∧ DupRequestFreeHist (w.stepFull op).1 ops

instance (w : World) (op : Op) : Decidable (DupRequestFree w op) := by
  unfold DupRequestFree
  split <;> infer_instance

instance decDupRequestFreeHist : (w : World) → (ops : List Op) → Decidable (DupRequestFreeHist w ops)
  | _, [] => isTrue trivial
  | w, op :: ops => @instDecidableAnd _ _ _ (decDupRequestFreeHist (w.stepFull op).1 ops)

/-- the statement with that side condition (kept verbatim; it was `no_alias_statement` up to round 4) -/
def no_alias_statement_plainRemain : Prop :=
  ∀ (w : World) (ops : List Op), Wf w → w.NodupInv → DupRequestFreeHist w ops → (w.run ops).NodupInv

/-- `s = Structure(2 atoms); s.__setitem__(slice(None, None, 2), [s[1]], copy=False)`: the caller hands
over, uncopied, a member that stays in the structure — slot 0 and slot 1 then hold the same atom -/
def witnessExtSliceNoCopy : List Op :=
  [.mkStru, .addNew 0 1, .addNew 0 2, .setslice 0 ⟨none, none, some 2⟩ (.list [.mem 0 1]) false]

/-- the old side condition lets this history through … -/
theorem witnessExtSliceNoCopy_passes_old_condition : DupRequestFreeHist World.empty witnessExtSliceNoCopy := by decide

/-- … and the structure ends up as `[a1, a1]` (payloads `[2, 2]`, one atom object) -/
theorem witnessExtSliceNoCopy_result :
    (World.empty.run witnessExtSliceNoCopy).atomsOf 0 = [1, 1] ∧
    (World.empty.run witnessExtSliceNoCopy).abs.lists = [some [2, 2]] := by decide

theorem empty_nodupInv : World.empty.NodupInv := by
  intro s hs; simp [World.empty] at hs

/-- **the statement with the contiguous-slice side condition is false** of the model (and of the code:
the history is replayed on the implementation by `harness/c08.py`, which shows the same `[a1, a1]`).
This is not a defect of the code — the caller passed `copy=False` together with an atom that remains a
member, which the property text exempts — but a side condition that failed to say so. -/
theorem no_alias_statement_plainRemain_false : ¬ no_alias_statement_plainRemain := by
  intro h
  have h1 := h World.empty witnessExtSliceNoCopy World.empty_wf empty_nodupInv witnessExtSliceNoCopy_passes_old_condition
  have h2 := h1 ⟨[1, 1], 1, true⟩ (by decide) rfl
  revert h2
  decide

/-! ### 4b. the full theorem -/

/-- side condition of one step (`World.DupFreeX`, Boolean, on the pre-state): the atoms the operation
takes over **without copying** (explicit `copy=False`; the members a slice assignment keeps; what an
index selection selects; `extend` with the default flag keeps only atoms met for the first time) are
pairwise different, and none of them is a member that stays in the target — for an extended slice
`s[i:j:k] = …` these are exactly the members at the positions the slice does not address
(`remainX`).  No restriction on the kind of operation; pickling (any protocol) needs no condition. -/
abbrev DupFreeX := World.DupFreeX

/-- **the full statement**: every operation of `Op`, extended-slice assignment and pickle protocols
0/1 included -/
def no_alias_statement : Prop :=
  ∀ (w : World) (ops : List Op), Wf w → w.NodupInv → World.DupFreeHistX w ops → (w.run ops).NodupInv

/-- **no_alias**: if no live structure holds an atom object in two slots, this still holds after any
history in which the caller never hands over a duplicate uncopied -/
theorem no_alias : no_alias_statement :=
  fun _ ops hw hn hd => World.run_nodupX hw hn ops hd

theorem dupFreeHistX_take {w : World} {ops : List Op} (hd : World.DupFreeHistX w ops) (k : Nat) :
    World.DupFreeHistX w (ops.take k) := by
  induction ops generalizing w k with
  | nil => simpa using hd
  | cons op ops ih =>
    cases k with
    | zero => trivial
    | succ k => exact ⟨hd.1, ih hd.2 k⟩

/-- … after *every* step of the history -/
theorem no_alias_every_step {w : World} (hw : Wf w) (hn : w.NodupInv) (ops : List Op) (hd : World.DupFreeHistX w ops)
    (k : Nat) : (w.run (ops.take k)).NodupInv :=
  no_alias w _ hw hn (dupFreeHistX_take hd k)

/-- the restricted side condition of `no_alias_partial` implies the full one: `no_alias` subsumes it -/
theorem dupFreeHistX_of_dupFreeHist {w : World} {ops : List Op} (hd : World.DupFreeHist w ops) :
    World.DupFreeHistX w ops := by
  induction ops generalizing w with
  | nil => trivial
  | cons op ops ih => exact ⟨World.dupFreeX_of_dupFree hd.1, ih hd.2⟩

/-- the corrected side condition does reject the witness of 4a -/
theorem witnessExtSliceNoCopy_rejected : ¬ World.DupFreeHistX World.empty witnessExtSliceNoCopy := by decide

/-- one step, pickling with protocol 0 or 1 (the form `no_alias_partial` excludes): no hypothesis beyond
the invariant itself -/
theorem no_alias_pickle01 {w : World} (hw : Wf w) (hn : w.NodupInv) (h proto : Nat) :
    (w.stepFull (.pickle h proto)).1.NodupInv := by
  apply World.stepFull_nodupX hw hn
  simp only [World.DupFreeX]
  split
  · rename_i act hact
    simp only [planG] at hact
    split at hact
    · cases hact
    · split at hact
      · cases hact
        exact ⟨by simp only [World.keptOf_allTrue]; exact List.nodup_nil,
               by simp only [World.keptOf_allTrue]; intro y hy; simp at hy⟩
      · cases hact; trivial
  · trivial

/-! ### 4c. which operations need the side condition at all -/

/-- slice assignment (any step) with the default `copy=True`: the side condition reduces to "the value does not
list a member *of the assigned slice* twice" — the second exemption of the property text -/
theorem dupFreeX_setslice_copy {w : World} (hn : w.NodupInv) {h : Nat} {sl : Slice} {it : Iter}
    {old xs : List Nat} {b : Bool} {a : Int × Int × Int}
    (h1 : w.view.atoms h = .ok old) (h2 : w.view.iter it = .ok (xs, b)) (h3 : sliceAdjust old.length sl = .ok a)
    (hk : (xs.filter (fun x => decide (x ∈ pick old (sliceIdx a)))).Nodup) :
    World.DupFreeX w (.setslice h sl it true) := by
  have hp : planG w.view (.setslice h sl it true) =
      .ok (.plan { tgt := .old h, pre := none, inc := xs,
                   flags := xs.map (fun x => decide (x ∉ pick old (sliceIdx a))), edit := .setSlice sl }) := by
    simp only [planG, h1, h2, h3, if_true]
  have hold : ∀ fl : List Bool, World.oldOf w { tgt := .old h, pre := none, inc := xs, flags := fl, edit := Edit.setSlice sl } = old := by
    intro fl; simp only [World.oldOf]; exact (World.view_atoms_ok h1).1
  have holdn : old.Nodup := by rw [← (World.view_atoms_ok h1).1]; exact World.atomsOf_nodup hn h
  simp only [World.DupFreeX, hp, World.DupFreeActX, hold]
  have hkept : World.keptOf xs (xs.map (fun x => decide (x ∉ pick old (sliceIdx a)))) =
      xs.filter (fun x => decide (x ∈ pick old (sliceIdx a))) := by
    clear hk h2 hp hold
    induction xs with
    | nil => rfl
    | cons x r ih =>
      by_cases hx : x ∈ pick old (sliceIdx a)
      · simp only [List.map_cons, hx, not_true_eq_false, decide_false, World.keptOf, List.filter_cons, decide_true, if_true]
        rw [ih]
      · simp only [List.map_cons, hx, not_false_eq_true, decide_true, World.keptOf, List.filter_cons, decide_false,
          Bool.false_eq_true, if_false]
        exact ih
  rw [hkept]
  refine ⟨hk, ?_⟩
  intro y hy
  simp only [List.mem_filter, decide_eq_true_eq] at hy
  exact pick_sliceIdx_not_remain old sl a h3 holdn y hy.2

/-- the operations for which the side condition of `no_alias` holds in every state that satisfies the invariant:
everything except an explicit `copy=False`, slice assignment (see `dupFreeX_setslice_copy`) and a selection by
index array / tuple / list of keys (which may name one member twice).  In particular `extend` with the default flag,
slice and mask selections, `-=`, every copying form, pickling with any protocol, the constructor. -/
def singleUseIndex : Index → Bool
  | .arr _ => false
  | .tuple _ => false
  | .keys _ => false
  | _ => true

def AutoDupFree : Op → Prop
  | .append _ _ c => c ≠ .no
  | .insert _ _ _ c => c ≠ .no
  | .extend _ _ c => c ≠ .no
  | .setitem _ _ _ c => c = true
  | .setslice _ _ _ _ => False
  | .getitem _ ix => singleUseIndex ix = true
  | _ => True

theorem dupFreeActX_of_kept_nil (w : World) (p : Plan Nat) (h : World.keptOf p.inc p.flags = []) :
    World.DupFreeActX w (.plan p) := by
  simp [World.DupFreeActX, h]

theorem dupFreeActX_replace (w : World) (p : Plan Nat) (he : p.edit = .replace) (h : (World.keptOf p.inc p.flags).Nodup) :
    World.DupFreeActX w (.plan p) := by
  refine ⟨h, ?_⟩
  intro y _ hin
  rw [he] at hin
  simp [remainX, remain] at hin

theorem copyFlags_dflt_kept (isS : Bool) (old xs : List Nat) :
    (World.keptOf xs (copyFlags .dflt isS old xs)).Nodup ∧ ∀ y ∈ World.keptOf xs (copyFlags .dflt isS old xs), y ∉ old := by
  cases isS with
  | true => simp [copyFlags, World.keptOf_allTrue]
  | false => simpa [copyFlags] using keptOf_memoFlags old xs

theorem dupFreeX_auto {w : World} (hn : w.NodupInv) {op : Op} (ha : AutoDupFree op) : World.DupFreeX w op := by
  unfold World.DupFreeX
  split
  case h_2 => trivial
  case h_1 act hact =>
  cases op with
  | mkAtom p => simp only [planG] at hact; cases hact; trivial
  | mkStru => simp only [planG] at hact; cases hact; exact dupFreeActX_of_kept_nil _ _ rfl
  | addNew h p =>
    simp only [planG] at hact
    split at hact <;> cases hact
    trivial
  | append h a c =>
    simp only [planG] at hact
    split at hact
    · cases hact
    · split at hact
      · cases hact
      · cases hact
        apply dupFreeActX_of_kept_nil
        have : decide (c ≠ .no) = true := by simpa [AutoDupFree] using ha
        simp [this, World.keptOf]
  | insert h i a c =>
    simp only [planG] at hact
    split at hact
    · cases hact
    · split at hact
      · cases hact
      · cases hact
        apply dupFreeActX_of_kept_nil
        have : decide (c ≠ .no) = true := by simpa [AutoDupFree] using ha
        simp [this, World.keptOf]
  | extend h it c =>
    simp only [planG] at hact
    split at hact
    · cases hact
    · rename_i old hold
      split at hact
      · cases hact
      · rename_i xs isS hit
        cases hact
        have hat := (World.view_atoms_ok hold).1
        cases c with
        | no => exact (ha rfl).elim
        | yes => exact dupFreeActX_of_kept_nil _ _ (by simp [copyFlags, World.keptOf_allTrue])
        | dflt =>
          obtain ⟨k1, k2⟩ := copyFlags_dflt_kept isS old xs
          refine ⟨k1, ?_⟩
          intro y hy hin
          simp only [remainX, remain, World.oldOf, hat] at hin
          exact k2 y hy hin
  | getitem h ix =>
    simp only [planG] at hact
    split at hact
    · cases hact
    · rename_i old hold
      have holdn : old.Nodup := by rw [← (World.view_atoms_ok hold).1]; exact World.atomsOf_nodup hn h
      cases ix with
      | arr is => exact Bool.noConfusion (show false = true from ha)
      | tuple ks => exact Bool.noConfusion (show false = true from ha)
      | keys ks => exact Bool.noConfusion (show false = true from ha)
      | int i =>
        simp only [planIndex] at hact
        (repeat' split at hact) <;> first | (cases hact; trivial) | cases hact
      | label p =>
        simp only [planIndex] at hact
        (repeat' split at hact) <;> first | (cases hact; trivial) | cases hact
      | slice sl =>
        simp only [planIndex] at hact
        split at hact
        · cases hact
        · rename_i a hadj
          cases hact
          apply dupFreeActX_replace _ _ rfl
          show (World.keptOf _ (allFalse _)).Nodup
          rw [World.keptOf_allFalse]
          exact pick_nodup old _ holdn (sliceIdx_nodup hadj)
      | mask bs =>
        simp only [planIndex] at hact
        split at hact
        · cases hact
        · cases hact
          apply dupFreeActX_replace _ _ rfl
          show (World.keptOf _ (allFalse _)).Nodup
          rw [World.keptOf_allFalse]
          exact pick_nodup old _ holdn (trueIdx_nodup bs 0)
  | setitem h i a c =>
    simp only [planG] at hact
    split at hact
    · cases hact
    · split at hact
      · cases hact
      · cases hact
        apply dupFreeActX_of_kept_nil
        have : c = true := ha
        simp [this, World.keptOf]
  | setslice h sl it c => exact ha.elim
  | delitem h i =>
    simp only [planG] at hact
    split at hact <;> cases hact
    exact dupFreeActX_of_kept_nil _ _ rfl
  | delslice h sl =>
    simp only [planG] at hact
    split at hact <;> cases hact
    exact dupFreeActX_of_kept_nil _ _ rfl
  | add h it =>
    simp only [planG] at hact
    split at hact
    · cases hact
    · split at hact <;> cases hact
      exact dupFreeActX_of_kept_nil _ _ (World.keptOf_allTrue _)
  | iadd h it =>
    simp only [planG] at hact
    split at hact
    · cases hact
    · split at hact <;> cases hact
      exact dupFreeActX_of_kept_nil _ _ (World.keptOf_allTrue _)
  | sub h it =>
    simp only [planG] at hact
    split at hact
    · cases hact
    · split at hact <;> cases hact
      exact dupFreeActX_of_kept_nil _ _ (World.keptOf_allTrue _)
  | isub h it =>
    simp only [planG] at hact
    split at hact
    · cases hact
    · rename_i old hold
      have holdn : old.Nodup := by rw [← (World.view_atoms_ok hold).1]; exact World.atomsOf_nodup hn h
      split at hact <;> cases hact
      apply dupFreeActX_replace _ _ rfl
      show (World.keptOf _ (allFalse _)).Nodup
      rw [World.keptOf_allFalse]
      exact (List.filter_sublist).nodup holdn
  | mul h n =>
    simp only [planG] at hact
    split at hact <;> cases hact
    exact dupFreeActX_of_kept_nil _ _ (World.keptOf_allTrue _)
  | imul h n =>
    simp only [planG] at hact
    split at hact
    · cases hact
    · split at hact <;> cases hact
      · exact dupFreeActX_of_kept_nil _ _ rfl
      · exact dupFreeActX_of_kept_nil _ _ (World.keptOf_allTrue _)
  | copy h =>
    simp only [planG] at hact
    split at hact <;> cases hact
    exact dupFreeActX_of_kept_nil _ _ (World.keptOf_allTrue _)
  | pickle h proto =>
    simp only [planG] at hact
    split at hact
    · cases hact
    · split at hact <;> cases hact
      · exact dupFreeActX_of_kept_nil _ _ (World.keptOf_allTrue _)
      · trivial
  | deepcopy h =>
    simp only [planG] at hact
    split at hact <;> cases hact
    exact dupFreeActX_of_kept_nil _ _ (World.keptOf_allTrue _)
  | setLat h src =>
    simp only [planG] at hact
    (repeat' split at hact) <;> first | (cases hact; trivial) | cases hact
  | pop h i =>
    simp only [planG] at hact
    split at hact <;> cases hact
    exact dupFreeActX_of_kept_nil _ _ rfl
  | remove h a =>
    simp only [planG] at hact
    (repeat' split at hact) <;> first | (cases hact; exact dupFreeActX_of_kept_nil _ _ rfl) | cases hact
  | reverse h =>
    simp only [planG] at hact
    split at hact <;> cases hact
    exact dupFreeActX_of_kept_nil _ _ rfl
  | sort h =>
    simp only [planG] at hact
    split at hact <;> cases hact
    exact dupFreeActX_of_kept_nil _ _ rfl
  | clear h =>
    simp only [planG] at hact
    split at hact <;> cases hact
    exact dupFreeActX_of_kept_nil _ _ rfl
  | drop h =>
    simp only [planG] at hact
    split at hact <;> cases hact
    trivial
  | ctor src lat =>
    simp only [planG] at hact
    split at hact
    · split at hact <;> cases hact
      exact dupFreeActX_of_kept_nil _ _ rfl
    · split at hact
      · cases hact
      · rename_i xs isS hit
        split at hact <;> cases hact
        apply dupFreeActX_replace _ _ rfl
        exact (copyFlags_dflt_kept isS [] xs).1

/-- the side condition restricted to the steps that need it -/
def DupFreeHistExplicit : World → List Op → Prop
  | _, [] => True
  | w, op :: ops => (AutoDupFree op ∨ World.DupFreeX w op) ∧ DupFreeHistExplicit (w.stepFull op).1 ops

/-- **no_alias**, explicit form: only an explicit `copy=False`, a slice assignment and a selection by index array /
tuple / list carry a hypothesis (and for a slice assignment with the default flag it is
`dupFreeX_setslice_copy`: no member of the slice listed twice) -/
theorem no_alias_explicit {w : World} (hw : Wf w) (hn : w.NodupInv) (ops : List Op) (hd : DupFreeHistExplicit w ops) :
    (w.run ops).NodupInv := by
  induction ops generalizing w with
  | nil => exact hn
  | cons op ops ih =>
    have h1 : World.DupFreeX w op := by
      rcases hd.1 with h | h
      · exact dupFreeX_auto hn h
      · exact h
    exact ih (World.stepFull_wf hw op) (World.stepFull_nodupX hw hn op h1) hd.2

/-- histories without `copy=False`, slice assignment and index-array selections never put an atom into two slots -/
instance (op : Op) : Decidable (AutoDupFree op) := by
  cases op <;> unfold AutoDupFree <;> infer_instance

instance decDupFreeHistExplicit : (w : World) → (ops : List Op) → Decidable (DupFreeHistExplicit w ops)
  | _, [] => isTrue trivial
  | w, op :: ops => @instDecidableAnd _ _ _ (decDupFreeHistExplicit (w.stepFull op).1 ops)

theorem dupFreeHistExplicit_of_auto (w : World) (ops : List Op) (h : ∀ op ∈ ops, AutoDupFree op) :
    DupFreeHistExplicit w ops := by
  induction ops generalizing w with
  | nil => trivial
  | cons op ops ih => exact ⟨Or.inl (h op (by simp)), ih _ (fun o ho => h o (List.mem_cons_of_mem _ ho))⟩

theorem no_alias_auto {w : World} (hw : Wf w) (hn : w.NodupInv) (ops : List Op) (h : ∀ op ∈ ops, AutoDupFree op) :
    (w.run ops).NodupInv :=
  no_alias_explicit hw hn ops (dupFreeHistExplicit_of_auto w ops h)

/-- a duplicate that the caller asked for does end up in two slots: `s.append(s[0], copy=False)` -/
theorem alias_when_asked :
    ¬ (World.empty.run [.mkStru, .addNew 0 1, .append 0 (.mem 0 0) .no]).NodupInv := by
  intro h
  have := h ⟨[0, 0], 1, true⟩ (by decide) rfl
  revert this
  decide

/-! ## 5. the enumeration of copies and selections is complete

`IsCopyOp`, `CopiesInto` and `selections_share` list constructors by hand.  `docKind` classifies
**every** constructor of `Op` by what the docstrings of `structure.py` say about the atoms of the
result; the `…_all` theorems quantify over a whole class, so nothing documented as a copy or as a
selection can be missing from an enumeration (a new constructor of `Op` does not compile until it is
classified). -/

inductive DocKind
  /-- returns a new Structure documented as a copy: `copy()`/`Structure(s)`, `+`, `-`, `*`, pickling, `deepcopy` -/
  | copyNew
  /-- puts *copies* of the given atoms into the target: `append`/`insert` (default or `copy=True`),
  `extend(copy=True)`, `extend(<Structure>)`, `+=`, `*=`, `s[i] = a`, `s[i:j:k] = …` (default flag) -/
  | copyInto
  /-- indexing: a selection that shares atoms and lattice, or the member atom itself -/
  | selection
  /-- puts the given atom objects themselves into the target: `copy=False`, `extend` with the
  default flag and an iterable that is not a Structure, `Structure(<iterable>)` -/
  | shareInto
  /-- only rearranges / removes members: `del`, `pop`, `remove`, `reverse`, `sort`, `clear`, `-=` -/
  | rearrange
  /-- creates a free atom / an empty structure / a new member atom, assigns a lattice, forgets a structure -/
  | other
  deriving DecidableEq, Repr

def docKind : Op → DocKind
  | .mkAtom _ => .other
  | .mkStru => .other
  | .addNew _ _ => .other
  | .append _ _ c => if c = .no then .shareInto else .copyInto
  | .insert _ _ _ c => if c = .no then .shareInto else .copyInto
  | .extend _ it c => match c, it with
    | .yes, _ => .copyInto
    | .no, _ => .shareInto
    | .dflt, .stru _ => .copyInto
    | .dflt, _ => .shareInto
  | .getitem _ _ => .selection
  | .setitem _ _ _ c => if c then .copyInto else .shareInto
  | .setslice _ _ _ c => if c then .copyInto else .shareInto
  | .delitem _ _ => .rearrange
  | .delslice _ _ => .rearrange
  | .add _ _ => .copyNew
  | .iadd _ _ => .copyInto
  | .sub _ _ => .copyNew
  | .isub _ _ => .rearrange
  | .mul _ _ => .copyNew
  | .imul _ _ => .copyInto
  | .copy _ => .copyNew
  | .pickle _ _ => .copyNew
  | .deepcopy _ => .copyNew
  | .setLat _ _ => .other
  | .pop _ _ => .rearrange
  | .remove _ _ => .rearrange
  | .reverse _ => .rearrange
  | .sort _ => .rearrange
  | .clear _ => .rearrange
  | .drop _ => .other
  | .ctor src _ => match src with
    | none => .other
    | some (.stru _) => .copyNew
    | some _ => .shareInto

/-- the structure an in-place operation edits -/
def opTarget : Op → Option Nat
  | .append h _ _ | .insert h _ _ _ | .extend h _ _ | .setitem h _ _ _ | .setslice h _ _ _
  | .iadd h _ | .imul h _ | .isub h _ | .delitem h _ | .delslice h _ | .pop h _ | .remove h _
  | .reverse h | .sort h | .clear h | .addNew h _ => some h
  | _ => none

/-- the hand-written enumeration of copy operations is complete: together with copy construction it is
exactly the class `copyNew` -/
theorem docKind_copyNew_iff (op : Op) :
    docKind op = .copyNew ↔ IsCopyOp op ∨ ∃ h lat, op = .ctor (some (.stru h)) lat := by
  constructor
  · intro h
    cases op <;> simp only [docKind] at h
    case add hh it => exact Or.inl (.add _ _)
    case sub hh it => exact Or.inl (.sub _ _)
    case mul hh n => exact Or.inl (.mul _ _)
    case copy hh => exact Or.inl (.copy _)
    case pickle hh k => exact Or.inl (.pickle _ _)
    case deepcopy hh => exact Or.inl (.deepcopy _)
    case append hh a c => cases c <;> simp at h
    case insert hh i a c => cases c <;> simp at h
    case extend hh it c => cases c <;> cases it <;> simp at h
    case setitem hh i a c => cases c <;> simp at h
    case setslice hh sl it c => cases c <;> simp at h
    case ctor src lat =>
      cases src with
      | none => simp at h
      | some it => cases it <;> first | exact Or.inr ⟨_, _, rfl⟩ | simp at h
    all_goals cases h
  · rintro (h | ⟨h, lat, rfl⟩)
    · cases h <;> rfl
    · rfl

/-- the lattice object a copy operation must return: a new one, unless the constructor was given the
lattice of a live structure -/
def sharesLatticeWith : Op → Option Nat
  | .ctor _ (some (.ofStru h')) => some h'
  | _ => none

/-- **copies_disjoint_all**: *every* operation documented to return a copy (class `copyNew` — `copy`,
`+`, `-`, `*`, pickling with any protocol, `deepcopy`, and copy construction with any `lattice=` /
`title=` argument) returns the next handle; none of its atoms existed before (in any structure, live or
not, or as a free atom), and its lattice object is none of the earlier ones — except that
`Structure(s, lattice=t.lattice)` refers, as asked, to the lattice of `t` -/
theorem copies_disjoint_all {w : World} (hw : Wf w) {op : Op} (hk : docKind op = .copyNew) {r : Nat}
    (hok : (w.stepFull op).2 = .ok (.stru r)) :
    r = w.strus.length ∧
    (∀ a ∈ (w.stepFull op).1.atomsOf r, w.nextA ≤ a ∧ (∀ s ∈ w.strus, a ∉ s.atoms) ∧ a ∉ w.pool) ∧
    (match sharesLatticeWith op with
     | none => (w.stepFull op).1.latOf r = w.nextL ∧ ∀ s ∈ w.strus, s.lat ≠ (w.stepFull op).1.latOf r
     | some h' => (w.stepFull op).1.latOf r = w.latOf h') := by
  have fresh : ∀ a, w.nextA ≤ a → w.nextA ≤ a ∧ (∀ s ∈ w.strus, a ∉ s.atoms) ∧ a ∉ w.pool := by
    intro a ha
    exact ⟨ha, fun s hs hin => by have := hw.atoms s hs a hin; omega, fun hin => by have := hw.pool a hin; omega⟩
  have newlat : ∀ L, L = w.nextL → ∀ s ∈ w.strus, s.lat ≠ L := by
    intro L hL s hs heq
    have := hw.lats s hs
    omega
  rcases (docKind_copyNew_iff op).mp hk with hc | ⟨h, lat, rfl⟩
  · obtain ⟨h1, h2, h3⟩ := copies_fresh hc hok
    have hs : sharesLatticeWith op = none := by cases hc <;> rfl
    rw [hs]
    exact ⟨h1, fun a ha => fresh a (h2 a ha), h3, newlat _ h3⟩
  · obtain ⟨h1, h2, h3⟩ := ctor_copies_fresh hok
    refine ⟨h1, fun a ha => fresh a (h2 a ha), ?_⟩
    cases lat with
    | none => exact ⟨h3, newlat _ h3⟩
    | some l =>
      cases l with
      | fresh => exact ⟨h3, newlat _ h3⟩
      | ofStru h' => exact h3

/-- the hand-written enumeration `CopiesInto` plus slice assignment with the default flag is exactly
the class `copyInto` -/
theorem docKind_copyInto_iff (op : Op) :
    docKind op = .copyInto ↔
      (∃ h, CopiesInto op h) ∨ ∃ h sl it, op = .setslice h sl it true := by
  constructor
  · intro h
    cases op <;> simp only [docKind] at h
    case append hh a c => cases c <;> first | exact Or.inl ⟨_, by constructor⟩ | simp at h
    case insert hh i a c => cases c <;> first | exact Or.inl ⟨_, by constructor⟩ | simp at h
    case extend hh it c =>
      cases c
      · cases it <;> first | exact Or.inl ⟨_, by constructor⟩ | simp at h
      · exact Or.inl ⟨_, .extendY _ _⟩
      · simp at h
    case setitem hh i a c => cases c <;> first | exact Or.inl ⟨_, by constructor⟩ | simp at h
    case setslice hh sl it c => cases c <;> first | exact Or.inr ⟨_, _, _, rfl⟩ | simp at h
    case iadd hh it => exact Or.inl ⟨_, .iadd _ _⟩
    case imul hh n => exact Or.inl ⟨_, .imul _ _⟩
    case ctor src lat =>
      cases src with
      | none => simp at h
      | some it => cases it <;> simp at h
    all_goals cases h
  · rintro (⟨h, hc⟩ | ⟨h, sl, it, rfl⟩)
    · cases hc <;> rfl
    · rfl

theorem copiesInto_target {op : Op} {h : Nat} (hc : CopiesInto op h) : opTarget op = some h := by
  cases hc <;> rfl

/-- **inserted_copies_fresh_all**: after *every* operation documented to insert copies (class
`copyInto`, slice assignment with the default flag included), whatever the target holds was a member
before or is a freshly allocated copy — the caller's atom objects are never inserted.  (A slice
assignment keeps the members of the assigned slice that the value lists; they were members.) -/
theorem inserted_copies_fresh_all {w : World} (hw : Wf w) {op : Op} (hk : docKind op = .copyInto) {h : Nat}
    (ht : opTarget op = some h) :
    ∀ a ∈ (w.stepFull op).1.atomsOf h, a ∈ w.atomsOf h ∨ w.nextA ≤ a := by
  rcases (docKind_copyInto_iff op).mp hk with ⟨h', hc⟩ | ⟨h', sl, it, rfl⟩
  · have := copiesInto_target hc
    rw [ht] at this
    cases this
    exact inserted_copies_fresh hw hc
  · simp only [opTarget, Option.some.injEq] at ht
    subst ht
    intro a ha
    rcases hp : planG w.view (.setslice h' sl it true) with e | act
    · simp only [World.stepFull, hp] at ha; exact Or.inl ha
    · simp only [planG] at hp
      rcases h1 : w.view.atoms h' with e | old
      · simp [h1] at hp
      · rcases h2 : w.view.iter it with e | ⟨xs, b⟩
        · simp [h1, h2] at hp
        · rcases h3 : sliceAdjust old.length sl with e | sa
          · simp [h1, h2, h3] at hp
          · simp only [h1, h2, h3, if_true, Except.ok.injEq] at hp
            subst hp
            have hp' : planG w.view (.setslice h' sl it true) = .ok (.plan
                { tgt := .old h', pre := none, inc := xs,
                  flags := xs.map (fun x => decide (x ∉ pick old (sliceIdx sa))), edit := .setSlice sl }) := by
              simp only [planG, h1, h2, h3, if_true]
            simp only [World.stepFull, hp', World.exec] at ha
            rcases World.execPlan_old_mem w _ h' rfl a ha with g | g | g
            · exact Or.inl g
            · -- an atom taken over uncopied is a member of the assigned slice
              have := (World.keptOf_map xs (fun x => decide (x ∉ pick old (sliceIdx sa))) a g).2
              simp only [decide_eq_false_iff_not, Decidable.not_not] at this
              rw [(World.view_atoms_ok h1).1]
              exact Or.inl (pick_subset _ _ a this)
            · exact Or.inr g

/-- the positions an index expression selects: one member (`s[i]`, `s["label"]`) or a list of
positions, in order, repetitions kept (slice, index array, mask, tuple, list of keys) -/
inductive Sel | one (k : Nat) | many (idxs : List Nat)
  deriving DecidableEq, Repr

def selPositions (lab : Nat → Nat) (old : List Nat) : Index → Except Err Sel
  | .int i => match normIdx old.length i with
    | some k => .ok (.one k)
    | none => .error .index
  | .slice sl => match sliceAdjust old.length sl with
    | .error e => .error e
    | .ok a => .ok (.many (sliceIdx a))
  | .arr is => match mapE (normIdxE old.length) is with
    | .error e => .error e
    | .ok idxs => .ok (.many idxs)
  | .mask bs => if bs.length ≠ old.length ∧ bs ≠ [] then .error .index else .ok (.many (trueIdx bs 0))
  | .label p => match findLabel lab old p with
    | .error e => .error e
    | .ok k => .ok (.one k)
  | .tuple ks =>
    if ks = [] then .error .value else
    match mapE (resolveKey lab old) ks with
    | .error e => .error e
    | .ok is => match mapE (normIdxE old.length) is with
      | .error e => .error e
      | .ok idxs => .ok (.many idxs)
  | .keys ks =>
    match mapE (resolveKey lab old) ks with
    | .error e => .error e
    | .ok is => match mapE (normIdxE old.length) is with
      | .error e => .error e
      | .ok idxs => .ok (.many idxs)

/-- the planner's treatment of an index expression, in terms of the selected positions -/
theorem planIndex_eq (v : View Nat) (h : Nat) (old : List Nat) (ix : Index) :
    planIndex v h old ix = (match selPositions v.lab old ix with
      | .error e => .error e
      | .ok (.one k) => (match old[k]? with
        | some a => .ok (.retAtom a h)
        | none => .error .index)
      | .ok (.many idxs) => .ok (selPlan h (pick old idxs))) := by
  cases ix <;> simp only [planIndex, selPositions] <;> (repeat' split) <;> simp_all

/-- every operation of class `selection` is an indexing operation -/
theorem docKind_selection_iff (op : Op) : docKind op = .selection ↔ ∃ h ix, op = .getitem h ix := by
  constructor
  · intro h
    cases op <;> simp only [docKind] at h
    case getitem hh ix => exact ⟨_, _, rfl⟩
    case append hh a c => cases c <;> simp at h
    case insert hh i a c => cases c <;> simp at h
    case extend hh it c => cases c <;> cases it <;> simp at h
    case setitem hh i a c => cases c <;> simp at h
    case setslice hh sl it c => cases c <;> simp at h
    case ctor src lat =>
      cases src with
      | none => simp at h
      | some it => cases it <;> simp at h
    all_goals cases h
  · rintro ⟨h, ix, rfl⟩; rfl

/-- **selections_share_all**: for *every* index form — integer, slice (any step), index array, boolean
mask, label, tuple, list of keys — indexing a live structure either raises without changing anything,
or returns the member atom object itself without changing anything (`s[i]`, `s["label"]`), or returns
the next handle: a structure that refers to the *same* lattice object as its source and whose member
list is **exactly** the selected members, in the order and with the repetitions of the index. -/
theorem selections_share_all (w : World) {h : Nat} {old : List Nat} (h1 : w.view.atoms h = .ok old) (ix : Index) :
    match selPositions w.pay old ix with
    | .error e => w.stepFull (.getitem h ix) = (w, .error e)
    | .ok (.one k) => (match old[k]? with
      | some a => w.stepFull (.getitem h ix) = (w, .ok (.atom a h))
      | none => w.stepFull (.getitem h ix) = (w, .error .index))
    | .ok (.many idxs) =>
      (w.stepFull (.getitem h ix)).2 = .ok (.stru w.strus.length) ∧
      (w.stepFull (.getitem h ix)).1.atomsOf w.strus.length = pick (w.atomsOf h) idxs ∧
      (w.stepFull (.getitem h ix)).1.latOf w.strus.length = w.latOf h := by
  have hp : planG w.view (.getitem h ix) = planIndex w.view h old ix := by simp only [planG, h1]
  have hat := (World.view_atoms_ok h1).1
  have hlab : w.view.lab = w.pay := rfl
  rw [← hlab]
  have hq := planIndex_eq w.view h old ix
  rcases hs : selPositions w.view.lab old ix with e | sel
  · simp only [hs] at hq
    simp only [World.stepFull, hp, hq]
  · cases sel with
    | one k =>
      simp only [hs] at hq
      rcases hk : old[k]? with _ | a
      · simp only [hk] at hq
        simp only [World.stepFull, hp, hq, hk]
      · simp only [hk] at hq
        simp only [World.stepFull, hp, hq, hk, World.exec]
    | many idxs =>
      simp only [hs] at hq
      simp only [World.stepFull, hp, hq, selPlan, World.exec]
      rw [hat]
      exact World.execPlan_new_sel w _ h rfl rfl rfl

/-- every constructor of `Op` falls into exactly one class (`docKind` is a total function); the three
classes the property text speaks about are characterised above -/
theorem docKind_total (op : Op) :
    docKind op = .copyNew ∨ docKind op = .copyInto ∨ docKind op = .selection ∨ docKind op = .shareInto ∨
    docKind op = .rearrange ∨ docKind op = .other := by
  cases hd : docKind op <;> simp

/-! ## non-vacuity: a concrete history that satisfies every hypothesis used above -/

instance decHistAgree : (w : World) → (ops : List Op) → Decidable (HistAgree w ops)
  | _, [] => isTrue trivial
  | w, op :: ops => @instDecidableAnd _ _ _ (decHistAgree (w.stepFull op).1 ops)

/-- `s = Structure(2 atoms); a = Atom(); s.append(a, copy=False); c = s.copy(); c.lattice = Lattice();
sel = s[1:]; d = s - sel; c.extend([a], copy=True); s -= sel.tolist(); s.remove(s[0]); c[::2] = c (ValueError); …` -/
def goodHistory : List Op :=
  [.mkStru, .addNew 0 1, .addNew 0 2, .mkAtom 3, .append 0 (.pool 0) .no, .copy 0, .setLat 1 .fresh,
   .getitem 0 (.slice ⟨some 1, none, none⟩), .sub 0 (.stru 2), .extend 1 (.list [.pool 0]) .yes,
   .isub 0 (.tolist 2), .remove 0 (.mem 0 0), .setslice 1 ⟨none, none, some 2⟩ (.stru 1) true,
   .getitem 1 (.tuple [.label 1, .int (-1)]), .imul 1 2, .pickle 1 2, .pickle 1 0, .setitem 1 9 (.pool 0) true,
   .setLat 3 (.ofStru 0), .mul 3 (-1), .pop 1 none, .sort 1, .delslice 1 ⟨some 0, none, some 3⟩,
   .ctor (some (.stru 1)) (some .fresh), .ctor (some (.stru 1)) (some (.ofStru 0)), .mkAtom 9, .ctor (some (.list [.pool 1])) none,
   .ctor none (some (.ofStru 1)), .append 8 (.mem 1 0) .dflt]

example : Wf World.empty ∧ World.empty.Inv := ⟨World.empty_wf, empty_inv⟩
example : HistAgree World.empty goodHistory := by decide
example : World.SafeHist World.empty goodHistory := by decide
example : (World.empty.run goodHistory).Inv := lattice_inv World.empty_wf empty_inv _ (by decide)
example : (World.empty.run goodHistory).abs = ListSpec.run World.empty.abs goodHistory :=
  refines_list World.empty_wf _ (by decide)
/-- the history really exercises the error path and the structures are not trivial -/
example : World.errTrace World.empty goodHistory =
    [none, none, none, none, none, none, none, none, none, none, none, none, some .value, none, none, none, none,
     some .index, none, none, none, none, none, none, none, none, none, none, none] := by decide
set_option maxRecDepth 4000 in
example : (World.empty.run goodHistory).abs.lists.length = 12 := by decide
/-- for `no_alias_partial`: a plain slice assignment that keeps a member, a `copy=False` append of a
free atom, an index-array selection, protocol-2 pickling -/
def goodHistory2 : List Op :=
  [.mkStru, .addNew 0 1, .addNew 0 2, .mkAtom 3, .append 0 (.pool 0) .no, .copy 0,
   .getitem 0 (.arr [2, 0]), .setslice 0 ⟨some 1, none, none⟩ (.list [.mem 0 2, .mem 1 0]) true,
   .extend 0 (.tolist 1) .dflt, .imul 1 2, .pickle 1 2, .sub 0 (.stru 2), .insert 1 (-1) (.mem 1 0) .dflt,
   .setitem 1 0 (.mem 0 0) true, .sort 0, .reverse 1, .delslice 1 ⟨none, none, some (-2)⟩]
example : World.DupFreeHist World.empty goodHistory2 := by decide
example : (World.empty.run goodHistory2).NodupInv := no_alias_partial World.empty_wf empty_nodupInv _ (by decide)
example : (World.empty.run goodHistory2).abs.lists =
    [some [1, 1, 1, 2, 3, 3], some [1, 1, 2], some [3, 1], some [1, 2, 3, 1, 2, 3], some [1, 1, 2, 3]] := by decide
example : IsCopyOp (.sub 0 (.stru 2)) ∧ CopiesInto (.imul 1 2) 1 := ⟨.sub _ _, .imul _ _⟩
/-- for `no_alias`: the two forms `no_alias_partial` excludes, successfully executed —
`s[::2] = [a, s[0]]` with `copy=False` (a free atom and a member *of the slice*), `s[-1::-2] = [s[1], b]` with
the default flag (member of the slice kept, free atom copied), pickling with protocols 0, 1 and 2, an
index-array selection, an extended-slice assignment of the wrong length (ValueError), `sort`, `-=`, an
extended-slice assignment from a generator, `extend(s.tolist())` with the default flag (members copied) -/
def goodHistory3 : List Op :=
  [.mkStru, .addNew 0 1, .addNew 0 2, .addNew 0 3, .addNew 0 4, .mkAtom 5, .mkAtom 6,
   .setslice 0 ⟨none, none, some 2⟩ (.list [.pool 0, .mem 0 0]) false,
   .setslice 0 ⟨some (-1), none, some (-2)⟩ (.list [.mem 0 1, .pool 1]) true,
   .pickle 0 0, .pickle 0 1, .pickle 1 2, .getitem 0 (.arr [3, 0]),
   .setslice 0 ⟨none, none, some 3⟩ (.stru 0) true, .sort 0, .isub 0 (.list [.mem 0 0]),
   .setslice 2 ⟨some 1, none, some 2⟩ (.gen [.mem 2 3, .mem 2 1]) true, .extend 4 (.tolist 4) .dflt]
example : World.DupFreeHistX World.empty goodHistory3 := by decide
/-- … which the restricted side condition of `no_alias_partial` rejects -/
example : ¬ World.DupFreeHist World.empty goodHistory3 := by decide
example : (World.empty.run goodHistory3).NodupInv := no_alias _ _ World.empty_wf empty_nodupInv (by decide)
example : (World.empty.run goodHistory3).abs.lists =
    [some [2, 5, 6], some [5, 6, 1, 2], some [5, 2, 1, 6], some [5, 6, 1, 2], some [2, 5, 2, 5]] ∧
    (World.empty.run goodHistory3).strus.map (·.atoms) =
    [[1, 4, 6], [7, 8, 9, 10], [11, 14, 13, 12], [15, 16, 17, 18], [1, 4, 21, 22]] := by decide
example : World.errTrace World.empty goodHistory3 =
    [none, none, none, none, none, none, none, none, none, none, none, none, none, some .value, none, none, none, none] := by
  decide
/-- `goodHistory2` (the non-vacuity witness of `no_alias_partial`) also satisfies the full side condition -/
example : World.DupFreeHistX World.empty goodHistory2 := dupFreeHistX_of_dupFreeHist (by decide)

instance decEqExcept {ε α : Type} [DecidableEq ε] [DecidableEq α] : DecidableEq (Except ε α)
  | .ok a, .ok b => if h : a = b then isTrue (by rw [h]) else isFalse (by intro e; cases e; exact h rfl)
  | .error a, .error b => if h : a = b then isTrue (by rw [h]) else isFalse (by intro e; cases e; exact h rfl)
  | .ok _, .error _ => isFalse (by intro e; cases e)
  | .error _, .ok _ => isFalse (by intro e; cases e)

/-- for the `…_all` theorems: the classes are inhabited by the forms the hand-written enumerations left out, and
the hypotheses are satisfiable on a concrete world -/
example : docKind (.ctor (some (.stru 0)) (some (.ofStru 1))) = .copyNew ∧ docKind (.pickle 0 0) = .copyNew ∧
    docKind (.setslice 0 ⟨none, none, some 2⟩ (.stru 1) true) = .copyInto ∧ docKind (.getitem 0 (.label 3)) = .selection ∧
    docKind (.extend 0 (.tolist 1) .dflt) = .shareInto ∧ docKind (.ctor (some (.gen [])) none) = .shareInto := by decide
def world3 : World := World.empty.run [.mkStru, .addNew 0 1, .addNew 0 2, .addNew 0 3, .mkStru, .addNew 1 7]
example : Wf world3 := World.run_wf World.empty_wf _
example : (world3.stepFull (.ctor (some (.stru 0)) (some (.ofStru 1)))).2 = .ok (.stru 2) ∧
    (world3.stepFull (.pickle 0 1)).2 = .ok (.stru 2) ∧ world3.view.atoms 0 = .ok [0, 1, 2] := by decide
example : (world3.stepFull (.ctor (some (.stru 0)) (some (.ofStru 1)))).1.latOf 2 = world3.latOf 1 :=
  (copies_disjoint_all (op := .ctor (some (.stru 0)) (some (.ofStru 1))) (r := 2) (World.run_wf World.empty_wf _)
    (by decide) (by decide)).2.2
example : selPositions world3.pay [0, 1, 2] (.slice ⟨none, none, some (-2)⟩) = .ok (.many [2, 0]) ∧
    selPositions world3.pay [0, 1, 2] (.label 2) = .ok (.one 1) ∧
    selPositions world3.pay [0, 1, 2] (.tuple [.label 3, .int (-3), .int 2]) = .ok (.many [2, 0, 2]) ∧
    selPositions world3.pay [0, 1, 2] (.mask [true, false]) = .error .index := by decide
example : ((world3.stepFull (.setslice 0 ⟨none, none, some 2⟩ (.list [.mem 1 0, .mem 0 0]) true)).1.atomsOf 0) = [4, 1, 0] := by
  decide

/-- for `dupFreeX_auto` / `no_alias_explicit` / `dupFreeX_setslice_copy` -/
example : AutoDupFree (.extend 0 (.tolist 1) .dflt) ∧ AutoDupFree (.pickle 0 0) ∧
    AutoDupFree (.getitem 0 (.slice ⟨none, none, some (-2)⟩)) ∧ AutoDupFree (.isub 0 (.stru 1)) ∧
    ¬ AutoDupFree (.append 0 (.pool 0) .no) ∧ ¬ AutoDupFree (.getitem 0 (.arr [0, 0])) := by decide
example : DupFreeHistExplicit World.empty goodHistory3 := by decide
example : DupFreeHistExplicit World.empty goodHistory := by decide
example : (World.empty.run goodHistory3).NodupInv := no_alias_explicit World.empty_wf empty_nodupInv _ (by decide)
theorem world3_nodup : world3.NodupInv :=
  no_alias World.empty _ World.empty_wf empty_nodupInv (by decide)
example : World.DupFreeX world3 (.setslice 0 ⟨none, none, some 2⟩ (.list [.mem 1 0, .mem 0 0]) true) :=
  dupFreeX_setslice_copy (w := world3) (h := 0) (sl := ⟨none, none, some 2⟩) (it := .list [.mem 1 0, .mem 0 0])
    (old := [0, 1, 2]) (xs := [3, 0]) (b := false) (a := (0, 3, 2)) world3_nodup
    (by decide : world3.view.atoms 0 = .ok [0, 1, 2])
    (by decide : world3.view.iter (.list [.mem 1 0, .mem 0 0]) = .ok ([3, 0], false))
    (by decide : sliceAdjust ([0, 1, 2] : List Nat).length ⟨none, none, some 2⟩ = .ok (0, 3, 2))
    (by decide)

end DS.Props.C08
