import DS.Lemmas.World
namespace DS.Props.C08
open DS.World
end DS.Props.C08
