import DS.Gen.SrcMsd
/-!
# Source tie for `Atom.msdLat` / `Atom.msdCart` (serves C09: `msd_agree`, `msd_iso`)

`DS/Gen/SrcMsd.lean` is written on every run by `translate/src_msd.py` from the current `src/diffpy/structure/atom.py`
(strict templates; anything else makes a method `…_untranslatable` and the theorem below unstatable).  The model functions
`AtomS.msdLat` / `AtomS.msdCart`, about which `DS.Props.C09` proves that the displacement along a lattice direction equals the
displacement along its Cartesian image and equals `Uisoequiv` for an isotropic atom, ARE the transliteration — for every scalar
type, hence over ℝ (theorems) and `Float` (driver).
-/
namespace DS.Props.SrcMsd
open DS
set_option linter.unusedSectionVars false

variable {α : Type} [Add α] [Mul α] [Sub α] [Neg α] [Div α] [OfNat α 0] [OfNat α 1]
  [OfNat α 2] [OfNat α 3] [OfNat α 8] [LT α] [DecidableLT α] [Elem α] [AdpConst α]

/-- `msdLat`: early return for an isotropic atom; otherwise `rhs · (U · rhs)` with `rhs = (G scaled row-wise by ar, br, cr) · vl/|vl|`,
`U` read through the property getter -/
theorem msdLat_eq (s : AtomS α) (v : Vec3 α) : Src.Msd.msdLat s v = s.msdLat v := rfl

/-- `msdCart`: early return for an isotropic atom; otherwise `vcn · (F1ᵀ · (_U · F1)) · vcn` with the STORED tensor and `F1 = normbase` -/
theorem msdCart_eq (s : AtomS α) (v : Vec3 α) : Src.Msd.msdCart s v = s.msdCart v := rfl

end DS.Props.SrcMsd
