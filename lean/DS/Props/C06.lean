import DS.Lemmas.Constraints
import DS.Props.C03

/-!
C06 — symmetry constraints on displacement tensors (`GeneratorSite.Uspace`, `_findUParameters`,
`_findeqUij`, `UFormula`, `Uisotropy`).  `rotT R U = R U Rᵀ`.

An accepted `checkUspace` certificate is a basis of the symmetric tensors invariant under the site
symmetry; the code's Frobenius projection onto an orthogonal basis returns allowed tensors
unchanged and always returns an allowed tensor; equivalent tensors do not depend on the coset
representative; the U formulas evaluate to the rotated tensor; the group average projects onto the
invariant tensors.  Deliberately *not* claimed: that the code's projection is the group average.
-/
namespace DS.Props.C06
open DS DS.Con DS.Con.QSp

/-- allowed tensors: symmetric and invariant under every operation of `H` -/
def Allowed (H : List Op) (U : Mat3 Q) : Prop := InvT H U ∧ U.isSymm

/-! ### 7. certificate ⇒ basis of the allowed tensors -/

/-- the allowed tensors are closed under linear combinations -/
theorem allowed_lincombT {H : List Op} {bs : List (Mat3 Q)} (hbs : ∀ b ∈ bs, Allowed H b)
    (cs : List Q) : Allowed H (lincombT cs bs) := by
  rw [lincombT_eq_lc]
  refine ⟨fun h hh => (rotT_isLin (rotQ h)).fix_lc (fun b hb => (hbs b hb).1 h hh) cs, ?_⟩
  rw [isSymm_iff_transpose]
  exact transpose_isLin.fix_lc (fun b hb => (isSymm_iff_transpose b).1 (hbs b hb).2) cs

/-- `Σ_h R_h U R_hᵀ = |H| U` for an invariant tensor -/
theorem reynoldsT_fix {H : List Op} {U : Mat3 Q} (hU : InvT H U) :
    tsum H U = Mat3.smul (H.length : Q) U :=
  gsum_fix (V := Mat3 Q) (fun h => rotT (rotQ h)) H U hU

theorem reynoldsT_of_inv {H : List Op} {U : Mat3 Q} (hpos : 0 < H.length) (hU : InvT H U) :
    reynoldsT H U = U := by
  have hn : (H.length : Q) ≠ 0 := by exact_mod_cast (Nat.pos_iff_ne_zero.1 hpos)
  unfold reynoldsT
  rw [reynoldsT_fix hU]
  show qsmul (1 / (H.length : Q)) (qsmul (H.length : Q) U) = U
  rw [← qmul_smul, one_div, inv_mul_cancel₀ hn, qone_smul]

theorem tsum_isLin (H : List Op) : IsLin (V := Mat3 Q) (tsum H) :=
  gsum_isLin (V := Mat3 Q) (fun h => rotT (rotQ h)) (fun h => rotT_isLin (rotQ h)) H

theorem reynoldsT_isLin (H : List Op) : IsLin (V := Mat3 Q) (reynoldsT H) :=
  (tsum_isLin H).smul (1 / (H.length : Q))

/-- what an accepted certificate contains -/
theorem checkUspace_parts {H : List Op} {bs dual : List (Mat3 Q)} (h : checkUspace H bs dual = true) :
    0 < H.length ∧ (∀ b ∈ bs, Allowed H b) ∧ DualP bs dual ∧
    ∀ e ∈ unitT, reynoldsT H e = lc (dual.map (fun d => qpair (reynoldsT H e) d)) bs := by
  simp only [checkUspace, Bool.and_eq_true, decide_eq_true_eq, List.all_eq_true] at h
  obtain ⟨⟨⟨hpos, hbs⟩, hdual⟩, hspan⟩ := h
  refine ⟨hpos, fun b hb => ⟨inInvT_iff.1 (hbs b hb).1, symmB_iff.1 (hbs b hb).2⟩,
    isDualT_iff.1 hdual, fun e he => ?_⟩
  have := hspan e he
  rw [lincombT_eq_lc] at this
  exact this

/-- **an accepted certificate is a basis of the allowed tensors**: the symmetric tensors invariant
under `H` are exactly the linear combinations of `bs` (with `bs.length` coefficients), and `bs` is
linearly independent — the number of basis tensors *is* the number of free U parameters. -/
theorem checkUspace_sound {H : List Op} {bs dual : List (Mat3 Q)}
    (h : checkUspace H bs dual = true) :
    (∀ U, (InvT H U ∧ U.isSymm) ↔ ∃ cs : List Q, cs.length = bs.length ∧ U = lincombT cs bs) ∧
    (∀ cs : List Q, cs.length = bs.length → lincombT cs bs = Mat3.zero → ∀ c ∈ cs, c = 0) := by
  obtain ⟨hpos, hbs, hd, hspan⟩ := checkUspace_parts h
  have hsp : ∀ U, Allowed H U → U = lc (dual.map (fun d => qpair U d)) bs := by
    intro U hU
    have hR := reynoldsT_isLin H
    have hT := coords_isLin dual bs
    have := IsLin.ext_span hR (hT.comp hR) hspan [U.a11, U.a22, U.a33, U.a12, U.a13, U.a23]
    rw [← mat3_decomp U hU.2, reynoldsT_of_inv hpos hU.1] at this
    exact this
  have key := cert_basis (V := Mat3 Q) (Allowed H) bs dual
    (fun cs => by rw [← lincombT_eq_lc]; exact allowed_lincombT hbs cs) hd hsp
  simp only [lincombT_eq_lc]
  exact key

/-- the coefficients (the U parameter values) of an allowed tensor are unique -/
theorem checkUspace_unique_coeffs {H : List Op} {bs dual : List (Mat3 Q)}
    (h : checkUspace H bs dual = true) (cs ds : List Q) (hc : cs.length = bs.length)
    (hd : ds.length = bs.length) (e : lincombT cs bs = lincombT ds bs) : cs = ds := by
  have hD := (checkUspace_parts h).2.2.1
  rw [lincombT_eq_lc, lincombT_eq_lc] at e
  rw [← hD.coords_lc cs hc, ← hD.coords_lc ds hd, e]

/-! ### 8. the code's projection -/

/-- definitional: the stored tensor is the combination of the basis with the reported parameters -/
theorem proj_in_span (bs : List (Mat3 Q)) (U : Mat3 Q) :
    proj bs U = lincombT (projCoefs bs U) bs := rfl

/-- the normalised basis is a dual family of an orthogonal basis -/
theorem isOrtho_dual {bs : List (Mat3 Q)} (h : isOrtho bs = true) :
    DualP bs (bs.map (fun b => Mat3.smul (1 / frob b b) b)) := by
  simp only [isOrtho, List.all_eq_true, List.mem_range] at h
  refine ⟨by simp, fun i hi j hj => ?_⟩
  have hij := h i hi j hj
  have hjj := h j hj j hj
  simp only [if_true] at hjj
  rw [decide_eq_true_eq] at hjj
  have e : (bs.map (fun b => Mat3.smul (1 / frob b b) b)).getD j qzero =
      Mat3.smul (1 / frob (bs.getD j Mat3.zero) (bs.getD j Mat3.zero)) (bs.getD j Mat3.zero) := by
    rw [List.getD_eq_getElem _ _ (by simpa using hj), List.getD_eq_getElem _ _ hj, List.getElem_map]
  rw [e]
  show frob (bs.getD i Mat3.zero) _ = _
  rw [frob_smul_right]
  by_cases hc : i = j
  · subst hc
    simp only [if_true]
    field_simp
  · simp only [hc, if_false] at hij ⊢
    rw [decide_eq_true_eq] at hij
    rw [hij]; ring

theorem projCoefs_eq_coords (bs : List (Mat3 Q)) (U : Mat3 Q) :
    projCoefs bs U = (bs.map (fun b => Mat3.smul (1 / frob b b) b)).map (fun d => qpair U d) := by
  rw [List.map_map]
  unfold projCoefs
  apply List.map_congr_left
  intro b _
  show frob U b / frob b b = frob U (Mat3.smul (1 / frob b b) b)
  rw [frob_smul_right]; ring

/-- on an orthogonal basis the projection reads the coefficients back … -/
theorem projCoefs_lincombT {bs : List (Mat3 Q)} (h : isOrtho bs = true) (cs : List Q)
    (hl : cs.length = bs.length) : projCoefs bs (lincombT cs bs) = cs := by
  rw [projCoefs_eq_coords, lincombT_eq_lc]
  exact (isOrtho_dual h).coords_lc cs hl

/-- … hence every combination of the basis is returned unchanged -/
theorem proj_spec {bs : List (Mat3 Q)} (h : isOrtho bs = true) (cs : List Q)
    (hl : cs.length = bs.length) : proj bs (lincombT cs bs) = lincombT cs bs := by
  rw [proj_in_span, projCoefs_lincombT h cs hl]

/-- the projection is idempotent -/
theorem proj_idem {bs : List (Mat3 Q)} (h : isOrtho bs = true) (U : Mat3 Q) :
    proj bs (proj bs U) = proj bs U := by
  rw [proj_in_span bs U]
  exact proj_spec h _ (by simp [projCoefs])

/-- the stored tensor is always allowed -/
theorem proj_allowed {H : List Op} {bs dual : List (Mat3 Q)} (h : checkUspace H bs dual = true)
    (U : Mat3 Q) : InvT H (proj bs U) ∧ (proj bs U).isSymm :=
  ((checkUspace_sound h).1 _).2 ⟨projCoefs bs U, by simp [projCoefs], rfl⟩

/-- an already allowed tensor is returned unchanged -/
theorem proj_fix {H : List Op} {bs dual : List (Mat3 Q)} (h : checkUspace H bs dual = true)
    (ho : isOrtho bs = true) {U : Mat3 Q} (hU : InvT H U ∧ U.isSymm) : proj bs U = U := by
  obtain ⟨cs, hl, rfl⟩ := ((checkUspace_sound h).1 U).1 hU
  exact proj_spec ho cs hl

/-! ### 9. equivalent tensors -/

/-- any rotation of the coset `g H` gives the same equivalent tensor -/
theorem eq_tensor_coset_indep (g h : Op) (U : Mat3 Q) (hU : rotT (rotQ h) U = U) :
    rotT ((rotQ g).mul (rotQ h)) U = rotT (rotQ g) U := by
  rw [rotT_mul, hU]

theorem eq_tensor_coset_indep' {H : List Op} {U : Mat3 Q} (hU : InvT H U) (g : Op) :
    ∀ h ∈ H, rotT (rotQ (g.comp h)) U = rotT (rotQ g) U := by
  intro h hh
  rw [rotQ_comp]
  exact eq_tensor_coset_indep g h U (hU h hh)

/-- matrix form: if `Hm` fixes `U` and `A G = 1` then `G Hm A` fixes `G U Gᵀ` -/
theorem equiv_invariant_mat (G Hm A U : Mat3 Q) (hA : A.mul G = Mat3.one) (hU : rotT Hm U = U) :
    rotT ((G.mul Hm).mul A) (rotT G U) = rotT G U := by
  rw [rotT_mul, ← rotT_mul A G, hA, rotT_one, rotT_mul, hU]

/-- the equivalent tensor `R_g U R_gᵀ` is invariant under the conjugated site symmetry `g H g⁻¹` -/
theorem equiv_invariant {H : List Op} {U : Mat3 Q} (hU : InvT H U) (g gi : Op)
    (hgi : gi.comp g = Op.one) :
    InvT (H.map (fun h => (g.comp h).comp gi)) (rotT (rotQ g) U) := by
  intro k hk
  obtain ⟨h, hh, rfl⟩ := List.mem_map.1 hk
  rw [rotQ_comp, rotQ_comp]
  refine equiv_invariant_mat _ _ _ _ ?_ (hU h hh)
  rw [← rotQ_comp, hgi, rotQ_one]

/-- symmetric tensors stay symmetric -/
theorem rotT_symm (R U : Mat3 Q) (hU : U.isSymm) : (rotT R U).isSymm := by
  obtain ⟨h1, h2, h3⟩ := hU
  simp only [Mat3.isSymm, rotT, Mat3.mul, Mat3.transpose]
  refine ⟨?_, ?_, ?_⟩ <;> rw [h1, h2, h3] <;> ring

/-! ### 10. U formulas -/

/-- the U formulas (linear forms in the parameters with coefficient tensors `R B_k Rᵀ`) evaluated
at the parameter values give the rotated tensor -/
theorem Uformula_eval (R : Mat3 Q) (cs : List Q) (bs : List (Mat3 Q)) :
    rotT R (lincombT cs bs) = lincombT cs (bs.map (rotT R)) := by
  rw [lincombT_eq_lc, lincombT_eq_lc]
  exact (rotT_isLin R).map_lc cs bs

/-! ### 11. group average -/

theorem reynoldsT_invariant {H : List Op} (hH : IsGroup H) (U : Mat3 Q) :
    ∀ a ∈ H, rotT (rotQ a) (tsum H U) = tsum H U := by
  intro a ha
  exact gsum_invariant (V := Mat3 Q) hH (fun h => rotT (rotQ h)) (fun h => rotT_isLin (rotQ h))
    (fun a b w => by show rotT (rotQ (a.comp b)) w = _; rw [rotQ_comp, rotT_mul]) ha U

theorem length_pos_of_isGroup {H : List Op} (hH : IsGroup H) : 0 < H.length := by
  have := hH.one_first
  cases H with
  | nil => simp at this
  | cons a H => simp

/-- the group average is invariant -/
theorem invT_reynoldsT {H : List Op} (hH : IsGroup H) (W : Mat3 Q) : InvT H (reynoldsT H W) := by
  intro a ha
  unfold reynoldsT
  rw [show rotT (rotQ a) (Mat3.smul (1 / (H.length : Q)) (tsum H W)) =
    Mat3.smul (1 / (H.length : Q)) (rotT (rotQ a) (tsum H W)) from (rotT_isLin (rotQ a)).map_smul _ _,
    reynoldsT_invariant hH W a ha]

/-- the average of a symmetric tensor is symmetric -/
theorem reynoldsT_symm (H : List Op) (W : Mat3 Q) (hW : W.isSymm) : (reynoldsT H W).isSymm := by
  rw [isSymm_iff_transpose]
  have hc : ∀ h : Op, ∀ V : Mat3 Q, (rotT (rotQ h) V).transpose = rotT (rotQ h) V.transpose := by
    intro h V; mat3_tac
  have : ∀ L : List Op, (tsum L W).transpose = tsum L W := by
    intro L
    induction L with
    | nil => rfl
    | cons a L ih =>
      show ((rotT (rotQ a) W).add (tsum L W)).transpose = (rotT (rotQ a) W).add (tsum L W)
      rw [show ((rotT (rotQ a) W).add (tsum L W)).transpose =
        (rotT (rotQ a) W).transpose.add (tsum L W).transpose from transpose_isLin.map_add _ _,
        ih, hc, (isSymm_iff_transpose W).1 hW]
  unfold reynoldsT
  rw [show (Mat3.smul (1 / (H.length : Q)) (tsum H W)).transpose =
    Mat3.smul (1 / (H.length : Q)) (tsum H W).transpose from transpose_isLin.map_smul _ _, this H]

/-- the invariant tensors are exactly the fixed points (= the range) of the group average -/
theorem range_reynoldsT {H : List Op} (hH : IsGroup H) (U : Mat3 Q) :
    InvT H U ↔ reynoldsT H U = U :=
  ⟨reynoldsT_of_inv (length_pos_of_isGroup hH), fun e => e ▸ invT_reynoldsT hH U⟩

theorem range_reynoldsT' {H : List Op} (hH : IsGroup H) (U : Mat3 Q) :
    (InvT H U ∧ U.isSymm) ↔ ∃ W, W.isSymm ∧ U = reynoldsT H W :=
  ⟨fun hU => ⟨U, hU.2, ((range_reynoldsT hH U).1 hU.1).symm⟩,
   fun ⟨W, hW, e⟩ => e ▸ ⟨invT_reynoldsT hH W, reynoldsT_symm H W hW⟩⟩

/-! ### 12. the isotropy flag -/

/-- `Uisotropy` (`len(Uspace) == 1`): under an accepted certificate the allowed tensors form a
one-parameter family `{c B}` with `B ≠ 0` iff the basis has exactly one element -/
theorem iso_flag {H : List Op} {bs dual : List (Mat3 Q)} (h : checkUspace H bs dual = true) :
    bs.length = 1 ↔
      ∃ B : Mat3 Q, B ≠ Mat3.zero ∧ ∀ U, (InvT H U ∧ U.isSymm) ↔ ∃ c : Q, U = Mat3.smul c B := by
  obtain ⟨hpos, hbs, hd, -⟩ := checkUspace_parts h
  have hs := (checkUspace_sound h).1
  have hz : ∀ (c : Q) (b : Mat3 Q), lincombT [c] [b] = Mat3.smul c b := fun c b =>
    show (Mat3.smul c b).add Mat3.zero = Mat3.smul c b from qadd_zero (V := Mat3 Q) _
  constructor
  · intro hl
    obtain ⟨b, rfl⟩ := List.length_eq_one_iff.1 hl
    obtain ⟨d, rfl⟩ := List.length_eq_one_iff.1 (hd.1.symm.trans hl)
    refine ⟨b, ?_, fun U => ?_⟩
    · intro hb0
      have h1 := hd.cons.1
      rw [hb0] at h1
      have h0 : qpair (Mat3.zero : Mat3 Q) d = 0 := qpair_zero (V := Mat3 Q) d
      rw [h0] at h1
      exact zero_ne_one h1
    · rw [hs U]
      constructor
      · rintro ⟨cs, hcl, rfl⟩
        obtain ⟨c, rfl⟩ := List.length_eq_one_iff.1 hcl
        exact ⟨c, hz c b⟩
      · rintro ⟨c, rfl⟩
        exact ⟨[c], rfl, (hz c b).symm⟩
  · rintro ⟨B, hB, hU⟩
    rcases bs with _ | ⟨b1, _ | ⟨b2, rest⟩⟩
    · exfalso
      apply hB
      have hBa : InvT H B ∧ B.isSymm := (hU B).2 ⟨1, (qone_smul (V := Mat3 Q) B).symm⟩
      obtain ⟨cs, _, e⟩ := (hs B).1 hBa
      rw [e]; cases cs <;> rfl
    · rfl
    · exfalso
      rcases dual with _ | ⟨d1, _ | ⟨d2, rest'⟩⟩
      · exact absurd hd.1 (by simp)
      · exact absurd hd.1 (by simp)
      obtain ⟨p11, p1, p2, hd'⟩ := hd.cons
      have p12 := p1 d2 (List.mem_cons_self ..)
      have p22 := hd'.cons.1
      obtain ⟨c1, e1⟩ := (hU b1).1 (hbs b1 (List.mem_cons_self ..))
      obtain ⟨c2, e2⟩ := (hU b2).1 (hbs b2 (List.mem_cons_of_mem _ (List.mem_cons_self ..)))
      rw [e1] at p11 p12
      rw [e2] at p22
      have f := fun c d => qpair_smul (V := Mat3 Q) c B d
      rw [show qpair (Mat3.smul c1 B) d1 = c1 * qpair B d1 from f c1 d1] at p11
      rw [show qpair (Mat3.smul c1 B) d2 = c1 * qpair B d2 from f c1 d2] at p12
      rw [show qpair (Mat3.smul c2 B) d2 = c2 * qpair B d2 from f c2 d2] at p22
      have : (1 : Q) = 0 := by
        linear_combination -(c2 * qpair B d2) * p11 - p22 + (c2 * qpair B d1) * p12
      exact one_ne_zero this

/-! ### the site symmetry of any site of any tabulated setting -/

/-- for the stabiliser of any site of any tabulated setting (a group by `stab_isGroup` and
`C03.all_groups`) the allowed tensors are exactly the group averages of symmetric tensors -/
theorem tabulated_allowed_iff (p : SG × Cert) (hp : p ∈ Gen.allC) (k : Int) (off x : P3) (U : Mat3 Q) :
    (InvT (p.1.ops.filter (fun g => decide (Orbit.img g k off x = Orbit.red k x))) U ∧ U.isSymm) ↔
      ∃ W, W.isSymm ∧
        U = reynoldsT (p.1.ops.filter (fun g => decide (Orbit.img g k off x = Orbit.red k x))) W :=
  range_reynoldsT' (stab_isGroup (DS.Props.C03.all_groups p hp) k off x) U

/-! ### non-vacuity -/

/-- point group `mm2` -/
def mm2 : List Op :=
  [Op.one, ⟨-1, 0, 0, 0, -1, 0, 0, 0, 1, 0, 0, 0⟩, ⟨-1, 0, 0, 0, 1, 0, 0, 0, 1, 0, 0, 0⟩,
   ⟨1, 0, 0, 0, -1, 0, 0, 0, 1, 0, 0, 0⟩]

theorem mm2_isGroup : IsGroup mm2 :=
  ⟨by decide, by decide, by decide, by decide, by decide, by decide⟩

/-- diagonal unit tensors: the allowed tensors of `mm2` are the diagonal ones -/
def diag3 : List (Mat3 Q) := [⟨1,0,0,0,0,0,0,0,0⟩, ⟨0,0,0,0,1,0,0,0,0⟩, ⟨0,0,0,0,0,0,0,0,1⟩]

theorem mm2_cert : checkUspace mm2 diag3 diag3 = true := by decide +kernel
theorem diag3_ortho : isOrtho diag3 = true := by decide +kernel

/-- point group `23` (12 rotations of the tetrahedron): only isotropic tensors are allowed -/
def t23 : List Op :=
  [Op.one, ⟨1,0,0,0,-1,0,0,0,-1,0,0,0⟩, ⟨-1,0,0,0,1,0,0,0,-1,0,0,0⟩, ⟨-1,0,0,0,-1,0,0,0,1,0,0,0⟩,
   ⟨0,0,1,1,0,0,0,1,0,0,0,0⟩, ⟨0,0,1,-1,0,0,0,-1,0,0,0,0⟩, ⟨0,0,-1,1,0,0,0,-1,0,0,0,0⟩,
   ⟨0,0,-1,-1,0,0,0,1,0,0,0,0⟩,
   ⟨0,1,0,0,0,1,1,0,0,0,0,0⟩, ⟨0,1,0,0,0,-1,-1,0,0,0,0,0⟩, ⟨0,-1,0,0,0,1,-1,0,0,0,0,0⟩,
   ⟨0,-1,0,0,0,-1,1,0,0,0,0,0⟩]

theorem t23_cert : checkUspace t23 [Mat3.one] [Mat3.smul (1/3) Mat3.one] = true := by decide +kernel

example : InvT mm2 ⟨2, 0, 0, 0, 3, 0, 0, 0, 5⟩ ∧ (⟨2, 0, 0, 0, 3, 0, 0, 0, 5⟩ : Mat3 Q).isSymm :=
  ((checkUspace_sound mm2_cert).1 _).2 ⟨[2, 3, 5], rfl, by decide +kernel⟩

/-- a certificate that misses a direction is rejected -/
example : checkUspace mm2 [⟨1,0,0,0,0,0,0,0,0⟩] [⟨1,0,0,0,0,0,0,0,0⟩] = false := by decide +kernel

/-- the projection removes the forbidden off-diagonal part and keeps the diagonal -/
example : proj diag3 ⟨2, 7, 1, 7, 3, 4, 1, 4, 5⟩ = ⟨2, 0, 0, 0, 3, 0, 0, 0, 5⟩ := by decide +kernel

example : proj diag3 ⟨2, 0, 0, 0, 3, 0, 0, 0, 5⟩ = ⟨2, 0, 0, 0, 3, 0, 0, 0, 5⟩ :=
  proj_fix mm2_cert diag3_ortho (((checkUspace_sound mm2_cert).1 _).2 ⟨[2, 3, 5], rfl, by decide +kernel⟩)

/-- `iso_flag` both ways on concrete data: `23` is isotropic, `mm2` is not -/
example : ∃ B : Mat3 Q, B ≠ Mat3.zero ∧ ∀ U, (InvT t23 U ∧ U.isSymm) ↔ ∃ c : Q, U = Mat3.smul c B :=
  (iso_flag t23_cert).1 rfl

example : ¬ ∃ B : Mat3 Q, B ≠ Mat3.zero ∧ ∀ U, (InvT mm2 U ∧ U.isSymm) ↔ ∃ c : Q, U = Mat3.smul c B :=
  fun h => absurd ((iso_flag mm2_cert).2 h) (by decide)

example : InvT mm2 (reynoldsT mm2 ⟨2, 7, 1, 7, 3, 4, 1, 4, 5⟩) ∧
    reynoldsT mm2 ⟨2, 7, 1, 7, 3, 4, 1, 4, 5⟩ = ⟨2, 0, 0, 0, 3, 0, 0, 0, 5⟩ :=
  ⟨invT_reynoldsT mm2_isGroup _, by decide +kernel⟩

/-- `equiv_invariant` with `g` = the threefold of `23` and `H = mm2` -/
example : InvT (mm2.map (fun h => ((⟨0,0,1,1,0,0,0,1,0,0,0,0⟩ : Op).comp h).comp ⟨0,1,0,0,0,1,1,0,0,0,0,0⟩))
    (rotT (rotQ ⟨0,0,1,1,0,0,0,1,0,0,0,0⟩) ⟨2, 0, 0, 0, 3, 0, 0, 0, 5⟩) :=
  equiv_invariant (inInvT_iff.1 (by decide +kernel)) _ _ (by decide)

example : proj diag3 (proj diag3 ⟨2, 7, 1, 7, 3, 4, 1, 4, 5⟩) = proj diag3 ⟨2, 7, 1, 7, 3, 4, 1, 4, 5⟩ :=
  proj_idem diag3_ortho _

example : InvT mm2 (proj diag3 ⟨2, 7, 1, 7, 3, 4, 1, 4, 5⟩) ∧ (proj diag3 ⟨2, 7, 1, 7, 3, 4, 1, 4, 5⟩).isSymm :=
  proj_allowed mm2_cert _

example : ([2, 3, 5] : List Q) = [2, 3, 5] :=
  checkUspace_unique_coeffs mm2_cert [2, 3, 5] [2, 3, 5] rfl rfl rfl

/-- `eq_tensor_coset_indep'`: the threefold times any operation of `mm2` rotates an allowed tensor
of `mm2` like the threefold alone -/
example : ∀ h ∈ mm2, rotT (rotQ ((⟨0,0,1,1,0,0,0,1,0,0,0,0⟩ : Op).comp h)) ⟨2, 0, 0, 0, 3, 0, 0, 0, 5⟩ =
    rotT (rotQ ⟨0,0,1,1,0,0,0,1,0,0,0,0⟩) ⟨2, 0, 0, 0, 3, 0, 0, 0, 5⟩ :=
  eq_tensor_coset_indep' (H := mm2) (inInvT_iff.1 (by decide +kernel)) _

example : InvT mm2 ⟨2, 0, 0, 0, 3, 0, 0, 0, 5⟩ ↔
    reynoldsT mm2 ⟨2, 0, 0, 0, 3, 0, 0, 0, 5⟩ = ⟨2, 0, 0, 0, 3, 0, 0, 0, 5⟩ :=
  range_reynoldsT mm2_isGroup _

example : ∀ a ∈ mm2, rotT (rotQ a) (tsum mm2 ⟨2, 7, 1, 7, 3, 4, 1, 4, 5⟩) = tsum mm2 ⟨2, 7, 1, 7, 3, 4, 1, 4, 5⟩ :=
  reynoldsT_invariant mm2_isGroup _

example (k : Int) (off x : P3) (U : Mat3 Q) :=
  tabulated_allowed_iff _ Gen.witness_mem k off x U

end DS.Props.C06
