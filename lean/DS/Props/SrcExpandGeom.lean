import DS.Gen.SrcLattice
import DS.Gen.SrcExpand
import DS.Lemmas.Lattice
import DS.Lemmas.Expand
/-!
# Source tie for the geometry of the expansion model (serves C15 and C18)

`DS/Model/Expand.lean` carries its own record `Expand.Cell` (the seven independent data of a lattice:
`a b c alpha beta gamma baserot`) with hand-written copies of the formulas of `Lattice.setLatPar`
(`ca … sg unitvolume ar br cr cgr sgr stdbase base recbase normbase recnormbase`) and of the methods
`cartesian fractional norm dist`, and `Cell.scale` for the cell update at the end of `supercell`.  Every
C15/C18 theorem speaks about those functions.  This file identifies each of them with the transliteration
`DS.Src.*` of the *current* `lattice.py` (`DS/Gen/SrcLattice.lean`, regenerated on every run).

## What is stated, in which direction, under which hypotheses

* `srcState Λ₀ L` is the object state after `Λ₀.setLatPar(a, b, c, alpha, beta, gamma, baserot)` with the seven
  data of `L`, computed by the transliterated `Src.setLatPar` from an **arbitrary** prior state `Λ₀` (so in
  particular from the state of a fresh `Lattice()`); `cellOf Λ` reads the seven data back.
* Section `generic` — **every scalar type, no hypothesis, proofs `rfl`** (model and source are the same
  term up to unfolding; this covers `ℝ`, where the C15/C18 theorems live, and `Float`, where the driver
  runs): all cached attributes of `srcState Λ₀ L` that the expansion model uses equal the `Expand.Cell`
  functions of `L` (`state_*`), the four methods agree (`cartesian_eq`, `fractional_eq`, `norm_eq`,
  `dist_eq`, also as functions), the state does not depend on `Λ₀` (`state_indep`) and is the `DS.Lattice`
  model's `ofPar` (`state_model`; through it every C01/C10 theorem about `Lattice.ofPar` applies to
  `Expand.Cell`), and `supercell`'s partial update `setLatPar(a=l·a, b=m·b, c=n·c)` applied to **any**
  lattice object `Λ` gives exactly the state of `(cellOf Λ).scale l m n` (`supercell_update`,
  `supercell_update_src` with the transliterated `Src.Expand.scaleCell` of `supercell_mod.py`).
  The users of the geometry inside the model (`keeps`, `ellMno`, one step of `findCenterAux`) are restated
  with the source functions (`keeps_src`, `ellMno_src`, `findCenterAux_src`).
* `Coherent Λ` (`setLatPar()` without arguments changes nothing) is the hypothesis under which the *stored*
  arrays of an object that was not just built by `setLatPar` (e.g. re-based in place by `setLatBase`, copied,
  obtained by `reciprocal()`) are those of `cellOf Λ`: `of_coherent` (every scalar type).  `state_coherent`:
  every `srcState` is coherent.  Over `ℝ`, `coherent_of_history`: every object reached by a valid update
  history (`Lattice.ValidRun`, the C10 induction) is coherent, hence `history_geom`.
* Section `field` — over a field `K` with the `Elem` primitives (the setting of `DS.Props.C15`), for a
  coherent `Λ`: the statements of `C15.cell_scaled`, `C15.normbase_unchanged`, `C15.image_cart` and
  `Lemmas.Expand.cart_scale_div` with **only source functions** on both sides (`src_cell_scaled`,
  `src_normbase_unchanged` [multipliers `≠ 0` in `K`], `src_image_cart`, `src_cart_scale_div` [same]).

A source edit of `setLatPar`, `cartesian`, `fractional`, `norm`, `dist` or `unitvolume` that changes what is
computed makes the corresponding `rfl` fail to elaborate: broken tie (`Check.tie_verdict`).
-/
namespace DS.Props.SrcExpandGeom
open DS DS.Expand
set_option linter.unusedSectionVars false
set_option linter.unusedVariables false

/-! ## every scalar type -/
section generic
variable {α : Type} [Add α] [Mul α] [Sub α] [Neg α] [Div α] [OfNat α 0] [OfNat α 1] [OfNat α 2]
  [OfNat α 3] [OfNat α 90] [Max α] [Min α] [Elem α]

/-- the seven independent data of a lattice object, as the expansion model keeps them -/
def cellOf (Λ : Lattice α) : Cell α := ⟨Λ.a, Λ.b, Λ.c, Λ.alpha, Λ.beta, Λ.gamma, Λ.baserot⟩

/-- object state after `Λ₀.setLatPar(L.a, L.b, L.c, L.alpha, L.beta, L.gamma, baserot=L.baserot)`:
the transliterated source, started from an arbitrary prior state `Λ₀` -/
def srcState (Λ₀ : Lattice α) (L : Cell α) : Lattice α :=
  Src.setLatPar Λ₀ (some L.a) (some L.b) (some L.c) (some L.alpha) (some L.beta) (some L.gamma) (some L.baserot)

/-- `setLatPar()` without arguments (recompute every cached attribute from the stored seven) changes nothing -/
def Coherent (Λ : Lattice α) : Prop := Src.setLatPar Λ none none none none none none none = Λ

/-! ### the state built from a cell -/

/-- the seven stored data are the cell's -/
theorem state_cell (Λ₀ : Lattice α) (L : Cell α) : cellOf (srcState Λ₀ L) = L := rfl
/-- `_ca _cb _cg _sa _sb _sg` -/
theorem state_trig (Λ₀ : Lattice α) (L : Cell α) :
    (srcState Λ₀ L).ca = L.ca ∧ (srcState Λ₀ L).cb = L.cb ∧ (srcState Λ₀ L).cg = L.cg ∧
    (srcState Λ₀ L).sa = L.sa ∧ (srcState Λ₀ L).sb = L.sb ∧ (srcState Λ₀ L).sg = L.sg :=
  ⟨rfl, rfl, rfl, rfl, rfl, rfl⟩
/-- property `unitvolume` read on the state -/
theorem state_unitvolume (Λ₀ : Lattice α) (L : Cell α) : Src.unitvolume (srcState Λ₀ L) = L.unitvolume := rfl
/-- `_ar _br _cr _cgr _sgr` -/
theorem state_recip (Λ₀ : Lattice α) (L : Cell α) :
    (srcState Λ₀ L).ar = L.ar ∧ (srcState Λ₀ L).br = L.br ∧ (srcState Λ₀ L).cr = L.cr ∧
    (srcState Λ₀ L).cgr = L.cgr ∧ (srcState Λ₀ L).sgr = L.sgr :=
  ⟨rfl, rfl, rfl, rfl, rfl⟩
theorem state_stdbase (Λ₀ : Lattice α) (L : Cell α) : (srcState Λ₀ L).stdbase = L.stdbase := rfl
theorem state_base (Λ₀ : Lattice α) (L : Cell α) : (srcState Λ₀ L).base = L.base := rfl
theorem state_recbase (Λ₀ : Lattice α) (L : Cell α) : (srcState Λ₀ L).recbase = L.recbase := rfl
theorem state_normbase (Λ₀ : Lattice α) (L : Cell α) : (srcState Λ₀ L).normbase = L.normbase := rfl
theorem state_recnormbase (Λ₀ : Lattice α) (L : Cell α) : (srcState Λ₀ L).recnormbase = L.recnormbase := rfl

/-- nothing of the prior state survives a `setLatPar` with all seven arguments -/
theorem state_indep (Λ₀ Λ₁ : Lattice α) (L : Cell α) : srcState Λ₀ L = srcState Λ₁ L := rfl
/-- the state is the `DS.Lattice` model's `Lattice(a, b, c, alpha, beta, gamma, baserot)` (the object of the
C01/C10 theorems) -/
theorem state_model (Λ₀ : Lattice α) (L : Cell α) :
    srcState Λ₀ L = Lattice.ofPar L.a L.b L.c L.alpha L.beta L.gamma L.baserot := rfl
/-- every state built by `setLatPar` is coherent -/
theorem state_coherent (Λ₀ : Lattice α) (L : Cell α) : Coherent (srcState Λ₀ L) := rfl

/-! ### the four methods -/

theorem cartesian_eq (Λ₀ : Lattice α) (L : Cell α) (u : Vec3 α) :
    Src.cartesian (srcState Λ₀ L) u = L.cartesian u := rfl
theorem fractional_eq (Λ₀ : Lattice α) (L : Cell α) (r : Vec3 α) :
    Src.fractional (srcState Λ₀ L) r = L.fractional r := rfl
theorem norm_eq (Λ₀ : Lattice α) (L : Cell α) (u : Vec3 α) : Src.norm (srcState Λ₀ L) u = L.norm u := rfl
theorem dist_eq (Λ₀ : Lattice α) (L : Cell α) (u v : Vec3 α) :
    Src.dist (srcState Λ₀ L) u v = L.dist u v := rfl
/-- the same as equalities of functions (what `findCenter`, `makeEllipsoid` are handed) -/
theorem methods_eq (Λ₀ : Lattice α) (L : Cell α) :
    Src.cartesian (srcState Λ₀ L) = L.cartesian ∧ Src.fractional (srcState Λ₀ L) = L.fractional ∧
    Src.norm (srcState Λ₀ L) = L.norm ∧ Src.dist (srcState Λ₀ L) = L.dist := ⟨rfl, rfl, rfl, rfl⟩

/-! ### an object that reached its state in another way -/

/-- recomputing is building the state of the object's own seven data -/
theorem refresh_state (Λ Λ₀ : Lattice α) :
    Src.setLatPar Λ none none none none none none none = srcState Λ₀ (cellOf Λ) := rfl

/-- a coherent object stores the arrays of its cell, and its methods are the cell's -/
theorem of_coherent {Λ : Lattice α} (h : Coherent Λ) :
    Λ.stdbase = (cellOf Λ).stdbase ∧ Λ.base = (cellOf Λ).base ∧ Λ.recbase = (cellOf Λ).recbase ∧
    Λ.normbase = (cellOf Λ).normbase ∧ Λ.recnormbase = (cellOf Λ).recnormbase ∧
    Λ.ar = (cellOf Λ).ar ∧ Λ.br = (cellOf Λ).br ∧ Λ.cr = (cellOf Λ).cr ∧
    Src.cartesian Λ = (cellOf Λ).cartesian ∧ Src.fractional Λ = (cellOf Λ).fractional ∧
    Src.norm Λ = (cellOf Λ).norm ∧ Src.dist Λ = (cellOf Λ).dist := by
  have e : Λ = srcState Λ (cellOf Λ) := h.symm
  have hc : cellOf (srcState Λ (cellOf Λ)) = cellOf Λ := rfl
  refine ⟨?_, ?_, ?_, ?_, ?_, ?_, ?_, ?_, ?_, ?_, ?_, ?_⟩ <;> rw [e, hc] <;> rfl

/-! ### the cell update of `supercell` -/
section scale
variable [NatCast α]

/-- `newS.lattice.setLatPar(a=l*S.lattice.a, b=m*S.lattice.b, c=n*S.lattice.c)` on **any** lattice object
`Λ` (coherent or not; `newS.lattice` is a `__dict__` copy of `S.lattice`, so both have the state `Λ`):
the result is the state of the model's `(cellOf Λ).scale l m n` -/
theorem supercell_update (Λ Λ₀ : Lattice α) (l m n : Nat) :
    Src.setLatPar Λ (some ((l : α) * Λ.a)) (some ((m : α) * Λ.b)) (some ((n : α) * Λ.c)) none none none none
      = srcState Λ₀ ((cellOf Λ).scale l m n) := rfl

/-- the same with the cell update as transliterated from `supercell_mod.py` -/
theorem supercell_update_src (Λ Λ₀ : Lattice α) (l m n : Nat) :
    Src.setLatPar Λ (some ((l : α) * Λ.a)) (some ((m : α) * Λ.b)) (some ((n : α) * Λ.c)) none none none none
      = srcState Λ₀ (Src.Expand.scaleCell (cellOf Λ) l m n) := rfl

/-- on a state built from a cell `L`: the state of `L.scale l m n` -/
theorem supercell_update_state (Λ₀ Λ₁ : Lattice α) (L : Cell α) (l m n : Nat) :
    Src.setLatPar (srcState Λ₀ L) (some ((l : α) * (srcState Λ₀ L).a)) (some ((m : α) * (srcState Λ₀ L).b))
      (some ((n : α) * (srcState Λ₀ L).c)) none none none none = srcState Λ₁ (L.scale l m n) := rfl
end scale

/-! ### where the model uses the geometry (C18) -/
section users
variable {β : Type} [NatCast α] [LT α] [DecidableRel (α := α) (· < ·)] [IntCeil α]

/-- the survival test of `makeEllipsoid` through the source's `cartesian` -/
theorem keeps_src (Λ₀ : Lattice α) (L : Cell α) (sabc cxyz : Vec3 α) (a : Atom α β) :
    keeps L sabc cxyz a = !decide (1 < ellD sabc cxyz (Src.cartesian (srcState Λ₀ L) a.xyz)) := rfl

/-- the block multiplier of `makeEllipsoid` through the source's `fractional` -/
theorem ellMno_src (Λ₀ : Lattice α) (L : Cell α) (sabc : Vec3 α) :
    ellMno L sabc =
      max (max (IntCeil.ceilInt (2 * (Src.fractional (srcState Λ₀ L) sabc).x))
        (IntCeil.ceilInt (2 * (Src.fractional (srcState Λ₀ L) sabc).y)))
        (IntCeil.ceilInt (2 * (Src.fractional (srcState Λ₀ L) sabc).z)) := rfl

/-- one step of the loop of `findCenter` through the source's `dist` -/
theorem findCenterAux_src (Λ₀ : Lattice α) (L : Cell α) (a : Atom α β) (as : List (Atom α β)) (i : Nat)
    (best : Option Nat) (bestd : α) :
    findCenterAux L (a :: as) i best bestd =
      if Src.dist (srcState Λ₀ L) a.xyz ⟨1 / 2, 1 / 2, 1 / 2⟩ < bestd
      then findCenterAux L as (i + 1) (some i) (Src.dist (srcState Λ₀ L) a.xyz ⟨1 / 2, 1 / 2, 1 / 2⟩)
      else findCenterAux L as (i + 1) best bestd := rfl
end users

end generic

/-! ## over ℝ: objects reached by a valid update history are coherent -/
section real
open DS.Lattice

/-- the well-formedness invariant of the C10 induction implies coherence in the sense used here -/
theorem coherent_of_wf {Λ : Lattice ℝ} (h : WF Λ) : Coherent Λ := by
  show Λ.refresh = Λ
  rw [Lattice.refresh_eq]; exact h.coherent.symm

/-- every lattice object of a world reached from nothing by a valid history of constructions, copies,
`reciprocal()`, `setLatPar` (any subset of arguments), property assignments and `setLatBase` is coherent -/
theorem coherent_of_history (ops : List (Op ℝ)) (w : List (Lattice ℝ)) (hv : ValidRun [] ops)
    (hr : run [] ops = some w) : ∀ Λ ∈ w, Coherent Λ :=
  fun Λ hΛ => coherent_of_wf (run_wf ops [] w (fun _ h => absurd h List.not_mem_nil) hv hr Λ hΛ)

/-- hence the expansion model's geometry of its seven data is the source's geometry of the object -/
theorem history_geom (ops : List (Op ℝ)) (w : List (Lattice ℝ)) (hv : ValidRun [] ops)
    (hr : run [] ops = some w) (Λ : Lattice ℝ) (hΛ : Λ ∈ w) :
    Λ.base = (cellOf Λ).base ∧ Λ.recbase = (cellOf Λ).recbase ∧ Λ.normbase = (cellOf Λ).normbase ∧
    Λ.recnormbase = (cellOf Λ).recnormbase ∧ Src.cartesian Λ = (cellOf Λ).cartesian ∧
    Src.fractional Λ = (cellOf Λ).fractional ∧ Src.norm Λ = (cellOf Λ).norm ∧ Src.dist Λ = (cellOf Λ).dist := by
  obtain ⟨_, h2, h3, h4, h5, _, _, _, h9, h10, h11, h12⟩ := of_coherent (coherent_of_history ops w hv hr Λ hΛ)
  exact ⟨h2, h3, h4, h5, h9, h10, h11, h12⟩

-- non-vacuity: a valid history exists (a re-based default lattice, the "rebased" stratum of harness/c15.py)
example : ∃ w, ValidRun [] [Op.newDefault, Op.setBase 0 (Mat3.one : Mat3 ℝ)] ∧
    run [] [Op.newDefault, Op.setBase 0 (Mat3.one : Mat3 ℝ)] = some w ∧ w.length = 1 := by
  refine ⟨_, ⟨trivial, fun w' _ => ⟨?_, fun _ _ => trivial⟩⟩, rfl, rfl⟩
  show 0 < (Mat3.one : Mat3 ℝ).det
  rw [Lattice.det_one']; exact one_pos
end real

/-! ## over a field: the C15 cell statements with source functions only -/
section field
variable {K β : Type} [Field K] [Elem K] [Max K] [Min K]

/-- the lattice object of the result of `supercell(S, (l, m, n))`, `Λ` being the state of `S.lattice` -/
def srcScaled (Λ : Lattice K) (l m n : Nat) : Lattice K :=
  Src.setLatPar Λ (some ((l : K) * Λ.a)) (some ((m : K) * Λ.b)) (some ((n : K) * Λ.c)) none none none none

theorem srcScaled_eq (Λ : Lattice K) (l m n : Nat) :
    srcScaled Λ l m n = srcState Λ ((cellOf Λ).scale l m n) := supercell_update Λ Λ l m n

/-- `C15.cell_scaled` on the source: lengths multiplied, angles and rotation kept, base vectors multiplied -/
theorem src_cell_scaled {Λ : Lattice K} (h : Coherent Λ) (l m n : Nat) :
    (srcScaled Λ l m n).a = l * Λ.a ∧ (srcScaled Λ l m n).b = m * Λ.b ∧ (srcScaled Λ l m n).c = n * Λ.c ∧
    (srcScaled Λ l m n).alpha = Λ.alpha ∧ (srcScaled Λ l m n).beta = Λ.beta ∧
    (srcScaled Λ l m n).gamma = Λ.gamma ∧ (srcScaled Λ l m n).baserot = Λ.baserot ∧
    (srcScaled Λ l m n).stdbase = (diag (l : K) m n).mul Λ.stdbase ∧
    (srcScaled Λ l m n).base.row1 = Vec3.smul (l : K) Λ.base.row1 ∧
    (srcScaled Λ l m n).base.row2 = Vec3.smul (m : K) Λ.base.row2 ∧
    (srcScaled Λ l m n).base.row3 = Vec3.smul (n : K) Λ.base.row3 := by
  obtain ⟨hs, hb, -⟩ := of_coherent h
  refine ⟨rfl, rfl, rfl, rfl, rfl, rfl, rfl, ?_, ?_, ?_, ?_⟩
  · rw [srcScaled_eq, state_stdbase, Expand.stdbase_scale, ← hs]
  all_goals
    rw [srcScaled_eq, state_base, Expand.base_scale, ← hb]
    simp only [Mat3.mul, diag, Mat3.row1, Mat3.row2, Mat3.row3, Vec3.smul, Vec3.mk.injEq]
    refine ⟨?_, ?_, ?_⟩ <;> ring

/-- `C15.normbase_unchanged` on the source -/
theorem src_normbase_unchanged {Λ : Lattice K} (h : Coherent Λ) {l m n : Nat}
    (hl : (l : K) ≠ 0) (hm : (m : K) ≠ 0) (hn : (n : K) ≠ 0) :
    (srcScaled Λ l m n).normbase = Λ.normbase ∧ (srcScaled Λ l m n).recnormbase = Λ.recnormbase := by
  obtain ⟨-, -, -, hnb, hrn, -⟩ := of_coherent h
  constructor
  · rw [srcScaled_eq, state_normbase, Expand.normbase_scale _ hl hm hn, ← hnb]
  · rw [srcScaled_eq, state_recnormbase, Expand.recnormbase_scale _ hl hm hn, ← hrn]

/-- reciprocal lengths are divided by the multipliers (`C15.reciprocal_scaled` on the source) -/
theorem src_reciprocal_scaled {Λ : Lattice K} (h : Coherent Λ) (l m n : Nat) :
    (srcScaled Λ l m n).ar = Λ.ar / l ∧ (srcScaled Λ l m n).br = Λ.br / m ∧ (srcScaled Λ l m n).cr = Λ.cr / n := by
  obtain ⟨-, -, -, -, -, ha, hb, hc, -⟩ := of_coherent h
  refine ⟨?_, ?_, ?_⟩
  · rw [srcScaled_eq, (state_recip _ _).1, Expand.ar_scale, ← ha]
  · rw [srcScaled_eq, (state_recip _ _).2.1, Expand.br_scale, ← hb]
  · rw [srcScaled_eq, (state_recip _ _).2.2.1, Expand.cr_scale, ← hc]

/-- `C15.image_cart` on the source: the Cartesian position (new lattice) of the image `t` of an atom is the
Cartesian position of the parent (old lattice) plus `i·a⃗ + j·b⃗ + k·c⃗` of the old cell vectors -/
theorem src_image_cart {Λ : Lattice K} (h : Coherent Λ) (a : Atom K β) {l m n : Nat}
    (hl : (l : K) ≠ 0) (hm : (m : K) ≠ 0) (hn : (n : K) ≠ 0) (t : Nat × Nat × Nat) :
    Src.cartesian (srcScaled Λ l m n) (image l m n a t).xyz =
      (Src.cartesian Λ a.xyz).add ((Vec3.smul (t.1 : K) Λ.base.row1).add
        ((Vec3.smul (t.2.1 : K) Λ.base.row2).add (Vec3.smul (t.2.2 : K) Λ.base.row3))) := by
  obtain ⟨-, hb, -, -, -, -, -, -, hc, -⟩ := of_coherent h
  rw [srcScaled_eq, cartesian_eq, Expand.image_cart _ a hl hm hn t, hc, hb]

/-- a site given in the new cell as `(x/l, y/m, z/n)` is the point `(x, y, z)` of the old cell -/
theorem src_cart_scale_div {Λ : Lattice K} (h : Coherent Λ) {l m n : Nat}
    (hl : (l : K) ≠ 0) (hm : (m : K) ≠ 0) (hn : (n : K) ≠ 0) (u : Vec3 K) :
    Src.cartesian (srcScaled Λ l m n) ⟨u.x / l, u.y / m, u.z / n⟩ = Src.cartesian Λ u := by
  obtain ⟨-, -, -, -, -, -, -, -, hc, -⟩ := of_coherent h
  rw [srcScaled_eq, cartesian_eq, Expand.cart_scale_div _ hl hm hn, hc]

end field

/-! ## non-vacuity of the conditional theorems -/

-- `Coherent` is satisfiable by every cell (`state_coherent`), and the multipliers `≥ 1` are non-zero in ℝ
example (Λ₀ : Lattice ℝ) (L : Cell ℝ) :
    (srcScaled (srcState Λ₀ L) 2 1 3).normbase = (srcState Λ₀ L).normbase ∧
    (srcScaled (srcState Λ₀ L) 2 1 3).recnormbase = (srcState Λ₀ L).recnormbase :=
  src_normbase_unchanged (state_coherent Λ₀ L) (by norm_num) (by norm_num) (by norm_num)

end DS.Props.SrcExpandGeom
