import DS.Lemmas.Sched
import DS.Gen.Protocol
/-!
# C19 — space-group lookups are correct when first used from several threads

Model: `DS/Model/Sched.lean` (interleaving semantics of the lazily built lookup tables, any
number of threads, any number `K` of keys, any values).  `Gen.idProtocol`, `Gen.hashProtocol`,
`Gen.idReader`, `Gen.hashReader` are extracted from `spacegroups.py` on every run by
`translate/protocol.py`; the theorems `id_table_linearizable` / `hash_table_linearizable` only
type-check when the extracted protocol is `publish` and the readers test emptiness first.
-/
namespace DS.Props.C19
open DS DS.Sched

variable {K : Nat} {val : Nat → Nat} {lookups : List (List Nat)} {s : State}

/-- publish protocol: in EVERY reachable state (any number of threads, keys, steps) the shared
table is empty or complete — no thread can ever observe a partially filled table -/
theorem shared_inv (h : Reach .publish K val lookups s) :
    s.shared = emptyT ∨ s.shared = fullT K val :=
  (inv_reach h).1

/-- the same in terms of the observable class used by the schedule harness -/
theorem never_partial (h : Reach .publish K val lookups s) : classOf K val s.shared ≠ .part := by
  rcases shared_inv h with he | hf
  · simp [classOf, he, isEmptyB_empty]
  · have : isFullB K val (fullT K val) = true := by
      simp only [isFullB, List.all_eq_true, List.mem_range, fullT]
      intro k hk; simp [hk]
    simp only [classOf, hf, this]
    split <;> simp

/-- publish protocol: every finished lookup, in every interleaving of any number of threads,
returned exactly what the single-threaded program returns for its candidate keys -/
theorem linearizable (h : Reach .publish K val lookups s) (i : Nat) (r : Result)
    (hr : (results s)[i]? = some (some r)) :
    ∃ qs, lookups[i]? = some qs ∧ r = seqResult K val qs := by
  have hinv := inv_reach h
  have hqs := reach_qs h
  simp only [results, List.getElem?_map, Option.map_eq_some_iff] at hr
  obtain ⟨th, hth, hpc⟩ := hr
  refine ⟨th.qs, ?_, ?_⟩
  · rw [← hqs]; simp [List.getElem?_map, hth]
  · have hok := hinv.2 th (List.mem_of_getElem? hth)
    obtain ⟨qs, pc⟩ := th
    cases pc <;> simp only [reduceCtorEq, Option.some.injEq] at hpc
    subst hpc
    simpa [ThOK] using hok

/-- publish protocol: a thread that has not finished can always take a step (no deadlock, no
stuck state, no `KeyError` path) -/
theorem publish_progress (th : Thread) (sh : Table) (hnd : ∀ r, th.pc ≠ .done r) :
    ∃ x, stepThread .publish K val sh th = some x := by
  obtain ⟨qs, pc⟩ := th
  cases pc with
  | done r => exact absurd rfl (hnd r)
  | check rest => cases rest <;> simp only [stepThread] <;> (try split) <;> exact ⟨_, rfl⟩
  | _ => simp only [stepThread] <;> (try split) <;> exact ⟨_, rfl⟩

/-- publish protocol: `table[q]` after `q in table` never fails in any interleaving -/
theorem no_key_error (h : Reach .publish K val lookups s) (i : Nat) :
    (results s)[i]? ≠ some (some .keyError) := by
  intro hr
  obtain ⟨qs, _, hq⟩ := linearizable h i _ hr
  clear hr
  have key : ∀ qs : List Nat, Result.keyError ≠ seqResult K val qs := by
    intro qs
    induction qs with
    | nil => simp [seqResult]
    | cons q rest ih =>
      simp only [seqResult]
      split
      · simp
      · exact ih
  exact key qs hq

/-! ### the old protocol is racy (decided witnesses) -/

/-- in-place build with `clear()` (identifier table before e1d4cbb): thread 0 is pre-empted after
its first store, thread 1 looks up the present key `1` and fails; single-threaded it is found -/
theorem race_exists :
    ∃ sched : List Nat,
      (results (run (.inplace true) 2 id (init [[1], [1]]) sched))[1]? = some (some .notFound)
      ∧ seqResult 2 id [1] = .found 1 :=
  ⟨[0, 0, 0, 1, 1, 1], by decide⟩

/-- in-place build without `clear()` (fingerprint table before e1d4cbb) -/
theorem race_exists_noclear :
    ∃ sched : List Nat,
      (results (run (.inplace false) 2 id (init [[1], [1]]) sched))[1]? = some (some .notFound)
      ∧ seqResult 2 id [1] = .found 1 :=
  ⟨[0, 0, 1, 1, 1], by decide⟩

/-- in-place build with `clear()`: a third thread clearing the table between `q in table` and
`table[q]` of a reader produces a `KeyError` -/
theorem race_keyerror :
    ∃ sched : List Nat,
      (results (run (.inplace true) 2 id (init [[1], [1], [1]]) sched))[1]? = some (some .keyError) :=
  ⟨[0, 2, 0, 0, 0, 0, 1, 1, 2, 1], by decide⟩

/-- the witnesses are reachable states of the interleaving semantics -/
theorem run_reachable (P : Protocol) (sched : List Nat) :
    Reach P K val lookups (run P K val (init lookups) sched) :=
  reach_run Reach.init sched

/-! ### the code under examination -/

/-- extracted from the current source: both reader functions test emptiness (and build) before
the first `in` / subscript -/
theorem readers_ensure_first : Gen.idReader = .ensureFirst ∧ Gen.hashReader = .ensureFirst := by
  decide

/-- identifier table (`GetSpaceGroup`, `IsSpaceGroupIdentifier`) with the protocol extracted
from the current source -/
theorem id_table_linearizable (h : Reach Gen.idProtocol K val lookups s) (i : Nat) (r : Result)
    (hr : (results s)[i]? = some (some r)) :
    ∃ qs, lookups[i]? = some qs ∧ r = seqResult K val qs :=
  linearizable h i r hr

/-- operation-fingerprint table (`FindSpaceGroup`) with the protocol extracted from the source -/
theorem hash_table_linearizable (h : Reach Gen.hashProtocol K val lookups s) (i : Nat) (r : Result)
    (hr : (results s)[i]? = some (some r)) :
    ∃ qs, lookups[i]? = some qs ∧ r = seqResult K val qs :=
  linearizable h i r hr

/-! ### non-vacuity -/

/-- a reachable state of the publish protocol in which two concurrent first-use lookups and a
lookup of an unknown key have all finished -/
example :
    results (run .publish 3 id (init [[5, 1], [2], [7]]) [0, 1, 0, 1, 0, 0, 1, 1, 0, 1, 2, 0, 1, 0, 2, 2, 2, 0, 1]) =
      [some (.found 1), some (.found 2), some .notFound] := by decide

example : seqResult 3 id [5, 1] = .found 1 ∧ seqResult 3 id [7] = .notFound := by decide

end DS.Props.C19
