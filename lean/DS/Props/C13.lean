import DS.Lemmas.Parsers
import DS.Gen.Handlers
/-!
# C13 — parsers reject bad input only with the documented format error

`Gen.cfg_<fmt>` is regenerated from the `try/except` clauses of the repository on every run
(translate/handlers.py).  The theorems instantiate the handler-generic results of
`Lemmas/Parsers.lean` with these generated tuples:

* `total_<fmt>`            every abstract document ends `ok` / `StructureFormatError` / `NotImplementedError`
                           (present for the formats where this holds on the current tree: all but XCFG);
* `total_<fmt>_statement`  the full-strength statement as a `Prop` (where it is currently false);
* `total_<fmt>_partial`    every document is allowed **or** ends with one of the explicitly listed kinds;
* `escapes_<fmt>`          the listed kind is either handled by the generated tuple or escapes on a
                           concrete witness document (so the file keeps building after the repository is repaired);
* `total_<fmt>_iff`        the statement holds iff no needed kind is missing from the generated tuple;
* `core_<fmt>`             the kinds the tuple must contain today; fails to build if one is dropped from the source.
-/
namespace DS.Props.C13
open DS DS.Parsers

/-! ## XYZ, RAWXYZ: total on the current tree -/

theorem total_xyz : ∀ d : XyzDoc, (parseXyz Gen.cfg_xyz d).allowed = true :=
  total_of_missing_nil (parseXyz_cases Gen.cfg_xyz) (by decide)

theorem total_rawxyz : ∀ d : XyzDoc, (parseRawxyz Gen.cfg_rawxyz d).allowed = true :=
  total_of_missing_nil (parseRawxyz_cases Gen.cfg_rawxyz) (by decide)

-- non-vacuity: the three allowed outcomes and a rejected one are all reachable
example : parseXyz Gen.cfg_xyz { lines := [[{ int := some 0, flt := true, canon := true }], []] } = .ok := by decide
example : parseXyz Gen.cfg_xyz { lines := [[{}]] } = .err .SFE := by decide
example : parseRawxyz Gen.cfg_rawxyz { lines := [[{ flt := true }, { flt := true }, { flt := true }]] } = .ok := by decide
example : parseRawxyz Gen.cfg_rawxyz { lines := [[{ flt := true }, { flt := true }]] } = .err .SFE := by decide

/-! ## PDFfit -/

def total_pdffit_statement : Prop := ∀ d : PdffitDoc, (parsePdffit Gen.cfg_pdffit d).allowed = true

/-- kinds that may still escape `P_pdffit.parseLines` on the current tree -/
def open_pdffit : List Kind := [.OverflowError]

theorem total_pdffit_partial : ∀ d : PdffitDoc, (parsePdffit Gen.cfg_pdffit d).allowed = true ∨
    ∃ k, k ∈ open_pdffit ∧ parsePdffit Gen.cfg_pdffit d = .err k :=
  allowed_or_single (parsePdffit_cases Gen.cfg_pdffit) (by decide)

/-- on the current tree (tuple contains `ArithmeticError`, which covers `OverflowError`) the statement holds -/
theorem total_pdffit : total_pdffit_statement :=
  total_of_missing_nil (parsePdffit_cases Gen.cfg_pdffit) (by decide)

theorem total_pdffit_iff :
    total_pdffit_statement ↔ missingKinds (neededPdffit Gen.cfg_pdffit) Gen.cfg_pdffit.H = [] :=
  parsePdffit_total_iff Gen.cfg_pdffit

set_option exponentiation.threshold 2000 in
theorem escapes_pdffit : Kind.OverflowError ∈ Gen.cfg_pdffit.H ∨
    ∃ d, witnessPdffit .OverflowError = some d ∧ parsePdffit Gen.cfg_pdffit d = .err .OverflowError := by
  by_cases h : Kind.OverflowError ∈ Gen.cfg_pdffit.H
  · exact Or.inl h
  · exact Or.inr (parsePdffit_escapes Gen.cfg_pdffit _ (mem_missingKinds.mpr ⟨by simp [neededPdffit], h⟩))

example : parsePdffit Gen.cfg_pdffit
    { lines := [{ words := [{ kw := .cell }], cwords := [{ kw := .cell }] }, { words := [{ kw := .atoms }], cwords := [{ kw := .atoms }] }] } = .ok := by
  decide
example : parsePdffit Gen.cfg_pdffit { lines := [] } = .err .SFE := by decide

/-! ## DISCUS -/

def total_discus_statement : Prop := ∀ d : DiscusDoc, (parseDiscus Gen.cfg_discus d).allowed = true

def open_discus : List Kind := [.OverflowError]

theorem total_discus_partial : ∀ d : DiscusDoc, (parseDiscus Gen.cfg_discus d).allowed = true ∨
    ∃ k, k ∈ open_discus ∧ parseDiscus Gen.cfg_discus d = .err k :=
  allowed_or_single (parseDiscus_cases Gen.cfg_discus) (by decide)

theorem total_discus : total_discus_statement :=
  total_of_missing_nil (parseDiscus_cases Gen.cfg_discus) (by decide)

theorem total_discus_iff :
    total_discus_statement ↔ missingKinds (neededDiscus Gen.cfg_discus) Gen.cfg_discus.H = [] :=
  parseDiscus_total_iff Gen.cfg_discus

theorem escapes_discus : Kind.OverflowError ∈ Gen.cfg_discus.H ∨
    ∃ d, witnessDiscus .OverflowError = some d ∧ parseDiscus Gen.cfg_discus d = .err .OverflowError := by
  by_cases h : Kind.OverflowError ∈ Gen.cfg_discus.H
  · exact Or.inl h
  · exact Or.inr (parseDiscus_escapes Gen.cfg_discus _ (mem_missingKinds.mpr ⟨by simp [neededDiscus], h⟩))

example : parseDiscus Gen.cfg_discus
    { lines := [{ words := [{ kw := .cell }], cwords := [{ kw := .cell }] }, { words := [{ kw := .atoms }], cwords := [{ kw := .atoms }] }] } = .ok := by decide
/-- a header without an `atoms` record is rejected (repair 56ab7f4) -/
example : parseDiscus Gen.cfg_discus
    { lines := [{ words := [{ kw := .cell }], cwords := [{ kw := .cell }] }] } = .err .SFE := by decide
example : parseDiscus Gen.cfg_discus
    { lines := [{ words := [{ kw := .generator }], cwords := [{ kw := .generator }] }] } = .err .NotImpl := by decide
example : parseDiscus Gen.cfg_discus { lines := [] } = .err .SFE := by decide

/-! ## XCFG -/

def total_xcfg_statement : Prop := ∀ d : XcfgDoc, (parseXcfg Gen.cfg_xcfg d).allowed = true

/-- `Resource`: `for i in range(max auxiliary index + 1)` driven by the input (reached when `entry_count`
is consistent with that index).  `AttributeError` (`setattr` of an auxiliary named like a read-only
attribute of `Atom`) is listed for the trees whose tuple lacks it. -/
def open_xcfg : List Kind := [.AttributeError, .Resource]

theorem total_xcfg_partial : ∀ d : XcfgDoc, (parseXcfg Gen.cfg_xcfg d).allowed = true ∨
    ∃ k, k ∈ open_xcfg ∧ parseXcfg Gen.cfg_xcfg d = .err k :=
  allowed_or_single (parseXcfg_cases Gen.cfg_xcfg) (by decide)

theorem total_xcfg_iff :
    total_xcfg_statement ↔ missingKinds (neededXcfg Gen.cfg_xcfg) Gen.cfg_xcfg.H = [] :=
  parseXcfg_total_iff Gen.cfg_xcfg

theorem escapes_xcfg : ∀ k, k ∈ open_xcfg → k ∈ Gen.cfg_xcfg.H ∨
    ∃ d, witnessXcfg k = some d ∧ parseXcfg Gen.cfg_xcfg d = .err k := by
  intro k hk
  by_cases h : k ∈ Gen.cfg_xcfg.H
  · exact Or.inl h
  · refine Or.inr (parseXcfg_escapes Gen.cfg_xcfg _ (mem_missingKinds.mpr ⟨?_, h⟩))
    simp only [open_xcfg, List.mem_cons, List.not_mem_nil, or_false] at hk
    rcases hk with rfl | rfl <;> simp [neededXcfg]

example : parseXcfg Gen.cfg_xcfg { lines := [] } = .err .SFE := by decide

/-! ## PDB -/

def total_pdb_statement : Prop := ∀ d : PdbDoc, (parsePdb Gen.cfg_pdb d).allowed = true

/-- `AttributeError`: a SIGUIJ record for an atom that had no SIGATM record (`last_atom.sigU` unset) -/
def open_pdb : List Kind := [.AttributeError]

theorem total_pdb_partial : ∀ d : PdbDoc, (parsePdb Gen.cfg_pdb d).allowed = true ∨
    ∃ k, k ∈ open_pdb ∧ parsePdb Gen.cfg_pdb d = .err k :=
  allowed_or_single (parsePdb_cases Gen.cfg_pdb) (by decide)

/-- on the current tree (tuple contains `AttributeError`) the statement holds for every document -/
theorem total_pdb : total_pdb_statement :=
  total_of_missing_nil (parsePdb_cases Gen.cfg_pdb) (by decide)

theorem total_pdb_iff :
    total_pdb_statement ↔ missingKinds (neededPdb Gen.cfg_pdb) Gen.cfg_pdb.H = [] :=
  parsePdb_total_iff Gen.cfg_pdb

theorem escapes_pdb : Kind.AttributeError ∈ Gen.cfg_pdb.H ∨
    ∃ d, witnessPdb .AttributeError = some d ∧ parsePdb Gen.cfg_pdb d = .err .AttributeError := by
  by_cases h : Kind.AttributeError ∈ Gen.cfg_pdb.H
  · exact Or.inl h
  · exact Or.inr (parsePdb_escapes Gen.cfg_pdb _ (mem_missingKinds.mpr ⟨by simp [neededPdb], h⟩))

/-- side-conditioned form: if every SIGUIJ record follows a SIGATM record of the same atom, the PDB
parser is total on the current tree (the only open kind needs a SIGUIJ without SIGATM) -/
theorem total_pdb_ordered : ∀ d : PdbDoc, pdbOrdered d.lines none = true →
    (parsePdb Gen.cfg_pdb d).allowed = true := by
  intro d ho
  rcases parsePdb_cases_ordered Gen.cfg_pdb (by decide) d ho with h | ⟨k, hk, _⟩
  · exact h
  · have h0 : missingKinds ((neededPdb Gen.cfg_pdb).erase .AttributeError) Gen.cfg_pdb.H = [] := by decide
    simp [h0] at hk

-- non-vacuity of the side condition: ATOM, SIGATM, SIGUIJ in order is an ordered document and parses
example : pdbOrdered [{ kind := .atom }, { kind := .sigatm }, { kind := .siguij }] none = true := by decide
example : parsePdb Gen.cfg_pdb { lines :=
    [{ kind := .atom, n := 3, allf := true, occ := true, b := true, elemOk := true },
     { kind := .sigatm, n := 3, allf := true }, { kind := .siguij, n := 6, allf := true }] } = .ok := by decide
example : pdbOrdered [{ kind := .atom }, { kind := .siguij }] none = false := by decide

example : parsePdb Gen.cfg_pdb { lines := [{ kind := .title }] } = .ok := by decide
example : parsePdb Gen.cfg_pdb { lines := [{ kind := .invalid }] } = .err .SFE := by decide
example : parsePdb Gen.cfg_pdb
    { lines := [{ kind := .scale3, n := 3, allf := true, uf := true, offset := true }] } = .err .NotImpl := by decide
/-- the guard added for SIGATM/ANISOU/SIGUIJ before any ATOM is seen by the model -/
example : parsePdb Gen.cfg_pdb { lines := [{ kind := .anisou, n := 6, allf := true }] } = .err .SFE := by decide

/-! ## CIF (diffpy's glue; PyCifRW and the block parsers' exception kinds are parameters) -/

def total_cif_statement : Prop := ∀ d : CifDoc, d.wf = true → (parseCif Gen.cfg_cif d).allowed = true

/-- `AttributeError`: a cell item given inside a loop is a list, `leading_float` calls `.strip()` on it -/
def open_cif : List Kind := [.AttributeError]

theorem total_cif_partial : ∀ d : CifDoc, d.wf = true → ((parseCif Gen.cfg_cif d).allowed = true ∨
    ∃ k, k ∈ open_cif ∧ parseCif Gen.cfg_cif d = .err k) := by
  intro d hwf
  rcases parseCif_cases Gen.cfg_cif d hwf with h | ⟨k, hk, he⟩
  · exact Or.inl h
  · right
    have h : (missingKinds neededCif Gen.cfg_cif.H).all (fun k => open_cif.contains k) = true := by decide
    have := List.all_eq_true.mp h k hk
    exact ⟨k, by simpa using this, he⟩

theorem total_cif : total_cif_statement := by
  intro d hwf
  rcases parseCif_cases Gen.cfg_cif d hwf with h | ⟨k, hk, _⟩
  · exact h
  · have h0 : missingKinds neededCif Gen.cfg_cif.H = [] := by decide
    simp [h0] at hk

theorem escapes_cif : Kind.AttributeError ∈ Gen.cfg_cif.H ∨ Kind.AttributeError ∈ Gen.cfg_cif.Hlat ∨
    ∃ d, witnessCif .AttributeError = some d ∧ d.wf = true ∧ parseCif Gen.cfg_cif d = .err .AttributeError := by
  by_cases h : Kind.AttributeError ∈ Gen.cfg_cif.H
  · exact Or.inl h
  · by_cases h2 : Kind.AttributeError ∈ Gen.cfg_cif.Hlat
    · exact Or.inr (Or.inl h2)
    · exact Or.inr (Or.inr (parseCif_escapes Gen.cfg_cif h2 _ (mem_missingKinds.mpr ⟨by simp [neededCif], h⟩)))

/-- `parse` returning `None` happens only for a file PyCifRW accepts and in which no block has `_atom_site_label` -/
theorem cif_none : ∀ d : CifDoc, parseCif Gen.cfg_cif d = .none →
    d.cifFile = none ∧ d.blocks.all (fun b => !b.hasSites) = true :=
  parseCif_none Gen.cfg_cif

example : parseCif Gen.cfg_cif { blocks := [{ hasSites := true }] } = .ok := by decide
example : parseCif Gen.cfg_cif { blocks := [{ hasSites := false }] } = .none := by decide
example : parseCif Gen.cfg_cif { cifFile := some .YappsSyntaxError } = .err .SFE := by decide
example : (⟨none, [{ hasSites := true, sites := some .KeyError }]⟩ : CifDoc).wf = true := by decide

/-! ## The handler tuples contain today's core kinds (a dropped kind breaks the build) -/

theorem core_pdffit : [Kind.ValueError, .IndexError, .StopIteration, .ZeroDivisionError].all
    (fun k => Gen.cfg_pdffit.H.contains k) = true ∧ Gen.cfg_pdffit.reduceInit = true := by decide
theorem core_discus : [Kind.ValueError, .IndexError, .ZeroDivisionError].all
    (fun k => Gen.cfg_discus.H.contains k) = true ∧ Gen.cfg_discus.reduceInit = true := by decide
theorem core_xcfg : [Kind.ValueError, .IndexError, .TypeError, .ZeroDivisionError, .LatticeError].all
    (fun k => Gen.cfg_xcfg.H.contains k) = true ∧ Gen.cfg_xcfg.checkA = true := by decide
theorem core_pdb : [Kind.ValueError, .IndexError, .ZeroDivisionError, .LatticeError].all
    (fun k => Gen.cfg_pdb.H.contains k) = true ∧ Gen.cfg_pdb.guard = true := by decide
theorem core_cif : [Kind.YappsSyntaxError, .StarError, .ValueError, .IndexError, .KeyError, .TypeError,
    .ZeroDivisionError].all (fun k => Gen.cfg_cif.H.contains k) = true := by decide

end DS.Props.C13
