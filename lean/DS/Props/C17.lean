import DS.Lemmas.SymText
import DS.Model.Sinks
import DS.Gen.Sinks
/-!
# C17 — file content is treated as data, never executed

(a) `getSymOp` is modelled by the literal grammar of `DS/Model/SymText.lean` (no evaluator exists in
    the model: the only operations are digit conversion, addition, division of two literals, mod 1).
(b) `Gen.sinks` is regenerated on every run by `translate/sinks.py` from the `ast` of every module
    reachable from the parser entry points; the theorems below are re-decided against it.
-/
namespace DS.Props.C17
open DS DS.SymText DS.Sinks

/-! ### (a) operator text -/

/-- An accepted operator is numeric: there are token lists for the three components such that each
rotation row is the sum of the signed unit vectors of its variable terms and each translation is the
sum of its literal numbers reduced into `[0,1)` (same value modulo 1, positive denominator). -/
theorem symop_numeric (s : List Char) (o : SymOp) (h : parseSymOp s = .ok o) :
    ∃ a b c rest ta tb tc,
      splitComma (normalize s) = a :: b :: c :: rest ∧
      parseRow a = some ta ∧ parseRow b = some tb ∧ parseRow c = some tc ∧
      o.r1 = rowVec ta ∧ o.r2 = rowVec tb ∧ o.r3 = rowVec tc ∧
      o.t1 = (rowConst ta).fract ∧ o.t2 = (rowConst tb).fract ∧ o.t3 = (rowConst tc).fract ∧
      (0 ≤ o.t1.num ∧ o.t1.num < o.t1.den) ∧ (0 ≤ o.t2.num ∧ o.t2.num < o.t2.den) ∧ (0 ≤ o.t3.num ∧ o.t3.num < o.t3.den) ∧
      (∃ k : Int, (rowConst ta).num = o.t1.num + k * (rowConst ta).den) := by
  unfold parseSymOp at h
  cases hsp : splitComma (normalize s) with
  | nil => simp [hsp] at h
  | cons a rest =>
    simp only [hsp] at h
    cases ha : parseRow a with
    | none => simp [ha] at h
    | some ta =>
      simp only [ha] at h
      cases rest with
      | nil => simp at h
      | cons b rest2 =>
        simp only at h
        cases hb : parseRow b with
        | none => simp [hb] at h
        | some tb =>
          simp only [hb] at h
          cases rest2 with
          | nil => simp at h
          | cons c rest3 =>
            simp only at h
            cases hc : parseRow c with
            | none => simp [hc] at h
            | some tc =>
              simp only [hc, Except.ok.injEq] at h
              subst h
              have oka := (scanRow_alphabet _ _ _ _ ha).2
              have okb := (scanRow_alphabet _ _ _ _ hb).2
              have okc := (scanRow_alphabet _ _ _ _ hc).2
              have fa := fract_range _ (rowConst_den_pos _ oka)
              have fb := fract_range _ (rowConst_den_pos _ okb)
              have fc := fract_range _ (rowConst_den_pos _ okc)
              exact ⟨a, b, c, rest3, ta, tb, tc, rfl, ha, hb, hc, rfl, rfl, rfl, rfl, rfl, rfl,
                ⟨fa.1, fa.2.1⟩, ⟨fb.1, fb.2.1⟩, ⟨fc.1, fc.2.1⟩, fract_congr _⟩

/-- Any character outside the alphabet `0-9 . / + - x y z` in one of the three components
(after removal of blanks and lower-casing) makes the whole operator a format error. -/
theorem symop_rejects (s : List Char) (a b c : List Char) (rest : List (List Char))
    (hsp : splitComma (normalize s) = a :: b :: c :: rest)
    (hbad : ∃ ch ∈ a ++ b ++ c, inAlphabet ch = false) :
    parseSymOp s = .error .format := by
  obtain ⟨ch, hmem, hch⟩ := hbad
  have key : ∀ cs toks, parseRow cs = some toks → ch ∈ cs → False := by
    intro cs toks hp hm
    have := (scanRow_alphabet _ _ _ _ hp).1 ch hm
    rw [this] at hch; cases hch
  simp only [List.mem_append] at hmem
  unfold parseSymOp
  simp only [hsp]
  cases ha : parseRow a with
  | none => rfl
  | some ta =>
    cases hb : parseRow b with
    | none => rfl
    | some tb =>
      cases hc : parseRow c with
      | none => rfl
      | some tc =>
        rcases hmem with (hm | hm) | hm
        · exact (key _ _ ha hm).elim
        · exact (key _ _ hb hm).elim
        · exact (key _ _ hc hm).elim

/-- fewer than three components: never accepted (the source raises `IndexError` on `eqlist[i]`, or
reports a malformed earlier component first) -/
theorem symop_too_few (s : List Char) (h : (splitComma (normalize s)).length < 3) :
    parseSymOp s = .error .index ∨ parseSymOp s = .error .format := by
  unfold parseSymOp
  cases hsp : splitComma (normalize s) with
  | nil => exact Or.inl rfl
  | cons a rest =>
    simp only
    cases parseRow a with
    | none => exact Or.inr rfl
    | some ta =>
      cases rest with
      | nil => exact Or.inl rfl
      | cons b rest2 =>
        simp only
        cases parseRow b with
        | none => exact Or.inr rfl
        | some tb =>
          cases rest2 with
          | nil => exact Or.inl rfl
          | cons c rest3 => rw [hsp] at h; simp at h; omega

/-- all 27 rows with entries in {-1,0,1} -/
def rows27 : List (Int × Int × Int) :=
  [-1, 0, 1].flatMap fun a => [-1, 0, 1].flatMap fun b => [-1, 0, 1].map fun c => (a, b, c)

/-- rendering then parsing a row gives the row back: rotation entries exactly, translation `k/24` as
the same rational in `[0,1)` -/
def roundTripsRow (r : Int × Int × Int) (k : Nat) : Bool :=
  match parseRow (renderRow r k) with
  | some toks => rowVec toks == r && (rowConst toks).fract.num * 24 == (k : Int) * (rowConst toks).fract.den
  | none => false

theorem render_parse : ∀ r ∈ rows27, ∀ k ∈ List.range 24, roundTripsRow r k = true := by
  decide +kernel

/-! ### (b) sinks -/

/-- The reviewed exceptions.  Each entry is matched on module, function, kind, the derivation of the
critical argument (single-assignment locals substituted) and the preceding `if …: raise` guards, so
any change to one of these call sites invalidates the entry. -/
def allowList : List Allow := [
  { module := "parsers", func := "getParser", kind := .exec,
    derivation := "'from diffpy.structure.parsers import %s as pm' % parser_index[format]['module']",
    guards := "format not in parser_index",
    reason := "the imported module name is the 'module' value of the literal registry `parser_index`; the format name comes from the caller (Structure.read / loadStructure / transtru), never from file content, and unknown names are rejected before the lookup" },
  { module := "parsers.p_cif", func := "P_cif._get_atom_setters", kind := .getattr,
    derivation := "P_cif . (P_cif._atom_setters.get('_tr' + p.lower(), '_tr_ignore'))",
    guards := "",
    reason := "the attribute name is a value of the class-level table `_atom_setters` (built from a literal tuple of `_tr_*` method names) or the literal default; a loop tag from the file only selects among them; the object is the parser class" },
  { module := "parsers.p_xcfg", func := "_assign_auxiliaries", kind := .setattr,
    derivation := "a . (prop if prop[1] <= prop[2] else prop[0] + prop[2] + prop[1])",
    guards := "",
    reason := "sets a displacement-parameter attribute (U11..B33 after index ordering) on the atom being built; the value is a float of the data row" },
  { module := "parsers.p_xcfg", func := "_assign_auxiliaries", kind := .setattr,
    derivation := "a . (prop)",
    guards := "",
    reason := "auxiliary column name from the file used as attribute name on the returned atom only; the value is a float of the data row; no call results" }
]

/-- no eval/exec/compile/import/process/file-writing/unpickling call on the parse path takes a
possibly file-derived argument, outside the reviewed list -/
theorem no_tainted_exec_sink : taintedExecSinks allowList Gen.sinks = [] := by decide

/-- no getattr/setattr/format call on the parse path takes a possibly file-derived name, outside the
reviewed list (in particular the format-field expressions of XCFG auxiliaries are used only by the
writer, which is not on the parse path) -/
theorem attr_sinks_reviewed : taintedAttrSinks allowList Gen.sinks = [] := by decide

/-- the translator's plain-text scan for `eval(`/`exec(`/`compile(`/`__import__(` agrees with its ast pass -/
theorem sink_scan_crosscheck : Gen.sinkCrosscheck = true := by decide

/-- the only sinks of kind eval/exec/compile/import anywhere in the reachable modules are the
allow-listed ones (so `getSymOp` contains no evaluator) -/
theorem no_eval_anywhere :
    (Gen.sinks.filter fun s => (s.kind == .eval || s.kind == .exec || s.kind == .compile || s.kind == .import_
        || s.kind == .importlib) && !allowed allowList s) = [] := by decide

/-! ### non-vacuity -/

/-- every allow-list entry is in use (a stale entry fails the build) -/
example : allowList.all (fun a => Gen.sinks.any a.covers) = true := by decide

/-- the parse path contains sinks (the filters above do not run over an empty list) -/
example : (Gen.sinks.filter (·.onParsePath)).length ≥ 4 := by decide

example : ∃ o, parseSymOp "x, 1/2-Y, z+.5".toList = .ok o ∧ o.r2 = (0, -1, 0) ∧ o.t2 = ⟨1, 2⟩ ∧ o.t3 = ⟨5, 10⟩ :=
  ⟨_, rfl, by decide, by decide, by decide⟩

example : parseSymOp "x,y,z+__import__('os').getcwd()".toList = .error .format := by rfl
example : parseSymOp "x,y,2**-1".toList = .error .format := by rfl
example : parseSymOp "x,y,(1)/2".toList = .error .format := by rfl
example : parseSymOp "x,y,1e0".toList = .error .format := by rfl
example : parseSymOp "x,y".toList = .error .index := by rfl

end DS.Props.C17
