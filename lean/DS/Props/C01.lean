import DS.Lemmas.Lattice

/-!
# C01 — fractional and Cartesian descriptions of a lattice are the same geometry

All statements are over ℝ about the scalar-generic model `DS.Lattice` (`DS/Model/Lattice.lean`), whose
`Float` instance is compared with `diffpy.structure.lattice.Lattice` on every run (`harness/c01.py`).

Hypotheses are explicit:
* `Lattice.ValidCS p` : `a b c > 0`; per angle `s² + c² = 1`, `s > 0`; `V² = 1 + 2·ca·cb·cg − ca² − cb² − cg²`, `V > 0`;
* `Lattice.IsRot Q`   : `Q·Qᵀ = 1`, `det Q = 1`;  `Lattice.Valid p Q` is the conjunction;
* `Lattice.ValidPar a b c α β γ` : the same for a cell given in degrees (`0 < α,β,γ < 180`, positive volume);
  `valid_of_angles` turns it into `Valid` for the data `setLatPar` computes with `cosd`/`sind`;
* `0 < det B` for `setLatBase`; `ofBase_sound` shows that every such base is `ofCS` of valid data with a proper
  rotation, so every theorem below applies to it (`*_ofBase` corollaries).
-/
namespace DS.Props.C01
open DS DS.Lattice Real

/-! ## bridging: the hypotheses hold for every cell given by parameters and for every right-handed base -/

/-- `Lattice(a,b,c,α,β,γ,baserot=Q)` is `ofCS` of valid data -/
theorem valid_of_angles {a b c al be ga : ℝ} {Q : Mat3 ℝ} (h : ValidPar a b c al be ga) (hQ : IsRot Q) :
    Valid (csOfPar a b c al be ga) Q ∧ ofPar a b c al be ga Q = ofCS (csOfPar a b c al be ga) Q :=
  ⟨valid_ofPar h hQ, rfl⟩

/-- soundness of `setLatBase` / `Lattice(base=B)` for every `B` with `det B > 0`: the recovered lengths,
cosines, sines and volume are valid, `baserot` is a proper rotation, `stdbase·baserot = B`, `base = B`,
`recbase = B⁻¹`, and the object is the one `setLatPar` builds from these data -/
theorem ofBase_sound {B : Mat3 ℝ} (hB : 0 < B.det) :
    Valid (csOfBase B) (ofBase B).baserot ∧ ofBase B = ofCS (csOfBase B) (ofBase B).baserot ∧
    (ofBase B).base = B ∧ (ofBase B).stdbase.mul (ofBase B).baserot = B ∧
    (ofBase B).baserot.mul (ofBase B).baserot.transpose = Mat3.one ∧ (ofBase B).baserot.det = 1 ∧
    B.mul B.transpose = (ofBase B).metrics := by
  obtain ⟨hv, h⟩ := Lattice.ofBase_sound hB
  have hr : (ofBase B).baserot = (S0 (csOfBase B)).inv.mul B := by rw [h]; rfl
  rw [hr]
  refine ⟨hv, h, rfl, ?_, hv.rot.orth, hv.rot.det_one, (csOfBase_valid hB).2⟩
  rw [← hr]; exact ofBase_std_rot hB

/-! ## the theorems (for `L = ofCS p Q` with `Valid p Q`) -/

theorem base_mul_recbase {p : CellCS ℝ} {Q : Mat3 ℝ} (h : Valid p Q) :
    (ofCS p Q).base.mul (ofCS p Q).recbase = Mat3.one := Lattice.base_mul_recbase h

theorem recbase_mul_base {p : CellCS ℝ} {Q : Mat3 ℝ} (h : Valid p Q) :
    (ofCS p Q).recbase.mul (ofCS p Q).base = Mat3.one := Lattice.recbase_mul_base h

/-- converting to Cartesian and back is the identity -/
theorem frac_cart {p : CellCS ℝ} {Q : Mat3 ℝ} (h : Valid p Q) (u : Vec3 ℝ) :
    (ofCS p Q).fractional ((ofCS p Q).cartesian u) = u := Lattice.frac_cart h u

theorem cart_frac {p : CellCS ℝ} {Q : Mat3 ℝ} (h : Valid p Q) (r : Vec3 ℝ) :
    (ofCS p Q).cartesian ((ofCS p Q).fractional r) = r := Lattice.cart_frac h r

/-- the metric tensor as written in the code is the Gram matrix of the base vectors -/
theorem metrics_eq_gram {p : CellCS ℝ} {Q : Mat3 ℝ} (h : Valid p Q) :
    (ofCS p Q).metrics = (ofCS p Q).base.mul (ofCS p Q).base.transpose := Lattice.metrics_eq_gram h

theorem dot_eq {p : CellCS ℝ} {Q : Mat3 ℝ} (h : Valid p Q) (u v : Vec3 ℝ) :
    (ofCS p Q).dot u v = Vec3.dot ((ofCS p Q).cartesian u) ((ofCS p Q).cartesian v) := Lattice.dot_eq h u v

/-- `norm` is the Euclidean length of the Cartesian image, and agrees with the metric tensor -/
theorem norm_eq {p : CellCS ℝ} {Q : Mat3 ℝ} (h : Valid p Q) (u : Vec3 ℝ) :
    (ofCS p Q).norm u = Real.sqrt (Vec3.dot ((ofCS p Q).cartesian u) ((ofCS p Q).cartesian u)) ∧
    (ofCS p Q).norm u ^ 2 = (ofCS p Q).dot u u := ⟨rfl, Lattice.norm_sq h u⟩

/-- `dist` is the Euclidean distance of the Cartesian images -/
theorem dist_eq (L : Lattice ℝ) (u v : Vec3 ℝ) :
    L.dist u v = Real.sqrt (Vec3.dot (Vec3.sub (L.cartesian u) (L.cartesian v)) (Vec3.sub (L.cartesian u) (L.cartesian v))) :=
  Lattice.dist_eq L u v

/-- `angle` is the Euclidean angle (in degrees) of the Cartesian images; the clip to [−1,1] never acts (Cauchy–Schwarz) -/
theorem angle_eq {p : CellCS ℝ} {Q : Mat3 ℝ} (h : Valid p Q) (u v : Vec3 ℝ) :
    (ofCS p Q).angle u v =
      Real.arccos (Vec3.dot ((ofCS p Q).cartesian u) ((ofCS p Q).cartesian v) /
        (Real.sqrt (Vec3.dot ((ofCS p Q).cartesian u) ((ofCS p Q).cartesian u)) *
         Real.sqrt (Vec3.dot ((ofCS p Q).cartesian v) ((ofCS p Q).cartesian v)))) * 180 / π :=
  Lattice.angle_eq h u v

/-- the base vectors have exactly the lengths given -/
theorem row_norms {p : CellCS ℝ} {Q : Mat3 ℝ} (h : Valid p Q) :
    Real.sqrt (Vec3.dot (ofCS p Q).base.row1 (ofCS p Q).base.row1) = p.a ∧
    Real.sqrt (Vec3.dot (ofCS p Q).base.row2 (ofCS p Q).base.row2) = p.b ∧
    Real.sqrt (Vec3.dot (ofCS p Q).base.row3 (ofCS p Q).base.row3) = p.c := Lattice.row_norms h

/-- the base vectors have exactly the mutual angles given: `b·c = |b||c| cos α`, … -/
theorem row_angles {p : CellCS ℝ} {Q : Mat3 ℝ} (h : Valid p Q) :
    Vec3.dot (ofCS p Q).base.row2 (ofCS p Q).base.row3 = p.b * p.c * p.ca ∧
    Vec3.dot (ofCS p Q).base.row1 (ofCS p Q).base.row3 = p.a * p.c * p.cb ∧
    Vec3.dot (ofCS p Q).base.row1 (ofCS p Q).base.row2 = p.a * p.b * p.cg := by
  obtain ⟨-, -, -, h23, h13, h12⟩ := Lattice.row_dots h
  exact ⟨h23, h13, h12⟩

/-- duality: `aᵢ · a*ⱼ = δᵢⱼ` for the rows `aᵢ` of `base` and the rows `a*ⱼ` of `recbaseᵀ` -/
theorem recbase_dual {p : CellCS ℝ} {Q : Mat3 ℝ} (h : Valid p Q) :
    let B := (ofCS p Q).base
    let R := (ofCS p Q).recbase.transpose
    Vec3.dot B.row1 R.row1 = 1 ∧ Vec3.dot B.row1 R.row2 = 0 ∧ Vec3.dot B.row1 R.row3 = 0 ∧
    Vec3.dot B.row2 R.row1 = 0 ∧ Vec3.dot B.row2 R.row2 = 1 ∧ Vec3.dot B.row2 R.row3 = 0 ∧
    Vec3.dot B.row3 R.row1 = 0 ∧ Vec3.dot B.row3 R.row2 = 0 ∧ Vec3.dot B.row3 R.row3 = 1 := by
  intro B R
  have hm := Lattice.base_mul_recbase h
  exact ⟨congrArg Mat3.a11 hm, congrArg Mat3.a12 hm, congrArg Mat3.a13 hm, congrArg Mat3.a21 hm, congrArg Mat3.a22 hm,
    congrArg Mat3.a23 hm, congrArg Mat3.a31 hm, congrArg Mat3.a32 hm, congrArg Mat3.a33 hm⟩

/-- `rnorm hkl` is the Euclidean length of the Cartesian reciprocal vector `h* = hkl·recbaseᵀ`, which is
characterised by `h*·cart u = hkl·u`; along the axes it gives the reciprocal cell lengths, and the Gram matrix of
the reciprocal base is the metric tensor of the reciprocal cell parameters -/
theorem rnorm_eq {p : CellCS ℝ} {Q : Mat3 ℝ} (h : Valid p Q) (hkl : Vec3 ℝ) :
    (ofCS p Q).rnorm hkl = Real.sqrt (Vec3.dot (Mat3.vecMul hkl (ofCS p Q).recbase.transpose) (Mat3.vecMul hkl (ofCS p Q).recbase.transpose)) ∧
    (∀ u, Vec3.dot (Mat3.vecMul hkl (ofCS p Q).recbase.transpose) ((ofCS p Q).cartesian u) = Vec3.dot hkl u) ∧
    (ofCS p Q).rnorm ⟨1, 0, 0⟩ = (ofCS p Q).ar ∧ (ofCS p Q).rnorm ⟨0, 1, 0⟩ = (ofCS p Q).br ∧
    (ofCS p Q).rnorm ⟨0, 0, 1⟩ = (ofCS p Q).cr ∧
    (ofCS p Q).recbase.transpose.mul (ofCS p Q).recbase.transpose.transpose =
      metricsOf (ofCS p Q).ar (ofCS p Q).br (ofCS p Q).cr (ofCS p Q).car (ofCS p Q).cbr (ofCS p Q).cgr := by
  obtain ⟨r1, r2, r3⟩ := Lattice.rnorm_axes h
  exact ⟨rfl, fun u => Lattice.recip_pairing h hkl u, r1, r2, r3, Lattice.recip_gram h⟩

/-- `a·b·c·V = det base`, and for a cell given in degrees `volume = det base` -/
theorem volume_eq_det {p : CellCS ℝ} {Q : Mat3 ℝ} (h : Valid p Q) :
    p.a * p.b * p.c * p.V = (ofCS p Q).base.det := (Lattice.base_det h).symm

theorem volume_eq_det_ofPar {a b c al be ga : ℝ} {Q : Mat3 ℝ} (h : ValidPar a b c al be ga) (hQ : IsRot Q) :
    (ofPar a b c al be ga Q).volume = (ofPar a b c al be ga Q).base.det := Lattice.volume_eq_det h hQ

/-- the exact values in `_EXACT_COSD` are the true cosines -/
theorem cosd_table_exact : ∀ e ∈ cosdTable, (Elem.cosd e.1 : ℝ) = e.2 := Lattice.cosd_table_exact

/-- reducing the argument modulo 360 before the lookup is sound, and `sind x = cosd (90 − x)` -/
theorem cosd_periodic (x : ℝ) (k : ℤ) : (Elem.cosd (x + 360 * k) : ℝ) = Elem.cosd x := Lattice.cosd_periodic x k

theorem sind_eq_cosd (x : ℝ) : (Elem.sind x : ℝ) = Elem.cosd (90 - x) := Lattice.sind_eq_cosd x

/-- a multiple of the unit isotropic tensor is never reported anisotropic (deviation exactly 0) -/
theorem isotropic_udev {p : CellCS ℝ} (Q : Mat3 ℝ) (s : ℝ) :
    (ofCS p Q).udev (Mat3.smul s (ofCS p Q).isotropicunit) = Mat3.zero :=
  Lattice.udev_isotropic _ (Lattice.isounit_diag p _) s

/-! ## corollaries for lattices given by base vectors -/

theorem frac_cart_ofBase {B : Mat3 ℝ} (hB : 0 < B.det) (u : Vec3 ℝ) :
    (ofBase B).fractional ((ofBase B).cartesian u) = u ∧ (ofBase B).cartesian ((ofBase B).fractional u) = u := by
  obtain ⟨hv, h, -⟩ := ofBase_sound hB
  rw [h]; exact ⟨Lattice.frac_cart hv u, Lattice.cart_frac hv u⟩

theorem dot_eq_ofBase {B : Mat3 ℝ} (hB : 0 < B.det) (u v : Vec3 ℝ) :
    (ofBase B).dot u v = Vec3.dot (Mat3.vecMul u B) (Mat3.vecMul v B) := by
  obtain ⟨hv, h, -⟩ := ofBase_sound hB
  have := Lattice.dot_eq hv u v
  rw [← h] at this
  exact this

theorem volume_eq_det_ofBase {B : Mat3 ℝ} (hB : 0 < B.det) : (ofBase B).volume = B.det := by
  have hw := wf_ofBase hB
  have h := Lattice.volume_eq_det hw.par hw.rot
  rw [← hw.coherent] at h
  exact h

/-! ## non-vacuity -/

/-- the rational cell `a,b,c = 3,4,5`, `α = β = 90°`, `cos γ = 3/5`, `sin γ = 4/5`, `V = 4/5` -/
noncomputable def exCell : CellCS ℝ :=
  { a := 3, b := 4, c := 5, alpha := 90, beta := 90, gamma := 0, ca := 0, cb := 0, cg := 3 / 5, sa := 1, sb := 1, sg := 4 / 5, V := 4 / 5 }

/-- rotation by 90° about z -/
def exRot : Mat3 ℝ := ⟨0, 1, 0, -1, 0, 0, 0, 0, 1⟩

theorem exCell_valid : ValidCS exCell := by
  constructor <;> simp only [exCell] <;> norm_num

theorem exRot_isRot : IsRot exRot := by
  constructor
  · apply Mat3.ext' <;> simp [Mat3.mul, Mat3.transpose, Mat3.one, exRot]
  · simp [Mat3.det, exRot]

/-- `Valid` is satisfiable: standard orientation and a rotated copy -/
example : Valid exCell Mat3.one ∧ Valid exCell exRot := ⟨⟨exCell_valid, isRot_one⟩, ⟨exCell_valid, exRot_isRot⟩⟩

/-- the theorems apply to it, e.g. the round trip and the row dot product `a·b = 3·4·(3/5)` -/
example (u : Vec3 ℝ) : (ofCS exCell exRot).fractional ((ofCS exCell exRot).cartesian u) = u :=
  frac_cart ⟨exCell_valid, exRot_isRot⟩ u

example : Vec3.dot (ofCS exCell exRot).base.row1 (ofCS exCell exRot).base.row2 = 3 * 4 * (3 / 5) :=
  (row_angles ⟨exCell_valid, exRot_isRot⟩).2.2

theorem cos60 : Real.cos ((60 : ℝ) * π / 180) = 1 / 2 := by
  rw [show (60 : ℝ) * π / 180 = π / 3 by ring]; exact Real.cos_pi_div_three
theorem cos90 : Real.cos ((90 : ℝ) * π / 180) = 0 := by
  rw [show (90 : ℝ) * π / 180 = π / 2 by ring]; exact Real.cos_pi_div_two

/-- `ValidPar` is satisfiable with a non-right angle: the hexagonal-type cell 3, 4, 5, 90°, 90°, 60° -/
theorem exPar_valid : ValidPar 3 4 5 90 90 60 := by
  refine ⟨by norm_num, by norm_num, by norm_num, by norm_num, by norm_num, by norm_num, by norm_num, by norm_num, by norm_num, ?_⟩
  rw [cos60, cos90]; norm_num

example : Valid (csOfPar 3 4 5 90 90 60) exRot := (valid_of_angles exPar_valid exRot_isRot).1

/-- a right-handed, non-orthogonal base for `ofBase_sound` -/
def exBase : Mat3 ℝ := ⟨1, 0, 0, 1, 2, 0, 0, 1, 3⟩
theorem exBase_det : 0 < exBase.det := by simp [Mat3.det, exBase]
example : (ofBase exBase).base = exBase ∧ (ofBase exBase).baserot.det = 1 :=
  ⟨(ofBase_sound exBase_det).2.2.1, (ofBase_sound exBase_det).2.2.2.2.2.1⟩

end DS.Props.C01
