import DS.Lemmas.Lattice

namespace DS.Props.C01
open DS

/-- placeholder while the harness is brought up (replaced below) -/
theorem setLatBase_total (L : Lattice ℝ) (B : Mat3 ℝ) : L.setLatBase B = Lattice.ofBase B :=
  Lattice.setLatBase_eq L B

end DS.Props.C01
