import DS.Gen.SrcWriters
/-!
# Source tie of the writers (`toLines` of the parsers) — property C04

`DS/Gen/SrcWriters.lean` is written on every run by `translate/src_writers.py` from the current
`src/diffpy/structure/parsers/p_{xyz,rawxyz,discus,pdffit,pdb,xcfg,cif}.py`.  The theorems below state that the writer
models of `DS/Model/Formats.lean` — the functions `roundtrip_*` / `idem_*` of `DS.Props.C04` are about — ARE what the
source says now.

* xyz, rawxyz, discus, pdffit, pdb: `toLines` is transliterated statement by statement into a Lean function of the
  model's document type, every `"<template>" % args` being `pyFormat <pieces> <args>` of `DS/Model/PyFormat.lean`;
  `writeXyz_eq`, `writeRaw_eq`, `writeDiscus_eq`, `writePdffit_eq`, `writePdb_eq` are equalities of functions (for ALL
  documents), with per-record lemmas (`xyzLine_eq`, `discusAtomLine_eq`, `pdffitAtomLines_eq`, `pdbTitleLine_eq`,
  `pdbCryst_eq`, `pdbAtomLines_eq`, `pdbTerLine_eq`).  Every width, precision, separator, keyword and the order of the
  records is therefore read from the source: changing one in `/repo` breaks the equality.
  PDB: `writePdb_eq` needs six numbers in every ANISOU document field (`anisoLen6`; the source formats a 6-tuple and
  would raise `TypeError` otherwise — the model prints any list); the chunking loop of `titleLines` (a `while` with
  `rfind(" ", 10, 60)`) is tied as normalised text (`pdb_titleLines_src_data`), its record and continuation number are
  transliterated; the SIGATM / SIGUIJ branch is bound to `False` (documents carry zero standard deviations) and its
  condition is pinned by `pdb_skipped_data`.
* xcfg, cif: control flow outside the transliterated subset.  `writeXcfg_templates` / `writeCif_templates` restate the
  model writers with every formatted line given by `pyFormat` of the template READ FROM THE SOURCE (`tplOf … k` = the
  k-th `%` template of `toLines` in source order), and `xcfg_toLines_src_data`, `xcfg_is_derived_src_data`,
  `cif_toLines_src_data` pin the normalised text of the functions (docstring removed, local names replaced by their
  position of first binding): any other change of these two writers is seen as a change of that text.
* `templates_parse`: the Lean template parser reads every source string into exactly the pieces the translator emitted.
* The interpreter `pyFormat` and the Lean template parser are compared with CPython's `%` on every run by harness/c04.py
  (`pyformat_differential`: every template of the seven writers on random arguments, evaluated by `lean`).
-/
namespace DS.Props.SrcWriters
open DS.Dec DS.Formats DS.PyFormat DS.Src.Writers

/-! ## helpers -/

theorem flatten_map_single {α β} (f : α → β) (l : List α) : (l.map (fun a => [f a])).flatten = l.map f := by
  induction l with
  | nil => rfl
  | cons a l ih => simp [ih]

theorem padLeft_zero (s : Str) : padLeft 0 s = s := by simp [padLeft]

theorem fmtIbody_one : fmtIbody 1 = ['1'] := by
  simp [fmtIbody, signStr, natDigits, digitChar]

theorem fmtIbody_nat (n : Nat) : fmtIbody (n : Int) = natDigits n := by
  simp [fmtIbody, signStr]

/-- the k-th `%` template of a function, as read from the source -/
def tplOf (l : List (String × List Piece × String)) (k : Nat) : List Piece := (l.getD k ("", [], "")).2.1

/-! ## the Lean template parser agrees with the translator's on every template of the seven writers -/

theorem templates_parse : allTemplates.all (fun p => decide (parseTemplate p.1 = some p.2)) = true := by
  decide +kernel

/-! ## XYZ, raw XYZ -/

theorem xyzLine_eq (d : XyzS) (a : PAtom) : xyz_toLines_forAtom d a = [xyzLine a] := by
  simp [xyz_toLines_forAtom, xyzLine, pyFormat, fmtTuple, conv1, padNum, padStr, precStr, padLeft_zero]

theorem writeXyz_eq (d : XyzS) : writeXyz d = xyz_toLines d := by
  simp [writeXyz, xyz_toLines, xyzLine_eq, flatten_map_single]

theorem rawLine_eq (d : List PAtom) (a : PAtom) : rawxyz_toLines_forAtom d a = [rawLine a] := by
  simp [rawxyz_toLines_forAtom, rawLine, pyFormat, fmtTuple, conv1, padNum, padStr, precStr, padLeft_zero]

theorem writeRaw_eq (d : List PAtom) : writeRaw d = rawxyz_toLines d := by
  simp [writeRaw, rawxyz_toLines, rawLine_eq, flatten_map_single]

/-! ## DISCUS -/

theorem discusAtomLine_eq (d : DiscusS) (a : DAtom) : discus_toLines_forAtom d a = [discusAtomLine a] := by
  simp [discus_toLines_forAtom, discusAtomLine, ssv, joinSep, fmtF, pyFormat, fmtTuple, conv1, padNum, padStr, precStr]

theorem writeDiscus_eq (d : DiscusS) : writeDiscus d = discus_toLines d := by
  simp [writeDiscus, discus_toLines, discusAtomLine_eq, shapeLines, cellLine, ncellLine, csv, joinSep, Cell6.toList, sp,
    kwTitle, kwSpcgr, kwShape, kwSphere, kwStepcut, kwCell, kwNcell, kwAtoms,
    pyFormat, fmtTuple, conv1, padNum, padStr, precStr, padLeft_zero, flatten_map_single,
    fmtF, fmtI, List.replicate]

theorem discus_skipped_data : discus_skipped =
    ["stru = stru", "if not isinstance(stru, PDFFitStructure):\n    stru = PDFFitStructure(stru)",
     "if stru.pdffit:\n    PF.update(stru.pdffit)"] := by
  rfl

/-! ## PDFfit -/

theorem pdffitAtomLines_eq (d : PdffitS) (a : PFAtom) : pdffit_toLines_forAtom d a = pdffitAtomLines a := by
  simp [pdffit_toLines_forAtom, pdffitAtomLines, f3, ssv, joinSep, sp, fmtF, 
    pyFormat, fmtTuple, conv1, padNum, padStr, precStr, List.replicate]

theorem writePdffit_eq (d : PdffitS) : writePdffit d = pdffit_toLines d := by
  simp [writePdffit, pdffit_toLines, pdffitAtomLines_eq, shapeLines, cellLine, ncellLine, csv, joinSep, Cell6.toList, sp,
    kwTitle, kwSpcgr, kwShape, kwSphere, kwStepcut, kwCell, kwDcell, kwNcell, kwAtoms, kwFormat, kwPdffit, kwScale, kwSharp,
    pyFormat, fmtTuple, conv1, padNum, padStr, precStr, padLeft_zero,
    fmtF, fmtI, List.replicate]

theorem pdffit_skipped_data : pdffit_skipped = ["if stru.pdffit:\n    PF.update(stru.pdffit)"] := by
  rfl

/-! ## PDB -/

theorem pdbTitleLine_eq (k : Nat) (chunk : Str) : pdbTitleLine k chunk = pdb_titleRecord (pdb_titleCont k) chunk := by
  simp [pdbTitleLine, pdb_titleRecord, pdb_titleCont, kwTITLE, sp, fmtI, pyFormat, fmtTuple, conv1, padNum, padStr,
    precStr, List.replicate]

theorem pdbTitleLines_eq (d : PdbS) : pdbTitleLines d.title = pdb_titleLines d := by
  simp [pdbTitleLines, pdb_titleLines, pdbTitleLine_eq]

/-- the chunking loop of `titleLines` (what `titleChunks` models): normalised text -/
theorem pdb_titleLines_src_data : pdb_titleLines_src =
  "def f(_0, _1):\n    _2 = []\n    _3 = _1.title\n    while _3 != '':\n        _4 = len(_3)\n        if _4 > 60:\n            _4 = _3.rfind(' ', 10, 60)\n            if _4 < 0:\n                _4 = 60\n        if len(_2) == 0:\n            _5 = '  '\n        else:\n            _5 = '%2i' % (len(_2) + 1)\n        _2.append('%-80s' % ('TITLE   ' + _5 + _3[0:_4]))\n        _3 = _3[_4:]\n    return _2" := by
  rfl

theorem pdbCryst_eq (d : PdbS) : (match d.cell with | none => [] | some c => [pdbCrystLine c]) = pdb_cryst1Lines d := by
  cases h : d.cell <;>
  simp [pdb_cryst1Lines, h, pdbCrystLine, kwCRYST1, fmtF, pyFormat, fmtTuple, conv1, padNum, padStr, precStr]

/-- an ANISOU document field has six numbers (the source formats a 6-tuple) -/
def anisoLen6 (a : PdbAtom) : Prop := ∀ u, a.aniso = some u → u.length = 6

theorem pdbAtomLines_eq (idx : Nat) (a : PdbAtom) (h : anisoLen6 a) : pdbAtomLines (idx + 1) a = pdb_atomLines idx a := by
  cases hu : a.aniso with
  | none =>
    simp [pdbAtomLines, pdb_atomLines, hu, pdbAtomLine, pdbMid, kwATOM, sp, fmtF, fmtI, pyFormatD, fmtDict, lookup, conv1,
      padNum, padStr, precStr, fmtIbody_one, padLeft, padRight, List.replicate]
  | some u =>
    obtain ⟨u0, u1, u2, u3, u4, u5, rfl⟩ : ∃ u0 u1 u2 u3 u4 u5, u = [u0, u1, u2, u3, u4, u5] := by
      have := h u hu
      match u, this with
      | [u0, u1, u2, u3, u4, u5], _ => exact ⟨_, _, _, _, _, _, rfl⟩
    simp [pdbAtomLines, pdb_atomLines, hu, pdbAtomLine, pdbAnisouLine, pdbMid, kwATOM, kwANISOU, sp, fmtF, fmtI, 
      pyFormatD, fmtDict, lookup, conv1, padNum, padStr, precStr, pyFormat, fmtTuple, fmtIbody_one, padLeft, padRight, List.replicate]

example : anisoLen6 ⟨['C'], ['C'], ⟨0, 0, 0⟩, 1, 0, some [1, 2, 3, 0, 0, 0]⟩ := by
  intro u h; cases h; rfl

theorem pdbAtomsLines_eq (k : Nat) (as : List PdbAtom) (h : ∀ a ∈ as, anisoLen6 a) :
    pdbAtomsLines k as = ((as.zipIdx k).map (fun p => pdb_atomLines p.2 p.1)).flatten := by
  induction as generalizing k with
  | nil => simp [pdbAtomsLines]
  | cons a as ih =>
    have ha := h a (by simp)
    have hr : ∀ b ∈ as, anisoLen6 b := fun b hb => h b (by simp [hb])
    simp [pdbAtomsLines, List.zipIdx_cons, pdbAtomLines_eq k a ha, ih (k + 1) hr]

theorem pdbTerLine_eq (n : Nat) : pdbTerLine n =
    pyFormatD pdb_t6 [("serial".toList, Val.int ((n : Int) + 1)), ("resName".toList, Val.str []),
      ("chainID".toList, Val.str [' ']), ("resSeq".toList, Val.int 1), ("iCode".toList, Val.str [' ']),
      ("blank".toList, Val.str [' '])] := by
  simp [pdbTerLine, kwTER, sp, fmtI, pyFormatD, fmtDict, lookup, conv1, padNum, padStr, precStr, fmtIbody_one, padLeft,
    padRight, List.replicate]

theorem writePdb_eq (d : PdbS) (h : ∀ a ∈ d.atoms, anisoLen6 a) : writePdb d = pdb_toLines d := by
  simp only [writePdb, pdb_toLines, pdbTitleLines_eq, pdbAtomsLines_eq 0 d.atoms h, pdbTerLine_eq]
  simp [kwEND, pyFormat, fmtTuple, conv1, padStr, precStr]
  exact pdbCryst_eq d

/-- the documents of the round-trip theorem satisfy the hypothesis of `writePdb_eq` -/
theorem anisoLen6_of_repr (d : PdbS) (h : reprPdb d = true) : ∀ a ∈ d.atoms, anisoLen6 a := by
  intro a ha u hu
  simp only [reprPdb, Bool.and_eq_true, List.all_eq_true] at h
  have := h.1.2 a ha
  simp only [pdbAtomOk, hu, Bool.and_eq_true] at this
  have hk := this.2
  match u, hk with
  | [_, _, _, _, _, _], _ => rfl

/-- the only statement of the PDB writer left out: the SIGATM / SIGUIJ branch, with its condition -/
theorem pdb_skipped_data : pdb_skipped =
  ["if numpy.any(numpy.fabs(numpy.concatenate((a.sigxyz, [a.sigo], [8 * pi ** 2 * numpy.average([a.sigU[i, i] for i in range(3)])]))) >= numpy.array(3 * [0.0005] + 2 * [0.005])) or numpy.any(numpy.fabs(a.sigU) > 5e-05): <4 statements, never taken for the model's documents>"] := by
  rfl

/-! ## XCFG, CIF: the model writers use the templates of the source; the functions as normalised text -/

theorem xcfg_t0_eq (n : Nat) : pyFormat (tplOf xcfg_toLines_templates 0) [.int (n : Nat)] = "Number of particles = ".toList ++ natDigits n := by
  simp [tplOf, xcfg_toLines_templates, pyFormat, fmtTuple, conv1, padNum, padLeft_zero, fmtIbody_nat]

theorem xcfg_t1_eq (x : Rat) : pyFormat (tplOf xcfg_toLines_templates 1) [.num x] = "A = ".toList ++ g8 x ++ " Angstrom".toList := by
  simp [tplOf, xcfg_toLines_templates, pyFormat, fmtTuple, conv1, padNum, padLeft_zero, g8]

theorem xcfg_t2_eq (i j : Nat) (x : Rat) : pyFormat (tplOf xcfg_toLines_templates 2) [.int (i : Nat), .int (j : Nat), .num x] =
    "H0(".toList ++ nameI i ++ [','] ++ nameI j ++ ") = ".toList ++ g8 x ++ " A".toList := by
  simp [tplOf, xcfg_toLines_templates, pyFormat, fmtTuple, conv1, padNum, padLeft_zero, g8, nameI, fmtIbody_nat]

theorem xcfg_t3_eq (n : Nat) : pyFormat (tplOf xcfg_toLines_templates 3) [.int (n : Nat)] = "entry_count = ".toList ++ natDigits n := by
  simp [tplOf, xcfg_toLines_templates, pyFormat, fmtTuple, conv1, padNum, padLeft_zero, fmtIbody_nat]

theorem xcfg_t4_eq (n : Nat) (s : Str) : pyFormat (tplOf xcfg_toLines_templates 4) [.int (n : Nat), .str s] =
    "auxiliary[".toList ++ natDigits n ++ "] = ".toList ++ s ++ " [au]".toList := by
  simp [tplOf, xcfg_toLines_templates, pyFormat, fmtTuple, conv1, padNum, padStr, precStr, padLeft_zero, fmtIbody_nat]

/-- the header of the XCFG model is made of the `%` templates of the source, in source order -/
theorem writeXcfg_templates (d : XcfgS) : writeXcfg d =
    let L := xcfgLayout d
    let t := tplOf xcfg_toLines_templates
    [pyFormat (t 0) [.int (d.atoms.length : Nat)], pyFormat (t 1) [.num (L.a : Rat)]] ++
    ((List.range 9).map (fun k => pyFormat (t 2) [.int ((k / 3 + 1 : Nat) : Int), .int ((k % 3 + 1 : Nat) : Int), .num (d.base.getD k 0)])) ++
    (if L.noVel then [".NO_VELOCITY.".toList] else []) ++
    [pyFormat (t 3) [.int (((if L.noVel then 3 else 6) + L.aux.length : Nat) : Int)]] ++
    (L.aux.zipIdx.map (fun p => pyFormat (t 4) [.int (p.2 : Nat), .str p.1])) ++
    [[]] ++ xcfgAtomLines L none d.atoms := by
  simp only [xcfg_t0_eq, xcfg_t1_eq, xcfg_t2_eq, xcfg_t3_eq, xcfg_t4_eq]
  rfl

/-- the mass line `"%.4f" % AtomicMass.get(...)` -/
theorem xcfgMass_eq (x : Rat) : fmtF 0 4 x = pyFormat (tplOf xcfg_toLines_templates 5) [.num x] := by
  simp [tplOf, xcfg_toLines_templates, fmtF, pyFormat, fmtTuple, conv1, padNum]

theorem xcfg_toLines_src_data : xcfg_toLines_src =
  "def f(_0, _1):\n    if len(_1) == 0:\n        _2 = 'cannot convert empty structure to XCFG format'\n        raise StructureFormatError(_2)\n    _3 = []\n    _3.append('Number of particles = %i' % len(_1))\n    _4 = numpy.array([_5.xyz for _5 in _1])\n    _6 = _4.min(axis=0)\n    _7 = _4.max(axis=0)\n    _8 = (_7 - _6).max()\n    if numpy.allclose(_1.lattice.abcABG(), (1, 1, 1, 90, 90, 90)):\n        _8 += _0.cluster_boundary\n    _9 = numpy.ceil(_8 + 1e-13)\n    _10 = max([numpy.sqrt(numpy.dot(_11, _11)) for _11 in _1.lattice.base])\n    if _10 * _9 < 3.5:\n        _9 = numpy.ceil(3.5 / _10)\n    _3.append('A = %.8g Angstrom' % _9)\n    _12 = numpy.zeros(3, dtype=float)\n    for _13 in range(3):\n        if _6[_13] / _9 < 0.0 or _7[_13] / _9 >= 1.0 or (_6[_13] == _7[_13] and _6[_13] == 0.0):\n            _12[_13] = 0.5 - (_7[_13] + _6[_13]) / 2.0 / _9\n    for _13 in range(3):\n        for _14 in range(3):\n            _3.append('H0(%i,%i) = %.8g A' % (_13 + 1, _14 + 1, _1.lattice.base[_13, _14]))\n    if len(_1) == 0:\n        return _3\n    _15 = _1[0]\n    _16 = 'v' not in _15.__dict__\n    if _16:\n        _3.append('.NO_VELOCITY.')\n    try:\n        _17 = [(_18, 'a.' + _18) for _18 in _1.xcfg['auxiliaries'] if not _is_derived_auxiliary(_18)]\n    except AttributeError:\n        _17 = []\n    for _5 in _1:\n        if _5.occupancy != 1.0:\n            _17.append(('occupancy', 'a.occupancy'))\n            break\n    _19 = True\n    _20 = True\n    for _5 in _1:\n        if _19 and numpy.any(_5.U != 0.0):\n            _19 = False\n        if not numpy.all(_5.U == _5.U[0, 0] * numpy.identity(3)):\n            _20 = False\n            break\n    if _19:\n        pass\n    elif _20:\n        _17.append(('Uiso', 'uflat[0]'))\n    else:\n        _17.extend([('U11', 'uflat[0]'), ('U22', 'uflat[4]'), ('U33', 'uflat[8]')])\n        _21 = numpy.array([_5.U for _5 in _1])\n        if numpy.any(_21[:, 0, 1] != 0.0):\n            _17.append(('U12', 'uflat[1]'))\n        if numpy.any(_21[:, 0, 2] != 0.0):\n            _17.append(('U13', 'uflat[2]'))\n        if numpy.any(_21[:, 1, 2] != 0.0):\n            _17.append(('U23', 'uflat[5]'))\n    _22 = (3 if _16 else 6) + len(_17)\n    _3.append('entry_count = %d' % _22)\n    for _13 in range(len(_17)):\n        _3.append('auxiliary[%d] = %s [au]' % (_13, _17[_13][0]))\n    _23 = ['{pos[0]:.8g}', '{pos[1]:.8g}', '{pos[2]:.8g}']\n    if not _16:\n        _23 += ['{v[0]:.8g}', '{v[1]:.8g}', '{v[2]:.8g}']\n    _23 += ('{' + _25 + ':.8g}' for _24, _25 in _17)\n    _26 = ' '.join(_23)\n    _3.append('')\n    _27 = None\n    for _5 in _1:\n        if _5.element != _27:\n            _27 = _5.element\n            _3.append('%.4f' % AtomicMass.get(_27, 0.0))\n            _3.append(_27)\n        _28 = _5.xyz / _9 + _12\n        _11 = None if _16 else _5.v\n        _29 = numpy.ravel(_5.U)\n        _30 = _26.format(pos=_28, v=_11, uflat=_29, a=_5)\n        _3.append(_30)\n    return _3" := by
  rfl

theorem xcfg_is_derived_src_data : xcfg__is_derived_auxiliary_src =
  "def f(_0):\n    if _0 in ('occupancy', 'Uiso', 'Biso'):\n        return True\n    return len(_0) == 3 and _0[0] in 'BU' and all((_1 in '123' for _1 in _0[1:]))" := by
  rfl

theorem tagLine_eq (tag : String) (value : Str) :
    tagLine tag value = pyFormat (tplOf cif_toLines_templates 1) [.str tag.toList, .str value] := by
  simp [tagLine, tplOf, cif_toLines_templates, pyFormat, fmtTuple, conv1, padStr, precStr, padLeft_zero]

theorem cifCellLine_eq (tag : String) (x : Rat) :
    tagLine tag (fmtG 6 x) = pyFormat (tplOf cif_toLines_templates 6) [.str tag.toList, .num x] := by
  simp [tagLine, tplOf, cif_toLines_templates, pyFormat, fmtTuple, conv1, padStr, padNum, precStr, padLeft_zero]

theorem cifLabel_eq (e : Str) (n : Nat) :
    e ++ natDigits n = pyFormat (tplOf cif_toLines_templates 12) [.str e, .int (n : Nat)] := by
  simp [tplOf, cif_toLines_templates, pyFormat, fmtTuple, conv1, padStr, padNum, precStr, padLeft_zero, fmtIbody_nat]

theorem cifAtomLine_eq (label : Str) (a : CifAtom) : cifAtomLine label a =
    pyFormat (tplOf cif_toLines_templates 13) [.str label, .str a.el, .num a.xyz.x, .num a.xyz.y, .num a.xyz.z, .num a.uiso,
      .str (if uIsIso a.u then "Uiso".toList else "Uani".toList), .num a.occ] := by
  simp [cifAtomLine, ssv, joinSep, sp, fmtF, tplOf, cif_toLines_templates, pyFormat, fmtTuple, conv1, padStr, padNum, precStr, List.replicate]

theorem cifAnisoLine_eq (label : Str) (a : CifAtom) : cifAnisoLine label a =
    pyFormat (tplOf cif_toLines_templates 14) [.str label, .num (a.u.getD 0 0), .num (a.u.getD 4 0), .num (a.u.getD 8 0),
      .num (a.u.getD 1 0), .num (a.u.getD 2 0), .num (a.u.getD 5 0)] := by
  simp [cifAnisoLine, ssv, joinSep, sp, fmtF, tplOf, cif_toLines_templates, pyFormat, fmtTuple, conv1, padStr, padNum, precStr, List.replicate]

/-- all tag lines use the same two templates, in this order (1-5: text items, 6-11: cell parameters) -/
theorem cif_template_order_data : (cif_toLines_templates.map (fun r => r.1)) =
    ["%04i-%02i-%02i", "%-31s %s", "%-31s %s", "%-31s %s", "%-31s %s", "%-31s %s", "%-31s %.6g", "%-31s %.6g", "%-31s %.6g",
     "%-31s %.6g", "%-31s %.6g", "%-31s %.6g", "%s%i", "  %-5s %-3s %11.6f %11.6f %11.6f %11.6f %-5s %.4f",
     "  %-5s %9.6f %9.6f %9.6f %9.6f %9.6f %9.6f"] := by
  rfl

theorem cif_toLines_src_data : cif_toLines_src =
  "def f(_0, _1):\n    import time\n    _3 = []\n    if _1.title.strip() != '':\n        _4 = _1.title.split('\\n')\n        _3.extend(['# ' + _5.strip() for _5 in _4])\n        _3.append('')\n    _3.append('data_3D')\n    _6 = '%04i-%02i-%02i' % _2.gmtime()[:3]\n    _3.extend(['%-31s %s' % ('_audit_creation_date', _6), '%-31s %s' % ('_audit_creation_method', 'P_cif.py'), '', '%-31s %s' % ('_symmetry_space_group_name_H-M', \"'P1'\"), '%-31s %s' % ('_symmetry_Int_Tables_number', '1'), '%-31s %s' % ('_symmetry_cell_setting', 'triclinic'), ''])\n    _3.extend(['%-31s %.6g' % ('_cell_length_a', _1.lattice.a), '%-31s %.6g' % ('_cell_length_b', _1.lattice.b), '%-31s %.6g' % ('_cell_length_c', _1.lattice.c), '%-31s %.6g' % ('_cell_angle_alpha', _1.lattice.alpha), '%-31s %.6g' % ('_cell_angle_beta', _1.lattice.beta), '%-31s %.6g' % ('_cell_angle_gamma', _1.lattice.gamma), ''])\n    _7 = {}\n    _8 = []\n    _9 = []\n    for _10 in _1:\n        _11 = _7[_10.element] = _7.get(_10.element, 0) + 1\n        _8.append('%s%i' % (_10.element, _11))\n        if numpy.all(_10.U == _10.U[0, 0] * numpy.identity(3)):\n            _9.append('Uiso')\n        else:\n            _9.append('Uani')\n    _3.extend(['loop_', '  _atom_site_label', '  _atom_site_type_symbol', '  _atom_site_fract_x', '  _atom_site_fract_y', '  _atom_site_fract_z', '  _atom_site_U_iso_or_equiv', '  _atom_site_adp_type', '  _atom_site_occupancy'])\n    for _12 in range(len(_1)):\n        _10 = _1[_12]\n        _5 = '  %-5s %-3s %11.6f %11.6f %11.6f %11.6f %-5s %.4f' % (_8[_12], _10.element, _10.xyz[0], _10.xyz[1], _10.xyz[2], _10.Uisoequiv, _9[_12], _10.occupancy)\n        _3.append(_5)\n    _13 = [_12 for _12 in range(len(_1)) if _9[_12] != 'Uiso']\n    if _13 != []:\n        _3.extend(['loop_', '  _atom_site_aniso_label', '  _atom_site_aniso_U_11', '  _atom_site_aniso_U_22', '  _atom_site_aniso_U_33', '  _atom_site_aniso_U_12', '  _atom_site_aniso_U_13', '  _atom_site_aniso_U_23'])\n        for _12 in _13:\n            _10 = _1[_12]\n            _5 = '  %-5s %9.6f %9.6f %9.6f %9.6f %9.6f %9.6f' % (_8[_12], _10.U[0, 0], _10.U[1, 1], _10.U[2, 2], _10.U[0, 1], _10.U[0, 2], _10.U[1, 2])\n            _3.append(_5)\n    return _3" := by
  rfl

end DS.Props.SrcWriters
