import DS.Lemmas.Orbit
import DS.Lemmas.OrbitExact
import DS.Lemmas.OrbitGap
import DS.Props.C03
/-!
# C02 (sites within tolerance of a special position) — `expandPosition` merges the near-coincident
images and returns one position per closeness class

Model: `DS.Orbit` (`expandPosition` transcribed literally on exact coordinates in units `1/(24k)`,
tolerance `E`).  `Props/C02.lean` treats sites whose images are equal or farther apart than `E`
(`Sep`); here the images may be *near* each other: any two images are within `E/4` of each other
(close) or farther apart than `2E` (far) — hypothesis `Gap`, decidable.
-/
namespace DS.Props.C02Gap
open DS DS.Orbit

/-! ### 1. the periodic box distance is a metric on the cell -/

theorem boxDist_symm {D : Int} {p q : P3} (hp : InCell D p) (hq : InCell D q) :
    boxDist D p q = boxDist D q p := Orbit.boxDist_comm hp hq

theorem boxDist_self {D : Int} {p : P3} (hp : InCell D p) : boxDist D p p = 0 := Orbit.boxDist_self hp

theorem boxDist_nonneg {D : Int} {p q : P3} (hp : InCell D p) (hq : InCell D q) :
    0 ≤ boxDist D p q := Orbit.boxDist_nonneg hp hq

theorem boxDist_eq_zero {D : Int} {p q : P3} (hp : InCell D p) (hq : InCell D q)
    (h : boxDist D p q = 0) : p = q := Orbit.boxDist_eq_zero hp hq h

theorem boxDist_triangle {D : Int} {p q r : P3} (hp : InCell D p) (hq : InCell D q) (hr : InCell D r) :
    boxDist D p r ≤ boxDist D p q + boxDist D q r := Orbit.boxDist_triangle hp hq hr

/-! ### 2. closeness is an equivalence relation on the images -/

/-- under the gap hypothesis "within `E/4`" is reflexive, symmetric and transitive on the images -/
theorem close_equivalence {k E : Int} (hk : 0 < k) (hE : 0 < E) {off x : P3} {ops : List Op}
    (hgap : Gap ops k E off x) :
    (∀ a ∈ ops, closeB (24 * k) E (img a k off x) (img a k off x) = true) ∧
    (∀ a ∈ ops, ∀ b ∈ ops, closeB (24 * k) E (img a k off x) (img b k off x) = true →
        closeB (24 * k) E (img b k off x) (img a k off x) = true) ∧
    (∀ a ∈ ops, ∀ b ∈ ops, ∀ c ∈ ops, closeB (24 * k) E (img a k off x) (img b k off x) = true →
        closeB (24 * k) E (img b k off x) (img c k off x) = true →
        closeB (24 * k) E (img a k off x) (img c k off x) = true) :=
  ⟨fun a _ => close_refl hk hE a, fun _ _ _ _ h => close_symm hk h,
   fun _ ha _ _ _ hc h1 h2 => close_trans hk hgap ha hc h1 h2⟩

/-- images in one bucket of the hash table are close -/
theorem same_bucket_close {k E : Int} (hk : 0 < k) (hE : 0 < E) {off x : P3} {ops : List Op}
    (hgap : Gap ops k E off x) {a b : Op} (ha : a ∈ ops) (hb : b ∈ ops)
    (h : bucket E (img a k off x) = bucket E (img b k off x)) :
    closeB (24 * k) E (img a k off x) (img b k off x) = true :=
  close_of_bucket_eq hk hE hgap ha hb h

/-! ### 3. the loop invariant -/

/-- the invariant holds before the loop -/
theorem invariant_init (k E : Int) (off x : P3) :
    GInv k E off x [] { positions := [], keymap := [], classes := [] } := ginv_init k E off x

/-- one iteration of the literal loop (bucket hit / alias to the nearest listed position / new
position) preserves the invariant `GInv` -/
theorem invariant_step {k E : Int} (hk : 0 < k) (hE : 0 < E) {off x : P3} {done : List Op} {s : St}
    {a : Op} (hinv : GInv k E off x done s) (hgap : Gap (done ++ [a]) k E off x) :
    GInv k E off x (done ++ [a]) (stepOp k E off x s a) := ginv_step hk hE hinv hgap

/-- the invariant holds for the final state -/
theorem invariant_final {k E : Int} (hk : 0 < k) (hE : 0 < E) {off x : P3} {ops : List Op}
    (hgap : Gap ops k E off x) : GInv k E off x ops (expand ops k E off x) := expand_ginv hk hE hgap

/-! ### 4. the result -/

/-- **expandPosition merges images within tolerance.**  Positions = the first image (table order)
of each closeness class; operation lists = for each listed position the operations whose image is
close to it; multiplicity = number of classes. -/
theorem gap_result {k E : Int} (hk : 0 < k) (hE : 0 < E) {off x : P3} {ops : List Op}
    (hgap : Gap ops k E off x) :
    result ops k E off x =
      (dedupBy (closeB (24 * k) E) (ops.map (fun g => img g k off x)),
       (dedupBy (closeB (24 * k) E) (ops.map (fun g => img g k off x))).map
          (fun p => ops.filter (fun g => closeB (24 * k) E p (img g k off x))),
       (dedupBy (closeB (24 * k) E) (ops.map (fun g => img g k off x))).length) :=
  result_gap hk hE hgap

/-- the input site (reduced into the cell) is listed first whenever the identity is the first operation -/
theorem gap_input_first {k E : Int} (hk : 0 < k) (hE : 0 < E) {off x : P3} {ops : List Op}
    (hgap : Gap ops k E off x) (h1 : ops.head? = some Op.one) :
    (result ops k E off x).1.head? = some (red k x) := result_gap_head hk hE hgap h1

/-- the returned positions are pairwise farther apart than twice the tolerance -/
theorem gap_positions_far {k E : Int} (hk : 0 < k) (hE : 0 < E) {off x : P3} {ops : List Op}
    (hgap : Gap ops k E off x) {i j : Nat} (hi : i < (result ops k E off x).1.length)
    (hj : j < (result ops k E off x).1.length) (hij : i ≠ j) :
    2 * E < boxDist (24 * k) (result ops k E off x).1[i] (result ops k E off x).1[j] :=
  result_gap_far hk hE hgap hi hj hij

/-- every operation is attributed to exactly one returned position, one within `E/4` of its image -/
theorem gap_attribution {k E : Int} (hk : 0 < k) (hE : 0 < E) {off x : P3} {ops : List Op}
    (hgap : Gap ops k E off x) (g : Op) (hg : g ∈ ops) :
    ∃ i, ∃ (hi : i < (result ops k E off x).1.length),
      boxDist (24 * k) (result ops k E off x).1[i] (img g k off x) * 4 ≤ E ∧
      g ∈ (result ops k E off x).2.1.getD i [] ∧
      ∀ j (_ : j < (result ops k E off x).1.length), g ∈ (result ops k E off x).2.1.getD j [] → j = i := by
  obtain ⟨i, hi, h1, h2, h3⟩ := result_gap_attribution hk hE hgap g hg
  exact ⟨i, hi, closeB_iff.1 h1, h2, h3⟩

/-- when the images are moreover separated (`Sep`) the statement is the one of `C02.orbit_exact` -/
theorem gap_agrees_with_exact {k E : Int} (hk : 0 < k) (hE : 0 < E) {off x : P3} {ops : List Op}
    (hgap : Gap ops k E off x) (hsep : Sep ops k E off x) :
    result ops k E off x =
      (dedupFirst (ops.map (fun g => img g k off x)),
       (dedupFirst (ops.map (fun g => img g k off x))).map
          (fun p => ops.filter (fun g => decide (img g k off x = p))),
       (dedupFirst (ops.map (fun g => img g k off x))).length) :=
  result_gap_sep hk hE hgap hsep

/-! ### 5. a perturbed special site has the multiplicity and the classes of the exact site -/

/-- closeness of the images of the perturbed site = equality of the images of the special site -/
theorem close_iff_exact_eq {k E : Int} (hk : 0 < k) (hE : 0 < E) {off x x0 : P3} {ops : List Op}
    (hsep : Sep ops k E off x0) (hnear : Near ops k E off x x0) {a b : Op} (ha : a ∈ ops) (hb : b ∈ ops) :
    boxDist (24 * k) (img a k off x) (img b k off x) * 4 ≤ E ↔ img a k off x0 = img b k off x0 := by
  rw [← closeB_iff]; exact close_iff_eq_of_near hk hE hsep hnear ha hb

/-- when distinct images of the special site are farther apart than `3E`, every perturbation of it
within `E/8` satisfies `Gap` -/
theorem gap_of_perturbation {k E : Int} (hk : 0 < k) (hE : 0 < E) {off x x0 : P3} {ops : List Op}
    (hsep : Sep ops k (3 * E) off x0) (hnear : Near ops k E off x x0) : Gap ops k E off x :=
  gap_of_near hk hE hsep hnear

/-- **counts of a perturbed special site.**  `x0` exactly special (`Sep`), `x` within `E/8` of it
image by image (`Near`) and satisfying `Gap`: `expandPosition` returns for `x` the same operation
classes and the same multiplicity as for `x0`, the positions correspond index by index within
`E/8`, and for a group of operations multiplicity × class size = group order for every class. -/
theorem perturbed_counts {k E : Int} (hk : 0 < k) (hE : 0 < E) {off x x0 : P3} {ops : List Op}
    (hG : IsGroup ops) (hsep : Sep ops k E off x0) (hgap : Gap ops k E off x)
    (hnear : Near ops k E off x x0) :
    (result ops k E off x).2.1 = (result ops k E off x0).2.1 ∧
    (result ops k E off x).2.2 = (result ops k E off x0).2.2 ∧
    (result ops k E off x).2.2 = (dedupFirst (ops.map (fun g => img g k off x0))).length ∧
    (∀ cl ∈ (result ops k E off x).2.1, (result ops k E off x).2.2 * cl.length = ops.length) ∧
    (result ops k E off x).1.length = (result ops k E off x0).1.length ∧
    (∀ i (h : i < (result ops k E off x).1.length) (h0 : i < (result ops k E off x0).1.length),
      boxDist (24 * k) (result ops k E off x).1[i] (result ops k E off x0).1[i] * 8 ≤ E) := by
  rw [result_near_opReps hk hE hsep hgap hnear, result_exact_opReps hk hE hsep]
  refine ⟨rfl, rfl, ?_, ?_, by simp, ?_⟩
  · rw [dedupFirst_eq_opReps, List.length_map]
  · intro cl hcl
    exact fibres_count hG cl hcl
  · intro i h h0
    simp only [List.getElem_map]
    exact hnear _ (opReps_sub (List.getElem_mem _))

/-- the same with the gap hypothesis discharged by a separation `> 3E` of the exact site -/
theorem perturbed_counts_of_sep3 {k E : Int} (hk : 0 < k) (hE : 0 < E) {off x x0 : P3} {ops : List Op}
    (hG : IsGroup ops) (hsep : Sep ops k (3 * E) off x0) (hnear : Near ops k E off x x0) :
    (result ops k E off x).2.1 = (result ops k E off x0).2.1 ∧
    (result ops k E off x).2.2 = (dedupFirst (ops.map (fun g => img g k off x0))).length ∧
    (∀ cl ∈ (result ops k E off x).2.1, (result ops k E off x).2.2 * cl.length = ops.length) := by
  have hsep1 : Sep ops k E off x0 := hsep.weaken (by omega)
  have h := perturbed_counts hk hE hG hsep1 (gap_of_near hk hE hsep hnear) hnear
  exact ⟨h.1, h.2.2.1, h.2.2.2.1⟩

/-- every tabulated setting: for a perturbed special site multiplicity × class size = `num_sym_equiv` -/
theorem tables_perturbed_counts (p : SG × Cert) (hp : p ∈ Gen.allC) {k E : Int} (hk : 0 < k) (hE : 0 < E)
    {off x x0 : P3} (hsep : Sep p.1.ops k E off x0) (hgap : Gap p.1.ops k E off x)
    (hnear : Near p.1.ops k E off x x0) :
    (result p.1.ops k E off x).1.head? = some (red k x) ∧
    ∀ cl ∈ (result p.1.ops k E off x).2.1, (result p.1.ops k E off x).2.2 * cl.length = p.1.nsym := by
  have hG := C03.all_groups p hp
  refine ⟨gap_input_first hk hE hgap hG.one_first, ?_⟩
  intro cl hcl
  rw [(perturbed_counts hk hE hG hsep hgap hnear).2.2.2.1 cl hcl]
  exact (C03.all_counts p hp).nsym

/-! ### non-vacuity -/

/-- a site a few units (of `1/7200000`) off the special position `(1/4, 0, 0.13)` (mirror plane
`y = 0`) of a concrete tabulated setting, tolerance 1e-5; the images `y = ±2` fall into different
buckets, so the alias branch of the loop is exercised.  The gap hypothesis holds … -/
example : Gap Gen.witness.1.ops 300000 72 (0, 0, 0) (1800001, 7199998, 936000) := by decide +kernel

/-- … while the images are **not** separated (`C02.orbit_exact` does not apply to this site) -/
example : ¬ Sep Gen.witness.1.ops 300000 72 (0, 0, 0) (1800001, 7199998, 936000) := by decide +kernel

/-- the special position itself is separated by more than `3E`, and the site above is a perturbation
of it within `E/8` -/
example : Sep Gen.witness.1.ops 300000 (3 * 72) (0, 0, 0) (1800000, 0, 936000) ∧
    Near Gen.witness.1.ops 300000 72 (0, 0, 0) (1800001, 7199998, 936000) (1800000, 0, 936000) := by
  decide +kernel

/-- the merge really happens on that site: fewer positions than operations, more than one class -/
example : (result Gen.witness.1.ops 300000 72 (0, 0, 0) (1800001, 7199998, 936000)).2.2
      < Gen.witness.1.ops.length ∧
    1 < (result Gen.witness.1.ops 300000 72 (0, 0, 0) (1800001, 7199998, 936000)).2.2 := by
  decide +kernel

/-- on that site the alias branch is really taken: more buckets are registered than positions listed -/
example : (expand Gen.witness.1.ops 300000 72 (0, 0, 0) (1800001, 7199998, 936000)).positions.length
    < (expand Gen.witness.1.ops 300000 72 (0, 0, 0) (1800001, 7199998, 936000)).keymap.length := by
  decide +kernel

end DS.Props.C02Gap
