import DS.Model.Column
/-!
# C08 — whole-column attribute assignment (`stru.xyz = v`, `stru.occupancy = v`, `stru.U = v`, …)

The container part of C08 (`DS.Props.C08`) speaks about atom identities and lattice references, which a
column assignment does not touch.  What it does change is one attribute of every atom; the statement
"as the same operation on a plain list of atoms would give" is NumPy's broadcasting of the value against
`(n,) + shape(attribute)`.  Theorems, for every number of atoms `n` and every attribute shape:

* `count`            : one new value per atom, nothing else (never raises for a scalar);
* `scalar_all`       : a Python scalar goes to every component of every atom;
* `whole_item`       : a value with the attribute's own shape (one xyz triple, one 3×3 tensor) is given to
                       EVERY atom in full — also when its leading dimension happens to equal the number of atoms;
* `per_atom`         : a value of shape `(n,) + shape(attribute)` gives atom `i` its `i`-th item;
* `bc_same`, `bc_length` : helper facts about the broadcasting function.
-/
namespace DS.Props.C08Column
open DS.Column

theorem allSome_map_some {α β : Type} (f : α → β) (l : List α) :
    allSome (l.map (fun x => some (f x))) = some (l.map f) := by
  induction l with
  | nil => rfl
  | cons x r ih => simp [allSome, ih]

theorem flatten_chunks {α : Type} (k : Nat) : ∀ (n : Nat) (d : List α), d.length = n * k → (chunks k n d).flatten = d := by
  intro n
  induction n with
  | zero => intro d h; simp at h; subst h; rfl
  | succ n ih =>
    intro d h
    have hle : n * k ≤ (n + 1) * k := Nat.mul_le_mul_right k (Nat.le_succ n)
    have h1 : (d.take (n * k)).length = n * k := by
      rw [List.length_take, h]; exact Nat.min_eq_left hle
    have hc : chunks k (n + 1) d = chunks k n (d.take (n * k)) ++ [(d.drop (n * k)).take k] := by
      simp only [chunks, List.range_succ, List.map_append, List.map_cons, List.map_nil]
      congr 1
      apply List.map_congr_left
      intro i hi
      have hi' : i < n := List.mem_range.mp hi
      have : i * k + k ≤ n * k := by
        have := Nat.mul_le_mul_right k (Nat.succ_le_of_lt hi'); simpa [Nat.succ_mul] using this
      rw [List.drop_take, List.take_take]
      congr 1
      omega
    rw [hc, List.flatten_append, ih _ h1]
    simp only [List.flatten_cons, List.flatten_nil, List.append_nil]
    have : ((d.drop (n * k)).take k) = d.drop (n * k) := by
      apply List.take_of_length_le
      simp [List.length_drop, h, Nat.succ_mul]
    rw [this, List.take_append_drop]

/-- broadcasting a value to its own shape returns it -/
theorem bc_same : ∀ (ts : List Nat) (d : List Int), d.length = prod ts → bc ts ts d = some d := by
  intro ts
  induction ts with
  | nil => intro d h; simp [bc, prod] at *; exact h
  | cons t ts ih =>
    intro d h
    simp only [bc, if_true]
    have hs : ∀ i ∈ List.range t, bc ts ts ((d.drop (i * prod ts)).take (prod ts)) = some ((d.drop (i * prod ts)).take (prod ts)) := by
      intro i hi
      apply ih
      have hi' : i < t := List.mem_range.mp hi
      have : i * prod ts + prod ts ≤ t * prod ts := by
        have := Nat.mul_le_mul_right (prod ts) (Nat.succ_le_of_lt hi'); simpa [Nat.succ_mul] using this
      simp [List.length_take, List.length_drop, h, prod]; omega
    have : (List.range t).map (fun i => bc ts ts ((d.drop (i * prod ts)).take (prod ts)))
        = (List.range t).map (fun i => some ((d.drop (i * prod ts)).take (prod ts))) :=
      List.map_congr_left hs
    rw [this, allSome_map_some]
    simp only [Option.map_some]
    congr 1
    exact flatten_chunks (prod ts) t d (by simpa [prod] using h)

theorem chunks_replicate_flatten (k n : Nat) (v : List Int) (hv : v.length = k) :
    chunks k n (List.replicate n v).flatten = List.replicate n v := by
  induction n with
  | zero => simp [chunks]
  | succ n ih =>
    rw [List.replicate_succ, List.flatten_cons]
    simp only [chunks, List.range_succ_eq_map, List.map_cons, List.map_map]
    have h0 : ((v ++ (List.replicate n v).flatten).drop (0 * k)).take k = v := by
      simp [← hv]
    rw [h0]
    congr 1
    have : (List.range n).map ((fun i => ((v ++ (List.replicate n v).flatten).drop (i * k)).take k) ∘ Nat.succ)
        = (List.range n).map (fun i => (((List.replicate n v).flatten).drop (i * k)).take k) := by
      apply List.map_congr_left
      intro i _
      simp only [Function.comp]
      have : (i + 1) * k = v.length + i * k := by rw [hv, Nat.succ_mul, Nat.add_comm]
      rw [this, List.drop_append]
      have hd : v.drop (v.length + i * k) = [] := List.drop_of_length_le (by omega)
      simp [hd]
    rw [this]
    exact ih

/-- one new value per atom; a scalar assignment never raises -/
theorem count (n : Nat) (item : List Nat) (sc : Option Int) (vs : List Nat) (vd : List Int) (r : List (List Int))
    (h : setColumn n item sc vs vd = .ok r) : r.length = n := by
  unfold setColumn at h
  split at h
  · rename_i h0; injection h with h; subst h; simp [h0]
  · split at h
    · injection h with h; subst h; simp
    · split at h
      · cases h
      · split at h
        · injection h with h; subst h; simp [chunks]
        · cases h

/-- a Python scalar goes to every component of every atom -/
theorem scalar_all (n : Nat) (item : List Nat) (c : Int) (vs : List Nat) (vd : List Int) (hn : n ≠ 0) :
    setColumn n item (some c) vs vd = .ok (List.replicate n (List.replicate (prod item) c)) := by
  simp [setColumn, hn]

/-- a value with the attribute's own shape is given to every atom in full, whatever the number of atoms
(in particular when `n` equals the leading dimension of the value: 3 atoms and one xyz triple) -/
theorem whole_item (n : Nat) (item : List Nat) (vd : List Int) (hn : n ≠ 0) (hv : vd.length = prod item) :
    setColumn n item none item vd = .ok (List.replicate n vd) := by
  have hp : pad (item.length + 1) item = 1 :: item := by simp [pad]
  simp only [setColumn, hn, if_false, hp]
  have hlt : ¬ item.length > item.length + 1 := by omega
  simp only [hlt, if_false]
  by_cases h1 : n = 1
  · subst h1
    have : bc (1 :: item) (1 :: item) vd = some vd := bc_same (1 :: item) vd (by simp [prod, hv])
    rw [this]
    simp [chunks, ← hv]
  · have hb : bc (n :: item) (1 :: item) vd = some ((List.replicate n vd).flatten) := by
      have h1' : ¬ (1 = n) := fun h => h1 h.symm
      simp only [bc, h1', if_false, if_true, bc_same item vd hv, Option.map_some]
    rw [hb]
    simp only
    rw [chunks_replicate_flatten (prod item) n vd hv]

/-- a value of shape `(n,) + shape(attribute)` gives atom `i` its `i`-th item -/
theorem per_atom (n : Nat) (item : List Nat) (vd : List Int) (hn : n ≠ 0) (hv : vd.length = n * prod item) :
    setColumn n item none (n :: item) vd = .ok (chunks (prod item) n vd) := by
  have hp : pad (item.length + 1) (n :: item) = n :: item := by simp [pad]
  simp only [setColumn, hn, if_false, hp]
  have hlt : ¬ (n :: item).length > item.length + 1 := by simp
  simp only [hlt, if_false]
  rw [bc_same (n :: item) vd (by simpa [prod] using hv)]

/-! non-vacuity: three atoms, one xyz triple / one triple per atom / a scalar -/
example : setColumn 3 [3] none [3] [1, 2, 3] = .ok [[1, 2, 3], [1, 2, 3], [1, 2, 3]] := by decide
example : setColumn 3 [3] none [3, 3] [1, 2, 3, 4, 5, 6, 7, 8, 9] = .ok [[1, 2, 3], [4, 5, 6], [7, 8, 9]] := by decide
example : setColumn 2 [] (some 7) [] [] = .ok [[7], [7]] := by decide
example : setColumn 3 [] none [2] [1, 2] = .valueError := by decide
example : setColumn 2 [3] none [2, 1] [5, 6] = .ok [[5, 5, 5], [6, 6, 6]] := by decide

end DS.Props.C08Column
