import DS.Lemmas.Dec
import DS.Lemmas.Formats

/-!
# C04 — writing a structure and reading it back preserves everything the format carries
-/
namespace DS.Props.C04
open DS.Dec DS.Formats

/-- `float("%w.pf" % x)` is `x` rounded half-even to `p` decimals, for every width `w` -/
theorem parseDec_fmtF (w p : Nat) (x : Rat) : pyFloat (fmtF w p x) = some (roundTo p x) :=
  pyFloat_fmtF w p x

end DS.Props.C04
