import DS.Lemmas.Dec
import DS.Lemmas.Formats
import DS.Lemmas.FormatsX
import DS.Lemmas.FormatsC
import DS.Lemmas.FormatsI

/-!
# C04 — writing a structure and reading it back preserves everything the format carries

Text layer (all inputs, all widths and precisions) and per-format round trips
`readStr(writeStr(s, f), f)` at the string level, on the exact-decimal models of
`DS.Model.Dec` / `DS.Model.Formats`.  `quant_f` rounds every carried quantity to the printed
precision and normalises text fields the way the reader does; `repr_f` is the decidable
representable range the proof needed.  All seven formats have the file-level theorem `roundtrip_f`;
the second trip is `idem_f` (xyz, rawxyz, discus, pdffit, pdb; cif under `stableCif`) and
`idem_xcfg_partial` / `xcfg_same_columns` for xcfg.
-/
namespace DS.Props.C04
open DS.Dec DS.Formats

/-! ## Stage 1: exact decimal text layer -/

/-- `float("%w.pf" % x)` is `x` rounded half-even to `p` decimals, for every width `w` -/
theorem parseDec_fmtF (w p : Nat) (x : Rat) : pyFloat (fmtF w p x) = some (roundTo p x) :=
  pyFloat_fmtF w p x

/-- the printed number is within half a unit of the last printed place -/
theorem roundTo_error (p : Nat) (x : Rat) : |roundTo p x - x| ≤ 1 / (2 * ((10 ^ p : Nat) : Rat)) :=
  DS.Dec.roundTo_error p x

/-- a printed number re-prints to itself -/
theorem roundTo_idem (p : Nat) (x : Rat) : roundTo p (roundTo p x) = roundTo p x :=
  DS.Dec.roundTo_idem p x

/-- `float("%.Pg" % x)` is the number `%.Pg` denotes, for every precision -/
theorem parseDec_fmtG (P : Nat) (x : Rat) : parseDec (fmtG P x) = some (roundSig P x) :=
  DS.Dec.parseDec_fmtG P x

/-- `" ".join(tokens).split() == tokens` for non-empty blank-free tokens -/
theorem split_join (toks : List Str) (h : ∀ t ∈ toks, IsTok t) : splitWs ([' '].intercalate toks) = toks :=
  DS.Dec.split_join toks h

/-- fixed columns: the slice `[i:j]` of a line is the field that occupies these columns -/
theorem slice_fixed {A F R : Str} {i j : Nat} (hA : A.length = i) (hF : F.length = j - i) :
    slice i j (A ++ (F ++ R)) = F :=
  slice_mid hA hF

/-- `parse(tostring(lines))` hands `parseLines` the lines `toLines` produced -/
theorem text_lines (L : List Str) (hne : L ≠ []) (h : ∀ l ∈ L, NoNL l) (hlast : L.getLast hne ≠ []) :
    ofText (toText L) = L :=
  ofText_toText L hne h hlast

/-- `%.Pg` is correctly rounded: the printed number is within half a unit of its last significant
digit, `10^(X-P+1)` with `X` the decimal exponent of `|x|` -/
theorem roundSig_error (P : Nat) (hP : 1 ≤ P) (x : Rat) (hx : x ≠ 0) :
    |roundSigP P x - x| ≤ (10 : Rat) ^ (sciExp x.num.natAbs x.den - (P : Int) + 1) / 2 :=
  roundSigP_error P hP x hx

/-- the decimal exponent used by `%g` is the right one: `10^X ≤ n/d < 10^(X+1)` -/
theorem sciExp_correct (n d : Nat) (hn : 0 < n) (hd : 0 < d) :
    (10 : Rat) ^ (sciExp n d) ≤ (n : Rat) / (d : Rat) ∧ (n : Rat) / (d : Rat) < (10 : Rat) ^ (sciExp n d + 1) :=
  sciExp_spec n d hn hd

example : (1 : Nat) ≤ 6 ∧ ((1 : Rat) / 3 ≠ 0) := ⟨by decide, by norm_num⟩

/-! ## Stage 2: per-format round trips (string level) -/

theorem roundtrip_xyz (d : XyzS) (h : reprXyz d = true) : parseTextXyz (writeTextXyz d) = .ok (quantXyz d) :=
  DS.Formats.roundtrip_xyz d h

example : reprXyz ⟨"NaCl  ".toList, [⟨"Na1+".toList, 0, 1/2, -1/3⟩, ⟨"Cl".toList, 1/2, 1/2, 1/2⟩]⟩ = true := by decide
example : reprXyz ⟨[], []⟩ = true := by decide

theorem roundtrip_rawxyz (d : List PAtom) (h : reprRaw d = true) : parseTextRaw (writeTextRaw d) = .ok (quantRaw d) :=
  DS.Formats.roundtrip_rawxyz d h

example : reprRaw [⟨"Na1+".toList, 0, 1/2, -1/3⟩, ⟨"Cl".toList, 1/2, 1/2, 1/2⟩] = true := by decide
example : reprRaw [⟨[], 0, 1/2, -1/3⟩, ⟨[], 1/2, 1/2, 1/2⟩] = true := by decide

theorem roundtrip_discus (d : DiscusS) (h : reprDiscus d = true) :
    parseTextDiscus (writeTextDiscus d) = .ok (quantDiscus d) :=
  DS.Formats.roundtrip_discus d h

example : reprDiscus ⟨"Ni fcc".toList, "F m -3 m".toList, 25, 0, ⟨3, 3, 3, 90, 90, 90⟩,
    [⟨"Ni".toList, ⟨0, 1/2, 1/2⟩, 1/3⟩]⟩ = true := by decide

theorem roundtrip_pdffit (d : PdffitS) (h : reprPdffit d = true) :
    parseTextPdffit (writeTextPdffit d) = .ok (quantPdffit d) :=
  DS.Formats.roundtrip_pdffit d h

example : reprPdffit ⟨"Ni fcc".toList, 1, 0, 0, 1, 0, "Fm-3m".toList, 0, 12, ⟨3, 3, 3, 90, 90, 120⟩, ⟨0, 0, 0, 0, 0, 0⟩,
    [⟨"Na1+".toList, ⟨0, 1/2, 1/2⟩, 1/3, ⟨0, 0, 0⟩, 0, ⟨1/100, 1/100, 1/50⟩, ⟨0, 0, 0⟩, ⟨1/200, 0, 0⟩, ⟨0, 0, 0⟩⟩]⟩ = true := by
  decide

theorem roundtrip_pdb (d : PdbS) (h : reprPdb d = true) : parseTextPdb (writeTextPdb d) = .ok (quantPdb d) :=
  DS.Formats.roundtrip_pdb d h

/-- non-vacuity of `roundtrip_pdb` (negative and column-filling coordinates, ANISOU, CRYST1) -/
theorem roundtrip_pdb_example : reprPdb exPdb = true := exPdb_repr

/-- the column-width conditions of `reprPdb`, numerically: a value whose rounded magnitude has at
most `d` integer digits fits `%w.pf` when `sign + d + 1 + p ≤ w` -/
theorem pdb_fits_of_bound (w p d : Nat) (x : Rat) (hd : 1 ≤ d) (hp : 1 ≤ p) (hm : scaledAbs p x < 10 ^ (d + p))
    (hw : (if x < 0 then 1 else 0) + d + 1 + p ≤ w) : fitsF w p x = true :=
  fitsF_of_bound w p d x hd hp hm hw

/-! ## second round trip: the re-read structure is a fixed point (no drift, growth or failure) -/

/-- a number printed with `P` significant digits re-prints to itself -/
theorem roundSig_idem (P : Nat) (x : Rat) : roundSig P (roundSig P x) = roundSig P x :=
  DS.Dec.roundSig_idem P x

theorem idem_xyz (d : XyzS) (h : reprXyz d = true) : parseTextXyz (writeTextXyz (quantXyz d)) = .ok (quantXyz d) :=
  DS.Formats.idem_xyz d h

theorem idem_rawxyz (d : List PAtom) (h : reprRaw d = true) : parseTextRaw (writeTextRaw (quantRaw d)) = .ok (quantRaw d) :=
  DS.Formats.idem_rawxyz d h

theorem idem_discus (d : DiscusS) (h : reprDiscus d = true) :
    parseTextDiscus (writeTextDiscus (quantDiscus d)) = .ok (quantDiscus d) :=
  DS.Formats.idem_discus d h

theorem idem_pdffit (d : PdffitS) (h : reprPdffit d = true) :
    parseTextPdffit (writeTextPdffit (quantPdffit d)) = .ok (quantPdffit d) :=
  DS.Formats.idem_pdffit d h

theorem idem_pdb (d : PdbS) (h : reprPdb d = true) : parseTextPdb (writeTextPdb (quantPdb d)) = .ok (quantPdb d) :=
  DS.Formats.idem_pdb d h

/-- the representable range is closed under the round trip (what was read can be written again) -/
theorem repr_closed :
    (∀ d, reprXyz d = true → reprXyz (quantXyz d) = true) ∧ (∀ d, reprRaw d = true → reprRaw (quantRaw d) = true) ∧
    (∀ d, reprDiscus d = true → reprDiscus (quantDiscus d) = true) ∧
    (∀ d, reprPdffit d = true → reprPdffit (quantPdffit d) = true) ∧ (∀ d, reprPdb d = true → reprPdb (quantPdb d) = true) :=
  ⟨reprXyz_quant, reprRaw_quant, reprDiscus_quant, reprPdffit_quant, reprPdb_quant⟩

/-! ## XCFG and CIF: the full file-level statements, proved -/

/-- full-strength statement for XCFG: `parse(write(d)) = quant(d)` on the modelled writer and reader,
for every document in `reprXcfg = rangeXcfg ∧ wfXcfg` -/
def roundtrip_xcfg_statement : Prop := DS.Formats.roundtrip_xcfg_statement

/-- full-strength statement for CIF on the layout `P_cif.toLines` emits (PyCifRW itself is not
modelled) -/
def roundtrip_cif_statement : Prop := DS.Formats.roundtrip_cif_statement

/-- XCFG: `readStr(writeStr(s, "xcfg"), "xcfg")` is the quantised document, for every document of the
range (at least one atom, nine base components, element symbols that are single non-numeric tokens,
auxiliary names that are tokens) that is consistent (`wfXcfg`: one value per stored auxiliary and a
velocity on every atom when the first has one — otherwise the real writer raises `AttributeError`) -/
theorem roundtrip_xcfg : roundtrip_xcfg_statement := DS.Formats.roundtrip_xcfg

theorem roundtrip_xcfg' (d : XcfgS) (h : reprXcfg d = true) : parseXcfg (ofText (toText (writeXcfg d))) = .ok (quantXcfg d) :=
  DS.Formats.roundtrip_xcfg d h

/-- non-vacuity of `roundtrip_xcfg`: stored auxiliary, partial occupancy, anisotropic U, velocities -/
example : reprXcfg ⟨[3, 0, 0, 0, 3, 0, 0, 0, 3], false, ["charge".toList, "Uiso".toList],
    [⟨"Na".toList, 22.9898, ⟨0, 1/2, -1/3⟩, 1/2, [1/100, 0, 0, 0, 1/50, 1/300, 0, 1/300, 1/100], some ⟨1, 2, 3⟩, [1]⟩,
     ⟨"cl1-".toList, 35.453, ⟨1/4, 1/4, 1/4⟩, 1, [0, 0, 0, 0, 0, 0, 0, 0, 0], some ⟨0, 0, 1/7⟩, [-1]⟩]⟩ = true := by decide +kernel

/-- the two consistency clauses are needed: a document with a value too many is written with an extra
column and the reader rejects the text (the model's writer is total; the real one raises) -/
example : parseXcfg (ofText (toText (writeXcfg ⟨[3, 0, 0, 0, 3, 0, 0, 0, 3], false, [],
    [⟨"C".toList, 12, ⟨0, 0, 0⟩, 1, [0, 0, 0, 0, 0, 0, 0, 0, 0], none, [1]⟩]⟩))) = .error .sfe := by decide +kernel

/-- CIF: `parse(write(d)) = quant(d)` for every document with at least one atom whose element symbols
have the form letters[digit sign] (any title, any cell, any ADPs) -/
theorem roundtrip_cif : roundtrip_cif_statement := DS.Formats.roundtrip_cif

theorem roundtrip_cif' (d : CifS) (h : reprCif d = true) : parseCif (ofText (toText (writeCif d))) = .ok (quantCif d) :=
  DS.Formats.roundtrip_cif d h

/-- non-vacuity of `roundtrip_cif`: two-line title, repeated element, isotropic and anisotropic atoms -/
example : reprCif ⟨"NaCl\nrock salt".toList, ⟨5.64, 5.64, 5.64, 90, 90, 90⟩,
    [⟨"Na1+".toList, ⟨0, 0, 0⟩, 1/100, 1, [1/100, 0, 0, 0, 1/100, 0, 0, 0, 1/100]⟩,
     ⟨"Cl".toList, ⟨1/2, 1/2, 1/2⟩, 1/75, 1/2, [1/100, 0, 1/500, 0, 1/50, 0, 1/500, 0, 1/100]⟩,
     ⟨"Cl".toList, ⟨1/2, 0, 0⟩, 0, 1, [0, 0, 0, 0, 0, 0, 0, 0, 0]⟩]⟩ = true := by decide

/-! ## XCFG and CIF: second round trip

The reader's result has its own type, so the second trip goes through the document the writer sees for
the re-read structure (`reloadCif`, `reloadXcfg`: the reader's attribute assignments, with the ADP
semantics of a lattice with orthogonal axes; compared off-line with the real reader on 300 random
structures each, not part of the continuous correspondence). -/

/-- CIF: what was read can be written and read again (no failure on the second trip) -/
theorem repr_closed_cif (d : CifS) (h : reprCif d = true) : reprCif (reloadCif (quantCif d)) = true :=
  DS.Formats.reprCif_reload d h

/-- CIF: the second trip is again a first trip of the re-read document, unconditionally -/
theorem second_cif (d : CifS) (h : reprCif d = true) :
    parseCif (ofText (toText (writeCif (reloadCif (quantCif d))))) = .ok (quantCif (reloadCif (quantCif d))) :=
  DS.Formats.roundtrip_cif _ (DS.Formats.reprCif_reload d h)

/-- CIF: the second reading is the first reading (no drift), for documents that are stable in the sense
of `stableCif`: element symbols in normal form (else the site labels are renumbered), anisotropic tensors
still anisotropic after rounding to 6 decimals (else the ADP type switches), equivalent isotropic value
of the rounded tensor printing as before.  Each excluded point is a real change on the second trip. -/
theorem idem_cif (d : CifS) (h : reprCif d = true) (hs : stableCif d = true) :
    parseCif (ofText (toText (writeCif (reloadCif (quantCif d))))) = .ok (quantCif d) :=
  DS.Formats.idem_cif d h hs

/-- non-vacuity of `idem_cif` (isotropic, anisotropic and zero ADPs, an ion, a repeated element) -/
example : reprCif ⟨"NaCl\nrock salt".toList, ⟨5.64, 5.64, 5.64, 90, 90, 90⟩,
    [⟨"Na1+".toList, ⟨0, 0, 0⟩, 1/100, 1, [1/100, 0, 0, 0, 1/100, 0, 0, 0, 1/100]⟩,
     ⟨"Cl".toList, ⟨1/2, 1/2, 1/2⟩, 1/75, 1/2, [1/100, 0, 1/500, 0, 1/50, 0, 1/500, 0, 1/100]⟩,
     ⟨"Cl".toList, ⟨1/2, 0, 0⟩, 0, 1, [0, 0, 0, 0, 0, 0, 0, 0, 0]⟩]⟩ = true ∧
  stableCif ⟨"NaCl\nrock salt".toList, ⟨5.64, 5.64, 5.64, 90, 90, 90⟩,
    [⟨"Na1+".toList, ⟨0, 0, 0⟩, 1/100, 1, [1/100, 0, 0, 0, 1/100, 0, 0, 0, 1/100]⟩,
     ⟨"Cl".toList, ⟨1/2, 1/2, 1/2⟩, 1/75, 1/2, [1/100, 0, 1/500, 0, 1/50, 0, 1/500, 0, 1/100]⟩,
     ⟨"Cl".toList, ⟨1/2, 0, 0⟩, 0, 1, [0, 0, 0, 0, 0, 0, 0, 0, 0]⟩]⟩ = true := by decide +kernel

/-- the stability clauses are needed: two symbols that differ only in letter case get the labels
`NA1`, `Na1` on the first trip and `Na1`, `Na2` on the second -/
example : (quantCif ⟨[], ⟨4, 4, 4, 90, 90, 90⟩,
      [⟨"NA".toList, ⟨0, 0, 0⟩, 0, 1, [0, 0, 0, 0, 0, 0, 0, 0, 0]⟩,
       ⟨"Na".toList, ⟨1/2, 1/2, 1/2⟩, 0, 1, [0, 0, 0, 0, 0, 0, 0, 0, 0]⟩]⟩).atoms.map (·.label) = ["NA1".toList, "Na1".toList] ∧
    (quantCif (reloadCif (quantCif ⟨[], ⟨4, 4, 4, 90, 90, 90⟩,
      [⟨"NA".toList, ⟨0, 0, 0⟩, 0, 1, [0, 0, 0, 0, 0, 0, 0, 0, 0]⟩,
       ⟨"Na".toList, ⟨1/2, 1/2, 1/2⟩, 0, 1, [0, 0, 0, 0, 0, 0, 0, 0, 0]⟩]⟩))).atoms.map (·.label) = ["Na1".toList, "Na2".toList] := by
  decide +kernel

/-- full-strength second-trip statement for XCFG: the second reading is the first one whenever the
re-read document is representable, the occupancy / displacement classification survives printing, and the
second write chooses the same length unit (printed exactly) and does not recentre.
NOT proved in this form: `idem_xcfg_partial` assumes directly that the three position columns reprint
(instead of deriving it from "same length unit, no recentring", which needs a theory of the double
rounding `fl` that is not developed). -/
def idem_xcfg_statement : Prop :=
  ∀ (unit : Bool) (mass : Str → Rat) (d : XcfgS), reprXcfg d = true →
    reprXcfg (reloadXcfg unit mass (quantXcfg d)) = true →
    classStableXcfg mass d = true →
    (xcfgLayout (reloadXcfg unit mass (quantXcfg d))).a = (xcfgLayout d).a →
    roundSig 8 ((xcfgLayout d).a : Rat) = ((xcfgLayout d).a : Rat) →
    (xcfgLayout (reloadXcfg unit mass (quantXcfg d))).shift = ⟨0, 0, 0⟩ →
    parseXcfg (ofText (toText (writeXcfg (reloadXcfg unit mass (quantXcfg d))))) = .ok (quantXcfg d)

/-- XCFG: the second trip is again a first trip of the re-read document whenever that document is
representable (no failure) -/
theorem second_xcfg (unit : Bool) (mass : Str → Rat) (d : XcfgS)
    (h' : reprXcfg (reloadXcfg unit mass (quantXcfg d)) = true) :
    parseXcfg (ofText (toText (writeXcfg (reloadXcfg unit mass (quantXcfg d))))) =
      .ok (quantXcfg (reloadXcfg unit mass (quantXcfg d))) :=
  DS.Formats.roundtrip_xcfg _ h'

/-- XCFG, no auxiliary growth (the defect repaired by 4ed75d5, as a theorem): the second write emits
exactly the auxiliary columns of the first and makes the same choices for velocities, occupancy and
displacement terms, whenever some non-unit occupancy and some anisotropic tensor survive printing with 8
significant digits (`classStableXcfg`; otherwise a column is legitimately dropped) -/
theorem xcfg_same_columns (unit : Bool) (mass : Str → Rat) (d : XcfgS) (h : reprXcfg d = true)
    (hs : classStableXcfg mass d = true) :
    (xcfgLayout (reloadXcfg unit mass (quantXcfg d))).aux = (xcfgLayout d).aux ∧
    (xcfgLayout (reloadXcfg unit mass (quantXcfg d))).noVel = (xcfgLayout d).noVel :=
  let hc := DS.Formats.xcfg_same_columns unit mass d h hs
  ⟨hc.2.1, hc.1⟩

/-- XCFG, proved part of the second trip: under `stableXcfg` (re-read document representable;
classification of occupancies and tensors survives printing; same length unit; position columns reprint)
the second reading is the first reading: same atoms, same auxiliary columns, same values -/
theorem idem_xcfg_partial (unit : Bool) (mass : Str → Rat) (d : XcfgS) (h : reprXcfg d = true)
    (hs : stableXcfg unit mass d = true) :
    parseXcfg (ofText (toText (writeXcfg (reloadXcfg unit mass (quantXcfg d))))) = .ok (quantXcfg d) :=
  DS.Formats.idem_xcfg_partial unit mass d h hs

/-- non-vacuity of `xcfg_same_columns` and `idem_xcfg_partial` (stored auxiliary, partial occupancy,
anisotropic U, velocities, a negative coordinate that makes the first write recentre the structure) -/
example : stableXcfg false (fun _ => 0) ⟨[3, 0, 0, 0, 3, 0, 0, 0, 3], false, ["charge".toList, "Uiso".toList],
    [⟨"Na".toList, 22.9898, ⟨0, 1/2, -1/3⟩, 1/2, [1/100, 0, 0, 0, 1/50, 1/300, 0, 1/300, 1/100], some ⟨1, 2, 3⟩, [1]⟩,
     ⟨"cl1-".toList, 35.453, ⟨1/4, 1/4, 1/4⟩, 1, [0, 0, 0, 0, 0, 0, 0, 0, 0], some ⟨0, 0, 1/7⟩, [-1]⟩]⟩ = true := by
  decide +kernel

/-- `classStableXcfg` is needed: an occupancy that prints as `1` makes the second write drop the column -/
example : (xcfgLayout ⟨[3, 0, 0, 0, 3, 0, 0, 0, 3], false, [],
      [⟨"C".toList, 12, ⟨0, 0, 0⟩, 1 - 1 / 10 ^ 12, [0, 0, 0, 0, 0, 0, 0, 0, 0], none, []⟩]⟩).aux = ["occupancy".toList] ∧
    (xcfgLayout (reloadXcfg false (fun _ => 12) (quantXcfg ⟨[3, 0, 0, 0, 3, 0, 0, 0, 3], false, [],
      [⟨"C".toList, 12, ⟨0, 0, 0⟩, 1 - 1 / 10 ^ 12, [0, 0, 0, 0, 0, 0, 0, 0, 0], none, []⟩]⟩))).aux = [] := by
  decide +kernel

/-- proved fragment for XCFG: every entry line reads back, column by column, as the printed numbers -/
theorem roundtrip_xcfg_partial (L : XLayout) (a : XAtom) :
    ∃ vs : List Rat, xcfgEntry L a = ssv (vs.map g8) ∧
      (splitWs (xcfgEntry L a)).mapM parseDec = some (vs.map (roundSig 8)) :=
  xcfgEntry_roundtrip L a

/-- proved fragment for CIF: every `_atom_site` row splits into its eight values and the numeric ones
read back rounded to the printed precision -/
theorem roundtrip_cif_partial (label : Str) (a : CifAtom) (hl : IsTok label) (he : IsTok a.el) :
    splitWs (cifAtomLine label a) =
      [label, a.el, fmtFbody 6 a.xyz.x, fmtFbody 6 a.xyz.y, fmtFbody 6 a.xyz.z, fmtFbody 6 a.uiso,
       (if uIsIso a.u then "Uiso".toList else "Uani".toList), fmtFbody 4 a.occ] ∧
    ([fmtFbody 6 a.xyz.x, fmtFbody 6 a.xyz.y, fmtFbody 6 a.xyz.z, fmtFbody 6 a.uiso, fmtFbody 4 a.occ].mapM parseDec
      = some [roundTo 6 a.xyz.x, roundTo 6 a.xyz.y, roundTo 6 a.xyz.z, roundTo 6 a.uiso, roundTo 4 a.occ]) :=
  cif_row_roundtrip label a hl he

example : IsTok "Na1".toList ∧ IsTok "Na".toList :=
  ⟨⟨by decide, by intro c hc; revert c; decide⟩, ⟨by decide, by intro c hc; revert c; decide⟩⟩

end DS.Props.C04
