import DS.Lemmas.Lattice
import DS.Props.C01

/-!
# C10 — a lattice's derived quantities are coherent after any update history

The model (`DS/Model/Lattice.lean`) writes `setLatPar` and `setLatBase` as the sequence of attribute assignments of
the Python methods on an existing object, and a history as a list of `Op`s on a world of objects
(constructors, copy construction, `reciprocal`, `setLatPar` with any subset of its seven arguments, property
assignment, `setLatBase`).  "Valid" (`ValidOp`, `ValidRun`): every cell that results has positive lengths, angles in
(0°, 180°), positive volume, rotations are proper, bases are right-handed; a call that raises is outside the
quantifier (the real object is then left half-updated).
-/
namespace DS.Props.C10
open DS DS.Lattice Real

/-! ## both update paths refresh every cached attribute (no hypotheses, any scalar type) -/

/-- `setLatPar` with any subset of its seven arguments: the result is the lattice built from the merged
parameters; nothing else of the previous state survives -/
theorem setLatPar_refreshes_all (L : Lattice ℝ) (p : ParArgs ℝ) :
    L.setLatPar p = ofPar (p.a.getD L.a) (p.b.getD L.b) (p.c.getD L.c) (p.alpha.getD L.alpha)
      (p.beta.getD L.beta) (p.gamma.getD L.gamma) (p.baserot.getD L.baserot) :=
  Lattice.setLatPar_eq L p

/-- `setLatBase`: the result does not depend on the previous state at all -/
theorem setLatBase_refreshes_all (L : Lattice ℝ) (B : Mat3 ℝ) : L.setLatBase B = ofBase B :=
  Lattice.setLatBase_eq L B

/-! ## coherence after any valid history -/

/-- **coherent**: after any valid operation history every cached attribute of every object equals that of the
lattice `setLatPar` builds from the object's current parameters and rotation (all 32 fields at once) -/
theorem coherent (ops : List (Op ℝ)) (w : List (Lattice ℝ)) (hv : ValidRun [] ops) (hr : run [] ops = some w) :
    ∀ L ∈ w, L = ofPar L.a L.b L.c L.alpha L.beta L.gamma L.baserot :=
  fun L hL => (run_wf ops [] w (fun _ h => absurd h List.not_mem_nil) hv hr L hL).coherent

/-- the same, field by field: recomputing everything (`refresh`, i.e. `setLatPar()` without arguments) changes nothing -/
theorem coherent_refresh (ops : List (Op ℝ)) (w : List (Lattice ℝ)) (hv : ValidRun [] ops) (hr : run [] ops = some w) :
    ∀ L ∈ w, L.refresh = L := by
  intro L hL
  rw [refresh_eq]; exact (coherent ops w hv hr L hL).symm

/-- the invariant also carried through the induction: the current parameters are a valid cell and the stored
rotation is proper (also after `setLatBase` and `reciprocal`), so the C01 theorems apply to every object reached -/
theorem reachable_valid (ops : List (Op ℝ)) (w : List (Lattice ℝ)) (hv : ValidRun [] ops) (hr : run [] ops = some w) :
    ∀ L ∈ w, ValidPar L.a L.b L.c L.alpha L.beta L.gamma ∧ IsRot L.baserot ∧ L.base.mul L.recbase = Mat3.one := by
  intro L hL
  have h := run_wf ops [] w (fun _ h => absurd h List.not_mem_nil) hv hr L hL
  refine ⟨h.par, h.rot, ?_⟩
  rw [h.coherent]; exact Lattice.base_mul_recbase (valid_ofPar h.par h.rot)

/-- one step preserves the invariant (the induction step, for every kind of operation) -/
theorem step_preserves {w w' : List (Lattice ℝ)} {op : Op ℝ} (hw : ∀ L ∈ w, WF L) (hop : ValidOp w op)
    (hs : step w op = some w') : ∀ L ∈ w', WF L := step_wf hw hop hs

/-! ## the two views -/

/-- base vectors of a lattice given by parameters describe that lattice: `Lattice(base=lat.base) = lat` -/
theorem two_views_base {a b c al be ga : ℝ} {Q : Mat3 ℝ} (h : ValidPar a b c al be ga) (hQ : IsRot Q) :
    ofBase (ofPar a b c al be ga Q).base = ofPar a b c al be ga Q := ofBase_ofPar_base h hQ

/-- parameters and rotation of a lattice given by base vectors describe that lattice -/
theorem two_views_par {B : Mat3 ℝ} (hB : 0 < B.det) :
    ofPar (ofBase B).a (ofBase B).b (ofBase B).c (ofBase B).alpha (ofBase B).beta (ofBase B).gamma (ofBase B).baserot
      = ofBase B := (ofBase_coherent hB).symm

/-! ## reciprocal lattice, copy -/

/-- the cell parameters (and cosines, sines, base) of `reciprocal()` are the cached reciprocal quantities -/
theorem recip_params {L : Lattice ℝ} (h : WF L) :
    L.reciprocal.a = L.ar ∧ L.reciprocal.b = L.br ∧ L.reciprocal.c = L.cr ∧
    L.reciprocal.alpha = L.alphar ∧ L.reciprocal.beta = L.betar ∧ L.reciprocal.gamma = L.gammar ∧
    L.reciprocal.ca = L.car ∧ L.reciprocal.cb = L.cbr ∧ L.reciprocal.cg = L.cgr ∧
    L.reciprocal.sa = L.sar ∧ L.reciprocal.sb = L.sbr ∧ L.reciprocal.sg = L.sgr ∧
    L.reciprocal.base = L.recbase.transpose := Lattice.recip_params h

/-- the reciprocal of the reciprocal has the original base vectors, hence (two views) is the original lattice
whenever the original was given by its base vectors -/
theorem recip_recip {L : Lattice ℝ} (h : WF L) : L.reciprocal.reciprocal.base = L.base := recip_recip_base h

theorem recip_recip_ofBase {B : Mat3 ℝ} (hB : 0 < B.det) : (ofBase B).reciprocal.reciprocal = ofBase B := by
  have h := recip_recip_base (wf_ofBase hB)
  have e : (ofBase B).reciprocal.reciprocal = ofBase (ofBase B).reciprocal.reciprocal.base := rfl
  rw [e, h]; rfl

/-- **reciprocal of the reciprocal is the original**, all attributes, for every well-formed lattice -/
theorem recip_recip_full {L : Lattice ℝ} (h : WF L) : L.reciprocal.reciprocal = L := by
  have hb := recip_recip_base h
  have e : L.reciprocal.reciprocal = ofBase L.reciprocal.reciprocal.base := rfl
  rw [e, hb]
  have hc := h.coherent
  rw [hc]
  exact ofBase_ofPar_base h.par h.rot

/-- the reciprocal is again a well-formed (coherent, valid) lattice -/
theorem recip_wf {L : Lattice ℝ} (h : WF L) : WF L.reciprocal := wf_reciprocal h

/-- copy construction: a new object with exactly the attributes of the original; all others unchanged -/
theorem copy_eq {w w' : List (Lattice ℝ)} {i : Nat} (h : step w (.copy i) = some w') :
    w'.length = w.length + 1 ∧ w'[w.length]? = w[i]? ∧ ∀ j, j < w.length → w'[j]? = w[j]? := Lattice.copy_eq h

/-- updating one object (e.g. a copy) never changes another (e.g. its original) -/
theorem update_independent {w w' : List (Lattice ℝ)} {i : Nat} (p : ParArgs ℝ) (h : step w (.setPar i p) = some w')
    (j : Nat) (hj : j ≠ i) : w'[j]? = w[j]? := Lattice.update_independent p h j hj

theorem setBase_independent {w w' : List (Lattice ℝ)} {i : Nat} (B : Mat3 ℝ) (h : step w (.setBase i B) = some w')
    (j : Nat) (hj : j ≠ i) : w'[j]? = w[j]? := Lattice.setBase_independent B h j hj

/-! ## non-vacuity -/

open DS.Props.C01 in
/-- well-formed objects exist on both paths -/
example : WF (ofPar 3 4 5 90 90 60 exRot) ∧ WF (ofBase exBase) ∧ WF (ofBase exBase).reciprocal :=
  ⟨wf_ofPar exPar_valid exRot_isRot, wf_ofBase exBase_det, wf_reciprocal (wf_ofBase exBase_det)⟩

theorem exPar2_valid : ValidPar 2 4 5 90 90 60 := by
  refine ⟨by norm_num, by norm_num, by norm_num, by norm_num, by norm_num, by norm_num, by norm_num, by norm_num, by norm_num, ?_⟩
  rw [C01.cos60, C01.cos90]; norm_num

/-- a valid history that uses every kind of operation:
`Lattice(3,4,5,90,90,60)`, `.a = 2`, `Lattice(base=B)`, `reciprocal()`, copy, `setLatBase(B)`, `Lattice()`, `setLatPar(all seven arguments)` -/
def exOps : List (Op ℝ) :=
  [.newPar 3 4 5 90 90 60 none, .setProp 0 0 2, .newBase C01.exBase, .recip 1, .copy 0, .setBase 0 C01.exBase,
   .newDefault, .setPar 0 { a := some 3, b := some 4, c := some 5, alpha := some 90, beta := some 90, gamma := some 60, baserot := some C01.exRot }]

theorem exOps_valid : ValidRun [] exOps := by
  refine ⟨⟨C01.exPar_valid, isRot_one⟩, fun w1 h1 => ?_⟩
  simp only [step, Option.some.injEq] at h1; subst h1
  refine ⟨?_, fun w2 _ => ?_⟩
  · intro L p hL hp
    simp only [List.nil_append, List.getElem?_cons_zero, Option.some.injEq] at hL
    simp only [propArgs, Option.some.injEq] at hp
    subst hL; subst hp
    exact ⟨exPar2_valid, isRot_one⟩
  refine ⟨C01.exBase_det, fun w3 _ => ?_⟩
  refine ⟨trivial, fun w4 _ => ?_⟩
  refine ⟨trivial, fun w5 _ => ?_⟩
  refine ⟨C01.exBase_det, fun w6 _ => ?_⟩
  refine ⟨trivial, fun w7 _ => ?_⟩
  refine ⟨?_, fun w8 _ => trivial⟩
  intro L _
  exact ⟨C01.exPar_valid, C01.exRot_isRot⟩

theorem exOps_runs : ∃ w, run [] exOps = some w ∧ w.length = 5 := by
  simp [exOps, run, step, propArgs]

/-- so `coherent` is not vacuous -/
example : ∃ w, run [] exOps = some w ∧ ∀ L ∈ w, L = ofPar L.a L.b L.c L.alpha L.beta L.gamma L.baserot := by
  obtain ⟨w, hw, -⟩ := exOps_runs
  exact ⟨w, hw, coherent exOps w exOps_valid hw⟩

end DS.Props.C10
