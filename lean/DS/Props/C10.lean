import DS.Lemmas.Lattice

namespace DS.Props.C10
open DS

/-- `setLatPar` with any subset of its seven arguments refreshes every cached attribute -/
theorem setLatPar_refreshes_all (L : Lattice ℝ) (p : Lattice.ParArgs ℝ) :
    L.setLatPar p = Lattice.ofPar (p.a.getD L.a) (p.b.getD L.b) (p.c.getD L.c) (p.alpha.getD L.alpha)
      (p.beta.getD L.beta) (p.gamma.getD L.gamma) (p.baserot.getD L.baserot) :=
  Lattice.setLatPar_eq L p

end DS.Props.C10
