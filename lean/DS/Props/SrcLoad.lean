import DS.Gen.SrcLoad
import DS.Lemmas.Load
/-!
# Source tie for loading, saving, automatic detection and the `transtru` command (serves C16, C12, C20)

`DS/Gen/SrcLoad.lean` is regenerated on every run by `translate/src_load.py` from the current source: each method is
executed symbolically, statement by statement in source order, into a Lean term over the models' own state types.  The
theorems below state that the hand-written models the property theorems speak about ARE those terms, for all inputs:

* `Structure.read / readStr` = `Load.structureRead`, `PDFFitStructure.read / readStr` + method dispatch = `Load.read`;
* `Structure.write` = `Load.write`; `writeStr`; `loadStructure`;
* `parsers.inputFormats / outputFormats` = `Load.inputFormats / outputFormats`;
* `P_auto._getOrderedFormats` = `Load.orderFor` (and never raises `KeyError`), `P_auto._wrapParseMethod` = `Load.auto ∘ orderFor`,
  `P_auto.parse / parseLines / parseFile`;
* `StructureParser.parse / tostring` = `Dec.ofText / toText`;
* `transtru.main` = `Cli.main Gen.cliConfig`.
-/
namespace DS.Props.SrcLoad
open DS DS.Load

/-! ## Structure.read / readStr, PDFFitStructure.read / readStr -/

/-- `Structure.read`: getParser, `parseFile`, then (only after a successful parse) `Structure.__init__(self)`, `__dict__.update`,
slice assignment, the `if not self.title` file-name rule; an exception leaves `self` as it was -/
theorem structure_read_eq (fresh : Nat) (fn : String) (gp : Option (String × String)) (parse : Outcome Parsed)
    (sg : Option String) (o : Obj) :
    Src.Load.structure_read fresh fn gp parse o = structureRead ⟨fresh, some fn, gp, parse, sg⟩ o := by
  unfold Src.Load.structure_read structureRead titleStep replace tailbase
  cases gp <;> cases parse <;> first | rfl | (dsimp only; split <;> rfl)

/-- `Structure.readStr`: the same without the file-name rule -/
theorem structure_readStr_eq (fresh : Nat) (gp : Option (String × String)) (parse : Outcome Parsed)
    (sg : Option String) (o : Obj) :
    Src.Load.structure_readStr fresh gp parse o = structureRead ⟨fresh, none, gp, parse, sg⟩ o := by
  unfold Src.Load.structure_readStr structureRead titleStep replace
  cases gp <;> cases parse <;> rfl

/-- what `obj.read(filename, format)` runs: the method of the object's class -/
def readOf (fresh : Nat) (fn : String) (gp : Option (String × String)) (parse : Outcome Parsed) (sg : Option String)
    (o : Obj) : ReadOut :=
  match o.cls with
  | .base => Src.Load.structure_read fresh fn gp parse o
  | .pdffit => Src.Load.pdffit_read fresh fn gp parse sg o

def readStrOf (fresh : Nat) (gp : Option (String × String)) (parse : Outcome Parsed) (sg : Option String)
    (o : Obj) : ReadOut :=
  match o.cls with
  | .base => Src.Load.structure_readStr fresh gp parse o
  | .pdffit => Src.Load.pdffit_readStr fresh gp parse sg o

/-- the `PDFFitStructure` post-step as written: runs only when `Structure.read` returned, tests `sg`, assigns the item -/
theorem pdffit_post (r : ReadOut) (sg : Option String) :
    (match r.err with
      | some e => (⟨some e, r.obj⟩ : ReadOut)
      | none =>
        match sg with
        | none => ⟨none, r.obj⟩
        | some v =>
          match getattr r.obj "pdffit" with
          | some (.dict kv) => ⟨none, { r.obj with dict := setKey r.obj.dict "pdffit" (.dict (setKey kv "spcgr" v)) }⟩
          | _ => ⟨some ("TypeError", "object does not support item assignment"), r.obj⟩) = postStep .pdffit sg r := by
  obtain ⟨e, ob⟩ := r
  cases e <;> cases sg <;> simp only [postStep]
  cases getattr ob "pdffit" with
  | none => rfl
  | some v => cases v <;> rfl

/-- `T.read` for `T` = `Structure` or `PDFFitStructure` is the model's `read` -/
theorem read_eq (fresh : Nat) (fn : String) (gp : Option (String × String)) (parse : Outcome Parsed) (sg : Option String)
    (o : Obj) : readOf fresh fn gp parse sg o = Load.read ⟨fresh, some fn, gp, parse, sg⟩ o := by
  unfold readOf Load.read
  cases hc : o.cls
  · simp only [postStep_base]; exact structure_read_eq fresh fn gp parse sg o
  · simp only [Src.Load.pdffit_read, structure_read_eq fresh fn gp parse sg o]
    exact pdffit_post _ sg

theorem readStr_eq (fresh : Nat) (gp : Option (String × String)) (parse : Outcome Parsed) (sg : Option String)
    (o : Obj) : readStrOf fresh gp parse sg o = Load.read ⟨fresh, none, gp, parse, sg⟩ o := by
  unfold readStrOf Load.read
  cases hc : o.cls
  · simp only [postStep_base]; exact structure_readStr_eq fresh gp parse sg o
  · simp only [Src.Load.pdffit_readStr, structure_readStr_eq fresh gp parse sg o]
    exact pdffit_post _ sg

/-! ## Structure.write / writeStr, loadStructure -/

/-- `Structure.write`: getParser, `p.tostring(self)` strictly before the file is opened, `open(…, "w")` truncates, then the
text is written -/
theorem write_eq (gp : Option (String × String)) (ser : Except (String × String) String)
    (openErr encodeErr : Option (String × String)) (file : Option String) :
    Src.Load.structure_write gp ser openErr encodeErr file = Load.write ⟨gp, ser, openErr, encodeErr⟩ file := rfl

/-- the file is opened once, by name, truncating, as UTF-8; the only other statement sets an attribute of the parser -/
theorem write_facts : Src.Load.structure_write_open = ["codecs.open(filename, 'w', encoding='UTF-8')"] ∧
    Src.Load.structure_write_ignored = ["p.filename = filename  [statement 3 of the body]"] := ⟨rfl, rfl⟩

/-- `Structure.writeStr`: the text `p.tostring(self)` or the exception of `getParser` / `tostring` -/
theorem writeStr_eq (gp : Option (String × String)) (ser : Except (String × String) String) :
    Src.Load.structure_writeStr gp ser = match gp with | some e => .error e | none => ser := by
  unfold Src.Load.structure_writeStr
  cases gp <;> cases ser <;> rfl

/-- a write that succeeds leaves in the file exactly what `writeStr` returns for the same format -/
theorem write_saves_writeStr (gp : Option (String × String)) (ser : Except (String × String) String)
    (openErr encodeErr : Option (String × String)) (file : Option String)
    (h : (Load.write ⟨gp, ser, openErr, encodeErr⟩ file).1 = none) :
    ∃ s, Src.Load.structure_writeStr gp ser = .ok s ∧ (Load.write ⟨gp, ser, openErr, encodeErr⟩ file).2 = some s := by
  unfold Load.write at h ⊢
  unfold Src.Load.structure_writeStr
  cases gp <;> cases ser <;> cases openErr <;> cases encodeErr <;> simp_all

/-! the transliterated terms compute (non-vacuity) -/

/-- a refused write over an existing file leaves it; a successful one replaces it -/
example : Src.Load.structure_write none (.error ("StructureFormatError", "m")) none none (some "OLD")
    = (some ("StructureFormatError", "m"), some "OLD") := rfl
example : Src.Load.structure_write none (.ok "TEXT") none none (some "OLD") = (none, some "TEXT") := rfl
/-- the hypothesis of `write_saves_writeStr` is satisfiable -/
example : (Load.write ⟨none, .ok "TEXT", none, none⟩ (some "OLD")).1 = none := rfl

/-- the file-name rule of `Structure.read` through the transliterated term -/
example : (observe (readOf 9 "/data/ni.v2.cif" none (.ok ⟨[("_lattice", .lat 2 "L")], [⟨"C", some 2⟩]⟩) none (newObj .base)).obj).title
    = some (.str "ni.v2") := by decide
/-- a failing parse leaves a non-trivial `PDFFitStructure` untouched -/
example : readOf 9 "f.cif" none (.err "StructureFormatError" "bad") (some "P1") ⟨.pdffit, [("pdffit", .none)], [⟨"H", some 1⟩]⟩
    = ⟨some ("StructureFormatError", "bad"), ⟨.pdffit, [("pdffit", .none)], [⟨"H", some 1⟩]⟩⟩ := by decide

/-- `loadStructure` returns what `getParser(fmt).parseFile(filename)` returns or raises -/
theorem loadStructure_eq {R : Type} (gp : Option (String × String)) (parse : Outcome R) :
    Src.Load.loadStructure gp parse = match gp with | some e => .err e.1 e.2 | none => parse := by
  unfold Src.Load.loadStructure
  cases gp <;> cases parse <;> rfl

/-! ## the registry functions -/

theorem inputFormats_eq (reg : Registry) : Src.Load.inputFormats reg = Load.inputFormats reg := rfl
theorem outputFormats_eq (reg : Registry) : Src.Load.outputFormats reg = Load.outputFormats reg := rfl

/-- `getParser(format)` rejects exactly the names that are not registered, with the format error (`ReadIn.getParser`) -/
theorem getParser_eq : Src.Load.getParser_guard = "format not in parser_index -> StructureFormatError" ∧
    Src.Load.getParser_rest = "pmod = parser_index[format]['module']; ns = {}; import_cmd = 'from diffpy.structure.parsers import %s as pm' % pmod; exec(import_cmd, ns); return ns['pm'].getParser(**kw)" :=
  ⟨rfl, rfl⟩

/-! ## StructureParser -/

theorem sp_parse_eq (s : Dec.Str) : Src.Load.sp_parse_lines s = Dec.ofText s := rfl
theorem sp_tostring_eq (lines : List Dec.Str) : Src.Load.sp_tostring_text lines = Dec.toText lines := rfl
/-- `parseFile`: records the name, reads the whole file, turns a decoding error into the format error, then `parse` -/
theorem sp_parseFile_eq : Src.Load.sp_parseFile_body =
    "(self, filename) self.filename = filename; try: with open(filename) as fp: s = fp.read() except UnicodeDecodeError as err: emsg = 'cannot decode file content: %s' % err raise StructureFormatError(emsg); stru = self.parse(s); return stru" := rfl

/-! ## P_auto._getOrderedFormats -/

theorem foldlM_ok {α β ε : Type} (f : β → α → Except ε β) (g : β → α → β) :
    ∀ (l : List α) (b : β), (∀ a ∈ l, ∀ b, f b a = .ok (g b a)) → l.foldlM f b = .ok (l.foldl g b) := by
  intro l
  induction l with
  | nil => intro b _; rfl
  | cons a l ih =>
    intro b h
    rw [List.foldlM_cons, h a (by simp) b]
    exact ih (g b a) (fun a' ha' => h a' (by simp [ha']))

theorem anymatch_truthy {α : Type} (l : List α) (p : α → Bool) :
    (!((l.filter p).map (fun _ => (1 : Nat))).isEmpty) = l.any p := by
  induction l with
  | nil => rfl
  | cons a l ih =>
    cases h : p a <;> simp [h] at ih ⊢
    exact ih

/-- one round of the reordering loop is the model's step, for a candidate that is registered -/
theorem order_step (cfg : OrderCfg) (reg : Registry) (base : String) (fmt : String) (acc : List String)
    (h : ∃ e ∈ reg, e.name = fmt) :
    (match reg.find? (fun e => e.name == fmt) with
      | none => (.error ("KeyError", fmt) : Except (String × String) (List String))
      | some e =>
        if cfg.skipPatterns.contains e.pattern then .ok acc
        else if !(((splitChar cfg.sep e.pattern.toList).filter (fun p => globL p base.toList)).map (fun _ => (1 : Nat))).isEmpty
          then .ok (fmt :: acc.erase fmt) else .ok acc)
      = .ok (if matchesFmt cfg reg base fmt then fmt :: acc.erase fmt else acc) := by
  unfold matchesFmt
  cases hf : reg.find? (fun e => e.name == fmt) with
  | none =>
    obtain ⟨e, he, hn⟩ := h
    have := List.find?_eq_none.mp hf e he
    simp [hn] at this
  | some e =>
    dsimp only
    rw [anymatch_truthy]
    by_cases hs : cfg.skipPatterns.contains e.pattern = true
    · simp only [hs, if_true, Bool.not_true, Bool.false_and, Bool.false_eq_true, if_false]
    · rw [Bool.not_eq_true] at hs
      simp only [hs, Bool.false_eq_true, if_false, Bool.not_false, Bool.true_and]
      by_cases ha : ((splitChar cfg.sep e.pattern.toList).any fun p => globL p base.toList) = true
      · simp only [ha, if_true]
      · rw [Bool.not_eq_true] at ha
        simp only [ha, Bool.false_eq_true, if_false]

/-- `_getOrderedFormats` never raises (every candidate is a key of the registry) and returns the model's order -/
theorem getOrderedFormats_eq (cfg : OrderCfg) (reg : Registry) (fn : Option String) :
    Src.Load.getOrderedFormats cfg reg fn = .ok (orderFor cfg reg fn) := by
  unfold Src.Load.getOrderedFormats orderFor
  cases fn with
  | none => rfl
  | some fn =>
    dsimp only
    split
    · rfl
    · unfold reorder
      apply foldlM_ok
      intro f hf acc
      have hm : f ∈ candidates cfg reg := hf
      obtain ⟨⟨e, he, _, hn⟩, _⟩ := (mem_candidates cfg reg f).mp hm
      exact order_step cfg reg (basename fn) f acc ⟨e, he, hn⟩

/-! ## P_auto._wrapParseMethod and the entry points -/

variable {R : Type}

/-- what follows the loop: `if stru is None: raise StructureFormatError(<header + complaints>)`, else `return stru` with
`self.format` -/
def wrapPost (c : AutoCfg) : Src.Load.WrapStep R → AutoResult R
  | .raised k m => .err k m
  | .next st | .brk st =>
    match st.stru with
    | none => .err c.raised (c.joiner.intercalate (c.header ++ st.emsgs))
    | some r => .ok st.format r

/-- the loop `for fmt in ofmts: p = getParser(fmt); try: stru = pmethod(…); self.format = fmt; break except …` followed by
the statements after it is the model's `autoLoop` (refinement: by induction on the candidates still to try) -/
theorem wrapLoop_eq (c : AutoCfg) (parse : String → Outcome R) :
    ∀ (fs : List String) (fmt0 : String) (msgs : List String),
      wrapPost c (Src.Load.forLoop (Src.Load.wrapBody c parse) fs ⟨none, fmt0, msgs⟩) = autoLoop c parse fs msgs := by
  intro fs
  induction fs with
  | nil => intro fmt0 msgs; rfl
  | cons f fs ih =>
    intro fmt0 msgs
    simp only [Src.Load.forLoop, Src.Load.wrapBody, autoLoop]
    cases hp : parse f with
    | ok r => rfl
    | none => rfl
    | err k m =>
      dsimp only
      cases hk : c.handler k with
      | collect => exact ih fmt0 _
      | skip => exact ih fmt0 _
      | escape => rfl

/-- `_wrapParseMethod` = `auto` over the candidates of `_getOrderedFormats`, whatever `self.format` was before -/
theorem wrapParseMethod_eq (cfg : OrderCfg) (reg : Registry) (c : AutoCfg) (parse : String → Outcome R)
    (fn : Option String) (fmt0 : String) :
    Src.Load.wrapParseMethod cfg reg c parse fn fmt0 = auto c parse (orderFor cfg reg fn) := by
  unfold Src.Load.wrapParseMethod auto
  rw [getOrderedFormats_eq]
  dsimp only
  rw [← wrapLoop_eq c parse (orderFor cfg reg fn) fmt0 []]
  unfold wrapPost
  generalize Src.Load.forLoop (Src.Load.wrapBody c parse) (orderFor cfg reg fn) ⟨none, fmt0, []⟩ = w
  cases w <;> rfl

/-- `P_auto.parse` / `parseLines` use the file name left by an earlier `parseFile` (or `None`) -/
theorem auto_parse_eq (cfg : OrderCfg) (reg : Registry) (c : AutoCfg) (parse : String → Outcome R)
    (fn : Option String) (fmt0 : String) :
    Src.Load.auto_parse cfg reg c parse fn fmt0 = auto c parse (orderFor cfg reg fn) ∧
    Src.Load.auto_parseLines cfg reg c parse fn fmt0 = auto c parse (orderFor cfg reg fn) :=
  ⟨wrapParseMethod_eq .., wrapParseMethod_eq ..⟩

/-- `P_auto.parseFile` stores its argument as the file name first: the candidates are ordered by *this* file's name -/
theorem auto_parseFile_eq (cfg : OrderCfg) (reg : Registry) (c : AutoCfg) (parse : String → Outcome R)
    (fn0 : Option String) (filename fmt0 : String) :
    Src.Load.auto_parseFile cfg reg c parse fn0 filename fmt0 = auto c parse (orderFor cfg reg (some filename)) :=
  wrapParseMethod_eq ..

/-- the constants of p_auto.py as this translator reads them are the ones translate/registry.py put into `Gen.Reg` (the
configuration the C12 theorems are instantiated at) -/
theorem auto_constants :
    Src.Load.excluded_src = Gen.Reg.excludedRaw ∧ Src.Load.skipPatterns_src = [Gen.Reg.skipPatternsRaw] ∧
    Src.Load.separator_src = [Gen.Reg.separatorRaw] ∧
    Src.Load.complaint_src = ["%s".intercalate Gen.Reg.complaintPartsRaw] ∧ Src.Load.joiner_src = [Gen.Reg.joinerRaw] ∧
    Src.Load.header_src = [Gen.Reg.headerRaw] ∧ Src.Load.raised_src = [Gen.Reg.raisedRaw] := by decide

/-- the `except` clauses of the per-candidate `try`, in source order, and their classes in the generated class table -/
theorem auto_clauses :
    Src.Load.wrap_clauses = [(["StructureFormatError"], "collect"), (["NotImplementedError"], "skip")] ∧
    Src.Load.wrap_clauses.all (fun cl => cl.1.all (fun k =>
      genHandler k == (if cl.2 == "collect" then Handler.collect else if cl.2 == "skip" then .skip else .escape))) = true := by
  decide

/-- after the loop the `auto` parser object copies the attributes of the successful parser (not part of the model); the one
call assumed not to raise is `getParser` for a registered name -/
theorem auto_outside : Src.Load.wrap_after = ["self.__dict__.update(p.__dict__)"] ∧
    Src.Load.wrap_assumed = ["getParser(fmt, **self.pkw) does not raise: every candidate is a key of parser_index"] := ⟨rfl, rfl⟩

/-! the transliterated terms compute on the registry under test -/

def exParse : String → Outcome Nat
  | "cif" => .err "StructureFormatError" "not a CIF"
  | "discus" => .err "NotImplementedError" "generator"
  | "pdb" => .ok 8
  | _ => .err "StructureFormatError" "no"

/-- the transliterated `_wrapParseMethod` on the registry under test: one complaint collected, one candidate skipped,
the third succeeds and is reported; with a `.stru` file name the PDFfit parser is tried first -/
example : Src.Load.wrapParseMethod genOrderCfg genRegistry genAutoCfg exParse none "auto" = .ok "pdb" 8 := by decide
example : Src.Load.getOrderedFormats genOrderCfg genRegistry (some "/d/x.stru")
    = .ok ["pdffit", "discus", "cif", "pdb", "rawxyz", "xcfg", "xyz"] := by decide
example : Src.Load.wrapParseMethod genOrderCfg genRegistry genAutoCfg (fun f => if f = "xyz" then .ok 1 else .err "TypeError" "boom")
    (some "a.xyz") "auto" = .ok "xyz" 1 := by decide

/-! ## transtru.main -/

open DS.Cli in
theorem optLoop_eq (opts : List String) : Src.Load.main_optLoop opts = optionAction Gen.cliConfig opts := by
  induction opts with
  | nil => rfl
  | cons o rest ih =>
    unfold Src.Load.main_optLoop optionAction
    rw [ih]
    rfl

open DS.Cli in
/-- `transtru.main` is the model's `main` at the configuration generated from the same source: getopt and its handler,
the option loop, the argument count, the `..` split and its handler, the two membership tests in this order, the file
argument, `-` for standard input, read then write, every `sys.exit` status -/
theorem main_eq {S : Type} (lib : Lib S) (argv : List String) :
    Src.Load.main lib argv = Cli.main Gen.cliConfig lib argv := by
  unfold Src.Load.main Cli.main
  cases hg : getopt "hV".toList ["help", "version"] argv with
  | none => simp only [show Gen.cliConfig.shortOpts = "hV".toList from rfl, show Gen.cliConfig.longOpts = ["help", "version"] from rfl, hg]; rfl
  | some p =>
    obtain ⟨opts, args⟩ := p
    simp only [show Gen.cliConfig.shortOpts = "hV".toList from rfl, show Gen.cliConfig.longOpts = ["help", "version"] from rfl, hg, optLoop_eq]
    cases optionAction Gen.cliConfig opts with
    | some o => rfl
    | none =>
      cases args with
      | nil => rfl
      | cons spec rest =>
        dsimp only
        cases hs : splitSpec "..".toList spec with
        | none => simp only [show Gen.cliConfig.sep = "..".toList from rfl, hs]; rfl
        | some io =>
          obtain ⟨i, o⟩ := io
          simp only [show Gen.cliConfig.sep = "..".toList from rfl, hs]
          split
          · rfl
          · split
            · rfl
            · unfold convert libRead
              cases rest with
              | nil => rfl
              | cons file rest' =>
                dsimp only
                split <;> rfl

open DS.Cli in
/-- the handlers of the conversion `try`, in source order, and the class table of `Gen.cliConfig` that `onException` uses:
every class a clause names is handled as that clause says (`IOError` is `OSError`), and every handled class of the table
gets the status and message of one of the clauses -/
theorem main_handlers :
    Src.Load.main_conv_clauses = [(["IndexError"], 2, .noFile), (["IOError"], 1, .ioStrerror),
      (["StructureFormatError", "NotImplementedError"], 1, .excStr)] ∧
    Src.Load.main_conv_clauses.all (fun cl => cl.1.all (fun k =>
      Gen.cliConfig.handlers.lookup (if k == "IOError" then "OSError" else k) == some (some ⟨cl.2.1, cl.2.2⟩))) = true ∧
    Gen.cliConfig.handlers.all (fun e => match e.2 with
      | none => true
      | some h => Src.Load.main_conv_clauses.any (fun cl => cl.2.1 == h.status && cl.2.2 == h.msg)) = true := by
  decide

/-- the format lists the command tests membership in are `inputFormats()` / `outputFormats()` of the registry -/
theorem main_formats : Load.inputFormats genRegistry = Gen.cliConfig.inFormats ∧
    Load.outputFormats genRegistry = Gen.cliConfig.outFormats := by decide

/-- `usage` / `version` print to standard output only -/
theorem usage_version_eq :
    Src.Load.usage_body = "(style=None) import os.path; myname = os.path.basename(sys.argv[0]); msg = __doc__.replace('transtru', myname); if style == 'brief': msg = msg.split('\\n')[1] + '\\n' + \"Try `%s --help' for more information.\" % myname else: from diffpy.structure.parsers import inputFormats, outputFormats msg = msg.replace('inputFormats', ' '.join(inputFormats())) msg = msg.replace('outputFormats', ' '.join(outputFormats())); print(msg); return" ∧
    Src.Load.version_body = "() from diffpy.structure import __version__; print('diffpy.structure', __version__); return" :=
  ⟨rfl, rfl⟩

/-! the transliterated `main` computes -/

section
open DS.Cli
def exLib : Lib Nat := { readFile := fun f _ => if f = "missing" then .error "FileNotFoundError" else .ok 1,
                         readStdin := fun _ => .ok 2, write := fun s _ => .ok (toString s) }

example : Src.Load.main exLib ["xyz..cif", "f.xyz"] = { stdout := .text "1", stderrLines := 0, status := 0, traceback := false, msg := .none } := by
  decide
example : Src.Load.main exLib ["xyz..cif", "-"] = { stdout := .text "2", stderrLines := 0, status := 0, traceback := false, msg := .none } := by
  decide
example : (Src.Load.main exLib ["xyz..cif", "missing"]).status = 1 ∧ (Src.Load.main exLib ["xyz..cif"]).status = 2 ∧
    (Src.Load.main exLib ["xyz.cif", "f"]).msg = .noSep ∧ (Src.Load.main exLib ["bogus..cif", "f"]).msg = .badIn ∧
    (Src.Load.main exLib ["xyz..bogus", "f"]).msg = .badOut ∧ (Src.Load.main exLib ["--help", "x"]).stdout = .usageFull ∧
    (Src.Load.main exLib ["-x"]).msg = .getopt ∧ (Src.Load.main exLib []).stdout = .usageBrief := by decide
end

end DS.Props.SrcLoad
