import DS.Lemmas.SymType
import DS.Gen.SIndex
/-!
# C03 (c) — the International Tables number agrees with the TYPE the operations imply: rotation vs screw, mirror vs glide

For an operation `g = (R, t)`: `n` the order of `R`, `N = 1 + R + … + R^(n-1)`, `s = N t` (`g^n` is the pure translation
`s`), `L` the translation lattice of the setting (ℤ-span of the unit translations and of the listed centring
translations).  The *screw order* of `g` is the least `m ≥ 1` with `m·s ∈ N(L)` (`DS.SymType.IsScrewOrder`): 1 for a coset
that contains a pure rotation / reflection / roto-inversion, 2 for 2₁ and ordinary glides, 4 for 4₁/4₃/d, 3 for 3₁/3₂, 6 for
6₁/6₅.  The census `(det R, trace R, m) ↦ number of cosets` is compared with the committed reference census of
`number % 1000` (`DS.Ref.itCensus`).

`Gen.allS` is regenerated from the repository's tables on every run (`translate/screw.py`); `Gen.allS_ok` is the
conjunction of the per-setting kernel obligations `sgN_type : checkScrew sgN sgN_sc = true := by decide +kernel`.
Settings whose operations give another census get no such theorem; they are counted in `Gen.nTypeBad`
(`Gen.typeBadNumbers`; the known one is #3004, I 1 2₁ 1, whose census is that of No. 5) and, when only the census
differs, come with the kernel-checked pair `sgN_type_ops : … = true`, `sgN_type_census : … = false`.
-/
namespace DS.Props.C03c
open DS DS.SymType

/-- the kernel accepted the type certificate of every setting of `Gen.allS` -/
theorem all_types : ∀ p ∈ Gen.allS, checkScrew p.1 p.2 = true := Gen.allS_ok

/-- If the checker accepts then for every operation the claimed `m` really is its screw order — (a) the witness
gives `m·s ∈ N(L)`, (b) the functionals exclude `m'·s ∈ N(L)` for every `1 ≤ m' < m` and *all* integer combinations of
the generators — and the census equals the reference census of `number % 1000`. -/
theorem checkScrew_sound {g : SG} {c : List OpCert} (h : checkScrew g c = true) : TypeOK g (c.map (·.m)) :=
  SymType.checkScrew_sound h

/-- hence, for every tabulated setting that passed: screw orders of all operations and census of the type -/
theorem all_types_ok : ∀ p ∈ Gen.allS, TypeOK p.1 (p.2.map (·.m)) :=
  fun p hp => checkScrew_sound (all_types p hp)

/-- the screw orders are determined by the operations: any two assignments coincide (so `TypeOK` pins the census) -/
theorem orders_unique {gens : List V} {ops : List Op} {ms ms' : List Nat}
    (h : OrdersAre gens ops ms) (h' : OrdersAre gens ops ms') : ms = ms' :=
  SymType.orders_unique h h'

/-- Origin shift: conjugating `(R, t)` by the translation `u` changes `t` to `t + (1 - R) u` and leaves `s = N t`
unchanged, because `N (1 - R) = 0` when `R^n = 1`. -/
theorem origin_shift_invariant {R : M} {n : Nat} (h : pow R n = Mat3.one) (t u : V) :
    (sumPow R n).mulVec (t.add (u.sub (R.mulVec u))) = (sumPow R n).mulVec t :=
  sumPow_shift h t u

/-- … hence the screw order of every operation, and with it the census, does not depend on the origin -/
theorem screw_order_origin_invariant (gens : List V) (a : Op) (u : V) (m : Nat) :
    IsScrewOrder gens (shift a u) m ↔ IsScrewOrder gens a m :=
  isScrewOrder_shift gens a u m

/-- the screw order belongs to the coset `a·T`: adding a lattice translation to `t` does not change it -/
theorem screw_order_coset_invariant {gens : List V} (a : Op) {l : V} (hl : Span gens l) (m : Nat) :
    IsScrewOrder gens (translate a l) m ↔ IsScrewOrder gens a m :=
  isScrewOrder_translate a hl m

/-- every translated setting is either in `allS` or counted as a finding -/
theorem coverage : Gen.allS.length + Gen.nTypeBad = Gen.allSG.length := Gen.allS_length

/-- the reference keys of every type are pairwise distinct (so the three clauses of `CensusIs` describe a tally) -/
theorem ref_keys_nodup : ∀ e ∈ Ref.itCensusTable, (e.2.map (·.1)).Nodup := by decide +kernel

/-! ### non-vacuity -/

/-- the two-fold operation of P2₁ (unique axis b): `-x, y+1/2, -z` -/
def op21 : Op := ⟨-1, 0, 0, 0, 1, 0, 0, 0, -1, 0, 12, 0⟩
/-- the two-fold operation of P2: `-x, y, -z` -/
def op2 : Op := ⟨-1, 0, 0, 0, 1, 0, 0, 0, -1, 0, 0, 0⟩
/-- the four-fold operation of P4₁: `-y, x, z+1/4` -/
def op41 : Op := ⟨0, -1, 0, 1, 0, 0, 0, 0, 1, 0, 0, 6⟩
/-- the four-fold operation of P4₂: `-y, x, z+1/2` -/
def op42 : Op := ⟨0, -1, 0, 1, 0, 0, 0, 0, 1, 0, 0, 12⟩
/-- the I centring translation -/
def opI : Op := ⟨1, 0, 0, 0, 1, 0, 0, 0, 1, 12, 12, 12⟩

def p21 : SG := { number := 4, nsym := 2, nprim := 2, short := "P21", pdb := "P 1 21 1", pgname := "PG2",
                  system := .monoclinic, ops := [Op.one, op21] }
def p2 : SG := { p21 with number := 3, ops := [Op.one, op2] }
def ops41 : List Op := [Op.one, op41, op41.comp op41, op41.comp (op41.comp op41)]
def p41 : SG := { p21 with number := 76, nsym := 4, nprim := 4, system := CSys.tetragonal, ops := ops41 }
/-- I 1 2₁ 1 as tabulated under #3004 -/
def i21 : SG := { p21 with number := 3004, nsym := 4, nprim := 2, ops := [Op.one, op21, opI, opI.comp op21] }

/-- P2₁ has m = 2 -/
example : IsScrewOrder (latGens p21.ops) op21 2 :=
  checkOp_sound (c := ⟨2, [0, -1], [(⟨0, 1, 0⟩, 48)]⟩) (by decide)
/-- … and not 1 (uniqueness) -/
example : ¬ IsScrewOrder (latGens p21.ops) op21 1 := fun h =>
  absurd (isScrewOrder_unique h (checkOp_sound (c := ⟨2, [0, -1], [(⟨0, 1, 0⟩, 48)]⟩) (by decide))) (by decide)
/-- P2 has m = 1 -/
example : IsScrewOrder (latGens p2.ops) op2 1 := checkOp_sound (c := ⟨1, [], []⟩) (by decide)
/-- P4₁ has m = 4 -/
example : IsScrewOrder (latGens p41.ops) op41 4 :=
  checkOp_sound (c := ⟨4, [0, 0, -1], [(⟨0, 0, 1⟩, 96), (⟨0, 0, 1⟩, 96), (⟨0, 0, 1⟩, 96)]⟩) (by decide)
/-- P4₂ has m = 2 -/
example : IsScrewOrder (latGens p41.ops) op42 2 :=
  checkOp_sound (c := ⟨2, [0, 0, -1], [(⟨0, 0, 1⟩, 96)]⟩) (by decide)
/-- with the I centring the 2₁ coset contains a pure rotation: m = 1 (why #3004 is not of type No. 4) -/
example : IsScrewOrder (latGens i21.ops) op21 1 := checkOp_sound (c := ⟨1, [0, 0, 0, 0, -1], []⟩) (by decide)

/-- whole settings: P2₁ and P2 are accepted with their own numbers … -/
example : TypeOK p21 [1, 2] := checkScrew_sound (c := [⟨1, [], []⟩, ⟨2, [0, -1], [(⟨0, 1, 0⟩, 48)]⟩]) (by decide)
example : TypeOK p2 [1, 1] := checkScrew_sound (c := [⟨1, [], []⟩, ⟨1, [], []⟩]) (by decide)
/-- … and rejected with each other's (the checker is not trivially true) -/
example : checkScrew { p21 with number := 3 } [⟨1, [], []⟩, ⟨2, [0, -1], [(⟨0, 1, 0⟩, 48)]⟩] = false := by decide
example : checkScrew p21 [⟨1, [], []⟩, ⟨1, [], []⟩] = false := by decide
example : checkTypeOps i21 [⟨1, [], []⟩, ⟨1, [0, 0, 0, 0, -1], []⟩, ⟨1, [0, 0, 0, 0, -1], []⟩, ⟨1, [], []⟩] = true
    ∧ checkTypeCensus i21 [⟨1, [], []⟩, ⟨1, [0, 0, 0, 0, -1], []⟩, ⟨1, [0, 0, 0, 0, -1], []⟩, ⟨1, [], []⟩] = false := by
  decide

/-- the origin-shift lemma applies to a real rotation part: order 4 -/
example : pow (rot op41) 4 = Mat3.one := by decide
example : IsOrd (rot op41) 4 := (ordSum_spec (R := rot op41) (N := ⟨0, 0, 0, 0, 0, 0, 0, 0, 4⟩) (by decide)).1

/-- the generated list is not empty -/
example : 0 < Gen.allS.length := by
  have := coverage; have h : Gen.nTypeBad < Gen.allSG.length := by decide +kernel
  omega

end DS.Props.C03c
