import DS.Model.CifSym
/-!
# C07 — which symmetry a CIF is read with (decision logic of `_parse_space_group_symop_operation_xyz`)

Theorems about `DS.CifSym.resolve`, which `DS.Props.SrcCifSym.parseSymops_eq` identifies with the transliteration of the
current source.  For every block, every environment (the library functions as parameters) and every prior parser state:

* `resolve_fresh` — the result does not depend on what the parser object read before (space group, name, asymmetric unit of
  the previous file);
* `listed_tabulated_wins` — an operator list that is a tabulated setting decides, whatever the names and numbers say;
* `by_identifier` — without operators the identifier decides, in the order IT number, Int-Tables number, H-M alt, ref, H-M;
* `custom_when_unidentified` — a listed, untabulated operator list without a usable identifier gives an ad-hoc group with
  exactly the listed operators, named after the Hall symbol;
* `no_symmetry_rejected` — no operators and no usable identifier: the format error;
* `bad_operator_rejected` — an operator text that `getSymOp` rejects rejects the file;
* `first_synonym_wins` — when both loop names occur, `_space_group_symop_operation_xyz` is the one read.

Full-strength statement and its failure: `listed_ops_decide_statement` ("when operators are listed, the group used consists
of exactly those operators") is FALSE of the present code — `listed_ops_decide_statement_false`: a listed, untabulated operator
list together with a known identifier is expanded with the identifier's tabulated operators (`listed_ops_overridden`); replayed
on the implementation by harness/c07.py (known finding `symsource:listed-ops-overridden`).  What holds is
`listed_ops_decide_partial` (no usable identifier, or the list is tabulated).
-/
namespace DS.Props.C07Sym
open DS.CifSym

variable {G Op A : Type}

/-- the operations of the group the reader ends up with, given the operations of the tabulated settings -/
def SGRes.ops (opsOf : G → List Op) : SGRes G Op → List Op
  | .tab g => opsOf g
  | .custom _ _ ops => ops

/-- **history independence**: two parser objects with any prior contents but the same atom list read the same symmetry -/
theorem resolve_fresh (env : Env G Op) (b : Block) (s₁ s₂ : PState G Op A) (h : s₁.stru = s₂.stru) :
    resolve env b s₁ = resolve env b s₂ := by
  unfold resolve
  cases listedOps env b with
  | error e => rfl
  | ok ops =>
    cases hc : choose env b ops with
    | error e => simp [bind, Except.bind, hc]
    | ok r =>
      simp only [bind, Except.bind, hc, pure, Except.pure]
      cases s₁; cases s₂; simp_all

/-- the outcome kind and the space group depend on nothing but the block -/
theorem resolve_spacegroup (env : Env G Op) (b : Block) (st : PState G Op A) :
    (resolve env b st).map (·.spacegroup) = (listedOps env b >>= choose env b).map some := by
  unfold resolve
  cases listedOps env b with
  | error e => rfl
  | ok ops =>
    cases hc : choose env b ops with
    | error e => simp [bind, Except.bind, hc, Except.map]
    | ok r => simp [bind, Except.bind, hc, pure, Except.pure, Except.map]

/-- **a tabulated operator list decides**, whatever the names and numbers in the block say -/
theorem listed_tabulated_wins (env : Env G Op) (b : Block) (ops : List Op) (g : G) (hne : ops ≠ [])
    (hf : env.find ops = some g) : choose env b ops = .ok (.tab g) := by
  unfold choose
  cases ops with
  | nil => exact absurd rfl hne
  | cons o os => simp [hf, pure, Except.pure]

/-- **without operators the identifier decides** -/
theorem by_identifier (env : Env G Op) (b : Block) (g : G) (hs : sgid b ≠ "") (hi : env.isId (sgid b) = true)
    (hg : env.getSG (sgid b) = .ok g) : choose env b [] = .ok (.tab g) := by
  simp [choose, hs, hi, hg, bind, Except.bind, pure, Except.pure]

/-- the order in which the identifier items are consulted -/
theorem sgid_order (b : Block) :
    sgid b = (if b.getD "_space_group_IT_number" ≠ "" then b.getD "_space_group_IT_number"
      else if b.getD "_symmetry_Int_Tables_number" ≠ "" then b.getD "_symmetry_Int_Tables_number"
      else if b.getD "_space_group_name_H-M_alt" ≠ "" then b.getD "_space_group_name_H-M_alt"
      else if b.getD "_space_group_name_H-M_ref" ≠ "" then b.getD "_space_group_name_H-M_ref"
      else b.getD "_symmetry_space_group_name_H-M") := by
  simp only [sgid, hm, pyOr, bne_iff_ne, ne_eq, ite_not]
  repeat' split
  all_goals simp_all

/-- **listed, untabulated, no usable identifier: an ad-hoc group with exactly the listed operators** -/
theorem custom_when_unidentified (env : Env G Op) (b : Block) (ops : List Op) (hne : ops ≠ [])
    (hf : env.find ops = none) (hid : sgid b = "" ∨ env.isId (sgid b) = false) :
    choose env b ops = .ok (.custom ("CIF " ++ pyOr (hall b) "data") (crystalSystem env b) ops) := by
  unfold choose
  cases ops with
  | nil => exact absurd rfl hne
  | cons o os =>
    rcases hid with h | h <;> simp [hf, h, pure, Except.pure]

/-- **no operators, no usable identifier: the format error** -/
theorem no_symmetry_rejected (env : Env G Op) (b : Block) (hid : sgid b = "" ∨ env.isId (sgid b) = false) :
    choose env b [] = .error .structureFormatError := by
  rcases hid with h | h <;> simp [choose, h]

/-- the operator list read is that of the first synonym present; a rejected operator text rejects the file -/
theorem bad_operator_rejected (env : Env G Op) (b : Block) (st : PState G Op A) (n : String) (rest : List String)
    (hn : symSynonyms.filter b.has = n :: rest) (e : Exn) (t : String) (ht : t ∈ b.col n)
    (hbad : env.getSymOp t = .error e) (hfirst : ∀ t' ∈ b.col n, ∀ e', env.getSymOp t' = .error e' → e' = e) :
    resolve env b st = .error e := by
  have hl : listedOps env b = .error e := by
    unfold listedOps; rw [hn]
    show (b.col n).mapM env.getSymOp = .error e
    generalize b.col n = l at ht hfirst
    induction l with
    | nil => cases ht
    | cons a l ih =>
      rw [List.mapM_cons]
      cases ha : env.getSymOp a with
      | error e' =>
        have := hfirst a (by simp) e' ha
        simp [bind, Except.bind, this]
      | ok o =>
        have hta : t ∈ l := by
          rcases List.mem_cons.1 ht with h | h
          · subst h; rw [hbad] at ha; cases ha
          · exact h
        have := ih hta (fun t' ht' => hfirst t' (List.mem_cons_of_mem _ ht'))
        simp [bind, Except.bind, this]
  unfold resolve; rw [hl]; rfl

/-- when both loop names occur, `_space_group_symop_operation_xyz` is the one read -/
theorem first_synonym_wins (env : Env G Op) (b : Block) (h : b.has "_space_group_symop_operation_xyz" = true) :
    listedOps env b = (b.col "_space_group_symop_operation_xyz").mapM env.getSymOp := by
  unfold listedOps symSynonyms
  simp [List.filter, h]

/-- only the older name present -/
theorem second_synonym (env : Env G Op) (b : Block) (h1 : b.has "_space_group_symop_operation_xyz" = false)
    (h2 : b.has "_symmetry_equiv_pos_as_xyz" = true) :
    listedOps env b = (b.col "_symmetry_equiv_pos_as_xyz").mapM env.getSymOp := by
  unfold listedOps symSynonyms
  simp [List.filter, h1, h2]

/-! ## the full-strength statement about listed operators, and why it fails -/

/-- "when operators are listed, the group the file is expanded with consists of exactly the listed operators (as a tabulated
setting with those operators, or as an ad-hoc group)" — `Same` is the relation "same operations up to order" -/
def listed_ops_decide_statement : Prop :=
  ∀ (G Op : Type) (env : Env G Op) (opsOf : G → List Op) (Same : List Op → List Op → Prop),
    (∀ l g, env.find l = some g → Same (opsOf g) l) → (∀ l, Same l l) →
    ∀ (b : Block) (ops : List Op) (r : SGRes G Op), ops ≠ [] → choose env b ops = .ok r → Same (SGRes.ops opsOf r) ops

/-- what holds: the list is tabulated, or there is no usable identifier -/
theorem listed_ops_decide_partial (env : Env G Op) (opsOf : G → List Op) (Same : List Op → List Op → Prop)
    (hfind : ∀ l g, env.find l = some g → Same (opsOf g) l) (hrefl : ∀ l, Same l l)
    (b : Block) (ops : List Op) (r : SGRes G Op) (hne : ops ≠ [])
    (hside : (env.find ops).isSome = true ∨ sgid b = "" ∨ env.isId (sgid b) = false)
    (h : choose env b ops = .ok r) : Same (SGRes.ops opsOf r) ops := by
  cases hf : env.find ops with
  | some g =>
    rw [listed_tabulated_wins env b ops g hne hf] at h
    cases h; exact hfind ops g hf
  | none =>
    rcases hside with h1 | h2
    · rw [hf] at h1; cases h1
    · rw [custom_when_unidentified env b ops hne hf h2] at h
      cases h; exact hrefl ops

/-- **the listed operators are overridden by a known identifier** when the list is not a tabulated one -/
theorem listed_ops_overridden (env : Env G Op) (b : Block) (ops : List Op) (g : G) (hne : ops ≠ [])
    (hf : env.find ops = none) (hs : sgid b ≠ "") (hi : env.isId (sgid b) = true) (hg : env.getSG (sgid b) = .ok g) :
    choose env b ops = .ok (.tab g) := by
  unfold choose
  cases ops with
  | nil => exact absurd rfl hne
  | cons o os => simp [hf, hs, hi, hg, bind, Except.bind, pure, Except.pure]

/-- witness block: one operator text, read as the opaque operator `7` (its length) (not tabulated), identifier `14` known with operations `[1, 2]` -/
def wBlock : Block := { names := ["_symmetry_equiv_pos_as_xyz", "_symmetry_Int_Tables_number"],
                        items := [("_symmetry_Int_Tables_number", "14")], cols := [("_symmetry_equiv_pos_as_xyz", ["x,y,z+0"])] }

def wEnv : Env Nat Nat := { getSymOp := fun t => .ok t.length, find := fun l => if l = [1, 2] then some 14 else none,
                            isId := fun s => s == "14", getSG := fun _ => .ok 14, upper := id }

theorem listed_ops_decide_statement_false : ¬ listed_ops_decide_statement := by
  intro h
  have := h Nat Nat wEnv (fun _ => [1, 2]) (· = ·)
    (by intro l g hl; simp only [wEnv] at hl; split at hl <;> simp_all) (fun _ => rfl) wBlock [7] (.tab 14) (by simp)
    (by rfl)
  simp [SGRes.ops] at this

/-! ## non-vacuity -/

/-- the witness block really lists the operator `7` and is resolved to the tabulated setting 14 -/
example : listedOps wEnv wBlock = .ok [7] := by rfl
example : (resolve wEnv wBlock (⟨[0], [], none, none⟩ : PState Nat Nat Nat)).map (fun s => s.spacegroup.isSome) = .ok true := by rfl

/-- `custom_when_unidentified` and `listed_ops_decide_partial`: the same list without the identifier -/
example : choose wEnv { wBlock with items := [] } [7] = .ok (.custom "CIF data" "TRICLINIC" [7]) := by rfl

/-- `listed_tabulated_wins`: the tabulated list `[1, 2]` with a contradicting identifier -/
example : choose { wEnv with isId := fun _ => true, getSG := fun _ => .ok 99 } wBlock [1, 2] = .ok (.tab 14) := by rfl

end DS.Props.C07Sym
