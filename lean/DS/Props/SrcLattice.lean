import DS.Gen.SrcLattice
import DS.Lemmas.Lattice
/-!
# Source tie for `lattice.py` (serves C01, C10; indirectly C09, C14, C15, C18)

`DS/Gen/SrcLattice.lean` is regenerated on every run by `translate/pysrc.py` from the *current*
`src/diffpy/structure/lattice.py` (an `ast` transliteration of the method bodies into Lean, in the
scalar-generic state-passing style).  The theorems below state that the hand-written model
`DS.Lattice` — the object of every C01/C10 theorem — coincides with that transliteration, method by
method.  Every proof is `rfl`: model and source are the same term up to unfolding, for every scalar
type (so for `ℝ`, where the theorems live, and for `Float`, where the driver runs).

A source edit that changes what a method computes (or merely how it is written) makes the
corresponding `rfl` fail; the check then searches for a concrete failing input (correspondence +
oracle) and reports the broken tie with `no-failing-input-found` when it finds none.
-/
namespace DS.Props.SrcLattice
open DS
set_option linter.unusedSectionVars false

section
variable {α : Type} [Add α] [Mul α] [Sub α] [Neg α] [Div α] [OfNat α 0] [OfNat α 1] [OfNat α 2]
  [OfNat α 3] [OfNat α 90] [Max α] [Min α] [Elem α]

/-- `_isotropicunit` -/
theorem isotropicunit_eq (m : Mat3 α) : Src.isotropicunit m = Lattice.isounitOf m := rfl
/-- property `unitvolume` -/
theorem unitvolume_eq (L : Lattice α) : Src.unitvolume L = L.unitvolume := rfl
/-- property `volume` -/
theorem volume_eq (L : Lattice α) : Src.volume L = L.volume := rfl
/-- `setLatPar` with any subset of its seven arguments, on any prior object state -/
theorem setLatPar_eq (L : Lattice α) (a b c al be ga : Option α) (Q : Option (Mat3 α)) :
    Src.setLatPar L a b c al be ga Q = L.setLatPar ⟨a, b, c, al, be, ga, Q⟩ := rfl
/-- `setLatBase` on any prior object state -/
theorem setLatBase_eq (L : Lattice α) (B : Mat3 α) : Src.setLatBase L B = L.setLatBase B := rfl
theorem cartesian_eq (L : Lattice α) (u : Vec3 α) : Src.cartesian L u = L.cartesian u := rfl
theorem fractional_eq (L : Lattice α) (r : Vec3 α) : Src.fractional L r = L.fractional r := rfl
theorem dot_eq (L : Lattice α) (u v : Vec3 α) : Src.dot L u v = L.dot u v := rfl
theorem norm_eq (L : Lattice α) (u : Vec3 α) : Src.norm L u = L.norm u := rfl
theorem rnorm_eq (L : Lattice α) (h : Vec3 α) : Src.rnorm L h = L.rnorm h := rfl
theorem dist_eq (L : Lattice α) (u v : Vec3 α) : Src.dist L u v = L.dist u v := rfl
/-- the scalar branch of `angle` (the array branch is recorded as text below) -/
theorem angle_eq (L : Lattice α) (u v : Vec3 α) : Src.angle L u v = L.angle u v := rfl
/-- `reciprocal()` constructs `Lattice(base=transpose(recbase))` -/
theorem reciprocal_eq (L : Lattice α) : Lattice.ofBase (Src.reciprocalBase L) = L.reciprocal := rfl
end

/-! ### guards, tables and glue that are compared as data -/

/-- the only `raise` statements of `setLatBase` and their conditions (mirrored by `Lattice.baseGuard`) -/
theorem setLatBase_guards_eq :
    Src.setLatBase_guards = ["abs(detbase) < 1e-08 -> LatticeError", "detbase < 0.0 -> LatticeError"] := rfl
theorem setLatPar_guards_eq : Src.setLatPar_guards = [] := rfl
/-- array arguments are copied (`numpy.array`), never aliased: a lattice does not change when the caller
reuses the array it passed in (the model has value semantics) -/
theorem arrayArgs_copied :
    Src.setLatPar_arrayArgs = ["baserot: numpy.array"] ∧ Src.setLatBase_arrayArgs = ["base: numpy.array"] := ⟨rfl, rfl⟩
theorem method_guards_eq : Src.cartesian_guards = [] ∧ Src.fractional_guards = [] ∧ Src.dot_guards = [] ∧
    Src.norm_guards = [] ∧ Src.rnorm_guards = [] ∧ Src.dist_guards = [] ∧ Src.angle_guards = [] :=
  ⟨rfl, rfl, rfl, rfl, rfl, rfl, rfl⟩
/-- the array branch of `angle` clips to [−1, 1] and applies `arccos` element-wise, like the scalar one -/
theorem angle_arrayBranch_eq :
    Src.angle_arrayBranch = ["ca[ca < -1] = -1\nca[ca > +1] = +1\nrv = numpy.degrees(numpy.arccos(ca))"] := rfl

/-- `_EXACT_COSD` is the table the C01 theorem `cosd_table_exact` is about -/
theorem exactCosd_eq :
    Src.exactCosd = [(0, 2), (60, 1), (90, 0), (120, -1), (180, -2), (240, -1), (270, 0), (300, 1)] := rfl
theorem cosdTable_eq_src :
    Lattice.cosdTable = Src.exactCosd.map (fun e => ((e.1 : ℝ), (e.2 : ℝ) / 2)) := by
  simp only [Lattice.cosdTable, Src.exactCosd, List.map]
  norm_num
/-- `cosd` looks `x % 360` up in the table and otherwise returns `cos(radians x)`; `sind x = cosd (90 − x)` -/
theorem cosd_body_eq :
    Src.cosd_body = "(x) rv = _EXACT_COSD.get(x % 360.0); if rv is None: rv = math.cos(math.radians(x)); return rv" := rfl
theorem sind_body_eq : Src.sind_body = "(x) return cosd(90.0 - x)" := rfl

/-- every scalar attribute is read back through `x = property(lambda self: self._x)` -/
theorem getters_eq : Src.latticeGetters =
    [("a", "_a"), ("alpha", "_alpha"), ("alphar", "_alphar"), ("ar", "_ar"), ("b", "_b"), ("beta", "_beta"),
     ("betar", "_betar"), ("br", "_br"), ("c", "_c"), ("ca", "_ca"), ("car", "_car"), ("cb", "_cb"), ("cbr", "_cbr"),
     ("cg", "_cg"), ("cgr", "_cgr"), ("cr", "_cr"), ("gamma", "_gamma"), ("gammar", "_gammar"), ("sa", "_sa"),
     ("sar", "_sar"), ("sb", "_sb"), ("sbr", "_sbr"), ("sg", "_sg"), ("sgr", "_sgr")] := rfl
/-- property assignment `lat.x = v` is `setLatPar(x=v)` (`Lattice.propArgs`) -/
theorem setters_eq : Src.latticeSetters =
    [("a", "self.setLatPar(a=value)"), ("alpha", "self.setLatPar(alpha=value)"), ("b", "self.setLatPar(b=value)"),
     ("beta", "self.setLatPar(beta=value)"), ("c", "self.setLatPar(c=value)"), ("gamma", "self.setLatPar(gamma=value)")] := rfl

end DS.Props.SrcLattice
