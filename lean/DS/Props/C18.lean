import DS.Lemmas.Expand
import DS.Props.C15

/-!
# C18 — nanoparticle cut-outs contain only crystal sites inside the requested shape

Model: `DS.Expand.makeEllipsoid` / `makeSphere` / `findCenter` (DS/Model/Expand.lean), a
transcription of `expansion/makeellipsoid.py` and `expansion/shapeutils.py` on top of the
`supercell` model of C15.  Theorems are over `ℝ` (`Real.sqrt` for `** 0.5`, `⌈·⌉` for `math.ceil`).

A successful call is analysed once (`run_of_ok`) into the pieces the source computes — block
multiplier `k ≥ 1`, supercell `T`, centre index `nc` with centre atom `ca`, the filtered list —
and every clause of the property is a theorem about such a `Run`.
-/
namespace DS.Props.C18
open DS DS.Expand
set_option linter.unusedSectionVars false

variable {β : Type}

/-- the pieces of a successful `makeEllipsoid` call -/
structure Run (S : Stru ℝ β) (sabc : Vec3 ℝ) (R : Stru ℝ β) (k : Nat) (T : Stru ℝ β) (nc : Nat)
    (ca : Atom ℝ β) : Prop where
  k_pos : 1 ≤ k
  block : supercell S [(k : Int), (k : Int), (k : Int)] = .ok T
  chosen : centreIndex T = some nc
  centre : T.atoms[nc]? = some ca
  cell : R.cell = T.cell
  atoms : R.atoms = T.atoms.filter (keeps T.cell sabc (T.cell.cartesian ca.xyz))

/-- the semi-axes vector the source builds: `b`, `c` default to `a` -/
def sabcOf (a : ℝ) (b c : Option ℝ) : Vec3 ℝ := ⟨a, b.getD a, c.getD a⟩

/-- every successful call decomposes as the source runs it -/
theorem run_of_ok (S : Stru ℝ β) (a : ℝ) (b c : Option ℝ) (R : Stru ℝ β)
    (h : makeEllipsoid S a b c = .ok R) : ∃ k T nc ca, Run S (sabcOf a b c) R k T nc ca := by
  obtain ⟨T, nc, ca, hT, hnc, hca, rfl⟩ := ellipsoidWith_ok S _ _ R h
  obtain ⟨l, m, n, hl, _, _, hmno⟩ := supercell_ok_inv _ _ _ hT
  simp only [List.cons.injEq, and_true] at hmno
  obtain ⟨h1, _, _⟩ := hmno
  rw [h1] at hT
  exact ⟨l, T, nc, ca, hl, hT, hnc, hca, rfl, rfl⟩

/-- the only failures: `ValueError` when the computed block multiplier is `< 1` (the source's own
FIXME for rotated/oblique lattices), `IndexError` for a structure without atoms -/
theorem raises (S : Stru ℝ β) (a : ℝ) (b c : Option ℝ) (e : Err) (h : makeEllipsoid S a b c = .error e) :
    (e = .ValueError ∧ ellMno S.cell (sabcOf a b c) < 1) ∨
    (e = .IndexError ∧ S.atoms = [] ∧ 1 ≤ ellMno S.cell (sabcOf a b c)) :=
  ellipsoidWith_error S _ _ e h

section
variable {S R T : Stru ℝ β} {sabc : Vec3 ℝ} {k nc : Nat} {ca : Atom ℝ β}

theorem block_eq (run : Run S sabc R k T nc ca) : T = supercellGen S k k k :=
  C15.res run.k_pos run.k_pos run.k_pos run.block

/-- the cut-out is a sublist of the supercell block (order kept), in the block's lattice -/
theorem subset_of_supercell (run : Run S sabc R k T nc ca) : R.atoms.Sublist T.atoms ∧ R.cell = T.cell := by
  rw [run.atoms]; exact ⟨List.filter_sublist, run.cell⟩

/-- hence every returned atom is an original atom displaced by whole cell vectors of the input
lattice, carrying the parent's attributes (C15) -/
theorem genuine_sites (run : Run S sabc R k T nc ca) (p : Atom ℝ β) (hp : p ∈ R.atoms) :
    ∃ a ∈ S.atoms, ∃ t : Nat × Nat × Nat, p.attrs = a.attrs ∧
      R.cell.cartesian p.xyz =
        (S.cell.cartesian a.xyz).add ((Vec3.smul (t.1 : ℝ) S.cell.base.row1).add
          ((Vec3.smul (t.2.1 : ℝ) S.cell.base.row2).add (Vec3.smul (t.2.2 : ℝ) S.cell.base.row3))) := by
  have hpT : p ∈ T.atoms := (subset_of_supercell run).1.subset hp
  obtain ⟨a, ha, t, _, _, hattr, hc⟩ := C15.image_cart run.k_pos run.k_pos run.k_pos run.block p hpT
  exact ⟨a, ha, t, hattr, by rw [run.cell]; exact hc⟩

/-- all returned atoms lie inside (or on) the ellipsoid with the given semi-axes centred on the
centre atom: `((x-x₀)/a)² + ((y-y₀)/b)² + ((z-z₀)/c)² ≤ 1` in Cartesian coordinates -/
theorem all_inside (run : Run S sabc R k T nc ca) (p : Atom ℝ β) (hp : p ∈ R.atoms) :
    ellQ sabc (R.cell.cartesian ca.xyz) (R.cell.cartesian p.xyz) ≤ 1 := by
  rw [run.atoms, List.mem_filter] at hp
  rw [run.cell]
  exact (keeps_iff _ _ _ _).1 hp.2

/-- the centre atom is one of the returned atoms -/
theorem centre_kept (run : Run S sabc R k T nc ca) : ca ∈ R.atoms := by
  rw [run.atoms, List.mem_filter]
  refine ⟨List.mem_of_getElem? run.centre, (keeps_iff _ _ _ _).2 ?_⟩
  rw [ellQ_self]; norm_num

/-- no site twice: if no two atoms of the input are lattice-equivalent, all returned positions
are different -/
theorem nodup_of_nodup (run : Run S sabc R k T nc ca)
    (h : S.atoms.Pairwise (fun a b => ¬ LatEquiv a.xyz b.xyz)) : (R.atoms.map (·.xyz)).Nodup := by
  have hT : (T.atoms.map (·.xyz)).Nodup := by
    rw [block_eq run]
    exact nodup_xyz_images S.atoms run.k_pos run.k_pos run.k_pos h
  exact hT.sublist ((subset_of_supercell run).1.map _)

/-- no site twice, unconditionally, in the sense of (parent, translation) pairs: the returned atoms
can be labelled with pairwise different pairs (index of the parent in the input, box translation),
each atom being that parent's image under that translation -/
theorem no_pair_twice (run : Run S sabc R k T nc ca) :
    ∃ lab : List (Nat × (Nat × Nat × Nat) × Atom ℝ β),
      (lab.map fun x => (x.1, x.2.1)).Nodup ∧
      (∀ x ∈ lab, ∃ a, S.atoms[x.1]? = some a ∧ x.2.1 ∈ ijkList k k k ∧ x.2.2 = image k k k a x.2.1) ∧
      R.atoms = lab.map (·.2.2) := by
  refine ⟨(labelled S.atoms k k k).filter fun x => keeps T.cell sabc (T.cell.cartesian ca.xyz) x.2.2, ?_, ?_, ?_⟩
  · exact (labelled_keys_nodup S.atoms k k k).sublist (List.filter_sublist.map _)
  · intro x hx
    exact labelled_mem S.atoms k k k x (List.mem_filter.1 hx).1
  · rw [run.atoms, block_eq run]
    show List.filter _ (S.atoms.flatMap (images k k k)) = _
    rw [← labelled_atoms, List.filter_map]
    rfl

/-- the same for the usual case: input atoms inside the unit cell at pairwise different positions -/
theorem nodup_in_cell (run : Run S sabc R k T nc ca) (hin : ∀ a ∈ S.atoms, InCell a.xyz)
    (hd : (S.atoms.map (·.xyz)).Nodup) : (R.atoms.map (·.xyz)).Nodup := by
  refine nodup_of_nodup run ?_
  rw [List.Nodup, List.pairwise_map] at hd
  refine hd.imp_of_mem ?_
  intro a b ha hb hne heq
  exact hne (latEquiv_inCell (hin a ha) (hin b hb) heq)

/-- the arithmetic at the heart of completeness -/
theorem box_arithmetic {x : ℝ} {n : ℤ} {m : ℕ} (hm : 0 < m) (hx0 : 0 ≤ x) (hx1 : x < 1)
    (h0 : 0 ≤ (x + n) / m) (h1 : (x + n) / m < 1) : 0 ≤ n ∧ n < (m : ℤ) :=
  box_arith hm hx0 hx1 h0 h1

/-- completeness: when the input atoms lie in `[0,1)³`, every crystal site `x + n` (`n ∈ ℤ³`, `x` the
position of an input atom) that lies inside the unit cell of the returned structure (its
fractional coordinates `(x+n)/k` there are in `[0,1)³`) and inside the ellipsoid is present, with
the parent's attributes -/
theorem complete_in_block (run : Run S sabc R k T nc ca) (hin : ∀ a ∈ S.atoms, InCell a.xyz)
    (a : Atom ℝ β) (ha : a ∈ S.atoms) (n₁ n₂ n₃ : ℤ)
    (hcell : InCell ⟨(a.xyz.x + n₁) / k, (a.xyz.y + n₂) / k, (a.xyz.z + n₃) / k⟩)
    (hins : ellQ sabc (R.cell.cartesian ca.xyz)
      (R.cell.cartesian ⟨(a.xyz.x + n₁) / k, (a.xyz.y + n₂) / k, (a.xyz.z + n₃) / k⟩) ≤ 1) :
    (⟨⟨(a.xyz.x + n₁) / k, (a.xyz.y + n₂) / k, (a.xyz.z + n₃) / k⟩, a.attrs⟩ : Atom ℝ β) ∈ R.atoms := by
  obtain ⟨x0, x1, y0, y1, z0, z1⟩ := hin a ha
  obtain ⟨u0, u1, v0, v1, w0, w1⟩ := hcell
  have kp : 0 < k := run.k_pos
  obtain ⟨a1, a2⟩ := box_arith kp x0 x1 u0 u1
  obtain ⟨b1, b2⟩ := box_arith kp y0 y1 v0 v1
  obtain ⟨c1, c2⟩ := box_arith kp z0 z1 w0 w1
  have cast : ∀ {n : ℤ}, 0 ≤ n → ((n.toNat : ℕ) : ℝ) = (n : ℝ) := by
    intro n hn
    have : ((n.toNat : ℕ) : ℤ) = n := Int.toNat_of_nonneg hn
    exact_mod_cast congrArg (fun z : ℤ => (z : ℝ)) this
  have himg : image k k k a (n₁.toNat, n₂.toNat, n₃.toNat)
      = ⟨⟨(a.xyz.x + n₁) / k, (a.xyz.y + n₂) / k, (a.xyz.z + n₃) / k⟩, a.attrs⟩ := by
    simp only [image, cast a1, cast b1, cast c1]
  have hT : image k k k a (n₁.toNat, n₂.toNat, n₃.toNat) ∈ T.atoms :=
    C15.image_present run.k_pos run.k_pos run.k_pos run.block a ha _
      (show n₁.toNat < k ∧ n₂.toNat < k ∧ n₃.toNat < k from ⟨by omega, by omega, by omega⟩)
  rw [run.atoms, List.mem_filter, ← himg]
  refine ⟨hT, (keeps_iff _ _ _ _).2 ?_⟩
  rw [himg, ← run.cell]
  exact hins

/-- the point `(x+n)/k` of the returned cell is the crystal site `x + n` of the input lattice -/
theorem site_is_crystal_site (run : Run S sabc R k T nc ca) (u : Vec3 ℝ) :
    R.cell.cartesian ⟨u.x / k, u.y / k, u.z / k⟩ = S.cell.cartesian u := by
  have kne : (k : ℝ) ≠ 0 := C15.cne run.k_pos
  rw [run.cell, block_eq run]
  exact cart_scale_div S.cell kne kne kne u

end

/-- a sphere is the ellipsoid with three equal radii -/
theorem sphere_eq (S : Stru ℝ β) (r : ℝ) : makeSphere S r = makeEllipsoid S r (some r) (some r) := rfl

/-- which atom is the centre: the first atom of the block at minimal distance from the middle
`(½,½,½)` of the block (when that distance is below the number of block atoms, as the source's
initial bound `bestd = len(S)` requires; otherwise the last atom, the source's index `-1`) -/
theorem centre_nearest {S R T : Stru ℝ β} {sabc : Vec3 ℝ} {k nc : Nat} {ca : Atom ℝ β}
    (run : Run S sabc R k T nc ca) :
    (∃ pre post, T.atoms = pre ++ ca :: post ∧ nc = pre.length ∧
      (∀ p ∈ pre, dmid T.cell ca < dmid T.cell p) ∧ (∀ p ∈ post, dmid T.cell ca ≤ dmid T.cell p)) ∨
    (nc = T.atoms.length - 1 ∧ ∀ p ∈ T.atoms, (T.atoms.length : ℝ) ≤ dmid T.cell p) := by
  rcases centreIndex_spec T nc run.chosen with ⟨pre, c, post, e, hn, h1, h2⟩ | ⟨_, hn, h⟩
  · left
    have hc : c = ca := by
      have := run.centre
      rw [e, hn, List.getElem?_append_right (Nat.le_refl _)] at this
      simpa using this
    subst hc
    exact ⟨pre, post, e, hn, h1, h2⟩
  · exact Or.inr ⟨hn, h⟩

/-- input untouched, result fresh (heap model): `makeEllipsoidH` allocates the block through
`supercellH` and only removes references from the new structure's own list.  No address alive
before the call changes, the input reads the same afterwards, every returned atom is a freshly
allocated object, and the value of the result is what the pure model computes from the value of
the input. -/
theorem input_untouched {α : Type} [Add α] [Mul α] [Sub α] [Neg α] [Div α] [OfNat α 0] [OfNat α 1]
    [OfNat α 2] [Elem α] [NatCast α] [LT α] [DecidableRel (α := α) (· < ·)] [IntCeil α]
    (h : Heap α β) (S : HStru α) (a : α) (b c : Option α) (h' : Heap α β) (R : HStru α)
    (run : makeEllipsoidH h S a b c = .ok (h', R)) :
    (∀ r, r < h.atoms.length → h'.atoms[r]? = h.atoms[r]?) ∧
    ((∀ r ∈ S.refs, r < h.atoms.length) → S.value h' = S.value h) ∧
    (∀ r ∈ R.refs, h.atoms.length ≤ r) ∧
    makeEllipsoid (S.value h) a b c = .ok (R.value h') := by
  have hval := ellipsoidWithH_value h S ⟨a, b.getD a, c.getD a⟩ (ellMno S.cell ⟨a, b.getD a, c.getD a⟩)
  unfold makeEllipsoidH at run
  simp only at run
  rw [run] at hval
  refine ⟨?_, ?_, ?_, hval.symm⟩ <;>
  · unfold ellipsoidWithH at run
    split at run
    · cases run
    · next h'' T hT =>
      split at run
      · cases run
      · split at run
        · cases run
        · cases run
          first
            | exact (C15.input_untouched h S _ _ T hT).1
            | exact (C15.input_untouched h S _ _ T hT).2
            | exact fun r hr => (C15.disjoint_from_input h S _ _ T hT).1 r (List.mem_filter.1 hr).1

/-! ### non-vacuity: a concrete successful run, cubic cell of edge 2, one atom, radius 1.5 -/

noncomputable def exS : Stru ℝ Nat := ⟨⟨2, 2, 2, 90, 90, 90, Mat3.one⟩, [⟨⟨0, 0, 0⟩, 7⟩]⟩

/-- the unconditional geometric reading "no position twice whenever the input positions are
pairwise different" — **false**: input atoms that differ by a lattice translation (or, likewise,
two atoms on one site) give the same block position twice.  What holds is `no_pair_twice`
(unconditional, by labels) and `nodup_of_nodup` / `nodup_in_cell` (positions, for inputs without
lattice-equivalent atoms). -/
def nodup_positions_statement : Prop :=
  ∀ (S : Stru ℝ Nat) (k : Nat), 1 ≤ k → (S.atoms.map (·.xyz)).Nodup →
    ((supercellGen S k k k).atoms.map (·.xyz)).Nodup

/-- witness: atoms at `x = 0` and `x = 1`, block multiplier 2: the position `x = ½` occurs twice -/
noncomputable def exDup : Stru ℝ Nat :=
  ⟨⟨2, 2, 2, 90, 90, 90, Mat3.one⟩, [⟨⟨0, 0, 0⟩, 7⟩, ⟨⟨1, 0, 0⟩, 8⟩]⟩

theorem nodup_positions_statement_false : ¬ nodup_positions_statement := by
  intro h
  have h1 := h exDup 2 (by omega) (by simp [exDup])
  have hmem : ((supercellGen exDup 2 2 2).atoms.map (·.xyz)) =
      [⟨0, 0, 0⟩, ⟨0, 0, 1 / 2⟩, ⟨0, 1 / 2, 0⟩, ⟨0, 1 / 2, 1 / 2⟩, ⟨1 / 2, 0, 0⟩, ⟨1 / 2, 0, 1 / 2⟩,
       ⟨1 / 2, 1 / 2, 0⟩, ⟨1 / 2, 1 / 2, 1 / 2⟩,
       ⟨1 / 2, 0, 0⟩, ⟨1 / 2, 0, 1 / 2⟩, ⟨1 / 2, 1 / 2, 0⟩, ⟨1 / 2, 1 / 2, 1 / 2⟩, ⟨1, 0, 0⟩, ⟨1, 0, 1 / 2⟩,
       ⟨1, 1 / 2, 0⟩, ⟨1, 1 / 2, 1 / 2⟩] := by
    simp [supercellGen, exDup, images, ijkList, image, List.range_succ, List.flatMap]
  rw [hmem] at h1
  simp at h1

/-- a block with atoms always has a centre atom -/
theorem centre_exists (T : Stru ℝ β) (hne : T.atoms ≠ []) : ∃ nc ca, centreIndex T = some nc ∧ T.atoms[nc]? = some ca := by
  have h : ∃ nc, centreIndex T = some nc := by
    unfold centreIndex
    split
    · exact ⟨_, rfl⟩
    · split
      · next h0 => exact absurd (List.eq_nil_of_length_eq_zero h0) hne
      · exact ⟨_, rfl⟩
  obtain ⟨nc, hnc⟩ := h
  exact ⟨nc, T.atoms[nc]'(centreIndex_lt T nc hnc), hnc, List.getElem?_eq_getElem _⟩

/-- a `Run` exists (so none of the theorems above is vacuous): block multiplier 2 on `exS` -/
example : ∃ R nc ca, Run exS ⟨3 / 2, 3 / 2, 3 / 2⟩ R 2 (supercellGen exS 2 2 2) nc ca := by
  obtain ⟨nc, ca, hnc, hca⟩ := centre_exists (supercellGen exS 2 2 2)
    (by simp [supercellGen, exS, images, ijkList, List.range_succ, List.flatMap])
  exact ⟨⟨(supercellGen exS 2 2 2).cell, (supercellGen exS 2 2 2).atoms.filter
    (keeps (supercellGen exS 2 2 2).cell ⟨3 / 2, 3 / 2, 3 / 2⟩ ((supercellGen exS 2 2 2).cell.cartesian ca.xyz))⟩,
    nc, ca, by omega, C15.runs exS (by omega) (by omega) (by omega), hnc, hca, rfl, rfl⟩

/-- and the function itself succeeds once the block multiplier is `≥ 1` and there is an atom -/
example : ∃ R, ellipsoidWith exS ⟨3 / 2, 3 / 2, 3 / 2⟩ ((2 : Nat) : Int) = .ok R := by
  obtain ⟨nc, ca, hnc, hca⟩ := centre_exists (supercellGen exS 2 2 2)
    (by simp [supercellGen, exS, images, ijkList, List.range_succ, List.flatMap])
  have hrun : supercell exS [((2 : Nat) : Int), ((2 : Nat) : Int), ((2 : Nat) : Int)] = .ok (supercellGen exS 2 2 2) :=
    C15.runs exS (by omega) (by omega) (by omega)
  unfold ellipsoidWith
  rw [hrun]
  simp only [hnc, cutWith, hca]
  exact ⟨_, rfl⟩

example (S : Stru ℝ Nat) : makeSphere S 2 = makeEllipsoid S 2 (some 2) (some 2) := sphere_eq S 2

end DS.Props.C18
