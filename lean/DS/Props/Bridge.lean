import DS.Lemmas.LatBridge
import DS.Props.C01
import DS.Props.C10
import DS.Props.C09
import DS.Props.C14

/-!
# Bridge — the hypotheses `LatOK` of C09 / C14 are theorems about the lattice model of C01 / C10

`DS.toLatData : Lattice α → LatData α` copies the 15 attributes of a `Lattice` object that `atom.py` and
`Structure.placeInLattice` read.  The two models use the same conventions (`DS.LatBridge.conv_*`, all `rfl`):
`normbase = base * [[ar],[br],[cr]]`, `recnormbase = recbase / [ar,br,cr]`, `isotropicunit` = `recnormbaseᵀ·recnormbase`
with forced unit diagonal.

* `latOK_ofCS`, `latOK_ofPar`, `latOK_ofBase`, `latOK_wf`, `latOK_reachable`: `LatOK` holds for every lattice built by
  `setLatPar` from valid data, by `Lattice(a,b,c,α,β,γ,baserot)` from a valid cell, by `Lattice(base=B)` from a
  right-handed base, and for every object reached by a valid update history of the C10 state machine.
* `C09_on_real_lattices`, `C14_on_real_lattices`: the headline theorems of C09 / C14 with `LatOK` discharged.
* `obl_eq`, `orth_eq`, `cartesianLat_eq`: the concrete lattices used as non-vacuity witnesses in C09 / C14 *are*
  `toLatData` of lattices of the C01 / C10 model.
-/
namespace DS.Props.Bridge
open DS DS.Lattice DS.AtomS DS.LatBridge Real

/-! ## (b) `LatOK` for constructed lattices -/

/-- `setLatPar` lines 350–374 on valid cosine/sine/volume data with a proper rotation -/
theorem latOK_ofCS {p : CellCS ℝ} {Q : Mat3 ℝ} (h : Valid p Q) : LatOK (toLatData (ofCS p Q)) :=
  LatBridge.latOK_ofCS h

/-- `Lattice(a, b, c, α, β, γ, baserot=Q)`: positive lengths, angles in (0°, 180°), positive volume, proper rotation -/
theorem latOK_ofPar {a b c al be ga : ℝ} {Q : Mat3 ℝ} (h : ValidPar a b c al be ga) (hQ : IsRot Q) :
    LatOK (toLatData (ofPar a b c al be ga Q)) := LatBridge.latOK_ofPar h hQ

/-- `Lattice(base=B)` / `setLatBase(B)` for every right-handed base -/
theorem latOK_ofBase {B : Mat3 ℝ} (hB : 0 < B.det) : LatOK (toLatData (ofBase B)) := LatBridge.latOK_ofBase hB

/-- every well-formed object (the invariant `WF` of C10), and its reciprocal lattice -/
theorem latOK_wf {L : Lattice ℝ} (h : WF L) : LatOK (toLatData L) ∧ LatOK (toLatData L.reciprocal) :=
  ⟨latOK_of_wf h, latOK_reciprocal h⟩

/-- the unit-diagonal fact behind `LatOK.iso_diag*`, and what the unit isotropic tensor is:
`isotropicunit = recnormbaseᵀ·recnormbase` exactly, with entries `1` and the cosines of the reciprocal angles -/
theorem isotropicunit_meaning {p : CellCS ℝ} {Q : Mat3 ℝ} (h : Valid p Q) :
    (ofCS p Q).isotropicunit = (ofCS p Q).recnormbase.transpose.mul (ofCS p Q).recnormbase ∧
    (ofCS p Q).isotropicunit = Lattice.metricsOf 1 1 1 (ofCS p Q).car (ofCS p Q).cbr (ofCS p Q).cgr :=
  ⟨isotropicunit_eq h, isotropicunit_recip_cos h⟩

/-! ## (c) `LatOK` for every reachable object -/

/-- **every lattice object in a world reached by a valid history of the C10 state machine** (constructors, copy,
`reciprocal`, `setLatPar` with any subset of arguments, property assignment, `setLatBase`) satisfies `LatOK` -/
theorem latOK_reachable (ops : List (Op ℝ)) (w : List (Lattice ℝ)) (hv : ValidRun [] ops) (hr : run [] ops = some w) :
    ∀ L ∈ w, LatOK (toLatData L) :=
  fun L hL => latOK_of_wf (run_wf ops [] w (fun _ h => absurd h List.not_mem_nil) hv hr L hL)

/-- the same through the statement of `C10.coherent` (the object equals `ofPar` of its current parameters)
and `C10.reachable_valid` -/
theorem latOK_reachable' (ops : List (Op ℝ)) (w : List (Lattice ℝ)) (hv : ValidRun [] ops) (hr : run [] ops = some w) :
    ∀ L ∈ w, LatOK (toLatData L) := by
  intro L hL
  obtain ⟨hp, hq, -⟩ := C10.reachable_valid ops w hv hr L hL
  rw [C10.coherent ops w hv hr L hL]
  exact latOK_ofPar hp hq

/-- reachable objects are real lattices in the sense of `IsRealLat` -/
theorem isRealLat_reachable (ops : List (Op ℝ)) (w : List (Lattice ℝ)) (hv : ValidRun [] ops) (hr : run [] ops = some w) :
    ∀ L ∈ w, IsRealLat (toLatData L) :=
  fun L hL => isRealLat_of_wf (run_wf ops [] w (fun _ h => absurd h List.not_mem_nil) hv hr L hL)

/-! ## (d) C09 with the hypothesis discharged -/

/-- admissible ADP steps *on real lattices*: assigned tensors are symmetric; an assigned lattice is `None` or the
attribute record of `Lattice(a,b,c,α,β,γ,baserot=Q)` for a valid cell and a proper rotation (`IsRealLat`;
by `isRealLat_ofBase`, `isRealLat_of_wf`, `isRealLat_reachable` this covers `Lattice(base=B)` with `det B > 0`
and every object reachable by a valid update history).  No `LatOK` hypothesis. -/
def OpReal : AdpOp ℝ → Prop
  | .setU m => m.isSymm
  | .setLattice l => ∀ l', l = some l' → IsRealLat l'
  | _ => True

theorem opOK_of_opReal {op : AdpOp ℝ} (h : OpReal op) : OpOK op := by
  cases op with
  | setU m => exact h
  | setLattice l => exact fun l' hl => (h l' hl).latOK
  | _ => trivial

theorem opsOK_of_opsReal {ops : List (AdpOp ℝ)} (h : ∀ op ∈ ops, OpReal op) : ∀ op ∈ ops, OpOK op :=
  fun op ho => opOK_of_opReal (h op ho)

/-- **C09 on real lattices**: after every assignment history on a fresh `Atom()` whose lattice assignments use only
`None` or lattices of the form `toLatData (Lattice.ofPar …)` with `ValidPar` and a proper rotation:
the tensor is symmetric; an isotropic atom's tensor is `Uisoequiv · isotropicunit`; B = 8π²·U; `Uisoequiv` is a third
of the trace of the Cartesian tensor; toggling the flag keeps `Uisoequiv`; `msdLat` and `msdCart` agree;
`Uisoequiv` set-then-read returns the value -/
theorem C09_on_real_lattices (ops : List (AdpOp ℝ)) (h : ∀ op ∈ ops, OpReal op) :
    ((runOps AtomS.default ops).getU).1.isSymm ∧
    ((runOps AtomS.default ops).aniso = false →
      ((runOps AtomS.default ops).getU).1 =
        Mat3.smul (runOps AtomS.default ops).uisoequiv (runOps AtomS.default ops).latOf.isotropicunit) ∧
    (∀ i j, (runOps AtomS.default ops).getBij i j = 8 * π ^ 2 * (runOps AtomS.default ops).getUij i j
      ∧ (runOps AtomS.default ops).bisoequiv = 8 * π ^ 2 * (runOps AtomS.default ops).uisoequiv) ∧
    (runOps AtomS.default ops).uisoequiv =
      (ucart (runOps AtomS.default ops).latOf ((runOps AtomS.default ops).getU).1).trace / 3 ∧
    (∀ b, ((runOps AtomS.default ops).setAniso b).uisoequiv = (runOps AtomS.default ops).uisoequiv) ∧
    (∀ v, (runOps AtomS.default ops).msdLat v =
      (runOps AtomS.default ops).msdCart ((runOps AtomS.default ops).latOf.cart v)) ∧
    (∀ v, ((runOps AtomS.default ops).setUiso v).uisoequiv = v) :=
  have hk := opsOK_of_opsReal h
  ⟨C09.U_symm ops hk, C09.iso_tensor ops, C09.B_eq ops, C09.uiso_trace ops hk, C09.toggle_preserves ops hk,
    C09.msd_agree ops hk, C09.setUiso_spec ops hk⟩

/-- the special case asked for: the atom lives in one lattice `Lattice(a,b,c,α,β,γ,baserot=Q)` (assigned first) and the
rest of the history does not touch the lattice reference -/
theorem C09_in_ofPar {a b c al be ga : ℝ} {Q : Mat3 ℝ} (hp : ValidPar a b c al be ga) (hQ : IsRot Q)
    (ops : List (AdpOp ℝ)) (h : ∀ op ∈ ops, OpReal op) :
    let s := runOps AtomS.default (.setLattice (some (toLatData (ofPar a b c al be ga Q))) :: ops)
    (s.getU).1.isSymm ∧ s.uisoequiv = (ucart s.latOf (s.getU).1).trace / 3 ∧
    (∀ b, (s.setAniso b).uisoequiv = s.uisoequiv) ∧ (∀ v, s.msdLat v = s.msdCart (s.latOf.cart v)) := by
  intro s
  have h' : ∀ op ∈ (AdpOp.setLattice (some (toLatData (ofPar a b c al be ga Q))) :: ops), OpReal op := by
    intro op ho
    rcases List.mem_cons.mp ho with rfl | ho
    · intro l' hl; cases hl; exact isRealLat_ofPar hp hQ
    · exact h op ho
  obtain ⟨h1, -, -, h4, h5, h6, -⟩ := C09_on_real_lattices _ h'
  exact ⟨h1, h4, h5, h6⟩

/-! ## (d) C14 with the hypothesis discharged -/

/-- **C14 on real lattices**: a structure whose atoms all refer to the well-formed lattice `L1` (symmetric storage)
placed into the well-formed lattice `L2`: Cartesian positions (`Lattice.cartesian` of the lattice model), Cartesian
displacement tensors and isotropic values of all atoms are kept; there and back is the identity; a further placement
into any third lattice ends where the direct placement ends -/
theorem C14_on_real_lattices {L1 L2 : Lattice ℝ} (h1 : WF L1) (h2 : WF L2) (atoms : List (AtomS ℝ))
    (hc : ∀ a ∈ atoms, a.lat = some (toLatData L1)) (hs : ∀ a ∈ atoms, a.U.isSymm) :
    (placeInLattice ⟨toLatData L1, atoms⟩ (toLatData L2)).atoms.map
        (fun a => (L2.cartesian a.xyz, ucart (toLatData L2) (a.getU).1, a.uisoequiv))
      = atoms.map (fun a => (L1.cartesian a.xyz, ucart (toLatData L1) (a.getU).1, a.uisoequiv)) ∧
    placeInLattice (placeInLattice ⟨toLatData L1, atoms⟩ (toLatData L2)) (toLatData L1) = ⟨toLatData L1, atoms⟩ ∧
    ∀ l3 : LatData ℝ, placeInLattice (placeInLattice ⟨toLatData L1, atoms⟩ (toLatData L2)) l3
      = placeInLattice ⟨toLatData L1, atoms⟩ l3 :=
  ⟨C14.crystal_preserved ⟨toLatData L1, atoms⟩ (toLatData L2) (latOK_of_wf h1) (latOK_of_wf h2) hc hs,
    C14.there_and_back ⟨toLatData L1, atoms⟩ (toLatData L2) (latOK_of_wf h1) (latOK_of_wf h2) hc,
    fun l3 => C14.chain ⟨toLatData L1, atoms⟩ (toLatData L2) l3 (latOK_of_wf h2)⟩

/-- the same for two lattices given by cell parameters in degrees -/
theorem C14_ofPar {a1 b1 c1 al1 be1 ga1 a2 b2 c2 al2 be2 ga2 : ℝ} {Q1 Q2 : Mat3 ℝ}
    (p1 : ValidPar a1 b1 c1 al1 be1 ga1) (q1 : IsRot Q1) (p2 : ValidPar a2 b2 c2 al2 be2 ga2) (q2 : IsRot Q2)
    (atoms : List (AtomS ℝ)) (hc : ∀ a ∈ atoms, a.lat = some (toLatData (ofPar a1 b1 c1 al1 be1 ga1 Q1)))
    (hs : ∀ a ∈ atoms, a.U.isSymm) :
    (placeInLattice ⟨toLatData (ofPar a1 b1 c1 al1 be1 ga1 Q1), atoms⟩ (toLatData (ofPar a2 b2 c2 al2 be2 ga2 Q2))).atoms.map
        (fun a => ((ofPar a2 b2 c2 al2 be2 ga2 Q2).cartesian a.xyz,
          ucart (toLatData (ofPar a2 b2 c2 al2 be2 ga2 Q2)) (a.getU).1, a.uisoequiv))
      = atoms.map (fun a => ((ofPar a1 b1 c1 al1 be1 ga1 Q1).cartesian a.xyz,
          ucart (toLatData (ofPar a1 b1 c1 al1 be1 ga1 Q1)) (a.getU).1, a.uisoequiv)) ∧
    placeInLattice (placeInLattice ⟨toLatData (ofPar a1 b1 c1 al1 be1 ga1 Q1), atoms⟩
        (toLatData (ofPar a2 b2 c2 al2 be2 ga2 Q2))) (toLatData (ofPar a1 b1 c1 al1 be1 ga1 Q1))
      = ⟨toLatData (ofPar a1 b1 c1 al1 be1 ga1 Q1), atoms⟩ :=
  have h := C14_on_real_lattices (wf_ofPar p1 q1) (wf_ofPar p2 q2) atoms hc hs
  ⟨h.1, h.2.1⟩

/-- any chain of placements through reachable lattices ends where the direct placement ends -/
theorem C14_chain_reachable (ops : List (Op ℝ)) (w : List (Lattice ℝ)) (hv : ValidRun [] ops) (hr : run [] ops = some w)
    (s : StruS ℝ) (Ls : List (Lattice ℝ)) (hLs : ∀ L ∈ Ls, L ∈ w) (l3 : LatData ℝ) :
    placeInLattice ((Ls.map toLatData).foldl placeInLattice s) l3 = placeInLattice s l3 := by
  apply C14.chain_list
  intro l hl
  obtain ⟨L, hL, rfl⟩ := List.mem_map.mp hl
  exact latOK_reachable ops w hv hr L (hLs L hL)

/-! ## (e) non-vacuity: the witnesses of C01 / C10 satisfy `LatOK`; the witnesses of C09 / C14 are real lattices -/

/-- the rational cell of C01 (`3,4,5`, `α = β = 90°`, `cos γ = 3/5`), standard and rotated orientation -/
example : LatOK (toLatData (ofCS C01.exCell Mat3.one)) ∧ LatOK (toLatData (ofCS C01.exCell C01.exRot)) :=
  ⟨latOK_ofCS ⟨C01.exCell_valid, isRot_one⟩, latOK_ofCS ⟨C01.exCell_valid, C01.exRot_isRot⟩⟩

/-- … with a unit isotropic tensor that is not the identity: `isotropicunit₁₂ = cos γ* = −3/5` -/
example : (toLatData (ofCS C01.exCell C01.exRot)).isotropicunit.a12 = -3 / 5 := by
  have h := (isotropicunit_meaning (p := C01.exCell) (Q := C01.exRot) ⟨C01.exCell_valid, C01.exRot_isRot⟩).2
  show (ofCS C01.exCell C01.exRot).isotropicunit.a12 = -3 / 5
  rw [h]
  show (1 : ℝ) * 1 * ((0 * 0 - 3 / 5) / (1 * 1)) = -3 / 5
  norm_num

/-- the cell in degrees of C01 and the right-handed base of C01 -/
example : LatOK (toLatData (ofPar 3 4 5 90 90 60 C01.exRot)) ∧ LatOK (toLatData (ofBase C01.exBase)) :=
  ⟨latOK_ofPar C01.exPar_valid C01.exRot_isRot, latOK_ofBase C01.exBase_det⟩

/-- every object of the world reached by the history `C10.exOps` (which uses every kind of operation) -/
example : ∃ w, run [] C10.exOps = some w ∧ w.length = 5 ∧ ∀ L ∈ w, LatOK (toLatData L) := by
  obtain ⟨w, hw, hl⟩ := C10.exOps_runs
  exact ⟨w, hw, hl, latOK_reachable C10.exOps w C10.exOps_valid hw⟩

/-- the base vectors of the oblique lattice `C09.obl` -/
def oblBase : Mat3 ℝ := ⟨5, 0, 0, 3, 4, 0, 0, 0, 1⟩

theorem oblBase_det : 0 < oblBase.det := by norm_num [Mat3.det, oblBase]

theorem sqrt_sq' {x y : ℝ} (hy : 0 ≤ y) (h : x = y * y) : Real.sqrt x = y := by
  rw [h, Real.sqrt_mul_self hy]

/-- the lengths, cosines, sines and volume factor `setLatBase` recovers from `oblBase` -/
noncomputable def oblCS : CellCS ℝ :=
  { a := 5, b := 5, c := 1, alpha := Elem.acosd 0, beta := Elem.acosd 0, gamma := Elem.acosd (3 / 5),
    ca := 0, cb := 0, cg := 3 / 5, sa := 1, sb := 1, sg := 4 / 5, V := 4 / 5 }

theorem csOfBase_oblBase : csOfBase oblBase = oblCS := by
  have hG : oblBase.mul oblBase.transpose = Lattice.metricsOf 5 5 1 0 0 (3 / 5) := by
    apply Mat3.ext' <;> norm_num [oblBase, Mat3.mul, Mat3.transpose, Lattice.metricsOf]
  rw [csOfBase_of_gram (by norm_num) (by norm_num) (by norm_num) hG]
  have c0 : (Elem.cosd (Elem.acosd (0 : ℝ) : ℝ) : ℝ) = 0 := cosd_acosd (by norm_num) (by norm_num)
  have c1 : (Elem.cosd (Elem.acosd (3 / 5 : ℝ) : ℝ) : ℝ) = 3 / 5 := cosd_acosd (by norm_num) (by norm_num)
  apply CellCS.ext <;> simp only [csOfCos, oblCS, unitvol, elem_sqrt, c0, c1]
  · exact sqrt_sq' (by norm_num) (by norm_num)
  · exact sqrt_sq' (by norm_num) (by norm_num)
  · exact sqrt_sq' (by norm_num) (by norm_num)
  · exact sqrt_sq' (by norm_num) (by norm_num)

/-- **the oblique lattice of C09/C14 is the attribute record of `Lattice(base=[[5,0,0],[3,4,0],[0,0,1]])`** of the
lattice model: both developments talk about the same object -/
theorem oblBase_inv : oblBase.inv = ⟨1 / 5, 0, 0, -3 / 20, 1 / 4, 0, 0, 0, 1⟩ := by
  apply Mat3.ext' <;> norm_num [oblBase, Mat3.inv, Mat3.adj, Mat3.det]

theorem obl_eq : C09.obl = toLatData (ofBase oblBase) := by
  have e : ofBase oblBase = assemble oblCS (fun S => (S.inv.mul oblBase, oblBase)) := by
    rw [ofBase, csOfBase_oblBase]
  have h1 : (1 : ℝ) / (5 * (4 / 5)) = 1 / 4 := by norm_num
  have h2 : (4 : ℝ) / 5 / (1 * (4 / 5)) = 1 := by norm_num
  rw [e]
  simp only [C09.obl, toLatData, assemble, oblCS, LatData.mk.injEq, oblBase_inv, h1, h2]
  exact ⟨trivial, trivial, trivial, trivial, trivial, trivial, trivial, trivial, trivial, rfl, trivial, rfl, rfl, rfl, rfl⟩


theorem sind90 : Real.sin ((90 : ℝ) * π / 180) = 1 := by
  rw [show (90 : ℝ) * π / 180 = π / 2 by ring]; exact Real.sin_pi_div_two

/-- data of a rectangular cell: all cosines 0, sines 1, volume factor 1 -/
theorem csOfPar_rect (a b c : ℝ) :
    csOfPar a b c 90 90 90 = ⟨a, b, c, 90, 90, 90, 0, 0, 0, 1, 1, 1, 1⟩ := by
  apply CellCS.ext <;> simp only [csOfPar, unitvol, elem_cosd, elem_sind, elem_sqrt, C01.cos90, sind90]
  norm_num

/-- the attribute record of a rectangular cell `a × b × c` in standard orientation, written out -/
noncomputable def rectData (a b c : ℝ) : LatData ℝ :=
  let base : Mat3 ℝ := ⟨a, 0, 0, 0, b, 0, 0, 0, c⟩
  let rcb : Mat3 ℝ := ⟨1 / a, 0, 0, 0, 1 / b, 0, 0, 0, 1 / c⟩
  { a := a, b := b, c := c, ca := 0, cb := 0, cg := 0, ar := 1 / a, br := 1 / b, cr := 1 / c,
    base := base, recbase := rcb,
    normbase := base.rowScale (1 / a) (1 / b) (1 / c),
    recnormbase := rcb.colDiv (1 / a) (1 / b) (1 / c),
    isotropicunit := isotropicunitOf (rcb.colDiv (1 / a) (1 / b) (1 / c)),
    metrics := DS.metricsOf a b c 0 0 0 }

/-- `Lattice(a, b, c, 90, 90, 90)` has exactly these attributes -/
theorem toLatData_rect {a b c : ℝ} (ha : a ≠ 0) (hb : b ≠ 0) (hc : c ≠ 0) :
    toLatData (ofPar a b c 90 90 90 Mat3.one) = rectData a b c := by
  rw [ofPar, csOfPar_rect]
  generalize hL : ofCS (⟨a, b, c, 90, 90, 90, 0, 0, 0, 1, 1, 1, 1⟩ : CellCS ℝ) Mat3.one = L
  have har : L.ar = 1 / a := by rw [← hL]; show (1 : ℝ) / (a * 1) = 1 / a; rw [mul_one]
  have hbr : L.br = 1 / b := by rw [← hL]; show (1 : ℝ) / (b * 1) = 1 / b; rw [mul_one]
  have hcr : L.cr = 1 / c := by rw [← hL]; show (1 : ℝ) / (c * 1) = 1 / c; rw [mul_one]
  have hbase : L.base = ⟨a, 0, 0, 0, b, 0, 0, 0, c⟩ := by
    rw [← hL]
    apply Mat3.ext' <;> simp only [ofCS, assemble, stdbaseOf, Mat3.mul, Mat3.one, elem_sqrt] <;> field_simp <;> norm_num
  have hrec : L.recbase = ⟨1 / a, 0, 0, 0, 1 / b, 0, 0, 0, 1 / c⟩ := by
    have : L.recbase = L.base.inv := by rw [← hL]; rfl
    rw [this, hbase]
    apply Mat3.ext' <;> simp only [Mat3.inv, Mat3.adj, Mat3.det] <;> field_simp <;> ring
  have e : toLatData L =
      { a := a, b := b, c := c, ca := 0, cb := 0, cg := 0, ar := L.ar, br := L.br, cr := L.cr,
        base := L.base, recbase := L.recbase,
        normbase := L.base.rowScale L.ar L.br L.cr,
        recnormbase := L.recbase.colDiv L.ar L.br L.cr,
        isotropicunit := isotropicunitOf (L.recbase.colDiv L.ar L.br L.cr),
        metrics := DS.metricsOf a b c 0 0 0 } := by rw [← hL]; rfl
  rw [e, har, hbr, hcr, hbase, hrec]; rfl

/-- **the orthogonal lattice of C14 is the attribute record of `Lattice(2, 4, 5, 90, 90, 90)`** -/
theorem orth_eq : C14.orth = toLatData (ofPar 2 4 5 90 90 90 Mat3.one) := by
  rw [toLatData_rect (by norm_num) (by norm_num) (by norm_num)]; rfl

/-- the lattice the ADP model substitutes for `atom.lattice is None` is the attribute record of `Lattice()` -/
theorem cartesianLat_eq : (cartesianLat : LatData ℝ) = toLatData (ofPar 1 1 1 90 90 90 Mat3.one) := by
  rw [toLatData_rect one_ne_zero one_ne_zero one_ne_zero]
  simp only [cartesianLat, rectData, LatData.mk.injEq]
  refine ⟨?_, ?_, ?_, ?_, ?_, ?_, ?_, ?_, ?_, ?_, ?_, ?_, ?_, ?_, ?_⟩
  all_goals first
    | rfl
    | (apply Mat3.ext' <;>
        norm_num [Mat3.one, Mat3.rowScale, Mat3.colDiv, isotropicunitOf, Mat3.forceDiag1, Mat3.mul, Mat3.transpose,
          DS.metricsOf])
    | norm_num


/-- so the hand-checked `C09.obl_ok` / `C14.orth_ok` are instances of the bridge theorems -/
example : LatOK C09.obl := by rw [obl_eq]; exact latOK_ofBase oblBase_det

theorem validPar_orth : ValidPar 2 4 5 90 90 90 := by
  refine ⟨by norm_num, by norm_num, by norm_num, by norm_num, by norm_num, by norm_num, by norm_num, by norm_num,
    by norm_num, ?_⟩
  rw [C01.cos90]; norm_num

example : LatOK C14.orth := by rw [orth_eq]; exact latOK_ofPar validPar_orth isRot_one

example : LatOK (cartesianLat : LatData ℝ) := by rw [cartesianLat_eq]; exact LatBridge.latOK_default

theorem isRealLat_obl : IsRealLat C09.obl := by rw [obl_eq]; exact isRealLat_ofBase oblBase_det
theorem isRealLat_orth : IsRealLat C14.orth := by rw [orth_eq]; exact isRealLat_ofPar validPar_orth isRot_one

/-- the demonstration history of C09 only uses real lattices: `C09_on_real_lattices` applies to it -/
theorem demoOps_real : ∀ op ∈ C09.demoOps, OpReal op := by
  intro op hop
  simp only [C09.demoOps, List.mem_cons, List.mem_nil_iff, or_false] at hop
  rcases hop with rfl | rfl | rfl | rfl | rfl | rfl | rfl | rfl | rfl | rfl | rfl
  all_goals first
    | exact trivial
    | exact (fun l hl => by cases hl; exact isRealLat_obl)
    | exact (fun l hl => by cases hl)
    | exact ⟨rfl, rfl, rfl⟩

example : ((runOps AtomS.default C09.demoOps).getU).1.isSymm := (C09_on_real_lattices C09.demoOps demoOps_real).1

/-- the demonstration structure of C14 sits in `Lattice(base=oblBase)` and is placed into `Lattice(2,4,5,90,90,90)`:
`C14_on_real_lattices` applies (and the placement is not the identity, see `C14`'s examples) -/
example :
    placeInLattice (placeInLattice ⟨toLatData (ofBase oblBase), C14.demo.atoms⟩ (toLatData (ofPar 2 4 5 90 90 90 Mat3.one)))
      (toLatData (ofBase oblBase)) = ⟨toLatData (ofBase oblBase), C14.demo.atoms⟩ := by
  refine (C14_on_real_lattices (wf_ofBase oblBase_det) (wf_ofPar validPar_orth isRot_one) C14.demo.atoms ?_ ?_).2.1
  · intro a ha; rw [← obl_eq]; exact C14.demo_consistent a ha
  · intro a ha
    simp only [C14.demo, List.mem_cons, List.mem_nil_iff, or_false] at ha
    rcases ha with rfl | rfl <;> exact ⟨rfl, rfl, rfl⟩

end DS.Props.Bridge
