import DS.Gen.SrcCif
import DS.Model.CifNum
/-!
# Source tie for the CIF number reader (serves C07)

`DS.CifNum.floatMatch` is a hand-written matcher for one specific regular expression; `esd_ignored`
(C07) is a theorem about it.  The pattern and the body of `leading_float` are read from the current
`p_cif.py` on every run; here they are compared with what the model was written for.  (That the
matcher implements the pattern is validated by the `cifnum.prefix` correspondence stream of C07.)
-/
namespace DS.Props.SrcCif

/-- the regular expression `DS.CifNum.floatMatch` transcribes: optional sign, digits with optional
fraction or a bare fraction, optional exponent -/
theorem rx_float_eq : DS.Src.Cif.rx_float = "[-+]?(\\d+(\\.\\d*)?|\\.\\d+)([eE][-+]?\\d+)?" := rfl

/-- `leading_float` strips, converts the matched prefix with `float`, maps `.`/`?` to the default and
otherwise converts the whole text -/
theorem leading_float_body_eq : DS.Src.Cif.leading_float_body =
    "(s, d) sbare = s.strip(); mx = rx_float.match(sbare); if mx: rv = float(mx.group()) elif sbare == '.' or sbare == '?': rv = d else: rv = float(sbare); return rv" := rfl

end DS.Props.SrcCif
