import DS.Gen.SrcContainer
import DS.Lemmas.World
/-!
# Source tie for the container methods of `Structure` (serves C08)

`DS/Gen/SrcContainer.lean` is regenerated on every run by `translate/src_container.py` from the *current*
`src/diffpy/structure/structure.py`: for every container method the parameters and defaults, every store into a
`.lattice` reference (`links`), the `list` primitives reached through `super(Structure, self)` (`listCalls`), the call
skeleton (`calls`) and all statements after the docstring (`body`).

1. `…_src` theorems (`rfl`): each method is, statement for statement, what the World model was written from.  Any
   edit of these methods breaks the corresponding theorem (also a harmless one — then the check widens its search and
   reports `no-failing-input-found` at most).
2. `modelTable`, `table_eq`: the per-method parameters the World model relies on (default of `copy=`, list
   primitive, whether the method itself stores a lattice reference) are those extracted from the source, and
   the theorems of section 3 prove that `DS.World.planG` / `World.prep` really have these parameters (for every view /
   world, by unfolding the planner — not by sampling).
-/
namespace DS.Props.SrcContainer
open DS.World DS.Src.Container

/-! ## 1. the methods as written -/

/-- `append(a, copy=True)`: `adup = copy and Atom(a) or a`, link to the structure's lattice, then `list.append` -/
theorem m_append_src : Src.Container.m_append =
  { name := "append",
    params := [("a", ""), ("copy", "True")],
    copyDefault := "True",
    links := ["adup.lattice = self.lattice"],
    listCalls := [("append", "adup")],
    calls := ["Atom(a)", "list.append(adup)"],
    body := ["adup = copy and Atom(a) or a",
      "adup.lattice = self.lattice",
      "super(Structure, self).append(adup)",
      "return"] } := rfl

/-- `insert(idx, a, copy=True)`: as `append`, with `copymod.copy(a)` and `list.insert(idx, adup)` -/
theorem m_insert_src : Src.Container.m_insert =
  { name := "insert",
    params := [("idx", ""), ("a", ""), ("copy", "True")],
    copyDefault := "True",
    links := ["adup.lattice = self.lattice"],
    listCalls := [("insert", "idx, adup")],
    calls := ["copymod.copy(a)", "list.insert(idx, adup)"],
    body := ["adup = copy and copymod.copy(a) or a",
      "adup.lattice = self.lattice",
      "super(Structure, self).insert(idx, adup)",
      "return"] } := rfl

/-- `extend(atoms, copy=None)`: `None` -> all copied for a Structure, otherwise an atom is copied iff it is already a member or was yielded before (`memo`); `True` -> all copied; `False` -> taken as they are; every new atom is linked (`setlat`) *before* `list.extend` -/
theorem m_extend_src : Src.Container.m_extend =
  { name := "extend",
    params := [("atoms", ""), ("copy", "None")],
    copyDefault := "None",
    links := ["setattr(a, 'lattice', self.lattice)"],
    listCalls := [("extend", "newatoms")],
    calls := ["copymod.copy(a)", "copymod.copy(a)", "list.extend(newatoms)"],
    body := ["adups = (copymod.copy(a) for a in atoms)",
      "if copy is None:",
      "    if isinstance(atoms, Structure):",
      "        newatoms = adups",
      "    else:",
      "        memo = set((id(a) for a in self))",
      "        def nextatom(a):",
      "            return a if id(a) not in memo else copymod.copy(a)",
      "        def mark(a):",
      "            return (memo.add(id(a)), a)[-1]",
      "        newatoms = (mark(nextatom(a)) for a in atoms)",
      "elif copy:",
      "    newatoms = adups",
      "else:",
      "    newatoms = atoms",
      "def setlat(a):",
      "    return (setattr(a, 'lattice', self.lattice), a)[-1]",
      "newatoms = [setlat(a) for a in newatoms]",
      "super(Structure, self).extend(newatoms)",
      "return"] } := rfl

/-- `__getitem__`: slice -> `__emptySharedStructure()` + `list.__getitem__` + `extend(lst, copy=False)`; integer -> the member itself; otherwise numpy indexing of `arange(len(self))` (tuples through `numpy.r_`), labels resolved to unique positions first (IndexError for unknown / duplicate labels) -/
theorem d_getitem_src : Src.Container.d_getitem =
  { name := "__getitem__",
    params := [("idx", "")],
    copyDefault := "",
    links := [],
    listCalls := [("__getitem__", "idx"), ("__getitem__", "idx")],
    calls := ["self.__emptySharedStructure()", "list.__getitem__(idx)", "rv.extend(lst, copy=False)", "list.__getitem__(idx)", "list.__getitem__(self, i)", "self.__emptySharedStructure()", "rv.extend(rhs, copy=False)", "STORE labeltoindex[a.label] = duplicate if a.label in labeltoindex else i", "LOAD self[idx2]"],
    body := ["if isinstance(idx, slice):",
      "    rv = self.__emptySharedStructure()",
      "    lst = super(Structure, self).__getitem__(idx)",
      "    rv.extend(lst, copy=False)",
      "    return rv",
      "try:",
      "    rv = super(Structure, self).__getitem__(idx)",
      "    return rv",
      "except TypeError:",
      "    pass",
      "scalarstringlabel = isinstance(idx, str)",
      "hasstringlabel = scalarstringlabel or (isiterable(idx) and any((isinstance(ii, str) for ii in idx)))",
      "if not hasstringlabel:",
      "    idx1 = idx",
      "    if type(idx) is tuple:",
      "        idx1 = numpy.r_[idx]",
      "    indices = numpy.arange(len(self))[idx1]",
      "    rhs = [list.__getitem__(self, i) for i in indices]",
      "    rv = self.__emptySharedStructure()",
      "    rv.extend(rhs, copy=False)",
      "    return rv",
      "duplicate = object()",
      "labeltoindex = {}",
      "for i, a in enumerate(self):",
      "    labeltoindex[a.label] = duplicate if a.label in labeltoindex else i",
      "def _resolveindex(aid):",
      "    aid1 = aid",
      "    if isinstance(aid, str):",
      "        aid1 = labeltoindex.get(aid, None)",
      "        if aid1 is None:",
      "            raise IndexError('Invalid atom label %r.' % aid)",
      "        if aid1 is duplicate:",
      "            raise IndexError('Atom label %r is not unique.' % aid)",
      "    return aid1",
      "if scalarstringlabel:",
      "    idx2 = _resolveindex(idx)",
      "else:",
      "    idx2 = [_resolveindex(i) for i in idx]",
      "    if type(idx) is tuple:",
      "        idx2 = tuple(idx2)",
      "rv = self[idx2]",
      "return rv"] } := rfl

/-- `__setitem__(idx, value, copy=True)`: slice -> with `copy` the members of the assigned slice are kept, everything else is copied (`Atom(a)`), each value is linked while `list.__setitem__` consumes the `filter`; integer -> `Atom(value) if copy else value`, linked *before* `list.__setitem__` (so a failing assignment has already re-linked the atom) -/
theorem d_setitem_src : Src.Container.d_setitem =
  { name := "__setitem__",
    params := [("idx", ""), ("value", ""), ("copy", "True")],
    copyDefault := "True",
    links := ["a.lattice = self.lattice", "vfinal.lattice = self.lattice"],
    listCalls := [("__getitem__", "idx"), ("__setitem__", "idx, vfinal")],
    calls := ["list.__getitem__(idx)", "Atom(a)", "Atom(value)", "list.__setitem__(idx, vfinal)"],
    body := ["if isinstance(idx, slice):",
      "    def _fixlat(a):",
      "        a.lattice = self.lattice",
      "        return a",
      "    v1 = value",
      "    if copy:",
      "        keep = set(super(Structure, self).__getitem__(idx))",
      "        v1 = (a if a in keep else Atom(a) for a in value)",
      "    vfinal = filter(_fixlat, v1)",
      "else:",
      "    vfinal = Atom(value) if copy else value",
      "    vfinal.lattice = self.lattice",
      "super(Structure, self).__setitem__(idx, vfinal)",
      "return"] } := rfl

/-- `__add__`: `copymod.copy(self)` then `+=` -/
theorem d_add_src : Src.Container.d_add =
  { name := "__add__",
    params := [("other", "")],
    copyDefault := "",
    links := [],
    listCalls := [],
    calls := ["copymod.copy(self)", "AUG rv += other"],
    body := ["rv = copymod.copy(self)",
      "rv += other",
      "return rv"] } := rfl

/-- `__iadd__`: `self.extend(other, copy=True)` -/
theorem d_iadd_src : Src.Container.d_iadd =
  { name := "__iadd__",
    params := [("other", "")],
    copyDefault := "",
    links := [],
    listCalls := [],
    calls := ["self.extend(other, copy=True)"],
    body := ["self.extend(other, copy=True)",
      "return self"] } := rfl

/-- `__sub__`: copy of the selection `self[keepindices]` (the intermediate selection re-links the kept atoms to `self.lattice`) -/
theorem d_sub_src : Src.Container.d_sub =
  { name := "__sub__",
    params := [("other", "")],
    copyDefault := "",
    links := [],
    listCalls := [],
    calls := ["copymod.copy(self[keepindices])", "LOAD self[keepindices]"],
    body := ["otherset = set(other)",
      "keepindices = [i for i, a in enumerate(self) if a not in otherset]",
      "rv = copymod.copy(self[keepindices])",
      "return rv"] } := rfl

/-- `__isub__`: `self[:] = [members not in other]` (slice assignment with the default flag: members are kept, not copied) -/
theorem d_isub_src : Src.Container.d_isub =
  { name := "__isub__",
    params := [("other", "")],
    copyDefault := "",
    links := [],
    listCalls := [],
    calls := ["STORE self[:] = [a for a in self if a not in otherset]"],
    body := ["otherset = set(other)",
      "self[:] = [a for a in self if a not in otherset]",
      "return self"] } := rfl

/-- `__mul__`: copy of the empty selection `self[:0]`, then `+= n * self.tolist()` (all copied) -/
theorem d_mul_src : Src.Container.d_mul =
  { name := "__mul__",
    params := [("n", "")],
    copyDefault := "",
    links := [],
    listCalls := [],
    calls := ["copymod.copy(self[:0])", "LOAD self[:0]", "AUG rv += n * self.tolist()", "self.tolist()"],
    body := ["rv = copymod.copy(self[:0])",
      "rv += n * self.tolist()",
      "return rv"] } := rfl

/-- `__imul__`: `n <= 0` -> `self[:] = []`; otherwise `extend((n - 1) * self.tolist(), copy=True)` -/
theorem d_imul_src : Src.Container.d_imul =
  { name := "__imul__",
    params := [("n", "")],
    copyDefault := "",
    links := [],
    listCalls := [],
    calls := ["STORE self[:] = []", "self.extend((n - 1) * self.tolist(), copy=True)", "self.tolist()"],
    body := ["if n <= 0:",
      "    self[:] = []",
      "else:",
      "    self.extend((n - 1) * self.tolist(), copy=True)",
      "return self"] } := rfl

/-- `copy()`: `copymod.copy(self)` -/
theorem m_copy_src : Src.Container.m_copy =
  { name := "copy",
    params := [],
    copyDefault := "",
    links := [],
    listCalls := [],
    calls := ["copymod.copy(self)"],
    body := ["return copymod.copy(self)"] } := rfl

/-- `__copy__(target=None)`: new `Structure()` unless a target is given, a *new* `Lattice(self.lattice)`, then `target[:] = self` (slice assignment with the default flag into an empty target: every atom copied) -/
theorem d_copy_src : Src.Container.d_copy =
  { name := "__copy__",
    params := [("target", "None")],
    copyDefault := "",
    links := ["target.lattice = Lattice(self.lattice)"],
    listCalls := [],
    calls := ["Structure()", "Lattice(self.lattice)", "copymod.deepcopy(self.pdffit)", "STORE target[:] = self"],
    body := ["if target is None:",
      "    target = Structure()",
      "elif target is self:",
      "    return target",
      "target.title = self.title",
      "target.lattice = Lattice(self.lattice)",
      "target.pdffit = copymod.deepcopy(self.pdffit)",
      "target[:] = self",
      "return target"] } := rfl

/-- `__setstate__`: restore `__dict__`, then re-assign `self.lattice` (the property setter re-links every atom) -/
theorem d_setstate_src : Src.Container.d_setstate =
  { name := "__setstate__",
    params := [("state", "")],
    copyDefault := "",
    links := ["self.lattice = self._lattice"],
    listCalls := [],
    calls := ["self.__dict__.update(state)"],
    body := ["self.__dict__.update(state)",
      "self.lattice = self._lattice",
      "return"] } := rfl

/-- `_set_lattice(value)`: every member atom gets the reference, then `self._lattice` -/
theorem u_set_lattice_src : Src.Container.u_set_lattice =
  { name := "_set_lattice",
    params := [("value", "")],
    copyDefault := "",
    links := ["a.lattice = value", "self._lattice = value"],
    listCalls := [],
    calls := [],
    body := ["for a in self:",
      "    a.lattice = value",
      "self._lattice = value",
      "return"] } := rfl

/-- `addNewAtom`: the new `Atom` is built with `lattice=self.lattice` and appended with `copy=False` -/
theorem m_addNewAtom_src : Src.Container.m_addNewAtom =
  { name := "addNewAtom",
    params := [("*args", ""), ("**kwargs", "")],
    copyDefault := "",
    links := ["kwargs['lattice'] = self.lattice"],
    listCalls := [],
    calls := ["STORE kwargs['lattice'] = self.lattice", "Atom(*args, **kwargs)", "self.append(a, copy=False)"],
    body := ["kwargs['lattice'] = self.lattice",
      "a = Atom(*args, **kwargs)",
      "self.append(a, copy=False)",
      "return"] } := rfl

/-- `tolist()`: a plain list of the member atoms (no copies) -/
theorem m_tolist_src : Src.Container.m_tolist =
  { name := "tolist",
    params := [],
    copyDefault := "",
    links := [],
    listCalls := [],
    calls := [],
    body := ["rv = [a for a in self]",
      "return rv"] } := rfl

/-- `__emptySharedStructure()`: a new `Structure()` whose `__dict__` entries (among them `_lattice`) are *the same objects* as those of `self` -/
theorem p_emptySharedStructure_src : Src.Container.p_emptySharedStructure =
  { name := "__emptySharedStructure",
    params := [],
    copyDefault := "",
    links := [],
    listCalls := [],
    calls := ["Structure()", "rv.__dict__.update([(k, getattr(self, k)) for k in rv.__dict__])"],
    body := ["rv = Structure()",
      "rv.__dict__.update([(k, getattr(self, k)) for k in rv.__dict__])",
      "return rv"] } := rfl

/-- `__init__`: copy construction through `Structure.__copy__(atoms, self)`, then `title`, then the `lattice` argument through the property setter (a new `Lattice()` if there is none), then `extend(atoms)` with the default flag unless the copy already filled the structure -/
theorem d_init_src : Src.Container.d_init =
  { name := "__init__",
    params := [("atoms", "None"), ("lattice", "None"), ("title", "None"), ("filename", "None"), ("format", "None")],
    copyDefault := "",
    links := ["self.lattice = lattice", "self.lattice = Lattice()"],
    listCalls := [],
    calls := ["self.read(filename, **readkwargs)", "Structure.__copy__(atoms, self)", "Lattice()", "self.extend(atoms)"],
    body := ["if filename is not None:",
      "    if any((atoms, lattice, title)):",
      "        emsg = 'Cannot use filename and atoms arguments together.'",
      "        raise ValueError(emsg)",
      "    readkwargs = format is not None and {'format': format} or {}",
      "    self.read(filename, **readkwargs)",
      "    return",
      "if isinstance(atoms, Structure):",
      "    Structure.__copy__(atoms, self)",
      "if title is not None:",
      "    self.title = title",
      "if lattice is not None:",
      "    self.lattice = lattice",
      "elif self.lattice is None:",
      "    self.lattice = Lattice()",
      "if not len(self) and atoms is not None:",
      "    self.extend(atoms)",
      "return"] } := rfl

theorem bases_eq : Src.Container.bases = ["list"] := rfl

/-- not defined in `Structure` (no class-level binding of any kind): item / slice deletion, `pop`, `remove`,
`reverse`, `sort`, `clear` are the plain `list` operations — the model plans them as bare list edits without incoming
atoms (`inherited_are_raw`); there is no `__getstate__` / `__reduce__` / `__reduce_ex__` / `__deepcopy__` /
`__getnewargs__` / `__new__`, so pickling and `deepcopy` follow the default protocol for a `list` subclass and come
back through `__setstate__` (`d_setstate_src`); iteration, `len`, `in`, `==`, `index`, `count` are those of `list` -/
theorem absent_eq : Src.Container.absent =
    ["__delitem__", "__getstate__", "__reduce__", "__reduce_ex__", "__deepcopy__", "__getnewargs__", "__getnewargs_ex__",
     "__new__", "__iter__", "__len__", "__contains__", "__eq__", "__hash__", "pop", "remove", "reverse", "sort", "clear",
     "index", "count", "__reversed__"] := rfl

/-- `n * s` is `s * n`; `lattice` is a property over `_get_lattice` / `_set_lattice`; the class default is `None` -/
theorem classAssigns_eq : Src.Container.classAssigns =
    ["_lattice = None", "__rmul__ = __mul__", "lattice = property(_get_lattice, _set_lattice)"] := rfl

/-! ## 2. the parameters of the World model are those of the source -/

/-- per method: default of `copy=` (`""` = no such parameter), the `list` primitives it reaches through `super()`,
whether the method itself stores a lattice reference.  Hand-written beside the model; section 3 proves the rows
about `planG` / `prep`. -/
def modelTable : List Row := [
  ⟨"append", "True", ["append"], true⟩,
  ⟨"insert", "True", ["insert"], true⟩,
  ⟨"extend", "None", ["extend"], true⟩,
  ⟨"__getitem__", "", ["__getitem__", "__getitem__"], false⟩,
  ⟨"__setitem__", "True", ["__getitem__", "__setitem__"], true⟩,
  ⟨"__add__", "", [], false⟩,
  ⟨"__iadd__", "", [], false⟩,
  ⟨"__sub__", "", [], false⟩,
  ⟨"__isub__", "", [], false⟩,
  ⟨"__mul__", "", [], false⟩,
  ⟨"__imul__", "", [], false⟩,
  ⟨"copy", "", [], false⟩,
  ⟨"__copy__", "", [], true⟩,
  ⟨"__setstate__", "", [], true⟩,
  ⟨"_set_lattice", "", [], true⟩,
  ⟨"addNewAtom", "", [], true⟩,
  ⟨"tolist", "", [], false⟩,
  ⟨"__emptySharedStructure", "", [], false⟩,
  ⟨"__init__", "", [], true⟩]

/-- **the table extracted from the current source is the model's table** -/
theorem table_eq : Src.Container.table = modelTable := rfl

/-- every method of the list was found and read (none is missing from the generated table) -/
theorem table_complete : Src.Container.table.map (·.method) =
    ["append", "insert", "extend", "__getitem__", "__setitem__", "__add__", "__iadd__", "__sub__", "__isub__", "__mul__",
     "__imul__", "copy", "__copy__", "__setstate__", "_set_lattice", "addNewAtom", "tolist", "__emptySharedStructure",
     "__init__"] := rfl

/-- a default of `copy=` as written -> the model's flag -/
def flagOfText : String → Option CopyFlag
  | "True" => some .yes
  | "False" => some .no
  | "None" => some .dflt
  | _ => none

/-- does the edit `e` of the model stand for the CPython call `list.<prim>(…)`? -/
def standsFor : String → Edit → Bool
  | "append", .append => true          -- one incoming element
  | "extend", .append => true          -- all incoming elements
  | "insert", .insert _ => true
  | "__setitem__", .setInt _ => true
  | "__setitem__", .setSlice _ => true
  | _, _ => false

def rowOf (name : String) : Option Row := modelTable.find? (fun r => r.method == name)

/-! ## 3. … and the model does have these parameters -/

/-- `s.append(a)` is `s.append(a, copy=<default as written>)`: the model plans the default flag exactly as the flag the
source names as default (`True`) -/
theorem append_default (v : View Nat) (h : Nat) (a : ARef) :
    ((rowOf "append").bind (fun r => flagOfText r.copyDefault)).map (fun c => planG v (.append h a c)) =
      some (planG v (.append h a .dflt)) := by
  show some (planG v (.append h a .yes)) = some (planG v (.append h a .dflt))
  simp only [planG]
  rfl

theorem insert_default (v : View Nat) (h : Nat) (i : Int) (a : ARef) :
    ((rowOf "insert").bind (fun r => flagOfText r.copyDefault)).map (fun c => planG v (.insert h i a c)) =
      some (planG v (.insert h i a .dflt)) := by
  show some (planG v (.insert h i a .yes)) = some (planG v (.insert h i a .dflt))
  simp only [planG]
  rfl

/-- `extend`: the default as written is `None`, the model's third flag … -/
theorem extend_default (v : View Nat) (h : Nat) (it : Iter) :
    ((rowOf "extend").bind (fun r => flagOfText r.copyDefault)).map (fun c => planG v (.extend h it c)) =
      some (planG v (.extend h it .dflt)) := rfl

/-- … whose meaning is the branch skeleton of `m_extend_src`: `None` and a Structure -> every atom copied; `None` and
anything else -> an atom is copied iff it is a member already or was yielded before; `True` -> every atom copied;
`False` -> none -/
theorem extend_flags (old xs : List Nat) (isStru : Bool) :
    copyFlags .dflt true old xs = allTrue xs ∧ copyFlags .dflt false old xs = memoFlags old xs ∧
    copyFlags .yes isStru old xs = allTrue xs ∧ copyFlags .no isStru old xs = allFalse xs := ⟨rfl, rfl, rfl, rfl⟩

/-- `s[i] = a` / `s[i:j:k] = …` are `__setitem__(…, copy=True)`: the model's item and slice assignment carry a Boolean
(no third behaviour); the harness sends the default call with `true` -/
theorem setitem_default : (rowOf "__setitem__").bind (fun r => flagOfText r.copyDefault) = some .yes := by decide

/-- no other method has a `copy=` parameter -/
theorem copy_parameters : (modelTable.filter (fun r => r.copyDefault != "")).map (·.method) =
    ["append", "insert", "extend", "__setitem__"] := by decide

/-- `append`: one incoming atom, copied unless `copy=False`, put at the end by `list.append` -/
theorem append_plan {v : View Nat} {h : Nat} {a : ARef} {c : CopyFlag} {p : Plan Nat}
    (hp : planG v (.append h a c) = .ok (.plan p)) :
    (m_append.listCalls.map Prod.fst).all (standsFor · p.edit) = true ∧ m_append.listCalls.length = 1 ∧
    p.tgt = .old h ∧ p.pre = none ∧ p.inc.length = 1 ∧ p.flags = [decide (c ≠ .no)] := by
  simp only [planG] at hp
  split at hp
  · cases hp
  · split at hp
    · cases hp
    · cases hp; exact ⟨rfl, rfl, rfl, rfl, rfl, rfl⟩

/-- `insert`: as `append`, placed by `list.insert` at the index given -/
theorem insert_plan {v : View Nat} {h : Nat} {i : Int} {a : ARef} {c : CopyFlag} {p : Plan Nat}
    (hp : planG v (.insert h i a c) = .ok (.plan p)) :
    (m_insert.listCalls.map Prod.fst).all (standsFor · p.edit) = true ∧ m_insert.listCalls = [("insert", "idx, adup")] ∧
    p.edit = .insert i ∧ p.tgt = .old h ∧ p.pre = none ∧ p.inc.length = 1 ∧ p.flags = [decide (c ≠ .no)] := by
  simp only [planG] at hp
  split at hp
  · cases hp
  · split at hp
    · cases hp
    · cases hp; exact ⟨rfl, rfl, rfl, rfl, rfl, rfl, rfl⟩

/-- `extend`: everything the iterable yields, flags by `copyFlags`, appended by `list.extend` -/
theorem extend_plan {v : View Nat} {h : Nat} {it : Iter} {c : CopyFlag} {p : Plan Nat}
    (hp : planG v (.extend h it c) = .ok (.plan p)) :
    (m_extend.listCalls.map Prod.fst).all (standsFor · p.edit) = true ∧ m_extend.listCalls.length = 1 ∧
    p.tgt = .old h ∧ p.pre = none ∧
    ∃ old xs isS, v.atoms h = .ok old ∧ v.iter it = .ok (xs, isS) ∧ p.inc = xs ∧ p.flags = copyFlags c isS old xs := by
  simp only [planG] at hp
  split at hp
  · cases hp
  · rename_i old hold
    split at hp
    · cases hp
    · rename_i xs isS hit
      cases hp
      exact ⟨rfl, rfl, rfl, rfl, old, xs, isS, hold, hit, rfl, rfl⟩

/-- item assignment: one incoming atom, copied iff the flag says so, stored by `list.__setitem__` at the index given -/
theorem setitem_plan {v : View Nat} {h : Nat} {i : Int} {a : ARef} {c : Bool} {p : Plan Nat}
    (hp : planG v (.setitem h i a c) = .ok (.plan p)) :
    (d_setitem.listCalls.map Prod.fst).getLast?.all (standsFor · p.edit) = true ∧ p.edit = .setInt i ∧
    p.tgt = .old h ∧ p.inc.length = 1 ∧ p.flags = [c] := by
  simp only [planG] at hp
  split at hp
  · cases hp
  · split at hp
    · cases hp
    · cases hp; exact ⟨rfl, rfl, rfl, rfl, rfl⟩

/-- slice assignment: `keep = set(list.__getitem__(idx))` are the members of the assigned slice; with the flag set an
incoming atom is copied iff it is not one of them, without the flag nothing is copied; stored by `list.__setitem__`
with the slice given -/
theorem setslice_plan {v : View Nat} {h : Nat} {sl : Slice} {it : Iter} {c : Bool} {p : Plan Nat}
    (hp : planG v (.setslice h sl it c) = .ok (.plan p)) :
    d_setitem.listCalls.map Prod.fst = ["__getitem__", "__setitem__"] ∧ standsFor "__setitem__" p.edit = true ∧
    p.edit = .setSlice sl ∧ p.tgt = .old h ∧
    ∃ old xs isS a, v.atoms h = .ok old ∧ v.iter it = .ok (xs, isS) ∧ sliceAdjust old.length sl = .ok a ∧ p.inc = xs ∧
      p.flags = if c then xs.map (fun x => decide (x ∉ pick old (sliceIdx a))) else allFalse xs := by
  simp only [planG] at hp
  split at hp
  · cases hp
  · rename_i old hold
    split at hp
    · cases hp
    · rename_i xs isS hit
      split at hp
      · cases hp
      · rename_i a ha
        cases hp
        exact ⟨rfl, rfl, rfl, rfl, old, xs, isS, a, hold, hit, ha, rfl, rfl⟩

/-- `s += other` is `s.extend(other, copy=True)` (`d_iadd_src`), in the model too -/
theorem iadd_is_extend_copy (v : View Nat) (h : Nat) (it : Iter) :
    planG v (.iadd h it) = planG v (.extend h it .yes) := by
  simp only [planG]
  split
  · rfl
  · split <;> rfl

/-- the inherited `list` methods (`absent_eq`) are planned as bare list edits: nothing comes in, nothing is re-linked -/
theorem inherited_are_raw {v : View Nat} {op : Op} {p : Plan Nat}
    (hop : (∃ h i, op = .delitem h i) ∨ (∃ h sl, op = .delslice h sl) ∨ (∃ h i, op = .pop h i) ∨ (∃ h a, op = .remove h a) ∨
           (∃ h, op = .reverse h) ∨ (∃ h, op = .sort h) ∨ (∃ h, op = .clear h))
    (hp : planG v op = .ok (.plan p)) : p.inc = [] ∧ p.flags = [] ∧ p.pre = none ∧ ∃ h, p.tgt = .old h := by
  rcases hop with ⟨h, i, rfl⟩ | ⟨h, sl, rfl⟩ | ⟨h, i, rfl⟩ | ⟨h, a, rfl⟩ | ⟨h, rfl⟩ | ⟨h, rfl⟩ | ⟨h, rfl⟩ <;>
    simp only [planG] at hp <;> (repeat' split at hp) <;>
    first
    | (cases hp; exact ⟨rfl, rfl, rfl, _, rfl⟩)
    | cases hp

/-- the methods that store a lattice reference themselves (`links` non-empty); the others reach one of these
(`__getitem__` through `extend(…, copy=False)`, `+=` through `extend`, `-=` / `*=` / `__copy__` through slice assignment …) -/
theorem lattice_storing_methods : (modelTable.filter (·.storesLattice)).map (·.method) =
    ["append", "insert", "extend", "__setitem__", "__copy__", "__setstate__", "_set_lattice", "addNewAtom", "__init__"] := by
  decide

/-- what these stores amount to in the model: whatever an operation materialises for its target refers to the target's
lattice afterwards — also when the list primitive then raises (the stores precede the `super()` call in `m_append_src`,
`m_insert_src`, `m_extend_src`, `d_setitem_src`) -/
theorem materialised_are_linked (w : World) {op : Op} {p : Plan Nat} (hp : planG w.view op = .ok (.plan p)) :
    ∀ y ∈ (w.prep p).2.2, (w.stepFull op).1.alat y = World.tgtLat w p := by
  simp only [World.stepFull, hp, World.exec]
  exact World.execPlan_links w p

/-- `_set_lattice` in the model: every member is re-linked and the structure's own reference is replaced -/
theorem setLat_model (w : World) (h : Nat) (src : LatSrc) :
    (∀ a ∈ w.atomsOf h, (w.exec (.setLat h src)).1.alat a = World.latSrcOf w src) ∧
    (h < w.strus.length → (w.exec (.setLat h src)).1.latOf h = World.latSrcOf w src) := by
  constructor
  · intro a ha
    cases src <;> simp [World.exec, World.setLats, World.latSrcOf, World.newLat, ha]
  · intro hh
    cases src <;>
      simp [World.exec, World.latOf, World.setLats, World.newLat, World.latSrcOf, getElem?_updAt, hh]

/-- `addNewAtom` in the model: a fresh atom that already refers to the structure's lattice, at the end -/
theorem addNew_model (w : World) (h p : Nat) :
    (w.exec (.addNew h p)).1.alat w.nextA = w.latOf h ∧ (w.exec (.addNew h p)).1.pay w.nextA = p := by
  simp [World.exec, World.setAtoms, World.allocAtom]

end DS.Props.SrcContainer
