import DS.Lemmas.Adp
import DS.Props.C09
/-!
# C14 — re-expressing a structure in another lattice leaves the crystal unchanged

Model: `DS.placeInLattice` / `DS.placeAtom` in `DS.Model.Adp` (structure.py, `placeInLattice`:
`Tx = base₁·recbase₂`, `Tu = normbase₁·recnormbase₂`, `xyz ↦ xyz·Tx`, `U ↦ Tuᵀ·(U·Tu)` only when the
atom's flag is set, then every atom refers to the new lattice).  Conventions derived from the
code: Cartesian position `xyz·base`; Cartesian displacement tensor `normbaseᵀ·U·normbase`
(`ucart`, as in `Atom.msdCart`).  All theorems over the reals, for all lattices satisfying `LatOK`.
-/
namespace DS.Props.C14
open DS DS.AtomS

/-! ### algebra -/

theorem conj_conj (a t u : Mat3 ℝ) :
    a.transpose.mul ((t.transpose.mul (u.mul t)).mul a) = (t.mul a).transpose.mul (u.mul (t.mul a)) := by
  rw [Mat3.transpose_mul]
  simp only [Mat3.mul_assoc]

theorem tx_base {l1 l2 : LatData ℝ} (h2 : LatOK l2) : (l1.base.mul l2.recbase).mul l2.base = l1.base := by
  rw [Mat3.mul_assoc, h2.rec_base, Mat3.mul_one]

theorem tu_normbase {l1 l2 : LatData ℝ} (h2 : LatOK l2) :
    (l1.normbase.mul l2.recnormbase).mul l2.normbase = l1.normbase := by
  rw [Mat3.mul_assoc, h2.recnormbase_normbase, Mat3.mul_one]

theorem tx_tx {l1 l2 l3 : LatData ℝ} (h2 : LatOK l2) :
    (l1.base.mul l2.recbase).mul (l2.base.mul l3.recbase) = l1.base.mul l3.recbase := by
  rw [← Mat3.mul_assoc, tx_base h2]

theorem tu_tu {l1 l2 l3 : LatData ℝ} (h2 : LatOK l2) :
    (l1.normbase.mul l2.recnormbase).mul (l2.normbase.mul l3.recnormbase) = l1.normbase.mul l3.recnormbase := by
  rw [← Mat3.mul_assoc, tu_normbase h2]

theorem conj_one (u : Mat3 ℝ) : (Mat3.one : Mat3 ℝ).transpose.mul (u.mul Mat3.one) = u := by
  rw [Mat3.transpose_one, Mat3.mul_one, Mat3.one_mul]

theorem conj_comp (t1 t2 u : Mat3 ℝ) :
    t2.transpose.mul ((t1.transpose.mul (u.mul t1)).mul t2) = (t1.mul t2).transpose.mul (u.mul (t1.mul t2)) :=
  conj_conj t2 t1 u

/-! ### one atom -/
section atom
variable {l1 l2 : LatData ℝ} (a : AtomS ℝ)

theorem placeAtom_xyz : (placeAtom l1 l2 a).xyz = Mat3.vecMul a.xyz (l1.base.mul l2.recbase) := by
  unfold placeAtom; simp only [setLattice, setU, getU]; split <;> rfl

theorem placeAtom_aniso : (placeAtom l1 l2 a).aniso = a.aniso := by
  unfold placeAtom; simp only [setLattice, setU, getU]
  split <;> rfl

theorem placeAtom_lat : (placeAtom l1 l2 a).lat = some l2 := by
  unfold placeAtom; rfl

theorem placeAtom_U_aniso (h : a.aniso = true) :
    (placeAtom l1 l2 a).U =
      (l1.normbase.mul l2.recnormbase).transpose.mul (a.U.mul (l1.normbase.mul l2.recnormbase)) := by
  unfold placeAtom; simp [setLattice, setU, getU, h]

theorem placeAtom_U_iso (h : a.aniso = false) : (placeAtom l1 l2 a).U = a.U := by
  unfold placeAtom; simp [setLattice, h]

/-- absolute Cartesian position is kept -/
theorem cart_preserved (h2 : LatOK l2) : l2.cart (placeAtom l1 l2 a).xyz = l1.cart a.xyz := by
  rw [placeAtom_xyz]; unfold LatData.cart
  rw [Mat3.vecMul_mul, tx_base h2]

/-- the stored tensor of an anisotropic atom describes the same Cartesian tensor:
`N₂ᵀ·U'·N₂ = N₁ᵀ·U·N₁` -/
theorem Ucart_preserved_aniso (h2 : LatOK l2) (ha : a.aniso = true) :
    ucart l2 (placeAtom l1 l2 a).U = ucart l1 a.U := by
  rw [placeAtom_U_aniso a ha]; unfold ucart
  rw [conj_conj, tu_normbase h2]

/-- the readable tensor (`Atom.U`) describes the same Cartesian tensor, either flag state
(the atom is assumed to refer to the structure's lattice `l1`, as in a consistent Structure) -/
theorem Ucart_preserved (h1 : LatOK l1) (h2 : LatOK l2) (hl : a.lat = some l1) :
    ucart l2 ((placeAtom l1 l2 a).getU).1 = ucart l1 (a.getU).1 := by
  cases ha : a.aniso with
  | true =>
    have e1 : ((placeAtom l1 l2 a).getU).1 = (placeAtom l1 l2 a).U := by
      unfold getU; simp [placeAtom_aniso, ha]
    have e2 : (a.getU).1 = a.U := by unfold getU; simp [ha]
    rw [e1, e2]; exact Ucart_preserved_aniso a h2 ha
  | false =>
    have e1 : ((placeAtom l1 l2 a).getU).1 = Mat3.smul a.U.a11 l2.isotropicunit := by
      unfold getU latOf; simp [placeAtom_aniso, placeAtom_lat, placeAtom_U_iso, ha]
    have e2 : (a.getU).1 = Mat3.smul a.U.a11 l1.isotropicunit := by
      unfold getU latOf; simp [ha, hl]
    rw [e1, e2, h1.ucart_iso, h2.ucart_iso]

theorem placeAtom_inv (h2 : LatOK l2) (hs : a.U.isSymm) : AdpInv (placeAtom l1 l2 a) := by
  refine ⟨?_, ?_⟩
  · cases ha : a.aniso with
    | true => rw [placeAtom_U_aniso a ha]; exact Mat3.isSymm_conj _ hs
    | false => rw [placeAtom_U_iso a ha]; exact hs
  · intro l hl; rw [placeAtom_lat] at hl; cases hl; exact h2

/-- the equivalent isotropic value is kept -/
theorem uiso_preserved (h1 : LatOK l1) (h2 : LatOK l2) (hl : a.lat = some l1) (hs : a.U.isSymm) :
    (placeAtom l1 l2 a).uisoequiv = a.uisoequiv := by
  have ia : AdpInv a := ⟨hs, fun l h => by rw [hl] at h; cases h; exact h1⟩
  have ip := placeAtom_inv (l1 := l1) a h2 hs
  have la : a.latOf = l1 := by unfold latOf; rw [hl]; rfl
  have lp : (placeAtom l1 l2 a).latOf = l2 := by unfold latOf; rw [placeAtom_lat]; rfl
  rw [uisoequiv_trace ip, uisoequiv_trace ia, la, lp, Ucart_preserved a h1 h2 hl]

/-- mean-square displacement along a fixed Cartesian direction is kept -/
theorem msdCart_preserved (h1 : LatOK l1) (h2 : LatOK l2) (hl : a.lat = some l1) (hs : a.U.isSymm)
    (v : Vec3 ℝ) : (placeAtom l1 l2 a).msdCart v = a.msdCart v := by
  have la : a.latOf = l1 := by unfold latOf; rw [hl]; rfl
  have lp : (placeAtom l1 l2 a).latOf = l2 := by unfold latOf; rw [placeAtom_lat]; rfl
  unfold msdCart
  rw [placeAtom_aniso, uiso_preserved a h1 h2 hl hs, la, lp]
  cases ha : a.aniso with
  | false => rfl
  | true => simp only [Bool.not_true, Bool.false_eq_true, if_false]; rw [Ucart_preserved_aniso a h2 ha]

/-- placing into `l2` then into `l3` is placing into `l3` -/
theorem placeAtom_chain {l3 : LatData ℝ} (h2 : LatOK l2) :
    placeAtom l2 l3 (placeAtom l1 l2 a) = placeAtom l1 l3 a := by
  cases ha : a.aniso with
  | false =>
    unfold placeAtom
    simp only [ha, setLattice, Bool.false_eq_true, if_false]
    rw [Mat3.vecMul_mul, tx_tx h2]
  | true =>
    unfold placeAtom
    simp only [ha, setLattice, setU, getU, if_true]
    rw [Mat3.vecMul_mul, tx_tx h2, conj_comp, tu_tu h2]

/-- placing an atom of `l1` into `l1` itself changes nothing -/
theorem placeAtom_self (h1 : LatOK l1) (hl : a.lat = some l1) : placeAtom l1 l1 a = a := by
  have e1 : l1.base.mul l1.recbase = Mat3.one := h1.base_rec
  have e2 : l1.normbase.mul l1.recnormbase = Mat3.one := h1.normbase_recnormbase
  cases ha : a.aniso with
  | false =>
    unfold placeAtom
    simp only [ha, setLattice, Bool.false_eq_true, if_false]
    rw [e1, Mat3.vecMul_one, ← hl, ← ha]
  | true =>
    unfold placeAtom
    simp only [ha, setLattice, setU, getU, if_true]
    rw [e1, e2, Mat3.vecMul_one, conj_one, ← hl, ← ha]

/-- there and back -/
theorem placeAtom_back (h1 : LatOK l1) (h2 : LatOK l2) (hl : a.lat = some l1) :
    placeAtom l2 l1 (placeAtom l1 l2 a) = a := by
  rw [placeAtom_chain a h2, placeAtom_self a h1 hl]

/-- supercell folding (the `ncell` records of PDFfit / DISCUS files): when the new base vectors are
`nx, ny, nz` times the old ones, fractional coordinates are divided by the multipliers … -/
theorem ncell_fold_xyz (h2 : LatOK l2) {nx ny nz : ℝ} (hx : nx ≠ 0) (hy : ny ≠ 0) (hz : nz ≠ 0)
    (hb : l2.base = l1.base.rowScale nx ny nz) :
    (placeAtom l1 l2 a).xyz = ⟨a.xyz.x / nx, a.xyz.y / ny, a.xyz.z / nz⟩ := by
  have e := h2.base_rec
  rw [hb] at e
  have e11 := congrArg Mat3.a11 e; have e12 := congrArg Mat3.a12 e; have e13 := congrArg Mat3.a13 e
  have e21 := congrArg Mat3.a21 e; have e22 := congrArg Mat3.a22 e; have e23 := congrArg Mat3.a23 e
  have e31 := congrArg Mat3.a31 e; have e32 := congrArg Mat3.a32 e; have e33 := congrArg Mat3.a33 e
  simp only [Mat3.mul, Mat3.one, Mat3.rowScale] at e11 e12 e13 e21 e22 e23 e31 e32 e33
  have z : ∀ {n p1 q1 p2 q2 p3 q3 : ℝ}, n ≠ 0 → p1 * n * q1 + p2 * n * q2 + p3 * n * q3 = 0 →
      p1 * q1 + p2 * q2 + p3 * q3 = 0 := by
    intro n p1 q1 p2 q2 p3 q3 hn h
    have : n * (p1 * q1 + p2 * q2 + p3 * q3) = 0 := by linear_combination h
    exact (mul_eq_zero.mp this).resolve_left hn
  have o : ∀ {n p1 q1 p2 q2 p3 q3 : ℝ}, n ≠ 0 → p1 * n * q1 + p2 * n * q2 + p3 * n * q3 = 1 →
      p1 * q1 + p2 * q2 + p3 * q3 = 1 / n := by
    intro n p1 q1 p2 q2 p3 q3 hn h
    field_simp
    linear_combination h
  have t11 := o hx e11; have t12 := z hx e12; have t13 := z hx e13
  have t21 := z hy e21; have t22 := o hy e22; have t23 := z hy e23
  have t31 := z hz e31; have t32 := z hz e32; have t33 := o hz e33
  rw [placeAtom_xyz]
  simp only [Mat3.vecMul, Mat3.mul, Vec3.mk.injEq]
  refine ⟨?_, ?_, ?_⟩
  · linear_combination a.xyz.x * t11 + a.xyz.y * t21 + a.xyz.z * t31
  · linear_combination a.xyz.x * t12 + a.xyz.y * t22 + a.xyz.z * t32
  · linear_combination a.xyz.x * t13 + a.xyz.y * t23 + a.xyz.z * t33

/-- … and displacement tensors are unchanged (the normalised base vectors of a supercell are those
of the cell: `ar` is divided by the factor the base vector is multiplied with) -/
theorem ncell_fold_U (h2 : LatOK l2) (hN : l2.normbase = l1.normbase) : (placeAtom l1 l2 a).U = a.U := by
  cases ha : a.aniso with
  | false => exact placeAtom_U_iso a ha
  | true => rw [placeAtom_U_aniso a ha, ← hN, h2.normbase_recnormbase, conj_one]

end atom

/-! ### the structure -/
section stru
variable (s : StruS ℝ) (l2 : LatData ℝ)

/-- every atom of `s` refers to the lattice of `s` (what C08 establishes for `Structure`) -/
def Consistent (s : StruS ℝ) : Prop := ∀ a ∈ s.atoms, a.lat = some s.lat

theorem lattice_is_new : (placeInLattice s l2).lat = l2 ∧ Consistent (placeInLattice s l2) := by
  refine ⟨rfl, ?_⟩
  intro a ha
  simp only [placeInLattice, List.mem_map] at ha
  obtain ⟨b, _, rfl⟩ := ha
  exact placeAtom_lat b

/-- same atoms in the same order; flags untouched -/
theorem flags_identity_preserved :
    (placeInLattice s l2).atoms.length = s.atoms.length ∧
      (placeInLattice s l2).atoms.map (·.aniso) = s.atoms.map (·.aniso) := by
  refine ⟨by simp [placeInLattice], ?_⟩
  simp only [placeInLattice, List.map_map]
  apply List.map_congr_left
  intro a _
  exact placeAtom_aniso a

/-- Cartesian positions, Cartesian tensors and isotropic values of all atoms are kept -/
theorem crystal_preserved (h1 : LatOK s.lat) (h2 : LatOK l2) (hc : Consistent s)
    (hs : ∀ a ∈ s.atoms, a.U.isSymm) :
    (placeInLattice s l2).atoms.map (fun a => (l2.cart a.xyz, ucart l2 (a.getU).1, a.uisoequiv))
      = s.atoms.map (fun a => (s.lat.cart a.xyz, ucart s.lat (a.getU).1, a.uisoequiv)) := by
  simp only [placeInLattice, List.map_map]
  apply List.map_congr_left
  intro a ha
  simp only [Function.comp]
  rw [cart_preserved a h2, Ucart_preserved a h1 h2 (hc a ha), uiso_preserved a h1 h2 (hc a ha) (hs a ha)]

/-- going to another lattice and back returns the original fractional coordinates and tensors -/
theorem there_and_back (h1 : LatOK s.lat) (h2 : LatOK l2) (hc : Consistent s) :
    placeInLattice (placeInLattice s l2) s.lat = s := by
  cases s with
  | mk lat atoms =>
    simp only [placeInLattice, List.map_map, StruS.mk.injEq, true_and]
    conv_rhs => rw [← List.map_id atoms]
    apply List.map_congr_left
    intro a ha
    exact placeAtom_back a h1 h2 (hc a ha)

/-- a chain of placements ends where the direct placement ends -/
theorem chain (l3 : LatData ℝ) (h2 : LatOK l2) :
    placeInLattice (placeInLattice s l2) l3 = placeInLattice s l3 := by
  simp only [placeInLattice, List.map_map, StruS.mk.injEq, true_and]
  apply List.map_congr_left
  intro a _
  exact placeAtom_chain a h2

/-- any chain of placements -/
theorem chain_list (ls : List (LatData ℝ)) (hls : ∀ l ∈ ls, LatOK l) (l3 : LatData ℝ) :
    placeInLattice (ls.foldl placeInLattice s) l3 = placeInLattice s l3 := by
  induction ls generalizing s with
  | nil => rfl
  | cons l ls ih =>
    simp only [List.foldl_cons]
    rw [ih (placeInLattice s l) (fun x hx => hls x (List.mem_cons_of_mem _ hx)),
      chain s l l3 (hls l (List.mem_cons_self ..))]

end stru

/-! ### non-vacuity -/

/-- a second genuine lattice: orthogonal cell 2 × 4 × 5 -/
noncomputable def orth : LatData ℝ :=
  let base : Mat3 ℝ := ⟨2, 0, 0, 0, 4, 0, 0, 0, 5⟩
  let rcb : Mat3 ℝ := ⟨1 / 2, 0, 0, 0, 1 / 4, 0, 0, 0, 1 / 5⟩
  { a := 2, b := 4, c := 5, ca := 0, cb := 0, cg := 0, ar := 1 / 2, br := 1 / 4, cr := 1 / 5,
    base := base, recbase := rcb,
    normbase := base.rowScale (1 / 2) (1 / 4) (1 / 5),
    recnormbase := rcb.colDiv (1 / 2) (1 / 4) (1 / 5),
    isotropicunit := isotropicunitOf (rcb.colDiv (1 / 2) (1 / 4) (1 / 5)),
    metrics := metricsOf 2 4 5 0 0 0 }

theorem orth_ok : LatOK orth where
  base_rec := by apply Mat3.ext' <;> norm_num [orth, Mat3.mul, Mat3.one]
  rec_base := by apply Mat3.ext' <;> norm_num [orth, Mat3.mul, Mat3.one]
  normbase_def := rfl
  recnormbase_def := rfl
  ar_ne := by norm_num [orth]
  br_ne := by norm_num [orth]
  cr_ne := by norm_num [orth]
  iso_def := rfl
  iso_diag11 := by norm_num [orth, Mat3.mul, Mat3.transpose, Mat3.colDiv]
  iso_diag22 := by norm_num [orth, Mat3.mul, Mat3.transpose, Mat3.colDiv]
  iso_diag33 := by norm_num [orth, Mat3.mul, Mat3.transpose, Mat3.colDiv]
  metrics_def := rfl
  metrics_gram := by apply Mat3.ext' <;> norm_num [orth, Mat3.mul, Mat3.transpose, metricsOf]

/-- a structure in the oblique lattice of C09 with one anisotropic and one isotropic atom -/
noncomputable def demo : StruS ℝ :=
  { lat := C09.obl,
    atoms := [ { xyz := ⟨1 / 2, 1 / 4, 0⟩, U := ⟨1, 2, 3, 2, 4, 5, 3, 5, 6⟩, aniso := true, lat := some C09.obl },
               { xyz := ⟨0, 1 / 3, 1 / 2⟩, U := ⟨7, 0, 0, 0, 0, 0, 0, 0, 0⟩, aniso := false, lat := some C09.obl } ] }

theorem demo_consistent : Consistent demo := by
  intro a ha
  simp only [demo, List.mem_cons, List.mem_nil_iff, or_false] at ha
  rcases ha with rfl | rfl <;> rfl

/-- the hypotheses of `there_and_back` / `crystal_preserved` are satisfiable, and the placement is
not the identity: the fractional coordinates of the first atom really change -/
example : placeInLattice (placeInLattice demo orth) demo.lat = demo :=
  there_and_back demo orth C09.obl_ok orth_ok demo_consistent

example : ((placeInLattice demo orth).atoms.map (·.xyz)).head? = some ⟨13 / 8, 1 / 4, 0⟩ := by
  norm_num [placeInLattice, placeAtom, demo, orth, C09.obl, setLattice, setU, getU, Mat3.vecMul, Mat3.mul]

/-- the tensor of the anisotropic atom changes as well (`U'₁₂ = Σ Tu_k1 U_kl Tu_l2`), here `U'₁₁ = 121/16` -/
example : ((placeInLattice demo orth).atoms.map (·.U.a11)).head? = some (121 / 16) := by
  norm_num [placeInLattice, placeAtom, demo, orth, C09.obl, setLattice, setU, getU, Mat3.mul, Mat3.transpose,
    Mat3.rowScale, Mat3.colDiv]

end DS.Props.C14
