import DS.Lemmas.LatRule
import DS.Gen.LatIndex

/-!
# C03, last clause — the lattice-compatibility test `isSpaceGroupLatPar`

"… the lattice-compatibility test accepts every cell that the setting's operations leave
invariant while rejecting cells that only a lower crystal system allows."

* The rule of the source is `srcRule` (= `evalDNF · (Gen.ruleSrc S)`, the seven rules as read by
  `translate/latpar.py` from the `ast` of `symmetryutilities.py`, cross-checked against the running
  function); `LatRule.rule` is the hand-written model "as the code states it";
  they coincide for the systems in `agreeing Gen.ruleSrc` (all seven on a healthy tree:
  `DS.Props.C03bFull`).
* `Gen.allLC` are the tabulated settings for which the kernel accepted a linear certificate
  (`Gen.sgN_lat : checkLatCert Gen.ruleSrc sgN sgN_lc = true`, one `decide +kernel` each);
  `Gen.nUncertified` counts the others (0 on a healthy tree; listed in
  `lean/DS/Gen/latpar_report.json`).
-/
namespace DS.Props.C03b
open DS DS.LatRule

/-- the rule of `isSpaceGroupLatPar` for crystal system `S`, as read from the source -/
def srcRule (S : CSys) (c : CellR) : Prop := evalDNF c (Gen.ruleSrc S)

/-- **completeness.**  For every certified tabulated setting: a valid real cell whose metric tensor
is invariant under (the rotation parts of) all operations of the setting is accepted by the
rule of the setting's crystal system. -/
theorem latpar_complete (p : SG × LatCert) (hp : p ∈ Gen.allLC) (c : CellR) (hv : Valid c)
    (hinv : ∀ op ∈ p.1.ops, Invariant op (metric c)) : srcRule p.1.system c :=
  checkLatCert_sound (Gen.allLC_ok p hp) c hv hinv

/-- the same for the hand-written model `rule`, for the systems whose source rule equals the model -/
theorem latpar_complete_rule (p : SG × LatCert) (hp : p ∈ Gen.allLC)
    (hS : p.1.system ∈ agreeing Gen.ruleSrc) (c : CellR) (hv : Valid c)
    (hinv : ∀ op ∈ p.1.ops, Invariant op (metric c)) : rule p.1.system c :=
  (rule_of_src hS c).2 (latpar_complete p hp c hv hinv)

/-- the metric conditions themselves: every linear form of the chosen alternative (`g11 − g22`,
`g23`, `2 g12 + g11`, …) vanishes on every real metric invariant under the setting -/
theorem latpar_metric_conditions (p : SG × LatCert) (hp : p ∈ Gen.allLC) (G : Metric ℝ)
    (hinv : ∀ op ∈ p.1.ops, Invariant op G) :
    ∃ k, (Gen.ruleSrc p.1.system)[p.2.alt]? = some k ∧ ∀ a ∈ k, ∀ f ∈ a.forms, f.eval G = 0 :=
  checkLatCert_forms (Gen.allLC_ok p hp) G hinv

/-- all tabulated settings, when the translator left none uncertified -/
theorem latpar_complete_allSG (h0 : Gen.nUncertified = 0) (g : SG) (hg : g ∈ Gen.allSG)
    (c : CellR) (hv : Valid c) (hinv : ∀ op ∈ g.ops, Invariant op (metric c)) :
    srcRule g.system c := by
  rw [← Gen.allLC_cover h0] at hg
  obtain ⟨p, hp, rfl⟩ := List.mem_map.1 hg
  exact latpar_complete p hp c hv hinv

/-- certified + uncertified = tabulated -/
theorem latpar_coverage : Gen.allLC.length + Gen.nUncertified = Gen.allSG.length :=
  Gen.allLC_length

/-! ### rejection of cells of a lower system -/

/-- generic cells by shape (the same cells as `harness/c03.py: SHAPES`) -/
noncomputable def shapes : List (CSys × CellR) :=
  [ (.triclinic,    ⟨5.1, 6.2, 7.3, 81, 97, 103⟩),
    (.monoclinic,   ⟨5.1, 6.2, 7.3, 90, 97, 90⟩),
    (.monoclinic,   ⟨5.1, 6.2, 7.3, 90, 90, 103⟩),
    (.monoclinic,   ⟨5.1, 6.2, 7.3, 81, 90, 90⟩),
    (.orthorhombic, ⟨5.1, 6.2, 7.3, 90, 90, 90⟩),
    (.tetragonal,   ⟨5.1, 5.1, 7.3, 90, 90, 90⟩),
    (.trigonal,     ⟨5.1, 5.1, 5.1, 81, 81, 81⟩),
    (.hexagonal,    ⟨5.1, 5.1, 7.3, 90, 90, 120⟩),
    (.cubic,        ⟨5.1, 5.1, 5.1, 90, 90, 90⟩) ]

/-- `lower S' S`: `S'` is strictly lower than `S` in
triclinic < monoclinic < orthorhombic < tetragonal < cubic, orthorhombic < hexagonal,
orthorhombic < trigonal < cubic -/
def lower : CSys → CSys → Bool
  | .triclinic, .triclinic => false
  | .triclinic, _ => true
  | .monoclinic, .triclinic => false
  | .monoclinic, .monoclinic => false
  | .monoclinic, _ => true
  | .orthorhombic, .tetragonal => true
  | .orthorhombic, .trigonal => true
  | .orthorhombic, .hexagonal => true
  | .orthorhombic, .cubic => true
  | .tetragonal, .cubic => true
  | .trigonal, .cubic => true
  | _, _ => false

/-- every shape is a valid cell and is accepted by its own system's rule -/
theorem shapes_accepted : ∀ sc ∈ shapes, Valid sc.2 ∧ rule sc.1 sc.2 := by
  intro sc hsc
  simp only [shapes, List.mem_cons, List.mem_nil_iff, or_false] at hsc
  rcases hsc with rfl | rfl | rfl | rfl | rfl | rfl | rfl | rfl | rfl <;>
    exact ⟨by constructor <;> norm_num, by simp only [rule] <;> norm_num⟩

/-- **rejection.**  The rule of crystal system `S` rejects the generic cell of every strictly
lower system. -/
theorem rule_rejects_lower : ∀ sc ∈ shapes, ∀ S, lower sc.1 S = true → ¬ rule S sc.2 := by
  intro sc hsc S hl
  simp only [shapes, List.mem_cons, List.mem_nil_iff, or_false] at hsc
  rcases hsc with rfl | rfl | rfl | rfl | rfl | rfl | rfl | rfl | rfl <;>
    cases S <;> simp only [lower, Bool.false_eq_true] at hl <;> simp only [rule] <;> norm_num

/-- the same for the rule as read from the source -/
theorem latpar_rejects_lower (sc : CSys × CellR) (hsc : sc ∈ shapes) (S : CSys)
    (hl : lower sc.1 S = true) (hS : S ∈ agreeing Gen.ruleSrc) : ¬ srcRule S sc.2 :=
  fun h => rule_rejects_lower sc hsc S hl ((rule_of_src hS sc.2).2 h)

/-- the order is strict and transitive, and has the stated covering pairs -/
theorem lower_irrefl : ∀ S, lower S S = false := by
  intro S; cases S <;> rfl
theorem lower_trans : ∀ S T U, lower S T = true → lower T U = true → lower S U = true := by
  intro S T U; cases S <;> cases T <;> cases U <;> decide

/-! ### non-vacuity -/

/-- the translator's witness cell over the reals -/
noncomputable def witnessCell : CellR :=
  ⟨(Gen.latWitnessCell.a : ℝ), (Gen.latWitnessCell.b : ℝ), (Gen.latWitnessCell.c : ℝ),
   (Gen.latWitnessCell.alpha : ℝ), (Gen.latWitnessCell.beta : ℝ), (Gen.latWitnessCell.gamma : ℝ)⟩

theorem witnessCell_metric : metric witnessCell = Metric.castR Gen.latWitnessMetric := by
  simp only [witnessCell, Gen.latWitnessCell, Gen.latWitnessMetric, metric, Metric.castR, Nat.cast_ofNat]
  norm_num [cosd_90, cosd_120]

theorem witnessCell_valid : Valid witnessCell := by
  constructor <;> simp only [witnessCell, Gen.latWitnessCell, Nat.cast_ofNat] <;> norm_num

/-- the hypotheses of `latpar_complete` are satisfiable: a concrete tabulated setting (P4, number 75,
on the pinned tree) and a concrete valid cell invariant under all its operations -/
theorem witness_invariant : ∀ op ∈ Gen.latWitness.1.ops, Invariant op (metric witnessCell) := by
  rw [witnessCell_metric]; exact checkInvInt_sound Gen.latWitness_inv

example : srcRule Gen.latWitness.1.system witnessCell ∧ 1 < Gen.latWitness.1.ops.length :=
  ⟨latpar_complete _ Gen.latWitness_mem _ witnessCell_valid witness_invariant, by decide +kernel⟩

/-- the a-unique monoclinic shape (the cells the pre-fix rule rejected) is accepted by the model -/
example : rule .monoclinic (⟨5.1, 6.2, 7.3, 81, 90, 90⟩ : CellR) := by
  simp only [rule]; norm_num

/-- `Invariant` is not trivially true: the fourfold rotation about `c` does not preserve the metric
of an orthorhombic cell with `a ≠ b` -/
example : ¬ Invariant ⟨0, -1, 0, 1, 0, 0, 0, 0, 1, 0, 0, 0⟩ (Metric.castR ⟨25, 36, 49, 0, 0, 0⟩) := by
  intro h
  have := eval_entryForm h 0
  simp [entryForm, bil, col1, LF.eval, LF.sub, LF.diag, Metric.castR] at this
  norm_num at this

end DS.Props.C03b
