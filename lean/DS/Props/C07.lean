import DS.Lemmas.Cif
import DS.Props.C02
import DS.Props.C03
import DS.Props.C06
/-!
# C07 — the symmetry expansion step of the CIF reader

Model: `DS.Cif.expand` (`P_cif._expandAsymmetricUnit`, exact coordinates in units `1/(24k)`, exact
rational tensors), composed of the literal `expandPosition` model `DS.Orbit.result` (C02) and the
tensor rotation `Con.rotT (Con.rotQ g)` (C06); `DS.CifNum.floatMatch` (`leading_float`'s prefix
extraction).

What is proved about the model:
* the atom list is the concatenation, in site order, of one block per listed site (`expand_grouped`,
  `expand_length`, `atom_parent`);
* every image carries the element, occupancy, anisotropy flag of its parent, the label `L` / `L_<j+1>`
  and the image number `j`, numbered `0 … m−1` (`image_attrs`, `images_numbered`);
* under the separation hypothesis of C02 the positions of a block are exactly the orbit of the site:
  every distinct image once, in first-occurrence order, the site itself first (`image_positions`,
  `first_image`, `positions_nodup`, `mem_positions`);
* an anisotropic image carries `R_g U R_gᵀ` with `g` the first tabulated operation that generates the
  image, and — for a group and a tensor invariant under the site symmetry — *any* operation that
  generates the image gives this same tensor (`image_tensor`, `tensor_any_rep`, `image_tensor_any`);
* atom labels are pairwise different (`labels_unique`, `labels_unique_of_no_underscore`);
* the result depends on the symmetry source only through the resolved operation list
  (`sym_source_irrelevant`), permuting the listed sites permutes the blocks (`expand_perm_sites`);
* a standard-uncertainty suffix does not change the text that is converted to a number (`esd_ignored`);
* all of it for every tabulated setting, with `multiplicity × |site symmetry| = num_sym_equiv`
  (`tables_cif`).
-/
namespace DS.Props.C07
open DS DS.Cif DS.Orbit DS.Con

/-! ### 1. blocks in site order -/

/-- the atoms are the images grouped by parent site, in site order -/
theorem expand_grouped (ops : List Op) (k E : Int) (sites : List Site) :
    expand ops k E sites = sites.zipIdx.flatMap (fun si => expandSite ops k E si.2 si.1) :=
  expandFrom_eq ops k E 0 sites

/-- the number of atoms is the sum of the multiplicities of the listed sites -/
theorem expand_length (ops : List Op) (k E : Int) (sites : List Site) :
    (expand ops k E sites).length =
      (sites.map (fun s => (Orbit.result ops k E (0, 0, 0) s.x).1.length)).sum :=
  expandFrom_length ops k E 0 sites

/-- the block of one site has as many atoms as `expandPosition` returned positions -/
theorem block_length (ops : List Op) (k E : Int) (i : Nat) (s : Site) :
    (expandSite ops k E i s).length = (Orbit.result ops k E (0, 0, 0) s.x).1.length :=
  expandSite_length ops k E i s

/-- every atom belongs to the block of the listed site whose index it carries -/
theorem atom_parent {ops : List Op} {k E : Int} {sites : List Site} {a : OutAtom} :
    a ∈ expand ops k E sites ↔ ∃ i s, sites[i]? = some s ∧ a ∈ expandSite ops k E i s := by
  rw [expand_grouped, List.mem_flatMap]
  constructor
  · rintro ⟨⟨s, i⟩, hsi, ha⟩
    exact ⟨i, s, List.mem_zipIdx_iff_getElem?.1 hsi, ha⟩
  · rintro ⟨i, s, hsi, ha⟩
    exact ⟨(s, i), List.mem_zipIdx_iff_getElem?.2 hsi, ha⟩

/-! ### 2. attributes of the images -/

/-- every image carries the index, element, occupancy and anisotropy flag of its parent, and the
label `L` (first image) or `L_<j+1>` -/
theorem image_attrs {ops : List Op} {k E : Int} {i : Nat} {s : Site} {a : OutAtom}
    (ha : a ∈ expandSite ops k E i s) :
    a.site = i ∧ a.elem = s.elem ∧ a.occ = s.occ ∧ a.aniso = s.aniso ∧
      a.label = imageLabel s.label a.img ∧ a.img < (Orbit.result ops k E (0, 0, 0) s.x).1.length := by
  obtain ⟨j, hj, rfl⟩ := mem_expandSite.1 ha
  exact ⟨rfl, rfl, rfl, rfl, rfl, hj⟩

/-- the images of a site are numbered `0, 1, …, m−1` in order -/
theorem images_numbered (ops : List Op) (k E : Int) (i : Nat) (s : Site) :
    (expandSite ops k E i s).map (·.img) = List.range (Orbit.result ops k E (0, 0, 0) s.x).1.length :=
  expandSite_img ops k E i s

/-- the same attributes for an atom of the whole list -/
theorem atom_attrs {ops : List Op} {k E : Int} {sites : List Site} {a : OutAtom}
    (ha : a ∈ expand ops k E sites) :
    ∃ s, sites[a.site]? = some s ∧ a.elem = s.elem ∧ a.occ = s.occ ∧ a.aniso = s.aniso ∧
      a.label = imageLabel s.label a.img := by
  obtain ⟨i, s, hs, hb⟩ := atom_parent.1 ha
  obtain ⟨h1, h2, h3, h4, h5, _⟩ := image_attrs hb
  exact ⟨s, h1 ▸ hs, h2, h3, h4, h5⟩

/-! ### 3. positions: exactly the orbit -/

/-- **the positions of a block are exactly the orbit of the site**: the distinct images under the
operation list, each once, in the order in which the table first produces them -/
theorem image_positions {ops : List Op} {k E : Int} (hk : 0 < k) (hE : 0 < E) (i : Nat) (s : Site)
    (hsep : Sep ops k E (0, 0, 0) s.x) :
    (expandSite ops k E i s).map (·.pos) = dedupFirst (ops.map (fun g => img g k (0, 0, 0) s.x)) := by
  rw [expandSite_pos, Orbit.result_exact hk hE hsep]

/-- the first atom of a block sits at the listed site itself (reduced into the cell) -/
theorem first_image {ops : List Op} {k E : Int} (hk : 0 < k) (hE : 0 < E) (i : Nat) (s : Site)
    (hsep : Sep ops k E (0, 0, 0) s.x) (h1 : ops.head? = some Op.one) :
    ((expandSite ops k E i s).map (·.pos)).head? = some (red k s.x) := by
  rw [expandSite_pos]
  exact C02.input_first hk hE hsep h1

/-- no position occurs twice within a block -/
theorem positions_nodup {ops : List Op} {k E : Int} (hk : 0 < k) (hE : 0 < E) (i : Nat) (s : Site)
    (hsep : Sep ops k E (0, 0, 0) s.x) : ((expandSite ops k E i s).map (·.pos)).Nodup := by
  rw [image_positions hk hE i s hsep]; exact nodup_dedupFirst _

/-- a point is occupied by an atom of the block iff it is an image of the site -/
theorem mem_positions {ops : List Op} {k E : Int} (hk : 0 < k) (hE : 0 < E) (i : Nat) (s : Site)
    (hsep : Sep ops k E (0, 0, 0) s.x) (p : P3) :
    p ∈ (expandSite ops k E i s).map (·.pos) ↔ ∃ g ∈ ops, img g k (0, 0, 0) s.x = p := by
  rw [image_positions hk hE i s hsep, mem_dedupFirst, List.mem_map]

/-! ### 4. displacement tensors -/

/-- **the tensor of an image**: an anisotropic site's image at `p` carries `R_g U R_gᵀ` where `g` is
the first operation of the table that maps the site to `p`; an isotropic site's images carry the
parent's tensor unchanged -/
theorem image_tensor {ops : List Op} {k E : Int} (hk : 0 < k) (hE : 0 < E) {i : Nat} {s : Site}
    (hsep : Sep ops k E (0, 0, 0) s.x) {a : OutAtom} (ha : a ∈ expandSite ops k E i s) :
    (s.aniso = true → ∃ g, ops.find? (fun g => decide (img g k (0, 0, 0) s.x = a.pos)) = some g ∧
        a.U = rotT (rotQ g) s.U) ∧
    (s.aniso = false → a.U = s.U) := by
  obtain ⟨j, hj, rfl⟩ := mem_expandSite.1 ha
  refine ⟨fun han => ?_, fun han => by simp [han]⟩
  have hr := Orbit.result_exact hk hE hsep
  simp only [mult, hr] at hj
  simp only [hr, han, if_true]
  set ps := dedupFirst (ops.map (fun g => img g k (0, 0, 0) s.x)) with hps
  rw [List.getD_eq_getElem (l := ps) (d := ((0, 0, 0) : P3)) hj,
    List.getD_eq_getElem (l := ps.map _) (d := ([] : List Op)) (by simpa using hj), List.getElem_map]
  have hmem : ps[j] ∈ ops.map (fun g => img g k (0, 0, 0) s.x) := mem_dedupFirst.1 (List.getElem_mem hj)
  obtain ⟨g0, hg0, e0⟩ := List.mem_map.1 hmem
  have hsome : (ops.find? (fun g => decide (img g k (0, 0, 0) s.x = ps[j]))).isSome :=
    List.find?_isSome.2 ⟨g0, hg0, by simpa using e0⟩
  obtain ⟨g, hg⟩ := Option.isSome_iff_exists.1 hsome
  exact ⟨g, hg, by rw [headD_filter_eq_find hg]⟩

/-- **any operation of the class gives the same tensor**: in a group, two operations that send the
site to the same point rotate a tensor that is invariant under the site symmetry to the same result -/
theorem tensor_any_rep {ops : List Op} (hG : IsGroup ops) (k : Int) (x : P3) (U : Mat3 Q)
    (hU : InvT (ops.filter (fun h => decide (img h k (0, 0, 0) x = red k x))) U)
    {g g' : Op} (hg : g ∈ ops) (hg' : g' ∈ ops)
    (e : img g k (0, 0, 0) x = img g' k (0, 0, 0) x) :
    rotT (rotQ g') U = rotT (rotQ g) U := by
  obtain ⟨gi, hgi, hggi, hgig⟩ := hG.inv g hg
  have hh : gi.comp g' ∈ ops := hG.closed gi hgi g' hg'
  have hfix : img (gi.comp g') k (0, 0, 0) x = red k x := by
    rw [← img_comp, ← e, img_comp, hgig, img_one]
  have hmem : gi.comp g' ∈ ops.filter (fun h => decide (img h k (0, 0, 0) x = red k x)) := by
    simp [List.mem_filter, hh, hfix]
  have hcomp : g.comp (gi.comp g') = g' := by
    rw [comp_assoc, hggi, one_comp (hG.range g' hg')]
  have := C06.eq_tensor_coset_indep' hU g (gi.comp g') hmem
  rw [hcomp] at this
  exact this

/-- consequently the tensor of an image is `R_g U R_gᵀ` for *every* tabulated operation `g` that
generates the image, when the parent's tensor obeys the site symmetry -/
theorem image_tensor_any {ops : List Op} (hG : IsGroup ops) {k E : Int} (hk : 0 < k) (hE : 0 < E)
    {i : Nat} {s : Site} (hsep : Sep ops k E (0, 0, 0) s.x) (han : s.aniso = true)
    (hU : InvT (ops.filter (fun h => decide (img h k (0, 0, 0) s.x = red k s.x))) s.U)
    {a : OutAtom} (ha : a ∈ expandSite ops k E i s) {g : Op} (hg : g ∈ ops)
    (e : img g k (0, 0, 0) s.x = a.pos) :
    a.U = rotT (rotQ g) s.U := by
  obtain ⟨g0, hfind, hU0⟩ := (image_tensor hk hE hsep ha).1 han
  have hg0 : g0 ∈ ops := List.mem_of_find?_eq_some hfind
  have e0 : img g0 k (0, 0, 0) s.x = a.pos := by simpa using List.find?_some hfind
  rw [hU0]
  exact tensor_any_rep hG k s.x s.U hU hg hg0 (e.trans e0.symm)

/-! ### 5. labels -/

/-- **atom labels are unique** when the site labels are pairwise different and no site label
coincides with a generated image label `T_<j+1>` of a listed site `T` -/
theorem labels_unique {ops : List Op} {k E : Int} {sites : List Site}
    (hnd : (sites.map (·.label)).Nodup)
    (hno : ∀ s ∈ sites, ∀ t ∈ sites, ∀ j, j < (Orbit.result ops k E (0, 0, 0) t.x).1.length → 1 ≤ j →
      s.label ≠ imageLabel t.label j) :
    ((expand ops k E sites).map (·.label)).Nodup := by
  rw [Cif.expand, expandFrom_labels, List.nodup_flatMap]
  refine ⟨fun s _ => List.Nodup.map (fun a b h => imageLabel_inj s.label h) List.nodup_range, ?_⟩
  have hp : sites.Pairwise (fun a b => a.label ≠ b.label) := List.pairwise_map.1 hnd
  refine hp.imp_of_mem ?_
  intro s t hs ht hne
  show List.Disjoint _ _
  intro l h1 h2
  obtain ⟨j, hj, rfl⟩ := List.mem_map.1 h1
  obtain ⟨j', hj', e⟩ := List.mem_map.1 h2
  rw [List.mem_range] at hj hj'
  rcases Nat.eq_zero_or_pos j with h0 | hpos <;> rcases Nat.eq_zero_or_pos j' with h0' | hpos'
  · subst h0 h0'; rw [imageLabel_zero, imageLabel_zero] at e; exact hne e.symm
  · subst h0; rw [imageLabel_zero] at e; exact hno s hs t ht j' hj' hpos' e.symm
  · subst h0'; rw [imageLabel_zero] at e; exact hno t ht s hs j hj hpos e
  · exact hne (imageLabel_pos_inj hpos' hpos e).1.symm

/-- in particular when no site label contains an underscore -/
theorem labels_unique_of_no_underscore {ops : List Op} {k E : Int} {sites : List Site}
    (hnd : (sites.map (·.label)).Nodup) (hu : ∀ s ∈ sites, '_' ∉ s.label.toList) :
    ((expand ops k E sites).map (·.label)).Nodup := by
  refine labels_unique hnd (fun s hs t _ j _ hj e => hu s hs ?_)
  rw [e, imageLabel_pos t.label hj]
  simp [String.toList_append]

/-! ### 6. the symmetry source -/

/-- the atoms depend on the symmetry source only through the operation list -/
theorem expand_congr {ops ops' : List Op} (h : ops = ops') (k E : Int) (sites : List Site) :
    expand ops k E sites = expand ops' k E sites := by rw [h]

/-- two ways of giving the symmetry (operator list, Hermann–Mauguin symbol, number, …) that resolve
to the same operation list give the same atoms — whatever the resolver is -/
theorem sym_source_irrelevant {Src : Type} (resolve : Src → Option (List Op)) (a b : Src)
    (h : resolve a = resolve b) (k E : Int) (sites : List Site) :
    (resolve a).map (fun ops => expand ops k E sites) = (resolve b).map (fun ops => expand ops k E sites) := by
  rw [h]

/-- an atom without the index of its parent site -/
def core (a : OutAtom) : Nat × String × String × P3 × Rat × Bool × Mat3 Rat :=
  (a.img, a.label, a.elem, a.pos, a.occ, a.aniso, a.U)

theorem expandFrom_core (ops : List Op) (k E : Int) : ∀ (n : Nat) (sites : List Site),
    (expandFrom ops k E n sites).map core = sites.flatMap (fun s => (expandSite ops k E 0 s).map core)
  | _, [] => by simp [expandFrom]
  | n, s :: ss => by
    have h : (expandSite ops k E n s).map core = (expandSite ops k E 0 s).map core := by
      simp [expandSite, core]
    simp only [expandFrom, List.map_append, List.flatMap_cons, h, expandFrom_core ops k E (n + 1) ss]

/-- listing the sites in another order permutes the atoms (block-wise; only the parent indices change) -/
theorem expand_perm_sites (ops : List Op) (k E : Int) {sites sites' : List Site} (h : sites.Perm sites') :
    ((expand ops k E sites).map core).Perm ((expand ops k E sites').map core) := by
  rw [Cif.expand, Cif.expand, expandFrom_core, expandFrom_core]
  exact h.flatMap_right _

/-! ### 7. standard-uncertainty suffixes -/

/-- **`value(esd)` reads as `value`**: for a CIF number `d` (`[sign] digits ['.' digits]` or
`[sign] '.' digits`) the text `leading_float` converts is `d` itself, with or without a
parenthesised suffix -/
theorem esd_ignored {d : List Char} (h : CifNum.isFloatLit d = true) (ds : List Char) :
    CifNum.floatPrefix (d ++ '(' :: ds ++ [')']) = CifNum.floatPrefix d ∧ CifNum.floatPrefix d = d :=
  CifNum.esd_ignored h ds

/-- with an exponent: `[sign] mantissa [eE] [sign] digits` followed by a non-digit -/
theorem esd_ignored_exp {sg m x : List Char} (hs : CifNum.IsSignOpt sg) (hm : CifNum.IsMant m)
    (hx : CifNum.IsExp x) (ds : List Char) :
    CifNum.floatPrefix (sg ++ m ++ x ++ ('(' :: ds ++ [')'])) = sg ++ m ++ x ∧
    CifNum.floatPrefix (sg ++ m ++ x) = sg ++ m ++ x := by
  have h1 := CifNum.floatMatch_litExp hs hm hx (rest := '(' :: ds ++ [')']) (CifNum.next_cons.2 (by decide))
  have h2 := CifNum.floatMatch_litExp hs hm hx (rest := []) (CifNum.next_nil _)
  rw [List.append_nil] at h2
  simp only [CifNum.floatPrefix, h1, h2, Option.getD_some, and_self]

/-! ### 8. the tabulated settings -/

/-- for every tabulated setting and every site whose images are separated: the block is exactly the
orbit, site first; multiplicity × site-symmetry order = `num_sym_equiv`; the tensor of each image
is `R_g U R_gᵀ` for the first — and, for a tensor obeying the site symmetry, for every — tabulated
operation `g` generating that image -/
theorem tables_cif (p : SG × Cert) (hp : p ∈ Gen.allC) {k E : Int} (hk : 0 < k) (hE : 0 < E)
    (i : Nat) (s : Site) (hsep : Sep p.1.ops k E (0, 0, 0) s.x) :
    (expandSite p.1.ops k E i s).map (·.pos) = dedupFirst (p.1.ops.map (fun g => img g k (0, 0, 0) s.x)) ∧
    ((expandSite p.1.ops k E i s).map (·.pos)).head? = some (red k s.x) ∧
    (expandSite p.1.ops k E i s).length *
        p.1.ops.countP (fun g => decide (img g k (0, 0, 0) s.x = red k s.x)) = p.1.nsym ∧
    ∀ a ∈ expandSite p.1.ops k E i s,
      (s.aniso = false → a.U = s.U) ∧
      (s.aniso = true → ∃ g, p.1.ops.find? (fun g => decide (img g k (0, 0, 0) s.x = a.pos)) = some g ∧
        a.U = rotT (rotQ g) s.U) ∧
      (s.aniso = true → InvT (p.1.ops.filter (fun h => decide (img h k (0, 0, 0) s.x = red k s.x))) s.U →
        ∀ g ∈ p.1.ops, img g k (0, 0, 0) s.x = a.pos → a.U = rotT (rotQ g) s.U) := by
  have hG := C03.all_groups p hp
  refine ⟨image_positions hk hE i s hsep, first_image hk hE i s hsep hG.one_first, ?_, ?_⟩
  · have := (C02.tables_orbit_exact p hp hk hE hsep).2
    rw [block_length]
    exact this
  · intro a ha
    have ht := image_tensor hk hE hsep ha
    exact ⟨ht.2, ht.1, fun han hU g hg e => image_tensor_any hG hk hE hsep han hU ha hg e⟩

/-! ### non-vacuity -/

/-- a general position of the witness setting -/
def wSite : Site :=
  { label := "C1", elem := "C", x := (600000, 600000, 312000), occ := 1, aniso := true,
    U := ⟨1/100, 1/300, 1/200, 1/300, 2/100, 0, 1/200, 0, 3/100⟩ }

/-- a site on the mirror plane of the witness setting, with a tensor obeying the mirror -/
def mSite : Site :=
  { label := "O1", elem := "O", x := (600000, 0, 312000), occ := 1/2, aniso := true,
    U := ⟨1/100, 0, 1/200, 0, 2/100, 0, 1/200, 0, 3/100⟩ }

theorem wSite_sep : Sep Gen.witness.1.ops 100000 24 (0, 0, 0) wSite.x := by decide +kernel
theorem mSite_sep : Sep Gen.witness.1.ops 100000 24 (0, 0, 0) mSite.x := by decide +kernel

/-- `image_positions`, `first_image`, `image_tensor`, `tables_cif`: the hypotheses hold for a concrete
tabulated setting and sites; the blocks have 8 resp. 4 atoms -/
example : Gen.witness ∈ Gen.allC ∧ (0 : Int) < 100000 ∧ (0 : Int) < 24 ∧
    Sep Gen.witness.1.ops 100000 24 (0, 0, 0) wSite.x ∧ Sep Gen.witness.1.ops 100000 24 (0, 0, 0) mSite.x ∧
    Gen.witness.1.ops.head? = some Op.one ∧
    (expandSite Gen.witness.1.ops 100000 24 0 wSite).length = 8 ∧
    (expandSite Gen.witness.1.ops 100000 24 1 mSite).length = 4 :=
  ⟨Gen.witness_mem, by decide, by decide, wSite_sep, mSite_sep, (C03.all_groups _ Gen.witness_mem).one_first,
   by rw [block_length]; decide +kernel, by rw [block_length]; decide +kernel⟩

/-- `tensor_any_rep` / `image_tensor_any`: a group, two different operations with the same image of a
site, a tensor invariant under the (non-trivial) site symmetry -/
example : IsGroup Gen.witness.1.ops ∧ mSite.aniso = true ∧
    InvT (Gen.witness.1.ops.filter (fun h => decide (img h 100000 (0, 0, 0) mSite.x = red 100000 mSite.x))) mSite.U ∧
    ∃ g ∈ Gen.witness.1.ops, ∃ g' ∈ Gen.witness.1.ops, g ≠ g' ∧
      img g 100000 (0, 0, 0) mSite.x = img g' 100000 (0, 0, 0) mSite.x :=
  ⟨C03.all_groups _ Gen.witness_mem, rfl, inInvT_iff.1 (by decide +kernel), by decide +kernel⟩

/-- the same with operations that do rotate the tensor (group `mm2`, a site on the mirror `x = 0`, a
tensor with `U23 ≠ 0`): the two operations generating the second image are the mirror `m_y` and the
axis `2_z`; both change the tensor, to the same result -/
def pU : Mat3 Q := ⟨1/100, 0, 0, 0, 2/100, 1/300, 0, 1/300, 3/100⟩

example : IsGroup C06.mm2 ∧
    InvT (C06.mm2.filter (fun h => decide (img h 100000 (0, 0, 0) (0, 600000, 312000) = red 100000 (0, 600000, 312000)))) pU ∧
    ∃ g ∈ C06.mm2, ∃ g' ∈ C06.mm2, g ≠ g' ∧
      img g 100000 (0, 0, 0) (0, 600000, 312000) = img g' 100000 (0, 0, 0) (0, 600000, 312000) ∧
      rotT (rotQ g) pU ≠ pU ∧ rotT (rotQ g') pU = rotT (rotQ g) pU :=
  ⟨C06.mm2_isGroup, inInvT_iff.1 (by decide +kernel), by decide +kernel⟩

/-- `labels_unique`: two sites with different underscore-free labels -/
example : ([wSite, mSite].map (·.label)).Nodup ∧ ∀ s ∈ [wSite, mSite], '_' ∉ s.label.toList := by
  decide

example : ((expand Gen.witness.1.ops 100000 24 [wSite, mSite]).map (·.label)).Nodup :=
  labels_unique_of_no_underscore (by decide) (by decide)

/-- the hypothesis of `labels_unique` is needed: a listed label `C1_2` collides with the second image of `C1` -/
example : ¬ ((expand Gen.witness.1.ops 100000 24 [wSite, { wSite with label := "C1_2" }]).map (·.label)).Nodup := by
  rw [Cif.expand, expandFrom_labels]
  decide +kernel

/-- `esd_ignored` on concrete strings -/
example : CifNum.isFloatLit "0.2500".toList = true ∧
    CifNum.floatPrefix "0.2500(12)".toList = "0.2500".toList := by decide
example : CifNum.floatPrefix "-1.5(3)".toList = "-1.5".toList ∧ CifNum.floatPrefix "12(1)".toList = "12".toList ∧
    CifNum.floatPrefix "1.5E-3(2)".toList = "1.5E-3".toList := by decide
example : CifNum.IsSignOpt ['-'] ∧ CifNum.IsMant "1.5".toList ∧ CifNum.IsExp "E-3".toList :=
  ⟨Or.inr ⟨'-', by decide, rfl⟩,
   ⟨['1'], ['5'], by decide, by decide, Or.inr (Or.inl ⟨by decide, by decide⟩)⟩,
   ⟨'E', ['-'], ['3'], by decide, Or.inr ⟨'-', by decide, rfl⟩, by decide, by decide, by decide⟩⟩

/-- `sym_source_irrelevant`: a resolver with two sources that agree -/
example : (fun b : Bool => if b then some Gen.witness.1.ops else some Gen.witness.1.ops) true =
    (fun b : Bool => if b then some Gen.witness.1.ops else some Gen.witness.1.ops) false := rfl

end DS.Props.C07
