import DS.Lemmas.Constraints
import DS.Props.C03

/-!
C05 — positional symmetry constraints (`symmetryutilities.GeneratorSite`: `null_space`,
`pparameters`, `positionFormula`): an accepted `checkFree` certificate is a basis of the space the
site symmetry leaves free; moving a site along a free direction keeps every site-symmetry
operation; the position formulas evaluate to the images of the moved generator; the reported
parameter values reproduce the site; the group average projects onto the free space.
-/
namespace DS.Props.C05
open DS DS.Con DS.Con.QSp

/-! ### 1. certificate ⇒ basis of the free space -/

/-- the free space is closed under linear combinations -/
theorem free_lincomb {H : List Op} {rows : List (Vec3 Q)} (hrows : ∀ r ∈ rows, Free H r)
    (cs : List Q) : Free H (lincomb cs rows) := by
  intro h hh
  rw [lincomb_eq_lc]
  exact (mulVec_isLin (rotQ h)).fix_lc (fun r hr => hrows r hr h hh) cs

/-- `Σ_h R_h v = |H| v` for a free direction -/
theorem reynolds_fix {H : List Op} {v : Vec3 Q} (hv : Free H v) :
    vsum H v = Vec3.smul (H.length : Q) v :=
  gsum_fix (V := Vec3 Q) (fun h => (rotQ h).mulVec) H v hv

/-- the average of a free direction over a non-empty list of operations is the direction itself -/
theorem reynolds_of_free {H : List Op} {v : Vec3 Q} (hpos : 0 < H.length) (hv : Free H v) :
    reynolds H v = v := by
  have hn : (H.length : Q) ≠ 0 := by exact_mod_cast (Nat.pos_iff_ne_zero.1 hpos)
  unfold reynolds
  rw [reynolds_fix hv]
  show qsmul (1 / (H.length : Q)) (qsmul (H.length : Q) v) = v
  rw [← qmul_smul, one_div, inv_mul_cancel₀ hn, qone_smul]

theorem vsum_isLin (H : List Op) : IsLin (V := Vec3 Q) (vsum H) :=
  gsum_isLin (V := Vec3 Q) (fun h => (rotQ h).mulVec) (fun h => mulVec_isLin (rotQ h)) H

theorem reynolds_isLin (H : List Op) : IsLin (V := Vec3 Q) (reynolds H) :=
  (vsum_isLin H).smul (1 / (H.length : Q))

/-- **an accepted certificate is a basis of the free space**: the free directions are exactly the
linear combinations of `rows` (with `rows.length` coefficients), and `rows` is linearly
independent — so the number of rows *is* the dimension of the free space.  No group hypothesis. -/
theorem checkFree_sound {H : List Op} {rows dual : List (Vec3 Q)}
    (h : checkFree H rows dual = true) :
    (∀ v, Free H v ↔ ∃ cs : List Q, cs.length = rows.length ∧ v = lincomb cs rows) ∧
    (∀ cs : List Q, cs.length = rows.length → lincomb cs rows = Vec3.zero → ∀ c ∈ cs, c = 0) := by
  simp only [checkFree, Bool.and_eq_true, decide_eq_true_eq, List.all_eq_true] at h
  obtain ⟨⟨⟨hpos, hrows⟩, hdual⟩, hspan⟩ := h
  have hrows' : ∀ r ∈ rows, Free H r := fun r hr => inFree_iff.1 (hrows r hr)
  have hd := isDual_iff.1 hdual
  have hsp : ∀ v, Free H v → v = lc (dual.map (fun d => qpair v d)) rows := by
    intro v hv
    have hR := reynolds_isLin H
    have hT := coords_isLin dual rows
    have hag : ∀ e ∈ [e1, e2, e3], reynolds H e =
        (fun w => lc (dual.map (fun d => qpair w d)) rows) (reynolds H e) := by
      intro e he
      have := hspan e he
      rw [lincomb_eq_lc] at this
      exact this
    have := IsLin.ext_span hR (hT.comp hR) hag [v.x, v.y, v.z]
    rw [← vec3_decomp, reynolds_of_free hpos hv] at this
    exact this
  have key := cert_basis (V := Vec3 Q) (Free H) rows dual
    (fun cs => by rw [← lincomb_eq_lc]; exact free_lincomb hrows' cs) hd hsp
  simp only [lincomb_eq_lc]
  exact key

/-- the free space has the dimension announced by the certificate: its elements are in bijection
with the coefficient lists (uniqueness of the coefficients) -/
theorem checkFree_unique_coeffs {H : List Op} {rows dual : List (Vec3 Q)}
    (h : checkFree H rows dual = true) (cs ds : List Q) (hc : cs.length = rows.length)
    (hd : ds.length = rows.length) (e : lincomb cs rows = lincomb ds rows) : cs = ds := by
  simp only [checkFree, Bool.and_eq_true] at h
  have hD := isDual_iff.1 h.1.2
  rw [lincomb_eq_lc, lincomb_eq_lc] at e
  rw [← hD.coords_lc cs hc, ← hD.coords_lc ds hd, e]

/-! ### 2. moving along a free direction keeps the site symmetry -/

/-- generic scalars: if `R x + t = x + n` and `R v = v` then `R (x + l v) + t = (x + l v) + n` -/
theorem free_sound_gen {α : Type} [CommRing α] (R : Mat3 α) (x t n v : Vec3 α) (l : α)
    (hx : (R.mulVec x).add t = x.add n) (hv : R.mulVec v = v) :
    (R.mulVec (x.add (Vec3.smul l v))).add t = (x.add (Vec3.smul l v)).add n := by
  cases x; cases t; cases n; cases v
  simp only [Mat3.mulVec, Vec3.add, Vec3.smul, Vec3.mk.injEq] at *
  obtain ⟨h1, h2, h3⟩ := hx
  obtain ⟨g1, g2, g3⟩ := hv
  refine ⟨?_, ?_, ?_⟩
  · linear_combination h1 + l * g1
  · linear_combination h2 + l * g2
  · linear_combination h3 + l * g3

/-- refining a parameter never lowers the site symmetry: every operation `h` of the site symmetry
of `x` (with its lattice shift `n h`) is an operation of the site symmetry of `x + l v` with the
same shift, for every free direction `v` and every `l` -/
theorem free_sound {H : List Op} {v : Vec3 Q} (hv : Free H v) (x : Vec3 Q) (t n : Op → Vec3 Q)
    (hx : ∀ h ∈ H, ((rotQ h).mulVec x).add (t h) = x.add (n h)) (l : Q) :
    ∀ h ∈ H, ((rotQ h).mulVec (x.add (Vec3.smul l v))).add (t h) = (x.add (Vec3.smul l v)).add (n h) :=
  fun h hh => free_sound_gen (rotQ h) x (t h) (n h) v l (hx h hh) (hv h hh)

/-- list version: any combination of free rows may be added to the site -/
theorem free_sound_list {H : List Op} {rows : List (Vec3 Q)} (hrows : ∀ r ∈ rows, Free H r)
    (x : Vec3 Q) (t n : Op → Vec3 Q)
    (hx : ∀ h ∈ H, ((rotQ h).mulVec x).add (t h) = x.add (n h)) (ls : List Q) :
    ∀ h ∈ H, ((rotQ h).mulVec (x.add (lincomb ls rows))).add (t h) = (x.add (lincomb ls rows)).add (n h) := by
  intro h hh
  have := free_sound (free_lincomb hrows ls) x t n hx 1 h hh
  have e : Vec3.smul (1 : Q) (lincomb ls rows) = lincomb ls rows := qone_smul (V := Vec3 Q) _
  rwa [e] at this

/-! ### 3. position formulas -/

theorem mulVec_lincomb (R : Mat3 Q) (cs : List Q) (rows : List (Vec3 Q)) :
    R.mulVec (lincomb cs rows) = lincomb cs (rows.map (fun v => R.mulVec v)) := by
  rw [lincomb_eq_lc, lincomb_eq_lc]
  exact (mulVec_isLin R).map_lc cs rows

/-- the formula of an equivalent site, evaluated at parameter values `ls`, is the stored equivalent
position plus the rotated displacement of the generator -/
theorem formula_eval (R : Mat3 Q) (rows : List (Vec3 Q)) (vals ls : List Q) (eqpos : Vec3 Q) :
    evalFormula (posFormula R rows vals eqpos) ls =
      eqpos.add (R.mulVec ((lincomb ls rows).sub (lincomb vals rows))) := by
  simp only [evalFormula, posFormula]
  rw [mulVec_sub, mulVec_lincomb, mulVec_lincomb]
  generalize lincomb ls _ = a
  generalize lincomb vals _ = b
  vec3_tac

/-- at the reported parameter values every formula gives the stored equivalent position -/
theorem formula_at_values (R : Mat3 Q) (rows : List (Vec3 Q)) (vals : List Q) (eqpos : Vec3 Q) :
    evalFormula (posFormula R rows vals eqpos) vals = eqpos := by
  rw [formula_eval]
  generalize lincomb vals rows = a
  vec3_tac

/-- every formula evaluates to the image of the moved generator under the same operation:
if the stored equivalent position is `R x + t − n` then the formula at `ls` is
`R (x + (Σ ls_k rows_k − Σ vals_k rows_k)) + t − n` -/
theorem formula_image (R : Mat3 Q) (rows : List (Vec3 Q)) (vals ls : List Q) (x t n eqpos : Vec3 Q)
    (he : eqpos = ((R.mulVec x).add t).sub n) :
    evalFormula (posFormula R rows vals eqpos) ls =
      ((R.mulVec (x.add ((lincomb ls rows).sub (lincomb vals rows)))).add t).sub n := by
  rw [formula_eval, he]
  generalize (lincomb ls rows).sub (lincomb vals rows) = d
  vec3_tac

/-- difference of two combinations of the same rows = combination with the coefficient differences -/
theorem lincomb_sub : ∀ (ls vals : List Q) (rows : List (Vec3 Q)), ls.length = vals.length →
    (lincomb ls rows).sub (lincomb vals rows) = lincomb (List.zipWith (fun a b => a - b) ls vals) rows
  | [], [], _, _ => by simp only [List.zipWith_nil_left]; show Vec3.sub Vec3.zero Vec3.zero = Vec3.zero; vec3_tac
  | [], _ :: _, _, h => by simp at h
  | _ :: _, [], _, h => by simp at h
  | a :: ls, b :: vals, [], _ => by
    show Vec3.sub Vec3.zero Vec3.zero = Vec3.zero; vec3_tac
  | a :: ls, b :: vals, r :: rs, h => by
    have ih := lincomb_sub ls vals rs (by simpa using h)
    show ((Vec3.smul a r).add (lincomb ls rs)).sub ((Vec3.smul b r).add (lincomb vals rs)) =
      (Vec3.smul (a - b) r).add (lincomb (List.zipWith (fun a b => a - b) ls vals) rs)
    rw [← ih]
    generalize lincomb ls rs = p
    generalize lincomb vals rs = q
    vec3_tac

/-- the same with the parameter shifts `ls_k − vals_k` made explicit -/
theorem formula_image' (R : Mat3 Q) (rows : List (Vec3 Q)) (vals ls : List Q) (x t n eqpos : Vec3 Q)
    (hl : ls.length = vals.length) (he : eqpos = ((R.mulVec x).add t).sub n) :
    evalFormula (posFormula R rows vals eqpos) ls =
      ((R.mulVec (x.add (lincomb (List.zipWith (fun a b => a - b) ls vals) rows))).add t).sub n := by
  rw [formula_image R rows vals ls x t n eqpos he, lincomb_sub ls vals rows hl]

/-! ### 4. reported parameter values -/

/-- `_findPosParameters`: the reported values reproduce the site up to the constant offset -/
theorem posParams_spec : ∀ (rows : List (Vec3 Q)) (t : Vec3 Q),
    (posParams rows t).1.length = rows.length ∧
    t = (posParams rows t).2.add (lincomb (posParams rows t).1 rows)
  | [], t => by
    refine ⟨rfl, ?_⟩
    show t = t.add Vec3.zero
    vec3_tac
  | v :: vs, t => by
    simp only [posParams]
    generalize (if v.x ≠ 0 then t.x / v.x else if v.y ≠ 0 then t.y / v.y
      else if v.z ≠ 0 then t.z / v.z else 0) = val
    obtain ⟨ih1, ih2⟩ := posParams_spec vs (t.sub (Vec3.smul val v))
    refine ⟨by simp [ih1], ?_⟩
    show t = (posParams vs (t.sub (Vec3.smul val v))).2.add
      ((Vec3.smul val v).add (lincomb (posParams vs (t.sub (Vec3.smul val v))).1 vs))
    generalize (posParams vs (t.sub (Vec3.smul val v))).2 = tf at ih2 ⊢
    generalize lincomb (posParams vs (t.sub (Vec3.smul val v))).1 vs = w at ih2 ⊢
    have e : t = (t.sub (Vec3.smul val v)).add (Vec3.smul val v) := by vec3_tac
    rw [e, ih2]
    vec3_tac

/-! ### 5. group average -/

/-- the group sum is invariant under every operation of the group -/
theorem reynolds_invariant {H : List Op} (hH : IsGroup H) (v : Vec3 Q) :
    ∀ a ∈ H, (rotQ a).mulVec (vsum H v) = vsum H v := by
  intro a ha
  exact gsum_invariant (V := Vec3 Q) hH (fun h => (rotQ h).mulVec) (fun h => mulVec_isLin (rotQ h))
    (fun a b w => by show (rotQ (a.comp b)).mulVec w = _; rw [rotQ_comp, mulVec_mul]) ha v

theorem length_pos_of_isGroup {H : List Op} (hH : IsGroup H) : 0 < H.length := by
  have := hH.one_first
  cases H with
  | nil => simp at this
  | cons a H => simp

/-- the group average lies in the free space -/
theorem free_reynolds {H : List Op} (hH : IsGroup H) (w : Vec3 Q) : Free H (reynolds H w) := by
  intro a ha
  unfold reynolds
  rw [show (rotQ a).mulVec (Vec3.smul (1 / (H.length : Q)) (vsum H w)) =
    Vec3.smul (1 / (H.length : Q)) ((rotQ a).mulVec (vsum H w)) from (mulVec_isLin (rotQ a)).map_smul _ _,
    reynolds_invariant hH w a ha]

/-- the free space is exactly the set of fixed points (= the range) of the group average -/
theorem range_reynolds {H : List Op} (hH : IsGroup H) (v : Vec3 Q) :
    Free H v ↔ reynolds H v = v :=
  ⟨reynolds_of_free (length_pos_of_isGroup hH), fun e => e ▸ free_reynolds hH v⟩

theorem range_reynolds' {H : List Op} (hH : IsGroup H) (v : Vec3 Q) :
    Free H v ↔ ∃ w, v = reynolds H w :=
  ⟨fun hv => ⟨v, ((range_reynolds hH v).1 hv).symm⟩, fun ⟨w, e⟩ => e ▸ free_reynolds hH w⟩

/-! ### 6. the site symmetry of any site of any tabulated setting -/

/-- the stabiliser (in list order, as `expandPosition` collects it) of any site of any tabulated
setting is a group … -/
theorem tabulated_stab_isGroup (p : SG × Cert) (hp : p ∈ Gen.allC) (k : Int) (off x : P3) :
    IsGroup (p.1.ops.filter (fun g => decide (Orbit.img g k off x = Orbit.red k x))) :=
  stab_isGroup (DS.Props.C03.all_groups p hp) k off x

/-- … hence its free space is exactly the range of its group average -/
theorem tabulated_free_iff (p : SG × Cert) (hp : p ∈ Gen.allC) (k : Int) (off x : P3) (v : Vec3 Q) :
    Free (p.1.ops.filter (fun g => decide (Orbit.img g k off x = Orbit.red k x))) v ↔
      reynolds (p.1.ops.filter (fun g => decide (Orbit.img g k off x = Orbit.red k x))) v = v :=
  range_reynolds (tabulated_stab_isGroup p hp k off x) v

/-! ### non-vacuity -/

/-- point group `mm2`: identity, twofold about `z`, mirrors ⟂ `x` and ⟂ `y` -/
def mm2 : List Op :=
  [Op.one, ⟨-1, 0, 0, 0, -1, 0, 0, 0, 1, 0, 0, 0⟩, ⟨-1, 0, 0, 0, 1, 0, 0, 0, 1, 0, 0, 0⟩,
   ⟨1, 0, 0, 0, -1, 0, 0, 0, 1, 0, 0, 0⟩]

theorem mm2_isGroup : IsGroup mm2 :=
  ⟨by decide, by decide, by decide, by decide, by decide, by decide⟩

theorem mm2_cert : checkFree mm2 [⟨0, 0, 1⟩] [⟨0, 0, 1⟩] = true := by decide +kernel

/-- `checkFree_sound` is not vacuous: a concrete accepted certificate, and its consequence -/
example : Free mm2 ⟨0, 0, 5⟩ :=
  ((checkFree_sound mm2_cert).1 _).2 ⟨[5], rfl, by decide +kernel⟩

/-- a certificate with a missing direction is rejected (the check is not trivially true) -/
example : checkFree [Op.one] [⟨0, 0, 1⟩] [⟨0, 0, 1⟩] = false := by decide +kernel

/-- `free_sound`: the site `(0, 1/2, z)` of `mm2` with translations `0` and shifts `n` -/
example : ∀ h ∈ mm2, ((rotQ h).mulVec ((⟨0, 1/2, 1/4⟩ : Vec3 Q).add (Vec3.smul (3/7) ⟨0, 0, 1⟩))).add Vec3.zero
    = ((⟨0, 1/2, 1/4⟩ : Vec3 Q).add (Vec3.smul (3/7) ⟨0, 0, 1⟩)).add
        (((rotQ h).mulVec ⟨0, 1/2, 1/4⟩).sub ⟨0, 1/2, 1/4⟩) :=
  free_sound (H := mm2) (v := ⟨0, 0, 1⟩) (inFree_iff.1 (by decide +kernel)) ⟨0, 1/2, 1/4⟩ (fun _ => Vec3.zero)
    (fun h => ((rotQ h).mulVec ⟨0, 1/2, 1/4⟩).sub ⟨0, 1/2, 1/4⟩) (by decide +kernel) (3/7)

example : posParams [⟨0, 0, 1⟩] ⟨0, 1/2, 1/4⟩ = ([1/4], ⟨0, 1/2, 0⟩) := by decide +kernel

example : evalFormula (posFormula (rotQ ⟨-1, 0, 0, 0, -1, 0, 0, 0, 1, 0, 0, 0⟩) [⟨0, 0, 1⟩] [1/4]
    ⟨0, -1/2, 1/4⟩) [1/3] = ⟨0, -1/2, 1/3⟩ := by decide +kernel

example : Free mm2 (reynolds mm2 ⟨1, 2, 3⟩) ∧ reynolds mm2 ⟨1, 2, 3⟩ = ⟨0, 0, 3⟩ :=
  ⟨free_reynolds mm2_isGroup _, by decide +kernel⟩

/-- `stab_isGroup` applied to a concrete site: the stabiliser of `(0, 0, z)` in `mm2` -/
example : IsGroup (mm2.filter (fun g => decide (Orbit.img g 1 (0, 0, 0) (0, 0, 5) = Orbit.red 1 (0, 0, 5)))) :=
  stab_isGroup mm2_isGroup 1 (0, 0, 0) (0, 0, 5)

example : ([5] : List Q) = [5] :=
  checkFree_unique_coeffs mm2_cert [5] [5] rfl rfl rfl

example : ∀ h ∈ mm2, ((rotQ h).mulVec ((⟨0, 1/2, 1/4⟩ : Vec3 Q).add (lincomb [3/7] [⟨0, 0, 1⟩]))).add Vec3.zero
    = ((⟨0, 1/2, 1/4⟩ : Vec3 Q).add (lincomb [3/7] [⟨0, 0, 1⟩])).add
        (((rotQ h).mulVec ⟨0, 1/2, 1/4⟩).sub ⟨0, 1/2, 1/4⟩) :=
  free_sound_list (H := mm2) (rows := [⟨0, 0, 1⟩])
    (fun r hr => by rw [List.mem_singleton.1 hr]; exact inFree_iff.1 (by decide +kernel))
    ⟨0, 1/2, 1/4⟩ (fun _ => Vec3.zero)
    (fun h => ((rotQ h).mulVec ⟨0, 1/2, 1/4⟩).sub ⟨0, 1/2, 1/4⟩) (by decide +kernel) [3/7]

/-- `formula_image'`: the twofold image of `(0, 1/2, z)`, stored as `(0, 1/2, 1/4)` = `R x − (0,−1,0)` -/
example : evalFormula (posFormula (rotQ ⟨-1, 0, 0, 0, -1, 0, 0, 0, 1, 0, 0, 0⟩) [⟨0, 0, 1⟩] [1/4]
      ⟨0, 1/2, 1/4⟩) [1/3] =
    (((rotQ ⟨-1, 0, 0, 0, -1, 0, 0, 0, 1, 0, 0, 0⟩).mulVec ((⟨0, 1/2, 1/4⟩ : Vec3 Q).add
      (lincomb (List.zipWith (fun a b => a - b) [1/3] [1/4]) [⟨0, 0, 1⟩]))).add Vec3.zero).sub ⟨0, -1, 0⟩ :=
  formula_image' _ _ _ _ ⟨0, 1/2, 1/4⟩ Vec3.zero ⟨0, -1, 0⟩ _ rfl (by decide +kernel)

example : Free mm2 ⟨0, 0, 3⟩ ↔ reynolds mm2 ⟨0, 0, 3⟩ = ⟨0, 0, 3⟩ := range_reynolds mm2_isGroup _

example : ∀ a ∈ mm2, (rotQ a).mulVec (vsum mm2 ⟨1, 2, 3⟩) = vsum mm2 ⟨1, 2, 3⟩ :=
  reynolds_invariant mm2_isGroup _

/-- the tabulated corollary is not vacuous: the witness setting of C03 -/
example (k : Int) (off x : P3) :
    IsGroup (Gen.witness.1.ops.filter (fun g => decide (Orbit.img g k off x = Orbit.red k x))) :=
  tabulated_stab_isGroup _ Gen.witness_mem k off x

end DS.Props.C05
