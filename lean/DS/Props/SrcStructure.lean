import DS.Gen.SrcStructure
import DS.Props.SrcAtom
/-!
# Source tie for `Structure.placeInLattice` (serves C14)

The matrices `Tx`, `Tu` and the body of the `for a in self` loop are transliterated from the current
`structure.py` (`DS/Gen/SrcStructure.lean`); together with the re-linking done by the lattice setter
(what follows the loop, recorded as text) this is `DS.placeAtom`, the function the C14 theorems are about.
-/
namespace DS.Props.SrcStructure
open DS
set_option linter.unusedSectionVars false

section
variable {α : Type} [Add α] [Mul α] [Sub α] [Neg α] [Div α] [OfNat α 0] [OfNat α 1]
  [OfNat α 2] [OfNat α 3] [OfNat α 8] [LT α] [DecidableLT α] [Elem α] [AdpConst α]

theorem placeAtom_eq (l1 l2 : LatData α) (a : AtomS α) :
    (Src.Structure.placeAtomBody l1 l2 a).setLattice (some l2) = placeAtom l1 l2 a := by
  unfold Src.Structure.placeAtomBody placeAtom
  simp only [SrcAtom.getU_eq, SrcAtom.setU_eq]
end

/-- after the loop the structure's lattice is assigned (which re-links every atom) and `self` is returned -/
theorem placeInLattice_after_eq : Src.Structure.placeInLattice_after = ["self.lattice = new_lattice", "return self"] := rfl

end DS.Props.SrcStructure
