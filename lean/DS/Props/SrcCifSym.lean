import DS.Gen.SrcCifSym
/-!
# Source tie: which symmetry the CIF reader uses (serves C07)

`DS/Gen/SrcCifSym.lean` is written on every run by `translate/src_cifsym.py` from the current
`src/diffpy/structure/parsers/p_cif.py`: the method `_parse_space_group_symop_operation_xyz` statement by statement
(`Src.CifSym.parseSymops`), `_expandAsymmetricUnit` statement by statement (`Src.CifSym.expandAsymmetricUnit`; its tie to
`DS.Cif.expand` is `DS.Props.SrcCifExpand`), and `_parseCifBlock`, the attribute initialisations of `__init__` as normalised text.  A statement outside the translator's templates yields `parseSymops_untranslatable` instead, and nothing below
elaborates -> broken tie.

Proved for every block, every environment (library functions) and every prior parser state:
* `parseSymops_eq` — the functional model `DS.CifSym.resolve` (the one `DS.Props.C07Sym` speaks about) IS the transliteration;
* the `…_data` theorems pin what is recorded as text.
-/
namespace DS.Props.SrcCifSym
open DS.CifSym

/-- collecting with `append` in a loop is `mapM` -/
theorem foldlM_append {α β : Type} (f : α → Except Exn β) (l : List α) (init : List β) :
    l.foldlM (fun acc t => do let o ← f t; pure (acc ++ [o])) init = (l.mapM f).map (init ++ ·) := by
  induction l generalizing init with
  | nil => simp [Except.map, pure, Except.pure]
  | cons a l ih =>
    simp only [List.foldlM_cons, List.mapM_cons]
    cases h : f a with
    | error e => simp [bind, Except.bind, Except.map]
    | ok o =>
      simp only [bind, Except.bind, pure, Except.pure] at ih ⊢
      rw [ih]
      cases l.mapM f with
      | error e => simp [Except.map]
      | ok os => simp [Except.map]

set_option linter.unusedSimpArgs false in
/-- **the model is the source**: for every block, environment and prior state -/
theorem parseSymops_eq {G Op A : Type} (env : Env G Op) (b : Block) (st : PState G Op A) :
    DS.Src.CifSym.parseSymops env b st = resolve env b st := by
  unfold DS.Src.CifSym.parseSymops resolve listedOps choose
  have hsid : pyOr (pyOr (b.getD "_space_group_IT_number") (b.getD "_symmetry_Int_Tables_number"))
    (pyOr (pyOr (b.getD "_space_group_name_H-M_alt") (b.getD "_space_group_name_H-M_ref")) (b.getD "_symmetry_space_group_name_H-M")) = sgid b := rfl
  simp only [hsid, hall, hm, crystalSystem, symSynonyms]
  have hm' := fun n => foldlM_append env.getSymOp (b.col n) []
  simp only [pure, Except.pure, bind, Except.bind, List.nil_append] at hm'
  cases hf : List.filter (fun n => b.has n) ["_space_group_symop_operation_xyz", "_symmetry_equiv_pos_as_xyz"] with
  | nil =>
    by_cases hs : sgid b = "" <;> cases hi : env.isId (sgid b) <;> cases hg : env.getSG (sgid b) <;>
      simp [hs, hi, hg, pure, Except.pure, bind, Except.bind]
  | cons n rest =>
    simp only [List.isEmpty_cons, Bool.not_false, if_true, List.getElem?_cons_zero, pure, Except.pure, bind, Except.bind]
    rw [hm' n]
    cases hops : (b.col n).mapM env.getSymOp with
    | error e => simp [Except.map]
    | ok ops =>
      cases ops with
      | nil =>
        by_cases hs : sgid b = "" <;> cases hi : env.isId (sgid b) <;> cases hg : env.getSG (sgid b) <;>
          simp [hs, hi, hg, pure, Except.pure, bind, Except.bind, Except.map]
      | cons o os =>
        cases hfind : env.find (o :: os) <;>
        by_cases hs : sgid b = "" <;> cases hi : env.isId (sgid b) <;> cases hg : env.getSG (sgid b) <;>
          simp [hs, hi, hg, hfind, pure, Except.pure, bind, Except.bind, Except.map]

/-- after the decision the method only expands: `self._expandAsymmetricUnit(block)`, `return` -/
theorem parseSymops_tail_data : DS.Src.CifSym.parseSymops_tail = ["self._expandAsymmetricUnit(block)", "return"] := rfl

/-- the block reader calls the symmetry step last, after lattice, site loop and aniso loop -/
theorem parseCifBlock_data : DS.Src.CifSym.parseCifBlock_body =
    ["block = self.ciffile[blockname]", "if '_atom_site_label' not in block: return", "self.stru = Structure()",
     "self.labelindex.clear()", "self.anisotropy.clear()", "self._parse_lattice(block)", "self._parse_atom_site_label(block)",
     "self._parse_atom_site_aniso_label(block)", "self._parse_space_group_symop_operation_xyz(block)", "return"] := rfl

/-- a new parser object has no space group -/
theorem init_attrs_data : DS.Src.CifSym.init_attrs =
    ["self.stru = None", "self.spacegroup = None", "self.eau = None", "self.asymmetric_unit = None", "self.cif_sgname = None"] := rfl

end DS.Props.SrcCifSym
