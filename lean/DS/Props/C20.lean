import DS.Model.Cli
import DS.Gen.Formats
/-!
# C20 — the transtru command converts exactly as the library does and reports failures

Model: `DS/Model/Cli.lean`.  `Gen.cliConfig` is regenerated on every run from
`apps/transtru.py` (`ast`: option strings, exit statuses, handlers of the final try statement) and from
the run-time format registry and exception class hierarchy (`translate/cli.py`).
The generic theorems hold for every configuration; the `…_2` / `…_1` theorems are about the generated
configuration, so they are re-proved against what the source says now.
-/
namespace DS.Props.C20
open DS DS.Cli

variable {S : Type}

/-- the command line selects a conversion: no option, a specification `i..o` and at least one more argument -/
def Selects (cfg : Config) (argv : List String) (i o file : String) : Prop :=
  ∃ (rest : List String) (spec : String) (opts : List String),
    getopt cfg.shortOpts cfg.longOpts argv = some (opts, spec :: file :: rest) ∧
    optionAction cfg opts = none ∧
    splitSpec cfg.sep spec = some (i, o) ∧
    cfg.inFormats.contains i = true ∧
    cfg.outFormats.contains o = true

theorem main_of_selects {cfg : Config} {lib : Lib S} {argv : List String} {i o file : String}
    (h : Selects cfg argv i o file) :
    main cfg lib argv =
      match libRead lib file i with
      | .error k => onException cfg k
      | .ok s => match lib.write s o with
        | .error k => onException cfg k
        | .ok t => { stdout := .text t, stderrLines := 0, status := 0, traceback := false, msg := .none } := by
  obtain ⟨rest, spec, opts, hg, ho, hs, hi, hout⟩ := h
  simp only [main, hg, ho, hs, hi, hout, convert, not_true_eq_false, if_false]
  rfl

/-- a successful conversion prints exactly the library's `writeStr(read(...))`, nothing on standard
error, status 0 -/
theorem ok_equals_library {cfg : Config} {lib : Lib S} {argv : List String} {i o file : String} {s : S} {t : String}
    (h : Selects cfg argv i o file) (hr : libRead lib file i = .ok s) (hw : lib.write s o = .ok t) :
    main cfg lib argv = { stdout := .text t, stderrLines := 0, status := 0, traceback := false, msg := .none } := by
  rw [main_of_selects h]; simp only [hr, hw]

theorem onException_stdout (cfg : Config) (k : String) : (onException cfg k).stdout = .empty := by
  unfold onException; split <;> rfl

theorem optionAction_stdout {cfg : Config} {opts : List String} {o : Outcome}
    (h : optionAction cfg opts = some o) : o.stdout = .usageFull ∨ o.stdout = .version := by
  induction opts with
  | nil => simp [optionAction] at h
  | cons a rest ih =>
    simp only [optionAction] at h
    split at h
    · cases h; exact Or.inl rfl
    · split at h
      · cases h; exact Or.inr rfl
      · exact ih h

/-- conversely: whenever structure text appears on standard output it is the library's result for the
selected formats and source, the status is 0 and nothing else was printed -/
theorem text_only_from_library {cfg : Config} {lib : Lib S} {argv : List String} {t : String}
    (h : (main cfg lib argv).stdout = .text t) :
    ∃ i o file s, Selects cfg argv i o file ∧ libRead lib file i = .ok s ∧ lib.write s o = .ok t ∧
      main cfg lib argv = { stdout := .text t, stderrLines := 0, status := 0, traceback := false, msg := .none } := by
  cases hg : getopt cfg.shortOpts cfg.longOpts argv with
  | none => simp [main, hg, failWith] at h
  | some p =>
    obtain ⟨opts, args⟩ := p
    cases ho : optionAction cfg opts with
    | some o =>
      simp only [main, hg, ho] at h
      rcases optionAction_stdout ho with h' | h' <;> simp [h'] at h
    | none =>
      cases args with
      | nil => simp [main, hg, ho] at h
      | cons spec rest =>
        cases hs : splitSpec cfg.sep spec with
        | none => simp [main, hg, ho, hs, failWith] at h
        | some io =>
          obtain ⟨i, o⟩ := io
          by_cases hi : cfg.inFormats.contains i = true
          · by_cases hout : cfg.outFormats.contains o = true
            · cases rest with
              | nil =>
                simp only [main, hg, ho, hs, hi, hout, convert, not_true_eq_false, if_false, onException_stdout] at h
                cases h
              | cons file rest' =>
                have sel : Selects cfg argv i o file := ⟨rest', spec, opts, hg, ho, hs, hi, hout⟩
                rw [main_of_selects sel] at h ⊢
                cases hr : libRead lib file i with
                | error k => simp [hr, onException_stdout] at h
                | ok s =>
                  cases hw : lib.write s o with
                  | error k => simp [hr, hw, onException_stdout] at h
                  | ok t' =>
                    simp only [hr, hw, Stdout.text.injEq] at h
                    subst h
                    refine ⟨i, o, file, s, sel, hr, hw, ?_⟩
                    simp only [hw]
            · simp only [main, hg, ho, hs, hi, hout, not_true_eq_false, if_false, failWith] at h
              cases h
          · simp only [main, hg, ho, hs, hi, failWith] at h
            cases h

/-! ### the generated configuration -/

/-- the translator recognised the shape of `main` (otherwise nothing below is about the source) -/
theorem recognised : Gen.cliRecognised = true := by decide

def Quiet2 (o : Outcome) : Prop := o.status = 2 ∧ o.stdout = .empty ∧ o.stderrLines = 1 ∧ o.traceback = false
def Quiet1 (o : Outcome) : Prop := o.status = 1 ∧ o.stdout = .empty ∧ o.stderrLines = 1 ∧ o.traceback = false
instance (o : Outcome) : Decidable (Quiet2 o) := by unfold Quiet2; infer_instance
instance (o : Outcome) : Decidable (Quiet1 o) := by unfold Quiet1; infer_instance

/-- unknown option / option with a value: status 2, one line, no traceback -/
theorem bad_option_2 (lib : Lib S) (argv : List String)
    (hg : getopt Gen.cliConfig.shortOpts Gen.cliConfig.longOpts argv = none) :
    Quiet2 (main Gen.cliConfig lib argv) := by
  simp only [main, hg]; exact ⟨rfl, rfl, rfl, rfl⟩

/-- malformed or unknown format specification: status 2, one line on standard error, nothing on
standard output, no traceback -/
theorem bad_spec_2 (lib : Lib S) (argv opts rest : List String) (spec : String)
    (hg : getopt Gen.cliConfig.shortOpts Gen.cliConfig.longOpts argv = some (opts, spec :: rest))
    (ho : optionAction Gen.cliConfig opts = none)
    (hbad : match splitSpec Gen.cliConfig.sep spec with
            | none => True
            | some (i, o) => Gen.cliConfig.inFormats.contains i = false ∨ Gen.cliConfig.outFormats.contains o = false) :
    Quiet2 (main Gen.cliConfig lib argv) := by
  simp only [main, hg, ho]
  split at hbad
  · rename_i hs; simp only [hs]; exact ⟨rfl, rfl, rfl, rfl⟩
  · rename_i i o hs
    simp only [hs]
    by_cases hi : Gen.cliConfig.inFormats.contains i = true
    · rcases hbad with h | h
      · rw [hi] at h; cases h
      · simp only [hi, h, not_true_eq_false, if_false, Bool.false_eq_true, not_false_eq_true, if_true]
        exact ⟨rfl, rfl, rfl, rfl⟩
    · simp only [hi]; exact ⟨rfl, rfl, rfl, rfl⟩

/-- valid specification but no file argument: status 2, one line, no traceback -/
theorem missing_file_2 (lib : Lib S) (argv opts : List String) (spec i o : String)
    (hg : getopt Gen.cliConfig.shortOpts Gen.cliConfig.longOpts argv = some (opts, [spec]))
    (ho : optionAction Gen.cliConfig opts = none)
    (hs : splitSpec Gen.cliConfig.sep spec = some (i, o))
    (hi : Gen.cliConfig.inFormats.contains i = true) (hout : Gen.cliConfig.outFormats.contains o = true) :
    Quiet2 (main Gen.cliConfig lib argv) ∧ (main Gen.cliConfig lib argv).msg = .noFile := by
  simp only [main, hg, ho, hs, hi, hout, convert, not_true_eq_false, if_false]
  exact ⟨⟨by decide, by decide, by decide, by decide⟩, by decide⟩

/-- outcome of a conversion in which the library raises `k` while reading -/
theorem read_raises {lib : Lib S} {argv : List String} {i o file k : String}
    (h : Selects Gen.cliConfig argv i o file) (hr : libRead lib file i = .error k) :
    main Gen.cliConfig lib argv = onException Gen.cliConfig k := by
  rw [main_of_selects h]; simp only [hr]

theorem write_raises {lib : Lib S} {argv : List String} {i o file k : String} {s : S}
    (h : Selects Gen.cliConfig argv i o file) (hr : libRead lib file i = .ok s) (hw : lib.write s o = .error k) :
    main Gen.cliConfig lib argv = onException Gen.cliConfig k := by
  rw [main_of_selects h]; simp only [hr, hw]

def ioKinds : List String := ["OSError", "FileNotFoundError", "PermissionError", "IsADirectoryError", "NotADirectoryError"]
def formatKinds : List String := ["StructureFormatError", "NotImplementedError"]

/-- missing / unreadable file, directory: status 1, one line, no traceback -/
theorem io_error_1 (k : String) (hk : k ∈ ioKinds) : Quiet1 (onException Gen.cliConfig k) := by
  simp only [ioKinds, List.mem_cons, List.not_mem_nil, or_false] at hk
  rcases hk with rfl | rfl | rfl | rfl | rfl <;> exact ⟨by decide, by decide, by decide, by decide⟩

/-- content not in the stated format (or a recognised but unsupported record): status 1, one line, no traceback -/
theorem format_error_1 (k : String) (hk : k ∈ formatKinds) : Quiet1 (onException Gen.cliConfig k) := by
  simp only [formatKinds, List.mem_cons, List.not_mem_nil, or_false] at hk
  rcases hk with rfl | rfl <;> exact ⟨by decide, by decide, by decide, by decide⟩

/-- An `IndexError` raised INSIDE a reader or writer is caught by the handler meant for the missing
file argument: the command exits with status 2 and claims that the file was not specified.
(No traceback; but the wrong message and status — the property's "status 1 for bad content" relies on
C13: parsers raise `StructureFormatError` only.) -/
theorem index_error_in_reader_2 :
    Quiet2 (onException Gen.cliConfig "IndexError") ∧ (onException Gen.cliConfig "IndexError").msg = .noFile :=
  ⟨⟨by decide, by decide, by decide, by decide⟩, by decide⟩

/-- an exception class with no handler escapes: traceback, status 1 (CPython) -/
theorem unhandled_traceback :
    (onException Gen.cliConfig "ValueError").traceback = true ∧ (onException Gen.cliConfig "UnicodeDecodeError").traceback = true
    ∧ (onException Gen.cliConfig "KeyError").traceback = true := by decide

/-- `k` is caught by one of the handlers of the final try statement -/
def Handled (cfg : Config) (k : String) : Prop := ∃ h, cfg.handlers.lookup k = some (some h)

/-- the library raises only handled exception classes (for readers: the conclusion of C13 plus OSError
from opening the file) -/
structure RaisesOnlyHandled (cfg : Config) (lib : Lib S) : Prop where
  file : ∀ f i k, lib.readFile f i = .error k → Handled cfg k
  stdin : ∀ i k, lib.readStdin i = .error k → Handled cfg k
  write : ∀ s o k, lib.write s o = .error k → Handled cfg k

theorem handlers_status_le_2 :
    ∀ p ∈ Gen.cliConfig.handlers, ∀ h, p.2 = some h → h.status = 1 ∨ h.status = 2 := by decide

theorem mem_of_lookup {α β : Type} [BEq α] [LawfulBEq α] {k : α} {v : β} :
    ∀ {l : List (α × β)}, l.lookup k = some v → (k, v) ∈ l
  | [], h => by simp [List.lookup] at h
  | (a, b) :: t, h => by
    simp only [List.lookup] at h
    split at h
    · rename_i heq
      cases h
      have := eq_of_beq heq
      subst this
      exact List.mem_cons_self
    · exact List.mem_cons_of_mem _ (mem_of_lookup h)

theorem onException_handled {k : String} (h : Handled Gen.cliConfig k) :
    ((onException Gen.cliConfig k).status = 1 ∨ (onException Gen.cliConfig k).status = 2) ∧
      (onException Gen.cliConfig k).traceback = false ∧ (onException Gen.cliConfig k).stderrLines = 1 := by
  obtain ⟨hd, hl⟩ := h
  have hmem : (k, some hd) ∈ Gen.cliConfig.handlers := mem_of_lookup hl
  have := handlers_status_le_2 _ hmem hd rfl
  have e : onException Gen.cliConfig k = failWith hd.status hd.msg := by simp only [onException, hl]
  rw [e]
  exact ⟨this, rfl, rfl⟩

theorem optionAction_status {opts : List String} {o : Outcome}
    (h : optionAction Gen.cliConfig opts = some o) : o.status = 0 ∧ o.traceback = false := by
  induction opts with
  | nil => simp [optionAction] at h
  | cons a rest ih =>
    simp only [optionAction] at h
    split at h
    · cases h; exact ⟨rfl, rfl⟩
    · split at h
      · cases h; exact ⟨rfl, rfl⟩
      · exact ih h

/-- for EVERY command line: exit status 0, 1 or 2 and never a traceback — provided the library raises
only exception classes that the final try statement handles -/
theorem total (lib : Lib S) (hlib : RaisesOnlyHandled Gen.cliConfig lib) (argv : List String) :
    ((main Gen.cliConfig lib argv).status = 0 ∨ (main Gen.cliConfig lib argv).status = 1 ∨
      (main Gen.cliConfig lib argv).status = 2) ∧ (main Gen.cliConfig lib argv).traceback = false := by
  unfold main
  split
  · exact ⟨Or.inr (Or.inr rfl), rfl⟩
  · split
    · rename_i o ho
      have := optionAction_status ho
      exact ⟨Or.inl this.1, this.2⟩
    · split
      · exact ⟨Or.inl rfl, rfl⟩
      · split
        · exact ⟨Or.inr (Or.inr rfl), rfl⟩
        · split
          · exact ⟨Or.inr (Or.inr rfl), rfl⟩
          · split
            · exact ⟨Or.inr (Or.inr rfl), rfl⟩
            · unfold convert
              split
              · rename_i file tl heq
                split
                · rename_i k hr
                  have hk : Handled Gen.cliConfig k := by
                    by_cases hf : file = "-"
                    · simp only [libRead, hf, if_true] at hr; exact hlib.stdin _ _ hr
                    · simp only [libRead, hf, if_false] at hr; exact hlib.file _ _ _ hr
                  have := onException_handled hk
                  exact ⟨Or.inr this.1, this.2.1⟩
                · split
                  · rename_i k hw
                    have := onException_handled (hlib.write _ _ _ hw)
                    exact ⟨Or.inr this.1, this.2.1⟩
                  · exact ⟨Or.inl rfl, rfl⟩
              · exact ⟨Or.inr (Or.inr (by decide)), by decide⟩

/-! ### non-vacuity -/

def demoLib : Lib String :=
  { readFile := fun f i => if f = "missing" then .error "FileNotFoundError" else if i = "xyz" then .ok f else .error "StructureFormatError"
    readStdin := fun _ => .ok "stdin"
    write := fun s o => .ok (s ++ ">" ++ o) }

example : Selects Gen.cliConfig ["xyz..cif", "a.xyz"] "xyz" "cif" "a.xyz" :=
  ⟨[], "xyz..cif", [], by decide⟩

example : main Gen.cliConfig demoLib ["xyz..cif", "a.xyz"] = ⟨.text "a.xyz>cif", 0, 0, false, .none⟩ := by decide
example : main Gen.cliConfig demoLib ["--", "xyz..cif", "-", "ignored"] = ⟨.text "stdin>cif", 0, 0, false, .none⟩ := by decide
example : Quiet1 (main Gen.cliConfig demoLib ["xyz..cif", "missing"]) := by decide
example : Quiet1 (main Gen.cliConfig demoLib ["cif..xyz", "a.xyz"]) := by decide
example : Quiet2 (main Gen.cliConfig demoLib ["xyz...cif", "a.xyz"]) := by decide
example : Quiet2 (main Gen.cliConfig demoLib ["xyz.cif", "a.xyz"]) := by decide
example : Quiet2 (main Gen.cliConfig demoLib ["xyz..cif"]) := by decide
example : Quiet2 (main Gen.cliConfig demoLib ["--he=1"]) := by decide
example : (main Gen.cliConfig demoLib ["--ver", "-x"]).stdout = .empty := by decide
example : (main Gen.cliConfig demoLib ["-Vh"]).stdout = .version := by decide
example : RaisesOnlyHandled Gen.cliConfig demoLib := by
  refine ⟨?_, ?_, ?_⟩
  · intro f i k h
    simp only [demoLib] at h
    split at h
    · cases h; exact ⟨⟨1, .ioStrerror⟩, by decide⟩
    · split at h
      · cases h
      · cases h; exact ⟨⟨1, .excStr⟩, by decide⟩
  · intro i k h; cases h
  · intro s o k h; cases h

end DS.Props.C20
