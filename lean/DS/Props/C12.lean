import DS.Lemmas.Load
/-!
# C12 — automatic format detection gives the same result as naming the format

Decision-logic level: the per-format parsers are a parameter `parse : format → Outcome R`
(what each parser does with the given text: a structure, `None`, or an exception kind + message);
their own behaviour is C13's subject.  The registry (`genRegistry`), the constants of
`_getOrderedFormats` (`genOrderCfg`) and the exception filtering of `_wrapParseMethod`
(`genAutoCfg`) are regenerated from the tree under test on every run; the `gen_*` theorems below are
kernel-decided against that generated data.
-/
namespace DS.Props.C12
open DS DS.Load

variable {R : Type}

/-! ## the loop of `_wrapParseMethod`, for every configuration, parser behaviour and candidate order -/

/-- Automatic detection succeeding with format `f` and result `r` means: `f` is a candidate, its own parser
returns exactly `r` for this text, and every candidate tried before it raised an exception kind that the
wrapper swallows.  (The reported `parser.format` is the first component of `AutoResult.ok`.) -/
theorem auto_sound (c : AutoCfg) (parse : String → Outcome R) (o : List String) (f : String) (r : R)
    (h : auto c parse o = .ok f r) :
    ∃ pre post, o = pre ++ f :: post ∧ (∀ g ∈ pre, Swallowed c parse g) ∧ parse f = .ok r :=
  autoLoop_ok c parse o [] f r h

/-- … in particular the detected format is one of the candidates and naming it explicitly gives the same result -/
theorem auto_sound_explicit (c : AutoCfg) (parse : String → Outcome R) (o : List String) (f : String) (r : R)
    (h : auto c parse o = .ok f r) : f ∈ o ∧ parse f = .ok r := by
  obtain ⟨pre, post, rfl, _, hf⟩ := auto_sound c parse o f r h
  exact ⟨by simp, hf⟩

/-- first success wins: with the candidates before `f` swallowed and `f` returning a structure the result is `f`'s -/
theorem auto_first (c : AutoCfg) (parse : String → Outcome R) (pre post : List String) (f : String) (r : R)
    (hpre : ∀ g ∈ pre, Swallowed c parse g) (hf : parse f = .ok r) :
    auto c parse (pre ++ f :: post) = .ok f r := by
  unfold auto
  rw [autoLoop_swallowed c parse pre (f :: post) [] hpre]
  simp [autoLoop, hf]

/-- every candidate failing with a swallowed kind (format error: collected; not implemented: skipped) makes the
automatic parser raise the format error whose message is the header followed by exactly one line per collected
candidate, in candidate order -/
theorem auto_fail_SFE (c : AutoCfg) (parse : String → Outcome R) (o : List String)
    (h : ∀ f ∈ o, Swallowed c parse f) :
    auto c parse o = .err c.raised (c.failMsg (complaints c parse o)) ∧
      (complaints c parse o).length = (o.filter (collected c parse)).length := by
  refine ⟨?_, complaints_length c parse o⟩
  unfold auto
  have := autoLoop_swallowed c parse o [] [] h
  simpa [autoLoop] using this

/-- a candidate failing with a kind outside the swallowed set, before any success, makes the automatic parser
fail with exactly that exception: "never a foreign exception" is the obligation that no parser raises one (C13) -/
theorem auto_foreign_escapes (c : AutoCfg) (parse : String → Outcome R) (pre post : List String) (f k m : String)
    (hpre : ∀ g ∈ pre, Swallowed c parse g) (hf : parse f = .err k m) (hk : c.handler k = .escape) :
    auto c parse (pre ++ f :: post) = .err k m := by
  unfold auto
  rw [autoLoop_swallowed c parse pre (f :: post) [] hpre]
  simp [autoLoop, hf, hk]

/-- a candidate returning `None` (P_cif on a CIF without atom sites) before any success ends the loop as if it had
succeeded, and the automatic parser then raises the format error listing only the complaints of the candidates
*before* it: later parsers are not tried and contribute no line -/
theorem auto_none_masks (c : AutoCfg) (parse : String → Outcome R) (pre post : List String) (f : String)
    (hpre : ∀ g ∈ pre, Swallowed c parse g) (hf : parse f = .none) :
    auto c parse (pre ++ f :: post) = .err c.raised (c.failMsg (complaints c parse pre)) := by
  unfold auto
  rw [autoLoop_swallowed c parse pre (f :: post) [] hpre]
  simp [autoLoop, hf]

/-- the four theorems above are exhaustive: any candidate list is either entirely swallowed or splits at its first
candidate that is not -/
theorem auto_cases (c : AutoCfg) (parse : String → Outcome R) (o : List String) :
    (∀ f ∈ o, Swallowed c parse f) ∨
    ∃ pre f post, o = pre ++ f :: post ∧ (∀ g ∈ pre, Swallowed c parse g) ∧
      ((∃ r, parse f = .ok r) ∨ parse f = .none ∨ ∃ k m, parse f = .err k m ∧ c.handler k = .escape) := by
  induction o with
  | nil => left; simp
  | cons g gs ih =>
    have hg : Swallowed c parse g ∨ ((∃ r, parse g = .ok r) ∨ parse g = .none ∨
        ∃ k m, parse g = .err k m ∧ c.handler k = .escape) := by
      cases hp : parse g with
      | ok r => right; left; exact ⟨r, rfl⟩
      | none => right; right; left; rfl
      | err k m =>
        by_cases hk : c.handler k = .escape
        · right; right; right; exact ⟨k, m, rfl, hk⟩
        · left; exact ⟨k, m, hp, hk⟩
    rcases hg with hs | hn
    · rcases ih with hall | ⟨pre, f, post, rfl, hpre, hf⟩
      · left
        intro x hx
        rcases List.mem_cons.mp hx with rfl | hx
        · exact hs
        · exact hall x hx
      · right
        refine ⟨g :: pre, f, post, rfl, ?_, hf⟩
        intro x hx
        rcases List.mem_cons.mp hx with rfl | hx
        · exact hs
        · exact hpre x hx
    · right; exact ⟨[], g, gs, rfl, by simp, hn⟩

/-! ## the candidate order -/

/-- `_getOrderedFormats` returns a permutation of the registered input formats other than the excluded `auto`,
whatever the file name -/
theorem order_perm (cfg : OrderCfg) (reg : Registry) (fn : Option String) (h : (reg.map (·.name)).Nodup) :
    (orderFor cfg reg fn).Perm (candidates cfg reg) := by
  have hnd := candidates_nodup cfg reg h
  unfold orderFor
  cases fn with
  | none => exact List.Perm.refl _
  | some fn =>
    dsimp only
    split
    · exact List.Perm.refl _
    · rw [reorder_eq _ _ hnd]; exact arranged_perm _ _

/-- … with the formats whose pattern matches the file's base name first (in reverse alphabetical order, as the
loop inserts each at the front), the others after them in alphabetical order -/
theorem order_matching_first (cfg : OrderCfg) (reg : Registry) (fn : String) (h : (reg.map (·.name)).Nodup)
    (hfn : fn ≠ "") :
    orderFor cfg reg (some fn) =
      ((candidates cfg reg).filter (matchesFmt cfg reg (basename fn))).reverse ++
        (candidates cfg reg).filter (fun f => !matchesFmt cfg reg (basename fn) f) := by
  unfold orderFor
  simp only [hfn, if_false]
  exact reorder_eq _ _ (candidates_nodup cfg reg h)

/-- membership: every registered input format (except `auto`) is tried, nothing else is -/
theorem order_mem (cfg : OrderCfg) (reg : Registry) (fn : Option String) (h : (reg.map (·.name)).Nodup) (f : String) :
    f ∈ orderFor cfg reg fn ↔ (∃ e ∈ reg, e.hasInput = true ∧ e.name = f) ∧ f ∉ cfg.excluded := by
  rw [(order_perm cfg reg fn h).mem_iff, mem_candidates]

/-! ## written text is detected (decision level) -/

/-- The 7×7 matrix hypothesis about a text `t` written in format `g`, as far as detection is concerned: `g`'s own
parser accepts it with `r`, and every candidate either rejects it with a swallowed exception or accepts it with a
structure that agrees (`sim`) with `r`. -/
def RejectOrAgree (c : AutoCfg) (parse : String → Outcome R) (sim : R → R → Prop) (o : List String) (g : String)
    (r : R) : Prop :=
  parse g = .ok r ∧ ∀ f ∈ o, Swallowed c parse f ∨ ∃ r', parse f = .ok r' ∧ sim r' r

/-- Under the matrix hypothesis, automatic detection succeeds, reports a format whose own parser accepts the text,
and returns what that parser returns, which agrees with what the writing format's parser returns. -/
theorem written_text_detected_partial (c : AutoCfg) (parse : String → Outcome R) (sim : R → R → Prop)
    (o : List String) (g : String) (r : R) (hg : g ∈ o) (h : RejectOrAgree c parse sim o g r) :
    ∃ f r', auto c parse o = .ok f r' ∧ f ∈ o ∧ parse f = .ok r' ∧ sim r' r := by
  obtain ⟨hown, hall⟩ := h
  rcases auto_cases c parse o with hsw | ⟨pre, f, post, rfl, hpre, hf⟩
  · obtain ⟨k, m, hk, _⟩ := hsw g hg
    rw [hown] at hk; cases hk
  · rcases hall f (by simp) with ⟨k, m, hk, hne⟩ | ⟨r', hr', hs⟩
    · rcases hf with ⟨r', hr'⟩ | hn | ⟨k', m', hk', he⟩
      · rw [hk] at hr'; cases hr'
      · rw [hk] at hn; cases hn
      · rw [hk] at hk'; cases hk'; exact absurd he hne
    · exact ⟨f, r', auto_first c parse pre post f r' hpre hr', by simp, hr', hs⟩

/-- The full statement of the written-text clause for given writers and parsers (`write g s` the text format `g`
writes for structure `s`; `Rep g s` = "`s` is representable in `g`"; `NonEmpty s`).  It is *not* proved here from
models of the seven writers and parsers; `written_text_detected_of_matrix` reduces it to the matrix hypothesis,
which the correspondence run of harness/c12.py evaluates on the real writers and parsers. -/
def written_text_detected_statement {S T : Type} (cfg : OrderCfg) (reg : Registry) (c : AutoCfg)
    (write : String → S → T) (parse : String → T → Outcome R) (Rep : String → S → Prop) (NonEmpty : S → Prop)
    (sim : R → R → Prop) : Prop :=
  ∀ g ∈ outputFormats reg, ∀ s, Rep g s → NonEmpty s → ∀ fn : Option String,
    ∃ f r' r, auto c (fun f => parse f (write g s)) (orderFor cfg reg fn) = .ok f r' ∧
      parse f (write g s) = .ok r' ∧ parse g (write g s) = .ok r ∧ sim r' r

theorem written_text_detected_of_matrix {S T : Type} (cfg : OrderCfg) (reg : Registry) (c : AutoCfg)
    (write : String → S → T) (parse : String → T → Outcome R) (Rep : String → S → Prop) (NonEmpty : S → Prop)
    (sim : R → R → Prop) (hnd : (reg.map (·.name)).Nodup)
    (hout : ∀ g ∈ outputFormats reg, g ∈ candidates cfg reg)
    (hmatrix : ∀ g ∈ outputFormats reg, ∀ s, Rep g s → NonEmpty s →
      ∃ r, RejectOrAgree c (fun f => parse f (write g s)) sim (candidates cfg reg) g r) :
    written_text_detected_statement cfg reg c write parse Rep NonEmpty sim := by
  intro g hg s hr hne fn
  obtain ⟨r, hown, hall⟩ := hmatrix g hg s hr hne
  have hperm := order_perm cfg reg fn hnd
  have hgo : g ∈ orderFor cfg reg fn := hperm.mem_iff.mpr (hout g hg)
  have hroa : RejectOrAgree c (fun f => parse f (write g s)) sim (orderFor cfg reg fn) g r :=
    ⟨hown, fun f hf => hall f (hperm.mem_iff.mp hf)⟩
  obtain ⟨f, r', ha, _, hf, hs⟩ := written_text_detected_partial c _ sim _ g r hgo hroa
  exact ⟨f, r', r, ha, hf, hown, hs⟩

/-! ## obligations on the generated registry and exception table (re-decided on every run) -/

/-- format names are distinct -/
theorem gen_names_nodup : (genRegistry.map (·.name)).Nodup := by decide

/-- the model's `sorted(filter has_input)` is what `inputFormats()` / `outputFormats()` returned at translation time -/
theorem gen_formats_agree :
    inputFormats genRegistry = Gen.Reg.inputFormatsObserved ∧ outputFormats genRegistry = Gen.Reg.outputFormatsObserved := by
  decide

/-- the pattern separator is one character, no registered pattern uses a character class, and a parser instance
reports the name it is registered under -/
theorem gen_separator : genSepOk = true ∧ regSupported genRegistry = true ∧
    genRegistry.all (fun e => e.selfName == e.name) = true := by decide

/-- the exception filtering: format errors are collected, `NotImplementedError` is skipped, and *no other* kind of
the universe (all builtin exception classes, the library's, PyCifRW's) is swallowed; the error raised at the end is
the format error -/
theorem gen_handlers :
    genHandler "StructureFormatError" = .collect ∧ genHandler "NotImplementedError" = .skip ∧
    (Gen.Reg.handlerRaw.all (fun e => e.2 == 0 || e.1 == "StructureFormatError" || e.1 == "NotImplementedError")) = true ∧
    genAutoCfg.raised = "StructureFormatError" := by decide

/-- the failure message: two header lines, complaints as `"<format>: <message>"`, joined by newlines -/
theorem gen_message_shape :
    genAutoCfg.header.length = 2 ∧ genAutoCfg.complaint "F" "M" = "F: M" ∧ genAutoCfg.joiner = "\n" := by decide

/-- every output format is an input candidate (so a written text always has its own parser among the candidates),
and the automatic format itself is not a candidate -/
theorem gen_outputs_are_candidates :
    (outputFormats genRegistry).all (fun g => (candidates genOrderCfg genRegistry).contains g) = true ∧
    (candidates genOrderCfg genRegistry).contains "auto" = false := by decide

/-- a file name carrying a format's own extension puts that format among the leading (matching) candidates -/
theorem gen_own_extension_first :
    (genRegistry.filter (fun e => e.hasOutput && e.ext != "")).all (fun e =>
      matchesFmt genOrderCfg genRegistry (basename ("name" ++ e.ext)) e.name) = true := by decide

/-- instances for the registry of the tree under test -/
theorem gen_order_perm (fn : Option String) :
    (orderFor genOrderCfg genRegistry fn).Perm (candidates genOrderCfg genRegistry) :=
  order_perm _ _ fn gen_names_nodup

/-! ## non-vacuity -/

/-- a parser table on which `auto` succeeds with the second candidate (first one rejects with the format error) -/
def exParse : String → Outcome Nat
  | "cif" => .err "StructureFormatError" "not a CIF"
  | "discus" => .ok 7
  | "pdb" => .ok 8
  | _ => .err "StructureFormatError" "no"

example : auto genAutoCfg exParse (orderFor genOrderCfg genRegistry none) = .ok "discus" 7 := by decide
example : ∃ pre post, orderFor genOrderCfg genRegistry none = pre ++ "discus" :: post ∧
    (∀ g ∈ pre, Swallowed genAutoCfg exParse g) ∧ exParse "discus" = .ok 7 :=
  auto_sound genAutoCfg exParse _ "discus" 7 (by decide)

/-- all candidates reject: one complaint line per candidate -/
def exReject : String → Outcome Nat := fun f => .err "StructureFormatError" ("bad " ++ f)

example : auto genAutoCfg exReject ["cif", "xyz"] =
    .err "StructureFormatError"
      "Unknown or invalid structure format.\nErrors per each tested structure format:\ncif: bad cif\nxyz: bad xyz" := by
  decide
example : ∀ f ∈ ["cif", "xyz"], Swallowed genAutoCfg exReject f := by
  intro f _; exact ⟨"StructureFormatError", "bad " ++ f, rfl, by decide⟩

/-- a foreign kind escapes -/
def exForeign : String → Outcome Nat
  | "cif" => .err "StructureFormatError" "no"
  | "discus" => .err "TypeError" "boom"
  | _ => .ok 1

example : auto genAutoCfg exForeign ["cif", "discus", "pdb"] = .err "TypeError" "boom" := by decide
example : genAutoCfg.handler "TypeError" = .escape := by decide

/-- `None` from the first candidate masks a later parser that would accept: the automatic parser fails although
naming `rawxyz` succeeds, and its message carries no complaint at all -/
def exNone : String → Outcome Nat
  | "cif" => .none
  | "rawxyz" => .ok 0
  | _ => .err "StructureFormatError" "no"

example : auto genAutoCfg exNone (orderFor genOrderCfg genRegistry none) =
    .err "StructureFormatError" "Unknown or invalid structure format.\nErrors per each tested structure format:" ∧
    exNone "rawxyz" = .ok 0 := by decide

/-- orders for the registry under test -/
example : orderFor genOrderCfg genRegistry (some "/data/x.stru") = ["pdffit", "discus", "cif", "pdb", "rawxyz", "xcfg", "xyz"] := by
  decide
example : orderFor genOrderCfg genRegistry (some "x.xyz") = ["xyz", "rawxyz", "cif", "discus", "pdb", "pdffit", "xcfg"] := by
  decide
example : orderFor genOrderCfg genRegistry none = ["cif", "discus", "pdb", "pdffit", "rawxyz", "xcfg", "xyz"] := by decide

/-- the matrix hypothesis is satisfiable: `exParse` on the order without file name, written format `discus`,
agreement = equality (pdb would also accept, with a different result, but is never reached … so it must agree or be
excluded: here the hypothesis is checked on the prefix that matters) -/
example : RejectOrAgree genAutoCfg exParse (fun a b => a = b) ["cif", "discus"] "discus" 7 :=
  ⟨rfl, by
    intro f hf
    simp only [List.mem_cons, List.not_mem_nil, or_false] at hf
    rcases hf with rfl | rfl
    · left; exact ⟨"StructureFormatError", "not a CIF", rfl, by decide⟩
    · right; exact ⟨7, rfl, rfl⟩⟩

/-- `written_text_detected_of_matrix` is not vacuous: toy writers (the text is the format's name) and parsers (accept
exactly their own name) satisfy the matrix hypothesis on the registry under test, hence the full statement -/
example : written_text_detected_statement genOrderCfg genRegistry genAutoCfg (fun g (_ : Unit) => g)
    (fun f t => if f = t then Outcome.ok 0 else .err "StructureFormatError" "no") (fun _ _ => True) (fun _ => True)
    (fun a b : Nat => a = b) :=
  written_text_detected_of_matrix _ _ _ _ _ _ _ _ gen_names_nodup (by decide) (by
    intro g _ s _ _
    refine ⟨0, ⟨by simp, ?_⟩⟩
    intro f _
    by_cases h : f = g
    · right; exact ⟨0, by simp [h], rfl⟩
    · left; exact ⟨"StructureFormatError", "no", by simp [h], by decide⟩)

/-- `auto_first`, `auto_foreign_escapes`, `auto_none_masks` applied to the example tables -/
example : auto genAutoCfg exParse (["cif"] ++ "discus" :: ["pdb"]) = .ok "discus" 7 :=
  auto_first genAutoCfg exParse ["cif"] ["pdb"] "discus" 7
    (by intro g hg; simp at hg; subst hg; exact ⟨"StructureFormatError", "not a CIF", rfl, by decide⟩) rfl
example : auto genAutoCfg exForeign (["cif"] ++ "discus" :: ["pdb"]) = .err "TypeError" "boom" :=
  auto_foreign_escapes genAutoCfg exForeign ["cif"] ["pdb"] "discus" "TypeError" "boom"
    (by intro g hg; simp at hg; subst hg; exact ⟨"StructureFormatError", "no", rfl, by decide⟩) rfl (by decide)
example : auto genAutoCfg exNone ([] ++ "cif" :: ["rawxyz"]) = .err genAutoCfg.raised (genAutoCfg.failMsg []) :=
  auto_none_masks genAutoCfg exNone [] ["rawxyz"] "cif" (by simp) rfl

end DS.Props.C12
