import DS.Lemmas.Load
/-!
# C16 — loading and saving are all-or-nothing and do not depend on the object's past

Protocol level: `read` models `Structure.read/readStr` + the `PDFFitStructure` post-step exactly in the order the
code performs the steps (`getParser`; parse; `Structure.__init__(self)`; `__dict__.update`; slice assignment;
title-from-file-name rule; `self.pdffit["spcgr"] = …`), `write` models serialise-then-open.  The parser is a
parameter (`ReadIn.parse`: a new structure, `None`, or an exception).

Two clauses of the property are **false of the current code**; the negations are proved with concrete witnesses
(replayed on the real code by harness/c16.py) and the fragments that do hold are the `…_partial` theorems.
-/
namespace DS.Props.C16
open DS DS.Load

/-! ## failed reads -/

/-- a read that fails in `getParser` or in the parser leaves the target exactly as it was, and reports that error -/
theorem read_fail_unchanged (i : ReadIn) (o : Obj) :
    (∀ e, i.getParser = some e → read i o = ⟨some e, o⟩) ∧
    (∀ k m, i.getParser = none → i.parse = .err k m → read i o = ⟨some (k, m), o⟩) := by
  constructor
  · intro e he
    cases hc : o.cls <;> simp [Load.read, structureRead, postStep, he, hc]
  · intro k m hg hp
    cases hc : o.cls <;> simp [Load.read, structureRead, postStep, hg, hp, hc]

/-- `Structure.read/readStr` itself (no post-step) is all-or-nothing -/
theorem structureRead_fail_unchanged (i : ReadIn) (o : Obj) (h : (structureRead i o).err ≠ none) :
    (structureRead i o).obj = o := by
  unfold structureRead at h ⊢
  cases hg : i.getParser with
  | some e => simp
  | none =>
    rw [hg] at h
    cases hp : i.parse with
    | err k m => simp
    | none => rw [hp] at h; simp at h
    | ok n => rw [hp] at h; simp at h

/-- full-strength clause: *any* failed read leaves the target unchanged -/
def read_fail_unchanged_statement : Prop := ∀ (i : ReadIn) (o : Obj), (read i o).err ≠ none → (read i o).obj = o

/-- the witness: a `PDFFitStructure` copy-constructed from a plain `Structure` (its `pdffit` is `None`) reading a
source whose parser found a space group -/
def witnessPdffitNone : ReadIn × Obj :=
  (⟨9, none, none, .ok ⟨[("_lattice", .lat 2 "Lattice(a=3)")], [⟨"C", some 2⟩]⟩, some "P1"⟩,
   ⟨.pdffit, [("pdffit", .none), ("_lattice", .lat 1 "Lattice()")], [⟨"H", some 1⟩]⟩)

/-- **false of the current code**: the post-step raises `TypeError` after the content has been replaced -/
theorem read_fail_unchanged_false : ¬ read_fail_unchanged_statement := by
  intro h
  have := h witnessPdffitNone.1 witnessPdffitNone.2 (by decide)
  revert this
  decide

/-- what does hold: a failed read leaves the target unchanged whenever the post-step cannot fail — the target is a
plain `Structure`, or the parser found no space group, or the `pdffit` attribute after loading is a dict -/
theorem read_fail_unchanged_partial (i : ReadIn) (o : Obj) (h : (read i o).err ≠ none)
    (hp : o.cls = .base ∨ i.spacegroup = none ∨ ∃ kv, getattr (structureRead i o).obj "pdffit" = some (.dict kv)) :
    (read i o).obj = o := by
  unfold Load.read at h ⊢
  by_cases he : (structureRead i o).err = none
  · -- `Structure.read` succeeded: the post-step cannot have failed under the hypothesis
    exfalso
    apply h
    rcases hp with hc | hs | ⟨kv, hkv⟩
    · rw [hc, postStep_base]; exact he
    · rw [hs, postStep_nosg]; exact he
    · exact postStep_dict _ _ _ kv he hkv
  · rw [postStep_err _ _ _ he]
    exact structureRead_fail_unchanged i o he

/-! ## atoms refer to the target's lattice -/

/-- after a read whose parser returned a structure, every atom of the target refers to the target's own lattice
object (also when the post-step then fails) -/
theorem atoms_lattice_target (i : ReadIn) (o : Obj) (n : Parsed) (hg : i.getParser = none) (hp : i.parse = .ok n) :
    (observe (read i o).obj).atomsOwnLattice = true := by
  rw [observe_own]
  unfold Load.read
  apply own_postStep
  unfold structureRead
  rw [hg, hp]
  exact own_titleStep _ _ (own_replace _ n)

/-- … and when the parser returned `None` the invariant is preserved if it held before -/
theorem atoms_lattice_target_none (i : ReadIn) (o : Obj) (hg : i.getParser = none) (hp : i.parse = .none)
    (h : OwnLattice o) : (observe (read i o).obj).atomsOwnLattice = true := by
  rw [observe_own]
  unfold Load.read
  apply own_postStep
  unfold structureRead
  rw [hg, hp]
  exact own_titleStep _ _ (own_init0 _ _ h)

/-! ## successful reads do not depend on the past — false as stated -/

/-- full-strength clause: after a successful read the observable state (atoms, lattice, title, `pdffit`, `xcfg`) is
that of reading the same source into a brand-new object of the same type -/
def read_success_fresh_statement : Prop :=
  ∀ (i : ReadIn) (o : Obj), (read i o).err = none → observe (read i o).obj = observe (read i (newObj o.cls)).obj

/-- a parsed structure that carries only a lattice and one atom (what the `cif`, `rawxyz`, `xcfg` parsers return for
a source without title / auxiliaries) -/
def plainParsed : Parsed := ⟨[("_lattice", .lat 2 "Lattice(a=3)")], [⟨"C", some 2⟩]⟩

def readStrOf (p : Outcome Parsed) : ReadIn := ⟨9, none, none, p, none⟩

/-- witness `title`: the old title survives, a new object keeps the class default `""` -/
theorem stale_title :
    let o : Obj := ⟨.base, [("_lattice", .lat 1 "Lattice()"), ("title", .str "old")], []⟩
    (read (readStrOf (.ok plainParsed)) o).err = none ∧
    (observe (read (readStrOf (.ok plainParsed)) o).obj).title = some (.str "old") ∧
    (observe (read (readStrOf (.ok plainParsed)) (newObj .base)).obj).title = some (.str "") := by decide

/-- witness `pdffit`: the `pdffit` dict loaded earlier survives the reading of a non-PDFfit source -/
theorem stale_pdffit :
    let o : Obj := ⟨.base, [("_lattice", .lat 1 "Lattice()"), ("pdffit", .dict [("scale", "2.5")])], []⟩
    (read (readStrOf (.ok plainParsed)) o).err = none ∧
    (observe (read (readStrOf (.ok plainParsed)) o).obj).pdffit = some (.dict [("scale", "2.5")]) ∧
    (observe (read (readStrOf (.ok plainParsed)) (newObj .base)).obj).pdffit = some .none := by decide

/-- witness `xcfg`: the auxiliaries list of an earlier XCFG file survives -/
theorem stale_xcfg :
    let o : Obj := ⟨.base, [("_lattice", .lat 1 "Lattice()"), ("xcfg", .dict [("auxiliaries", "[\"q\"]")])], []⟩
    (read (readStrOf (.ok plainParsed)) o).err = none ∧
    (observe (read (readStrOf (.ok plainParsed)) o).obj).xcfg = some (.dict [("auxiliaries", "[\"q\"]")]) ∧
    (observe (read (readStrOf (.ok plainParsed)) (newObj .base)).obj).xcfg = none := by decide

/-- witness `None`: when the parser returns `None` (CIF without atom sites) the read "succeeds" and the old atoms and
lattice stay; a new object is empty with the default lattice -/
theorem stale_atoms_none :
    let o : Obj := ⟨.base, [("_lattice", .lat 1 "Lattice(a=5)")], [⟨"H", some 1⟩]⟩
    (read (readStrOf .none) o).err = none ∧
    (observe (read (readStrOf .none) o).obj).atoms = ["H"] ∧
    (observe (read (readStrOf .none) o).obj).lattice = some "Lattice(a=5)" ∧
    (observe (read (readStrOf .none) (newObj .base)).obj).atoms = [] ∧
    (observe (read (readStrOf .none) (newObj .base)).obj).lattice = some defaultLatticeValue := by decide

/-- **false of the current code** -/
theorem read_success_fresh_false : ¬ read_success_fresh_statement := by
  intro h
  have := h (readStrOf (.ok plainParsed)) ⟨.base, [("_lattice", .lat 1 "Lattice()"), ("title", .str "old")], []⟩ (by decide)
  revert this
  decide

/-- what does hold: if the parser returned a structure (with its own lattice, attribute names distinct) and every
observable attribute (`title`, `pdffit`, `xcfg`) is either carried by that structure or has in the target the value
a new object of that type has, then the outcome (success or the post-step's error) and the observable state are
those of reading into a brand-new object of the same type -/
theorem read_success_fresh_partial (i : ReadIn) (o : Obj) (n : Parsed) (hg : i.getParser = none)
    (hp : i.parse = .ok n) (hnd : (n.dict.map (·.1)).Nodup)
    (hlat : ∃ id v, n.dict.lookup "_lattice" = some (.lat id v))
    (hcarry : ∀ k ∈ obsKeys, (n.dict.lookup k).isSome ∨ o.dict.lookup k = (newObj o.cls).dict.lookup k) :
    (read i o).err = (read i (newObj o.cls)).err ∧
      observe (read i o).obj = observe (read i (newObj o.cls)).obj := by
  have hcls : (newObj o.cls).cls = o.cls := by cases o.cls <;> rfl
  obtain ⟨id, v, hl⟩ := hlat
  -- the two objects after `replace`
  have hsame : Same (replace (init0 i.fresh o) n) (replace (init0 i.fresh (newObj o.cls)) n) := by
    constructor
    · have h1 := getattr_replace (init0 i.fresh o) n "_lattice" hnd
      have h2 := getattr_replace (init0 i.fresh (newObj o.cls)) n "_lattice" hnd
      simp only [hl] at h1 h2
      rw [replace_atoms, replace_atoms, h1, h2]
    · intro k hk
      rw [getattr_replace _ n k hnd, getattr_replace _ n k hnd]
      cases hlk : n.dict.lookup k with
      | some v => rfl
      | none =>
        dsimp only
        simp only [List.mem_cons, List.not_mem_nil, or_false] at hk
        rcases hk with rfl | hk
        · rw [hl] at hlk; cases hlk
        · have hne : k ≠ "_lattice" := by rcases hk with rfl | rfl | rfl <;> decide
          rw [getattr_init0_ne _ _ _ hne, getattr_init0_ne _ _ _ hne]
          have hko : k ∈ obsKeys := by simp only [obsKeys, List.mem_cons, List.not_mem_nil, or_false]; exact hk
          rcases hcarry k hko with hs | he
          · rw [hlk] at hs; simp at hs
          · unfold getattr; rw [he]
  have hsr : (structureRead i o).err = (structureRead i (newObj o.cls)).err ∧
      Same (structureRead i o).obj (structureRead i (newObj o.cls)).obj := by
    unfold structureRead
    rw [hg, hp]
    exact ⟨rfl, same_titleStep _ _ _ hsame⟩
  unfold Load.read
  rw [hcls]
  obtain ⟨he, hs⟩ := same_postStep o.cls i.spacegroup _ _ hsr.1 hsr.2
  exact ⟨he, observe_same _ _ hs⟩

/-! ## write -/

/-- an error before the file is opened — unknown format, or any exception while the text is produced — and a failing
`open` leave the file of that name exactly as it was (absent or with its old content) -/
theorem write_fail_file_untouched (i : WriteIn) (file : Option String)
    (h : i.getParser ≠ none ∨ (∃ e, i.serialise = .error e) ∨ i.openErr ≠ none) :
    (write i file).2 = file ∧ (write i file).1 ≠ none := by
  unfold write
  cases hg : i.getParser with
  | some e => simp
  | none =>
    cases hs : i.serialise with
    | error e => simp
    | ok s =>
      cases ho : i.openErr with
      | some e => simp
      | none =>
        rcases h with h | ⟨e, h⟩ | h
        · exact absurd hg h
        · rw [hs] at h; cases h
        · exact absurd ho h

/-- the file changes only after the whole text has been produced: serialisation precedes `open` -/
theorem write_serialisation_precedes_open (i : WriteIn) (file : Option String) (h : (write i file).2 ≠ file) :
    i.getParser = none ∧ (∃ s, i.serialise = .ok s) ∧ i.openErr = none := by
  unfold write at h
  cases hg : i.getParser with
  | some e => rw [hg] at h; simp at h
  | none =>
    rw [hg] at h
    cases hs : i.serialise with
    | error e => rw [hs] at h; simp at h
    | ok s =>
      rw [hs] at h
      cases ho : i.openErr with
      | some e => rw [ho] at h; simp at h
      | none => exact ⟨rfl, ⟨s, rfl⟩, rfl⟩

/-- a successful write leaves exactly the produced text -/
theorem write_success (i : WriteIn) (file : Option String) (s : String) (hg : i.getParser = none)
    (hs : i.serialise = .ok s) (ho : i.openErr = none) (he : i.encodeErr = none) :
    write i file = (none, some s) := by
  simp [write, hg, hs, ho, he]

/-- outside the property's hypothesis ("fails while the text is being produced"): an encoding error happens after the
file has been opened for writing, so the old content is lost -/
theorem write_encode_fail_truncates (i : WriteIn) (file : Option String) (s : String) (e : String × String)
    (hg : i.getParser = none) (hs : i.serialise = .ok s) (ho : i.openErr = none) (he : i.encodeErr = some e) :
    write i file = (some e, some "") := by
  simp [write, hg, hs, ho, he]

/-! ## non-vacuity -/

/-- a failing parse on a non-trivial target -/
example : read ⟨9, some "f.cif", none, .err "StructureFormatError" "bad", some "P1"⟩ witnessPdffitNone.2
    = ⟨some ("StructureFormatError", "bad"), witnessPdffitNone.2⟩ :=
  (read_fail_unchanged _ _).2 _ _ rfl rfl

/-- `read_fail_unchanged_partial` applies to a failing read (plain `Structure`) -/
example : (read ⟨9, none, none, .err "StructureFormatError" "bad", none⟩ ⟨.base, [], []⟩).err ≠ none := by decide

/-- `read_success_fresh_partial` applies: a source carrying title, pdffit and xcfg read into a target with stale
values of all three -/
def fullParsed : Parsed :=
  ⟨[("_lattice", .lat 2 "Lattice(a=3)"), ("title", .str "new"), ("pdffit", .dict [("scale", "1.0")]),
    ("xcfg", .dict [("auxiliaries", "[]")])], [⟨"C", some 2⟩]⟩

example :
    let o : Obj := ⟨.pdffit, [("_lattice", .lat 1 "Lattice()"), ("title", .str "old"), ("pdffit", .dict [("scale", "2.5")]),
      ("xcfg", .dict [("auxiliaries", "[\"q\"]")])], [⟨"H", some 1⟩]⟩
    observe (read ⟨9, some "d/f.stru", none, .ok fullParsed, some "Fm-3m"⟩ o).obj
      = observe (read ⟨9, some "d/f.stru", none, .ok fullParsed, some "Fm-3m"⟩ (newObj .pdffit)).obj ∧
    (observe (read ⟨9, some "d/f.stru", none, .ok fullParsed, some "Fm-3m"⟩ o).obj).pdffit
      = some (.dict [("scale", "1.0"), ("spcgr", "Fm-3m")]) := by decide

example : (fullParsed.dict.map (·.1)).Nodup ∧ (∀ k ∈ obsKeys, (fullParsed.dict.lookup k).isSome) := by decide

/-- the title-from-file-name rule fires for a source without title -/
example : (observe (read ⟨9, some "/data/ni.v2.cif", none, .ok plainParsed, none⟩ (newObj .base)).obj).title
    = some (.str "ni.v2") := by decide

/-- a refused write over an existing file -/
example : write ⟨none, .error ("StructureFormatError", "cannot convert empty structure to XCFG format"), none, none⟩ (some "OLD")
    = (some ("StructureFormatError", "cannot convert empty structure to XCFG format"), some "OLD") := by decide

example : write ⟨none, .ok "TEXT", none, none⟩ (some "OLD") = (none, some "TEXT") := by decide

end DS.Props.C16
