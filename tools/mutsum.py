#!/venv/bin/python
"""one line per evaluated seeded change in work/mutres (pattern optional)"""
import glob, json, os, sys
V = os.path.dirname(os.path.dirname(os.path.abspath(__file__)))
pat = sys.argv[1] if len(sys.argv) > 1 else "*r5m*"
for f in sorted(glob.glob(os.path.join(V, "work", "mutres", pat + ".json"))):
    try:
        r = json.load(open(f))
    except Exception as e:
        print(os.path.basename(f), "unreadable", e); continue
    conf = r.get("demo_clean_rc") == 0 and r.get("demo_mutant_rc") == 1 and r.get("tests_failed") == 0
    cs = []
    for c, v in (r.get("checks") or {}).items():
        cs.append("%s rc=%s viol=%s%s rep=%s/%s %ss | %s" % (c, v["rc"], v["violations"], " NOFAIL-ONLY" if v.get("nofail_only") else "",
                  v.get("replay_mutant_rc"), v.get("replay_clean_rc"), v.get("wall_s"), (v.get("detail") or [v.get("tail")])[0][:160]))
    print(os.path.basename(f)[:-5], "confirmed" if conf else "NOTCONF(clean=%s mut=%s tests=%s apply=%s)" % (r.get("demo_clean_rc"), r.get("demo_mutant_rc"), r.get("tests_tail"), r.get("apply_rc")), "CAUGHT" if r.get("caught") else "MISSED", "; ".join(cs))
