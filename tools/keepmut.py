#!/venv/bin/python
"""Copy confirmed seeded changes (work/mutres/*.json + the mutation agents' output) into seeded/<id>/."""
import glob
import json
import os
import shutil

import subprocess
V = os.path.dirname(os.path.dirname(os.path.abspath(__file__)))
HEAD = subprocess.run(["git", "-C", "/repo", "rev-parse", "--short", "HEAD"], capture_output=True, text=True).stdout.strip()
rows = []
for f in sorted(glob.glob(os.path.join(V, "work", "mutres", "C*_*m*.json"))):
    r = json.load(open(f))
    name = os.path.basename(f)[:-5]
    pid, mk = name.split("_")
    src = ("/tmp/mut2_%s/out/%s" % (pid, mk[2:]) if mk.startswith("r2") else
           "/tmp/mut3_%s/out/%s" % (pid, mk[2:]) if mk.startswith("r3") else
           "/tmp/mut5_%s/out/%s" % (pid, mk[2:]) if mk.startswith("r5") else
           "/tmp/mut6_%s/out/%s" % (pid, mk[2:]) if mk.startswith("r6") else
           "/tmp/mut7_%s/out/%s" % (pid, mk[2:]) if mk.startswith("r7") else "/tmp/mut_%s/out/%s" % (pid, mk))
    confirmed = r.get("demo_clean_rc") == 0 and r.get("demo_mutant_rc") == 1 and r.get("tests_failed") == 0 and r.get("tests_passed", 0) >= 129
    if os.path.exists(os.path.join(V, "seeded", os.path.basename(f)[:-5], "meta.json")) and not os.path.isdir(src):
        continue   # kept in an earlier round, its scratch directory is gone
    if not confirmed or not os.path.isdir(src):
        rows.append((name, "NOT CONFIRMED", r.get("demo_clean_rc"), r.get("demo_mutant_rc"), r.get("tests_tail")))
        continue
    dst = os.path.join(V, "seeded", name)
    os.makedirs(dst, exist_ok=True)
    shutil.copy(os.path.join(src, "patch.diff"), dst)
    shutil.copy(os.path.join(src, "demo.py"), dst)
    try:
        notes = json.load(open(os.path.join(src, "notes.json")))
    except Exception:
        notes = {}
    old = {}
    mp = os.path.join(dst, "meta.json")
    if os.path.exists(mp):
        old = json.load(open(mp))
    checks = dict(old.get("checks", {}))
    for c, v in r.get("checks", {}).items():
        checks[c] = {"exit": v["rc"], "violations": v["violations"], "only_no_failing_input": v.get("nofail_only"),
                     "first_detail": (v.get("detail") or [""])[0][:300], "replay_on_changed_tree": v.get("replay_mutant_rc"),
                     "replay_on_clean_tree": v.get("replay_clean_rc"), "wall_s": v.get("wall_s")}
    meta = {"property": pid, "base_commit": old.get("base_commit", HEAD), "summary": notes.get("summary"), "needs": notes.get("needs"), "files": notes.get("files"),
            "confirmed": {"demo_exit_on_clean_tree": 0, "demo_exit_with_change": 1, "existing_tests_passed_with_change": r.get("tests_passed"),
                          "existing_tests_failed_with_change": 0,
                          "how": "tools/evalmut.py: scratch git worktree of /repo HEAD, git apply patch.diff, PYTHONPATH=<tree>/src demo.py, pytest tests, VERIF_REPO=<tree> ./check <id> --tier quick in a scratch copy of /verif, replay of the first violation on both trees"},
            "checks": checks,
            "caught_by": sorted(c for c, v in checks.items() if v["exit"] == 1 and v["violations"] > 0 and not v["only_no_failing_input"]),
            "caught_without_input_by": sorted(c for c, v in checks.items() if v["exit"] == 1 and v["only_no_failing_input"])}
    json.dump(meta, open(mp, "w"), indent=1)
    rows.append((name, "kept", meta["caught_by"], meta["caught_without_input_by"]))
for r in rows:
    print(*r)
