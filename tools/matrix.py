#!/venv/bin/python
"""Markdown table of the kept seeded changes and the checks that catch them (from seeded/*/meta.json)."""
import glob
import json
import os

V = os.path.dirname(os.path.dirname(os.path.abspath(__file__)))
rows = []
for f in sorted(glob.glob(os.path.join(V, "seeded", "*", "meta.json"))):
    m = json.load(open(f))
    name = os.path.basename(os.path.dirname(f))
    summ = (m.get("summary") or "").replace("|", "/").replace("\n", " ")
    if len(summ) > 150:
        summ = summ[:147] + "..."
    caught = ", ".join(m.get("caught_by") or []) or ("(" + ", ".join(m.get("caught_without_input_by") or []) + " no-failing-input-found)" if m.get("caught_without_input_by") else "MISSED")
    rep = ""
    for c, v in (m.get("checks") or {}).items():
        if v.get("replay_on_changed_tree") is not None:
            rep = "%s/%s" % (v.get("replay_on_changed_tree"), v.get("replay_on_clean_tree"))
            break
    rows.append("| %s | %s | %s | %s | %s |" % (name, m.get("property"), summ, caught, rep))
print("| seeded change | property | what it does | caught by | replay exit (changed/clean) |")
print("|---|---|---|---|---|")
print("\n".join(rows))
