#!/venv/bin/python
"""Evaluate one seeded change: confirm it (demo fails with it, passes without, test suite still passes)
and run the registered check(s) against it in a scratch copy of /verif (so that /verif's generated
Lean files are not disturbed).  Usage: evalmut.py <property> <patch.diff> <demo.py> [--checks C05,C06] [--tier quick]
Prints a JSON record.  Scratch tree and outputs are removed afterwards."""
import argparse
import json
import os
import re
import shutil
import subprocess
import sys
import time

REPO = "/repo"
VERIF = os.path.dirname(os.path.dirname(os.path.abspath(__file__)))


def sh(cmd, **kw):
    p = subprocess.run(cmd, shell=isinstance(cmd, str), capture_output=True, text=True, **kw)
    return p.returncode, p.stdout + p.stderr


def main():
    ap = argparse.ArgumentParser()
    ap.add_argument("pid")
    ap.add_argument("patch")
    ap.add_argument("demo")
    ap.add_argument("--checks")
    ap.add_argument("--tier", default="quick")
    ap.add_argument("--verif-copy", default="/tmp/verif_mut")
    ap.add_argument("--keep-copy", action="store_true")
    a = ap.parse_args()
    tree = "/tmp/evalmut_tree_%d" % os.getpid()
    rec = {"property": a.pid, "patch": os.path.abspath(a.patch)}
    sh(["git", "-C", REPO, "worktree", "remove", "--force", tree])
    rc, out = sh(["git", "-C", REPO, "worktree", "add", "--detach", tree, "HEAD"])
    try:
        env = dict(os.environ, PYTHONPATH=os.path.join(REPO, "src"))
        rc, out = sh(["/venv/bin/python", os.path.abspath(a.demo)], env=env, cwd="/tmp", timeout=600)
        rec["demo_clean_rc"] = rc
        rc, out = sh(["git", "-C", tree, "apply", os.path.abspath(a.patch)])
        if rc != 0:
            # the patch was written against an earlier commit: merge it
            rc, out = sh(["git", "-C", tree, "apply", "--3way", os.path.abspath(a.patch)])
            rec["applied_3way"] = True
        rec["apply_rc"] = rc
        if rc != 0:
            rec["apply_out"] = out[-500:]
            print(json.dumps(rec, indent=1))
            return
        envm = dict(os.environ, PYTHONPATH=os.path.join(tree, "src"))
        rc, out = sh(["/venv/bin/python", os.path.abspath(a.demo)], env=envm, cwd="/tmp", timeout=600)
        rec["demo_mutant_rc"] = rc
        rec["demo_mutant_out"] = out[-400:]
        rc, out = sh("cd %s && /venv/bin/python -m pytest -q -p no:cacheprovider --timeout=900 tests 2>&1 | tail -3" % tree, env=envm, timeout=1800)
        rec["tests_tail"] = out.strip().split("\n")[-1]
        m = re.search(r"(\d+) passed", out)
        rec["tests_passed"] = int(m.group(1)) if m else 0
        rec["tests_failed"] = int(re.search(r"(\d+) failed", out).group(1)) if re.search(r"(\d+) failed", out) else 0
        # scratch copy of /verif
        # scratch copy of /verif as committed (HEAD), so that work in progress in /verif does not disturb the evaluation;
        # the Lean build output is taken over once
        fresh = not os.path.isdir(a.verif_copy)
        os.makedirs(a.verif_copy, exist_ok=True)
        sh("git -C %s archive HEAD | tar -x -C %s" % (VERIF, a.verif_copy))
        if fresh:
            sh(["rsync", "-a", VERIF + "/lean/.lake", a.verif_copy + "/lean/"])
            sh(["rsync", "-a", VERIF + "/lean/DS/Gen", a.verif_copy + "/lean/DS/"])
        checks = (a.checks or a.pid).split(",")
        rec["checks"] = {}
        for c in checks:
            t0 = time.time()
            envc = dict(os.environ, VERIF_REPO=tree)
            try:
                rc, out = sh(["./check", c, "--tier", a.tier], env=envc, cwd=a.verif_copy, timeout=3600)
            except subprocess.TimeoutExpired:
                rc, out = 124, "timeout"
            vio = [l for l in out.split("\n") if l.startswith("VIOLATION")]
            detail = []
            lines = out.split("\n")
            for i, l in enumerate(lines):
                if l.startswith("VIOLATION") and i + 1 < len(lines):
                    detail.append(lines[i + 1].strip()[:300])
            r = {"rc": rc, "violations": len(vio), "first": vio[:2], "detail": detail[:3], "wall_s": round(time.time() - t0, 1),
                 "nofail_only": bool(vio) and all("no-failing-input-found" in v for v in vio), "tail": out.strip().split("\n")[-1][:300]}
            # replay of the first concrete violation on mutant and on clean tree
            conc = [v for v in vio if "no-failing-input-found" not in v]
            if conc:
                m = re.search(r"replay=(\S+)", conc[0])
                if m:
                    rp = m.group(1)
                    rcm, _ = sh(["./check", c, "--replay", rp], env=envc, cwd=a.verif_copy, timeout=900)
                    rcc, _ = sh(["./check", c, "--replay", rp], env=dict(os.environ, VERIF_REPO=REPO), cwd=a.verif_copy, timeout=900)
                    r["replay_mutant_rc"], r["replay_clean_rc"] = rcm, rcc
            rec["checks"][c] = r
        rec["caught"] = any(v["rc"] == 1 and v["violations"] > 0 for v in rec["checks"].values())
    finally:
        sh(["git", "-C", REPO, "worktree", "remove", "--force", tree])
        shutil.rmtree(tree, ignore_errors=True)
        if not a.keep_copy:
            pass
    print(json.dumps(rec, indent=1))


if __name__ == "__main__":
    main()
