#!/bin/bash
# Run one check against a scratch worktree of /repo with a patch applied, without touching /repo or evidence/.
# usage: tools/trymut.sh <Cxx> <patch.diff> [tier]
cd "$(dirname "$0")/.."
t=/tmp/trymut_$$
git -C /repo worktree add --detach $t HEAD > /dev/null 2>&1
git -C $t apply "$2" || { git -C /repo worktree remove --force $t; exit 3; }
VERIF_REPO=$t VERIF_EVIDENCE_DIR=/tmp/trymut_ev ./check $1 --tier ${3:-quick}
rc=$?
git -C /repo worktree remove --force $t
# regenerate the Lean data of the clean tree
exit $rc
