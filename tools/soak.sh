#!/bin/bash
# Soak: all quick checks for several seeds on the clean tree; prints one line per run. usage: tools/soak.sh "<seeds>" [tier]
cd "$(dirname "$0")/.."
tier=${2:-quick}
[ -x lean/.lake/build/bin/driver ] || ./setup.sh > /dev/null 2>&1
for s in $1; do
  for i in $(seq -w 1 20); do
    t0=$(date +%s)
    out=$(VERIF_SEED=$s ./check C$i --tier $tier 2>&1); rc=$?
    echo "seed=$s C$i rc=$rc $(( $(date +%s)-t0 ))s $(echo "$out" | grep -c '^VIOLATION') violations"
    if [ $rc != 0 ]; then echo "$out" | grep -v KNOWN-FINDING | tail -8; fi
  done
done
