#!/venv/bin/python
"""Summarise work/regress/*.json (tools/regress.sh): which kept seeded changes are still reported, and how."""
import glob
import json
import os
V = os.path.dirname(os.path.dirname(os.path.abspath(__file__)))
tot = {"concrete": 0, "nofail": 0, "missed": 0, "notconf": 0, "superseded": 0}
rows = []
for f in sorted(glob.glob(os.path.join(V, "work", "regress", "*.json"))):
    name = os.path.basename(f)[:-5]
    try:
        r = json.load(open(f))
    except Exception:  # noqa: BLE001
        rows.append((name, "unreadable"))
        continue
    try:
        meta = json.load(open(os.path.join(V, "seeded", name, "meta.json")))
    except Exception:  # noqa: BLE001
        meta = {}
    pid = r["property"]
    c = r.get("checks", {}).get(pid, {})
    conf = r.get("demo_clean_rc") == 0 and r.get("demo_mutant_rc") == 1 and r.get("tests_failed") == 0
    if meta.get("superseded"):
        tot["superseded"] += 1
        continue
    if not conf:
        tot["notconf"] += 1
        rows.append((name, "NOT CONFIRMED demo=%s/%s apply=%s tests=%s" % (r.get("demo_clean_rc"), r.get("demo_mutant_rc"), r.get("apply_rc"), r.get("tests_tail"))))
        continue
    if c.get("rc") == 1 and c.get("violations", 0) > 0 and not c.get("nofail_only"):
        rp = (c.get("replay_mutant_rc"), c.get("replay_clean_rc"))
        tot["concrete"] += 1
        if rp != (1, 0):
            rows.append((name, "concrete but replay %r" % (rp,), (c.get("detail") or [""])[0][:120]))
    elif c.get("rc") == 1:
        tot["nofail"] += 1
        rows.append((name, "no-failing-input", (c.get("detail") or [""])[0][:160]))
    else:
        tot["missed"] += 1
        rows.append((name, "MISSED rc=%s" % c.get("rc"), c.get("tail", "")[:160]))
print(tot)
for r in rows:
    print(*r)
