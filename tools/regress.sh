#!/bin/bash
# Re-evaluate kept seeded changes (seeded/<id>/patch.diff, demo.py) against the committed checks.
# usage: tools/regress.sh <worker-tag> <property ids...>   -> work/regress/<id>.json   (each worker has its own scratch copy of /verif)
cd /verif
tag=$1; shift
mkdir -p work/regress
for pid in "$@"; do
  for d in seeded/${pid}_*; do
    [ -f "$d/patch.diff" ] && [ -f "$d/demo.py" ] || continue
    id=$(basename "$d")
    out="work/regress/$id.json"
    [ -e "$out" ] && continue
    [ -e work/regress/STOP ] && exit 0
    /venv/bin/python tools/evalmut.py "$pid" "$d/patch.diff" "$d/demo.py" --verif-copy /tmp/verif_reg_$tag > "$out.tmp" 2> "work/regress/$id.err"
    mv "$out.tmp" "$out"
  done
done
