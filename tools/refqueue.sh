#!/bin/bash
# Evaluate harmless refactors produced by the refactor agents, one at a time, until work/refres/STOP exists.
cd /verif
mkdir -p work/refres
while [ ! -e work/refres/STOP ]; do
  found=0
  for d in /tmp/ref_C*/out/r*; do
    [ -f "$d/patch.diff" ] && [ -f "$d/equiv.py" ] && [ -f "$d/notes.json" ] || continue
    pid=$(echo "$d" | sed 's|/tmp/ref_\(C[0-9]*\)/out/.*|\1|')
    rk=$(basename "$d")
    out="work/refres/${pid}_${rk}.json"
    [ -e "$out" ] && continue
    [ -e work/refres/STOP ] && break
    found=1
    /venv/bin/python tools/evalref.py "$pid" "$d/patch.diff" "$d/equiv.py" > "$out.tmp" 2> "work/refres/${pid}_${rk}.err"
    mv "$out.tmp" "$out"
  done
  [ $found = 0 ] && sleep 30
done
