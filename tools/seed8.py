#!/venv/bin/python
"""Round-8 seeded changes: evaluate one sub-agent output directory (patch.diff, demo.py, meta.json) with tools/evalmut.py
and, when confirmed, keep it as seeded/<pid>_r<round>m<k>/.
usage: tools/seed8.py <pid> <k> <dir> [--round 8] [--tag t] [--checks C05,C06] [--reeval]   (writes work/mutres/<id>.json)"""
import argparse
import json
import os
import shutil
import subprocess

V = os.path.dirname(os.path.dirname(os.path.abspath(__file__)))


def main():
    ap = argparse.ArgumentParser()
    ap.add_argument("pid")
    ap.add_argument("k")
    ap.add_argument("dir")
    ap.add_argument("--round", default="8")
    ap.add_argument("--tag", default="s8")
    ap.add_argument("--checks")
    ap.add_argument("--reeval", action="store_true", help="evaluate seeded/<id> itself again (after strengthening a check)")
    a = ap.parse_args()
    name = "%s_r%sm%s" % (a.pid, a.round, a.k)
    dst = os.path.join(V, "seeded", name)
    src = dst if a.reeval else a.dir
    os.makedirs(os.path.join(V, "work", "mutres"), exist_ok=True)
    cmd = ["/venv/bin/python", os.path.join(V, "tools", "evalmut.py"), a.pid, os.path.join(src, "patch.diff"), os.path.join(src, "demo.py"),
           "--verif-copy", "/tmp/verif_mut_%s" % a.tag]
    if a.checks:
        cmd += ["--checks", a.checks]
    p = subprocess.run(cmd, capture_output=True, text=True)
    out = os.path.join(V, "work", "mutres", name + ".json")
    open(out, "w").write(p.stdout)
    open(out[:-5] + ".err", "w").write(p.stderr)
    try:
        r = json.loads(p.stdout)
    except ValueError:
        print(name, "EVALMUT FAILED", p.stderr[-300:])
        return
    confirmed = r.get("demo_clean_rc") == 0 and r.get("demo_mutant_rc") == 1 and r.get("tests_failed") == 0 and r.get("tests_passed", 0) >= 129
    if not confirmed:
        print(name, "NOT CONFIRMED", r.get("demo_clean_rc"), r.get("demo_mutant_rc"), r.get("tests_tail"), r.get("apply_out", ""))
        return
    os.makedirs(dst, exist_ok=True)
    if not a.reeval:
        shutil.copy(os.path.join(src, "patch.diff"), dst)
        shutil.copy(os.path.join(src, "demo.py"), dst)
    try:
        notes = json.load(open(os.path.join(src, "meta.json")))
    except Exception:  # noqa: BLE001
        notes = {}
    mp = os.path.join(dst, "meta.json")
    old = json.load(open(mp)) if (a.reeval and os.path.exists(mp)) else {}
    checks = dict(old.get("checks", {}))
    for c, v in r.get("checks", {}).items():
        checks[c] = {"exit": v["rc"], "violations": v["violations"], "only_no_failing_input": v.get("nofail_only"),
                     "first_detail": (v.get("detail") or [""])[0][:300], "replay_on_changed_tree": v.get("replay_mutant_rc"),
                     "replay_on_clean_tree": v.get("replay_clean_rc"), "wall_s": v.get("wall_s")}
    head = subprocess.run(["git", "-C", "/repo", "rev-parse", "--short", "HEAD"], capture_output=True, text=True).stdout.strip()
    meta = {"property": a.pid, "base_commit": old.get("base_commit", head), "summary": notes.get("summary", old.get("summary")),
            "needs": notes.get("needs", old.get("needs")), "files": notes.get("files", old.get("files")),
            "confirmed": {"demo_exit_on_clean_tree": 0, "demo_exit_with_change": 1, "existing_tests_passed_with_change": r.get("tests_passed"),
                          "existing_tests_failed_with_change": 0,
                          "how": "tools/evalmut.py: scratch git worktree of /repo HEAD, git apply patch.diff, PYTHONPATH=<tree>/src demo.py, pytest tests, VERIF_REPO=<tree> ./check <id> --tier quick in a scratch copy of the committed /verif, replay of the first violation on both trees"},
            "checks": checks,
            "caught_by": sorted(c for c, v in checks.items() if v["exit"] == 1 and v["violations"] > 0 and not v["only_no_failing_input"]),
            "caught_without_input_by": sorted(c for c, v in checks.items() if v["exit"] == 1 and v["only_no_failing_input"])}
    if "first_evaluation" in old:
        meta["first_evaluation"] = old["first_evaluation"]
    elif not a.reeval:
        meta["first_evaluation"] = ("concrete replay" if meta["caught_by"] else "reported without a failing input" if meta["caught_without_input_by"] else "missed")
    json.dump(meta, open(mp, "w"), indent=1)
    print(name, "kept", meta["caught_by"], meta["caught_without_input_by"],
          {c: (v["exit"], v["replay_on_changed_tree"], v["replay_on_clean_tree"], v["first_detail"][:160]) for c, v in checks.items()})


if __name__ == "__main__":
    main()
