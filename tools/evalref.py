#!/venv/bin/python
"""Evaluate one harmless refactor: confirm it is behaviour preserving (equiv.py digest equal on both trees, test
suite passes) and run the registered check(s) against it in a scratch copy of /verif: a check must exit 0.
Usage: evalref.py <property> <patch.diff> <equiv.py> [--checks C03,C11] [--verif-copy DIR]"""
import argparse
import json
import os
import re
import shutil
import subprocess
import time

REPO = "/repo"
VERIF = os.path.dirname(os.path.dirname(os.path.abspath(__file__)))


def sh(cmd, **kw):
    p = subprocess.run(cmd, shell=isinstance(cmd, str), capture_output=True, text=True, **kw)
    return p.returncode, p.stdout + p.stderr


def main():
    ap = argparse.ArgumentParser()
    ap.add_argument("pid")
    ap.add_argument("patch")
    ap.add_argument("equiv")
    ap.add_argument("--checks")
    ap.add_argument("--tier", default="quick")
    ap.add_argument("--verif-copy", default="/tmp/verif_ref")
    a = ap.parse_args()
    tree = "/tmp/evalref_tree_%d" % os.getpid()
    rec = {"property": a.pid, "patch": os.path.abspath(a.patch)}
    sh(["git", "-C", REPO, "worktree", "remove", "--force", tree])
    sh(["git", "-C", REPO, "worktree", "add", "--detach", tree, "HEAD"])
    try:
        env = dict(os.environ, PYTHONPATH=os.path.join(REPO, "src"))
        rc0, out0 = sh(["/venv/bin/python", os.path.abspath(a.equiv)], env=env, cwd="/tmp", timeout=900)
        rc, out = sh(["git", "-C", tree, "apply", os.path.abspath(a.patch)])
        rec["apply_rc"] = rc
        if rc != 0:
            print(json.dumps(rec, indent=1))
            return
        envm = dict(os.environ, PYTHONPATH=os.path.join(tree, "src"))
        rc1, out1 = sh(["/venv/bin/python", os.path.abspath(a.equiv)], env=envm, cwd="/tmp", timeout=900)
        rec["equiv_same"] = (rc0 == rc1 == 0 and out0.strip() == out1.strip())
        rec["equiv_digest"] = out0.strip()[-80:]
        rc, out = sh("cd %s && /venv/bin/python -m pytest -q -p no:cacheprovider --timeout=900 tests 2>&1 | tail -3" % tree, env=envm, timeout=1800)
        m = re.search(r"(\d+) passed", out)
        rec["tests_passed"] = int(m.group(1)) if m else 0
        rec["tests_failed"] = int(re.search(r"(\d+) failed", out).group(1)) if re.search(r"(\d+) failed", out) else 0
        if not os.path.isdir(a.verif_copy):
            sh(["rsync", "-a", "--exclude", ".git", "--exclude", "replays", VERIF + "/", a.verif_copy + "/"])
        else:
            sh(["rsync", "-a", "--exclude", ".git", "--exclude", "replays", "--exclude", "lean/.lake", "--exclude", "lean/DS/Gen", "--exclude", "work",
                "--exclude", "evidence", VERIF + "/", a.verif_copy + "/"])
        rec["checks"] = {}
        for c in (a.checks or a.pid).split(","):
            t0 = time.time()
            envc = dict(os.environ, VERIF_REPO=tree)
            try:
                rc, out = sh(["./check", c, "--tier", a.tier], env=envc, cwd=a.verif_copy, timeout=3600)
            except subprocess.TimeoutExpired:
                rc, out = 124, "timeout"
            lines = out.split("\n")
            vio = [l for l in lines if l.startswith("VIOLATION")]
            detail = [lines[i + 1].strip()[:300] for i, l in enumerate(lines) if l.startswith("VIOLATION") and i + 1 < len(lines)]
            rec["checks"][c] = {"rc": rc, "violations": len(vio), "detail": detail[:3], "wall_s": round(time.time() - t0, 1), "tail": out.strip().split("\n")[-1][:300]}
        rec["false_alarm"] = any(v["rc"] != 0 for v in rec["checks"].values())
    finally:
        sh(["git", "-C", REPO, "worktree", "remove", "--force", tree])
        shutil.rmtree(tree, ignore_errors=True)
    print(json.dumps(rec, indent=1))


if __name__ == "__main__":
    main()
