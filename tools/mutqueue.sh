#!/bin/bash
# Evaluate seeded changes produced by the mutation agents, one at a time, until work/mutres/STOP exists.
cd /verif
while [ ! -e work/mutres/STOP ]; do
  found=0
  for d in /tmp/mut_C*/out/m*; do
    [ -f "$d/patch.diff" ] && [ -f "$d/demo.py" ] && [ -f "$d/notes.json" ] || continue
    pid=$(echo "$d" | sed 's|/tmp/mut_\(C[0-9]*\)/out/\(m[0-9]*\)|\1|')
    mk=$(basename "$d")
    out="work/mutres/${pid}_${mk}.json"
    [ -e "$out" ] && continue
    found=1
    /venv/bin/python tools/evalmut.py "$pid" "$d/patch.diff" "$d/demo.py" > "$out.tmp" 2> "work/mutres/${pid}_${mk}.err"
    mv "$out.tmp" "$out"
  done
  [ $found = 0 ] && sleep 30
done
