#!/bin/bash
# Evaluate seeded changes produced by the mutation agents (rounds 1 and 2), one at a time, until work/mutres/STOP exists.
cd /verif
while [ ! -e work/mutres/STOP ]; do
  found=0
  for d in /tmp/mut_C*/out/m* /tmp/mut2_C*/out/m*; do
    [ -f "$d/patch.diff" ] && [ -f "$d/demo.py" ] && [ -f "$d/notes.json" ] || continue
    pid=$(echo "$d" | sed 's|/tmp/mut2\?_\(C[0-9]*\)/out/.*|\1|')
    mk=$(basename "$d")
    case "$d" in /tmp/mut2_*) mk="r2$mk";; esac
    out="work/mutres/${pid}_${mk}.json"
    [ -e "$out" ] && continue
    [ -e work/mutres/STOP ] && break
    found=1
    /venv/bin/python tools/evalmut.py "$pid" "$d/patch.diff" "$d/demo.py" > "$out.tmp" 2> "work/mutres/${pid}_${mk}.err"
    mv "$out.tmp" "$out"
  done
  [ $found = 0 ] && sleep 30
done
