#!/bin/bash
# Evaluate seeded changes produced by the mutation agents, one at a time, until work/mutres/STOP exists.
# usage: tools/mutqueue.sh <worker-tag> <property ids...>   (each worker uses its own scratch copy of /verif)
cd /verif
tag=$1; shift
mkdir -p work/mutres
while [ ! -e work/mutres/STOP ]; do
  found=0
  for pid in "$@"; do
   for d in /tmp/mut_$pid/out/m* /tmp/mut2_$pid/out/m* /tmp/mut3_$pid/out/m* /tmp/mut5_$pid/out/m* /tmp/mut6_$pid/out/m* /tmp/mut7_$pid/out/m*; do
    [ -f "$d/patch.diff" ] && [ -f "$d/demo.py" ] && [ -f "$d/notes.json" ] || continue
    mk=$(basename "$d")
    case "$d" in /tmp/mut2_*) mk="r2$mk";; /tmp/mut3_*) mk="r3$mk";; /tmp/mut5_*) mk="r5$mk";; /tmp/mut6_*) mk="r6$mk";; /tmp/mut7_*) mk="r7$mk";; esac
    out="work/mutres/${pid}_${mk}.json"
    [ -e "$out" ] && continue
    [ -e work/mutres/STOP ] && break
    found=1
    /venv/bin/python tools/evalmut.py "$pid" "$d/patch.diff" "$d/demo.py" --verif-copy /tmp/verif_mut_$tag > "$out.tmp" 2> "work/mutres/${pid}_${mk}.err"
    mv "$out.tmp" "$out"
   done
  done
  [ $found = 0 ] && sleep 30
done
