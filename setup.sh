#!/bin/sh
# Build the framework offline: regenerate Lean data from /repo, build all Lean targets and the driver.
set -e
cd "$(dirname "$0")"
/venv/bin/python translate/tables.py
/venv/bin/python translate/latpar.py
/venv/bin/python translate/screw.py
/venv/bin/python translate/equiv.py
/venv/bin/python translate/lookup.py
/venv/bin/python translate/handlers.py
/venv/bin/python translate/registry.py
/venv/bin/python translate/protocol.py
/venv/bin/python translate/cli.py
/venv/bin/python translate/sinks.py
/venv/bin/python translate/pysrc.py > /dev/null
cd lean
lake build DS driver
