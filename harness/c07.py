"""C07 — reading a CIF yields the full cell, independent of how the CIF says it.

Lean: DS.Model.Cif (expansion of the asymmetric unit = composition of the C02 orbit model and the
C06 tensor rotation, labels), DS.Props.C07.  Tie: CIF texts rendered from abstract crystals in many
spellings (operator list in both CIF dictionaries' names, H-M symbol, IT number, U vs B, fractional vs
Cartesian, esd suffixes, shuffled columns and loop order, adp-type column present/absent) are parsed
by the real P_cif and compared with the model; all spellings of one crystal are compared with each
other.  Oracle: independent expansion with exact fractions (orbit + R U R^T).
"""
import json
import math
import os
import sys
from fractions import Fraction

import numpy

from . import common, strata
from . import symcommon as sc
from .c02 import oracle_classes, lcm
from .c03 import G0, cell_of_metric, invariant_metric
from .c06 import group_average
from .c05 import exact_stabiliser

ELEMS = [("Na1+", "Na"), ("O2-", "O"), ("C", "C"), ("Fe3+", "Fe"), ("Cl1-", "Cl"), ("Si", "Si"), ("H", "H"), ("Zr", "Zr")]
B2U = 1.0 / (8 * math.pi ** 2)


def make_crystal(ck, sg, st):
    """abstract crystal: compatible cell, 1-3 sites on different strata with allowed tensors."""
    cell = cell_of_metric(invariant_metric(sg, G0))
    nsite = min(len(st), ck.rng.choice([1, 2, 2, 3]))
    chosen = ck.rng.sample(range(len(st)), nsite)
    sites = []
    cnt = {}
    for c in chosen:
        x0 = [strata.frac(p) for p in st[c]["xyz"]]
        # keep 8 decimals: what the CIF text will carry (still within eps of the special position)
        tsym, el = ck.rng.choice(ELEMS)
        cnt[el] = cnt.get(el, 0) + 1
        label = "%s%d" % (el, cnt[el])
        occ = ck.rng.choice([Fraction(1), Fraction(1, 2), Fraction(3, 4), Fraction(1, 4)])
        stab = exact_stabiliser(sg, x0)
        mode = ck.rng.choice(["iso", "aniso", "aniso", "none"])
        # entries are multiples of 48e-6 so that the average over a site-symmetry group (order divides 48)
        # is an exact multiple of 1e-6 and is printed exactly: the CIF carries an exactly allowed tensor
        v = [Fraction(48 * ck.rng.randrange(-80, 81), 10 ** 6) for _ in range(6)]
        d0 = Fraction(48 * 417, 10 ** 6)
        Ur = [[v[0] + d0, v[3], v[4]], [v[3], v[1] + d0, v[5]], [v[4], v[5], v[2] + d0]]
        Uallowed = group_average(sg, stab, Ur)
        assert all((u * 10 ** 6).denominator == 1 for r in Uallowed for u in r)
        sites.append({"label": label, "tsym": tsym, "x": x0, "occ": occ, "mode": mode, "U": Uallowed,
                      "uiso": Fraction(ck.rng.randrange(10, 400), 10000), "nstab": len(stab)})
        if ck.rng.random() < 0.3:
            # mixed site: another species at the SAME position with its own occupancy and ADPs
            tsym2, el2 = ck.rng.choice([e for e in ELEMS if e[1] != el])
            cnt[el2] = cnt.get(el2, 0) + 1
            v2 = [Fraction(48 * ck.rng.randrange(-80, 81), 10 ** 6) for _ in range(6)]
            d2 = Fraction(48 * 625, 10 ** 6)
            Ur2 = [[v2[0] + d2, v2[3], v2[4]], [v2[3], v2[1] + d2, v2[5]], [v2[4], v2[5], v2[2] + d2]]
            sites.append({"label": "%s%d" % (el2, cnt[el2]), "tsym": tsym2, "x": x0, "occ": 1 - occ if occ < 1 else Fraction(1, 2),
                          "mode": mode, "U": group_average(sg, stab, Ur2),
                          "uiso": Fraction(ck.rng.randrange(10, 400), 10000), "nstab": len(stab)})
    return {"cell": cell, "sites": sites}


def num(v, nd=8):
    return "%.*f" % (nd, float(v))


def esd(v, nd, ck):
    return "%.*f(%d)" % (nd, float(v), ck.rng.randrange(1, 30))


def number_stream(ck):
    """every spelling of a CIF number x standard-uncertainty suffix: the value read is the value of the number text.
    Model: DS.CifNum.floatMatch (the regular expression of leading_float) through the driver; oracle: Python's float()."""
    from diffpy.structure.parsers.p_cif import leading_float

    signs = ["", "+", "-"]
    mants = ["5", "5.", "5.0", ".5", "0.005", "12.345", "005", "0", "0.", ".0", "7.25000"]
    exps = ["", "e-3", "E-3", "e3", "e+3", "E+03", "E0"]
    sufs = ["", "(2)", "(12)", "(3)  "]
    cases = [(sg + m + e, sf) for sg in signs for m in mants for e in exps for sf in sufs]
    lines = ["cifnum.prefix " + w + sf.strip() for w, sf in cases]
    try:
        outs = common.driver(lines)
    except common.DriverBroken:
        outs = [None] * len(lines)
    n = 0
    for (w, sf), o in zip(cases, outs):
        n += 1
        text = w + sf
        want = float(w)
        repl = {"kind": "number", "text": text, "expected": want}
        try:
            got = leading_float(text)
        except Exception as e:  # noqa: BLE001
            ck.fail("number:%s" % type(e).__name__, "leading_float(%r) raised %r" % (text, e), dict(repl, observed=repr(e)))
            continue
        if got != want:
            ck.fail("number:value", "leading_float(%r) = %r, the number written is %r" % (text, got, want), dict(repl, observed=got))
        elif o is not None and o != w:
            ck.fail("number:model", "model prefix of %r is %r, the implementation reads %r" % (text, o, w),
                    dict(repl, model=o, theorem="correspondence stream cifnum.prefix"), no_failing_input=True)
    ck.coverage["evaluations"] += n
    ck.coverage["traces_validated_against_impl"] += n
    ck.coverage["number_spellings"] = n


def render(ck, sg, cr, sp):
    """CIF text for crystal `cr` in spelling `sp` (dict of choices)."""
    a, b, c, al, be, ga = cr["cell"]
    from diffpy.structure import Lattice

    lat = Lattice(a, b, c, al, be, ga)
    L = ["data_test"]
    f = (lambda v, nd=8: esd(v, nd, ck)) if sp["esd"] else num
    cellitems = [("_cell_length_a", a), ("_cell_length_b", b), ("_cell_length_c", c),
                 ("_cell_angle_alpha", al), ("_cell_angle_beta", be), ("_cell_angle_gamma", ga)]
    celltxt = ["%-28s %s" % (k, f(v, 10)) for k, v in cellitems]
    # symmetry
    sym = []
    if sp["sym"] in ("ops", "ops2"):
        name = "_symmetry_equiv_pos_as_xyz" if sp["sym"] == "ops" else "_space_group_symop_operation_xyz"
        from .c11 import xyz_text

        ops = [sg.symop_list[j] for j in sp["op_order"]] if sp.get("op_order") else list(sg.symop_list)
        sym += ["loop_", name] + ["'%s'" % xyz_text(o, sp.get("textstyle", 0)) for o in ops]
    if sp.get("plusnumber"):
        sym += ["_symmetry_Int_Tables_number %d" % (sg.number % 1000), "_symmetry_space_group_name_H-M '%s'" % sg.pdb_name]
    if sp["sym"] == "hm":
        sym += ["_symmetry_space_group_name_H-M '%s'" % sg.short_name]
    elif sp["sym"] == "hmfull":
        sym += ["_space_group_name_H-M_alt '%s'" % sg.pdb_name]
    elif sp["sym"] == "number":
        sym += ["_space_group_IT_number %d" % sg.number]
    # atom loop
    cols = ["_atom_site_label", "_atom_site_type_symbol"]
    cols += ["_atom_site_Cartn_x", "_atom_site_Cartn_y", "_atom_site_Cartn_z"] if sp["cartn"] else \
        ["_atom_site_fract_x", "_atom_site_fract_y", "_atom_site_fract_z"]
    cols += ["_atom_site_B_iso_or_equiv" if sp["B"] else "_atom_site_U_iso_or_equiv", "_atom_site_occupancy"]
    if sp["adptype"]:
        cols.append("_atom_site_adp_type")
    order = list(range(len(cols)))
    if sp["shufcols"]:
        ck.rng.shuffle(order)
    rows = []
    for s in cr["sites"]:
        xyz = [float(v) for v in s["x"]]
        if sp["cartn"]:
            pos = lat.cartesian(xyz)
            pv = [f(v, 10) for v in pos]
        else:
            pv = [f(v, 10) for v in xyz]
        if s["mode"] == "aniso":
            ueq = float(sum(s["U"][i][i] for i in range(3))) / 3  # informational; overwritten by the aniso loop
        elif s["mode"] == "iso":
            ueq = float(s["uiso"])
        else:
            ueq = 0.0
        uv = f(ueq / B2U if sp["B"] else ueq, 8)
        vals = [s["label"], s["tsym"]] + pv + [uv, f(s["occ"], 4)]
        if sp["adptype"]:
            vals.append(("Bani" if sp["B"] else "Uani") if s["mode"] == "aniso" else ("Biso" if sp["B"] else "Uiso"))
        rows.append(" ".join(vals[i] for i in order))
    atomloop = ["loop_"] + [cols[i] for i in order] + rows
    # aniso loop
    an = [s for s in cr["sites"] if s["mode"] == "aniso"]
    anloop = []
    if an:
        pre = "_atom_site_aniso_B_" if sp["B"] else "_atom_site_aniso_U_"
        acols = ["_atom_site_aniso_label"] + [pre + ij for ij in ("11", "22", "33", "12", "13", "23")]
        aorder = list(range(len(acols)))
        if sp["shufcols"]:
            ck.rng.shuffle(aorder)
        arows = []
        for s in an:
            U = s["U"]
            comps = [U[0][0], U[1][1], U[2][2], U[0][1], U[0][2], U[1][2]]
            vals = [s["label"]] + [f(float(u) / B2U if sp["B"] else float(u), 8) for u in comps]
            arows.append(" ".join(vals[i] for i in aorder))
        anloop = ["loop_"] + [acols[i] for i in aorder] + arows
    blocks = [celltxt, sym, atomloop, anloop]
    if sp["shufloops"]:
        # the Cartesian setter needs the lattice, which the reader takes from the block dictionary
        # independent of text order; shuffle all sections
        ck.rng.shuffle(blocks)
    for bl in blocks:
        L += bl + [""]
    return "\n".join(L) + "\n"


def classes_in_order(sg, x0, order):
    """exact orbit with the operations taken in the given order (the order of the CIF operator loop)"""
    from .c02 import exact_ops, apply

    ops = exact_ops(sg)
    pos, cls, index = [], [], {}
    for i in order:
        p = apply(ops[i], x0, (Fraction(0),) * 3)
        if p not in index:
            index[p] = len(pos)
            pos.append(p)
            cls.append([])
        cls[index[p]].append(i)
    return pos, cls


def expected(sg, cr, adptype, op_order=None):
    """Oracle: independent exact expansion. Returns list of atom dicts."""
    out = []
    for s in cr["sites"]:
        if op_order:
            opos, ocls = classes_in_order(sg, s["x"], op_order)
        else:
            opos, ocls = oracle_classes(sg, s["x"], (Fraction(0),) * 3)
        el = s["tsym"][:1].upper() + s["tsym"][1:].lower()
        for j, (p, cl) in enumerate(zip(opos, ocls)):
            lab = s["label"] if j == 0 else "%s_%d" % (s["label"], j + 1)
            R, _ = sc.exact_op(sg.symop_list[cl[0]])
            if s["mode"] == "aniso":
                U = sc.rotT(R, s["U"])
                kind = "aniso"
            elif s["mode"] == "iso":
                U = s["uiso"]
                kind = "iso"
            else:
                U = Fraction(0)
                kind = "iso"
            out.append({"label": lab, "element": el, "xyz": p, "occ": s["occ"], "kind": kind, "U": U})
    return out


def compare(stru, exp, lat_tol=1e-7):
    """Oracle comparison of a parsed structure with the expected atom list. Returns problem or None."""
    if len(stru) != len(exp):
        return "%d atoms, the union of the orbits has %d" % (len(stru), len(exp))
    labels = [a.label for a in stru]
    if len(set(labels)) != len(labels):
        return "labels are not unique: %r" % (labels,)
    for i, (a, e) in enumerate(zip(stru, exp)):
        if sc.pdist(a.xyz, e["xyz"]) > 2e-7:
            return "atom %d at %r, expected orbit point %r" % (i, a.xyz.tolist(), [float(v) for v in e["xyz"]])
        if a.element != e["element"]:
            return "atom %d element %r, parent has %r" % (i, a.element, e["element"])
        if a.label != e["label"]:
            return "atom %d label %r, expected %r" % (i, a.label, e["label"])
        if abs(a.occupancy - float(e["occ"])) > 1e-9:
            return "atom %d occupancy %r, parent has %r" % (i, a.occupancy, float(e["occ"]))
        if e["kind"] == "aniso":
            Ue = numpy.array([[float(v) for v in r] for r in e["U"]])
            if numpy.abs(a.U - Ue).max() > 2e-7:
                return "atom %d tensor %r, parent tensor rotated is %r" % (i, a.U.tolist(), Ue.tolist())
        else:
            if abs(a.Uisoequiv - float(e["U"])) > 2e-7:
                return "atom %d Uiso %r, parent has %r" % (i, a.Uisoequiv, float(e["U"]))
    return None


def same_structure(s1, s2):
    if len(s1) != len(s2):
        return "atom counts %d / %d" % (len(s1), len(s2))
    for i, (a, b) in enumerate(zip(s1, s2)):
        if sc.pdist(a.xyz, b.xyz) > 2e-7 or a.element != b.element or a.label != b.label or abs(a.occupancy - b.occupancy) > 1e-9:
            return "atom %d differs: %r %r %r / %r %r %r" % (i, a.label, a.element, a.xyz.tolist(), b.label, b.element, b.xyz.tolist())
        if numpy.abs(a.U - b.U).max() > 5e-7:
            return "atom %d tensors differ: %r / %r" % (i, a.U.tolist(), b.U.tolist())
    if numpy.abs(numpy.array(s1.lattice.abcABG()) - numpy.array(s2.lattice.abcABG())).max() > 1e-6:
        return "lattices differ"
    return None


def spellings(ck, sg, unique_hm, unique_full, number_ok):
    base = {"sym": "ops", "esd": False, "B": False, "cartn": False, "adptype": True, "shufcols": False, "shufloops": False}
    sps = [dict(base)]
    sps.append(dict(base, sym="ops2", esd=True, shufcols=True))
    sps.append(dict(base, B=True, shufloops=True))
    sps.append(dict(base, cartn=True, esd=True))
    sps.append(dict(base, adptype=False))
    if 0 < sg.number % 1000 <= 230:
        sps.append(dict(base, plusnumber=True))
    if unique_hm:
        sps.append(dict(base, sym="hm", shufcols=True))
    if unique_full:
        sps.append(dict(base, sym="hmfull", B=True, cartn=True))
    if number_ok:
        sps.append(dict(base, sym="number", esd=True, shufloops=True))
    order = list(range(len(sg.symop_list)))
    ck.rng.shuffle(order)
    sps.append(dict(base, sym="ops", op_order=order, textstyle=ck.rng.choice([1, 2, 3])))
    sps.append(dict(base, sym="ops2", textstyle=ck.rng.choice([1, 2, 3]), plusnumber=(0 < sg.number % 1000 <= 230)))
    if ck.tier == "thorough":
        sps.append(dict(base, sym="ops2", B=True, cartn=True, esd=True, shufcols=True, shufloops=True))
    return sps


def model_line(sg, cr):
    q = 100000
    for s in cr["sites"]:
        for v in s["x"]:
            q = lcm(q, Fraction(v).denominator)
    k = q
    D = 24 * k
    E = D // 100000
    parts = ["cif.expand %d %d %d" % (sg.number, k, E)]
    for s in cr["sites"]:
        xi = [int(Fraction(v) * D) for v in s["x"]]
        if s["mode"] == "aniso":
            U = s["U"]
            an = 1
        else:
            u = s["uiso"] if s["mode"] == "iso" else Fraction(0)
            U = [[u, 0, 0], [0, u, 0], [0, 0, u]]  # placeholder carried unchanged by the model for isotropic sites
            an = 0
        parts.append("%d %d %d %d %s %s" % (xi[0], xi[1], xi[2], an, " ".join(sc.qstr(Fraction(v)) for r in U for v in r), sc.qstr(s["occ"])))
    return " ".join(parts), D


def run(ck):
    sys.path.insert(0, common.VERIF)
    from translate import tables

    gen = os.path.join(common.LEAN, "DS", "Gen")
    rep = tables.main(gen, os.path.join(gen, "tables_report.json"))
    translated = {s["number"] for s in rep["settings"]}
    ok, info = ck.lean_obligations("DS.Props.C07")
    tie_ok, tie_info = ck.source_tie("DS.Props.SrcCif")   # the number reader the esd theorem is about
    import diffpy.structure.spacegroups as S
    from diffpy.structure.parsers import getParser
    from diffpy.structure.spacegroups import GetSpaceGroup

    allstrata = strata.all_strata(S.SpaceGroupList)
    sgl = list(S.SpaceGroupList)
    if ck.tier == "quick":
        # cycle through the settings over seeds; always include a few large groups
        pick = [g for i, g in enumerate(sgl) if (i + ck.seed) % 4 == 0]
    else:
        pick = sgl
    number_stream(ck)
    lines, meta = [], []
    nsp = 0
    spell_count = {}
    for sg in pick:
        st = allstrata.get(sg.number)
        if not st:
            continue
        cr = make_crystal(ck, sg, st)

        def resolves(ident):
            try:
                return GetSpaceGroup(ident) is sg
            except ValueError:
                return False

        sps = spellings(ck, sg, resolves(sg.short_name), resolves(sg.pdb_name), resolves(sg.number) and resolves(str(sg.number)))
        exp = None
        first = None
        for sp in sps:
            nsp += 1
            ck.coverage["evaluations"] += 1
            spell_count[sp["sym"]] = spell_count.get(sp["sym"], 0) + 1
            text = render(ck, sg, cr, sp)
            key = "cif:%s:%s" % (sg.number, "+".join(k for k, v in sorted(sp.items()) if v is True) + ":" + sp["sym"])
            exp_sp = expected(sg, cr, sp["adptype"], sp.get("op_order"))
            repl = {"kind": "input", "setting": sg.number, "spelling": sp, "cif": text,
                    "expected": [{"label": e["label"], "element": e["element"], "xyz": [str(v) for v in e["xyz"]], "occ": str(e["occ"]), "kind": e["kind"],
                                  "U": ([[str(v) for v in r] for r in e["U"]] if e["kind"] == "aniso" else str(e["U"]))} for e in exp_sp]}
            p = getParser("cif")
            try:
                stru = p.parse(text)
            except Exception as e:
                ck.fail(key, "CIF of %s #%s in spelling %r is rejected: %r" % (sg.short_name, sg.number, sp, e), repl)
                continue
            if stru is None:
                ck.fail(key, "CIF of %s #%s in spelling %r gives no structure" % (sg.short_name, sg.number, sp), repl)
                continue
            prob = compare(stru, exp_sp)
            if prob is None and not sp.get("op_order"):
                sgp = p.spacegroup
                if sgp is not sg and sorted(str(o) for o in sgp.symop_list) != sorted(str(o) for o in sg.symop_list):
                    prob = "parser.spacegroup is #%s, not the tabulated setting #%s" % (getattr(sgp, "number", None), sg.number)
                elif sp["sym"] in ("ops", "ops2") and sgp is not sg:
                    prob = "space group is not identified as the tabulated setting object (got %r)" % (sgp.short_name,)
            if prob:
                ck.fail(key, "CIF of %s #%s (%s): %s" % (sg.short_name, sg.number, sp["sym"], prob), dict(repl, detail=prob))
                continue
            if sp.get("op_order"):
                continue  # a different operator order legitimately changes the order of the images
            if first is None:
                first = (stru, sp, text)
            else:
                d = same_structure(first[0], stru)
                if d:
                    ck.fail("spelling:%s" % sg.number, "two spellings of the same crystal (%s #%s) give different structures: %s" % (sg.short_name, sg.number, d),
                            dict(repl, other_spelling=first[1], other_cif=first[2], detail=d))
        if first is not None and sg.number in translated:
            ln, D = model_line(sg, cr)
            lines.append(ln)
            meta.append((sg, cr, D, first[0]))
    nreuse = reuse_stream(ck, pick, allstrata, getParser)
    ck.coverage["evaluations"] += nreuse
    try:
        outs = common.driver(lines)
    except common.DriverBroken as e:
        outs = None
        ck.notes.append("driver unavailable: %s" % str(e)[:300])
    if outs is not None:
        for ln, o, (sg, cr, D, stru) in zip(lines, outs, meta):
            ck.coverage["traces_validated_against_impl"] += 1
            prob = None
            try:
                atoms = [a.split() for a in o.split(";")] if o else []
                if len(atoms) != len(stru):
                    prob = "model has %d atoms, implementation %d" % (len(atoms), len(stru))
                else:
                    for i, (ma, a) in enumerate(zip(atoms, stru)):
                        si, ji = int(ma[0]), int(ma[1])
                        pos = [Fraction(int(v), D) for v in ma[2:5]]
                        if sc.pdist(pos, a.xyz) > 2e-7:
                            prob = "atom %d position: model %r, implementation %r" % (i, [float(v) for v in pos], a.xyz.tolist())
                            break
                        lab = cr["sites"][si]["label"] + ("" if ji == 0 else "_%d" % (ji + 1))
                        if lab != a.label:
                            prob = "atom %d label: model %r, implementation %r" % (i, lab, a.label)
                            break
                        if ma[6] == "1":
                            U = numpy.array([float(Fraction(v)) for v in ma[7:16]]).reshape(3, 3)
                            if numpy.abs(U - a.U).max() > 2e-7:
                                prob = "atom %d tensor: model %r, implementation %r" % (i, U.tolist(), a.U.tolist())
                                break
            except Exception as e:
                prob = "unparsable model output (%r)" % (e,)
            if prob:
                ck.fail("model-cif:%s" % sg.number, "Lean model DS.Model.Cif disagrees with P_cif on %s #%s although the oracle accepts the implementation: %s" % (sg.short_name, sg.number, prob),
                        {"kind": "correspondence", "driver_line": ln[:2000], "model": o[:2000], "theorem": "correspondence stream cif.expand"}, no_failing_input=True)
    ck.coverage["distinct_nontrivial"] = nsp
    ck.coverage["rule"] = ("%d settings (every 4th of the 514 in quick, offset by the seed; all in thorough) x one random crystal (compatible cell, 1-3 sites on different Wyckoff strata, "
                           "ions, partial occupancies, iso/aniso/absent ADPs with allowed tensors) x spellings %r; each parse compared with the exact oracle, all spellings "
                           "compared pairwise, one model comparison per crystal; distinct_nontrivial = CIF texts parsed" % (len(pick), sorted(spell_count.items())))
    ck.coverage["samples"] = [{"driver": lines[0][:300], "model": outs[0][:300] if outs else None}] if lines else []
    ck.assumptions += ["PyCifRW tokenisation (loop/column order independence at text level rests on it) is covered only by the differential",
                       "tensors given in the CIF are symmetry-allowed (valid CIF); a tensor that violates the site symmetry is projected by the reader (C06)",
                       "coordinates are printed with 10 decimals; comparison tolerance 2e-7"]
    ck.coverage["trusted_base"] += ["translate/tables.py", "harness/strata.py (generator only)", "CIF renderer in harness/c07.py"]
    ck.tie_verdict(tie_ok, tie_info, "p_cif.py leading_float")
    if not ok and not ck.violations:
        ck.fail("lean-build", "Lean obligations of C07 no longer check: %r" % info["failed_modules"],
                {"kind": "proof-obligation", "theorem": info["failed_modules"], "errors": info["errors"]}, no_failing_input=True)


def reuse_stream(ck, pick, allstrata, getParser):
    """One parser object used for several files in a row (parseFile): every result must equal that of a fresh parser."""
    import shutil
    import tempfile

    base = {"sym": "ops", "esd": False, "B": False, "cartn": False, "adptype": True, "shufcols": False, "shufloops": False}
    tmp = tempfile.mkdtemp(prefix="c07_")
    n = 0
    try:
        groups = [g for g in pick if allstrata.get(g.number)][:: max(1, len(pick) // 25)]
        for sg in groups:
            cr = make_crystal(ck, sg, allstrata[sg.number])
            # the same labels with the ADP information given in different ways
            texts = []
            for adptype, forced in ((True, "iso"), (False, "aniso"), (True, None)):
                cr2 = {"cell": cr["cell"], "sites": [dict(s_, mode=(forced or s_["mode"])) for s_ in cr["sites"]]}
                texts.append((render(ck, sg, cr2, dict(base, adptype=adptype)), cr2, adptype))
            shared = getParser("cif")
            hist = []
            for k, (text, cr2, adptype) in enumerate(texts):
                path = os.path.join(tmp, "f%d_%d.cif" % (sg.number, k))
                with open(path, "w") as f:
                    f.write(text)
                hist.append(text)
                n += 1
                try:
                    s_shared = shared.parseFile(path)
                    s_fresh = getParser("cif").parseFile(path)
                except Exception as e:
                    ck.fail("cif-reuse:%s" % sg.number, "parseFile raised %r on a rendered CIF of #%s" % (e, sg.number),
                            {"kind": "history", "setting": sg.number, "stream": "reuse", "texts": hist})
                    break
                d = same_structure(s_fresh, s_shared) or compare(s_shared, expected(sg, cr2, adptype))
                if d:
                    ck.fail("cif-reuse:%s" % sg.number, "a P_cif object used for a second file gives a different structure than a fresh parser (%s #%s, file %d): %s" % (
                        sg.short_name, sg.number, k + 1, d), {"kind": "history", "setting": sg.number, "stream": "reuse", "texts": hist, "detail": d})
                    break
    finally:
        shutil.rmtree(tmp, ignore_errors=True)
    return n


def replay(path):
    common.use_repo()
    r = json.load(open(path))
    from diffpy.structure.parsers import getParser

    if r.get("kind") == "number":
        from diffpy.structure.parsers.p_cif import leading_float

        try:
            got = leading_float(r["text"])
        except Exception as e:  # noqa: BLE001
            print("leading_float(%r) raises %r" % (r["text"], e))
            return 1
        print("leading_float(%r) = %r, written value %r" % (r["text"], got, r["expected"]))
        return 0 if got == r["expected"] else 1
    if r.get("stream") == "reuse":
        import shutil
        import tempfile

        tmp = tempfile.mkdtemp(prefix="c07r_")
        try:
            shared = getParser("cif")
            bad = 0
            for k, text in enumerate(r["texts"]):
                pth = os.path.join(tmp, "f%d.cif" % k)
                open(pth, "w").write(text)
                d = same_structure(getParser("cif").parseFile(pth), shared.parseFile(pth))
                print("file %d:" % (k + 1), d)
                bad = bad or bool(d)
            return 1 if bad else 0
        finally:
            shutil.rmtree(tmp, ignore_errors=True)

    if "cif" not in r:
        print("no CIF text in replay")
        return 1
    p = getParser("cif")
    try:
        s = p.parse(r["cif"])
    except Exception as e:
        print("parse raised %r" % (e,))
        return 1
    if s is None:
        print("no structure")
        return 1
    print("parsed %d atoms; space group %r" % (len(s), getattr(p.spacegroup, "short_name", None)))
    exp = []
    for e in r.get("expected", []):
        U = [[Fraction(v) for v in row] for row in e["U"]] if e["kind"] == "aniso" else Fraction(e["U"])
        exp.append({"label": e["label"], "element": e["element"], "xyz": [Fraction(v) for v in e["xyz"]], "occ": Fraction(e["occ"]), "kind": e["kind"], "U": U})
    prob = compare(s, exp) if exp else None
    if prob is None and r.get("other_cif"):
        s2 = getParser("cif").parse(r["other_cif"])
        prob = same_structure(s2, s)
    print("problem:", prob)
    return 1 if prob else 0
