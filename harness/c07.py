"""C07 — reading a CIF yields the full cell, independent of how the CIF says it.

Lean: DS.Model.Cif (expansion of the asymmetric unit = composition of the C02 orbit model and the
C06 tensor rotation, labels), DS.Props.C07.  Tie: CIF texts rendered from abstract crystals in many
spellings (operator list in both CIF dictionaries' names, H-M symbol, IT number, U vs B, fractional vs
Cartesian, esd suffixes, shuffled columns and loop order, adp-type column present/absent) are parsed
by the real P_cif and compared with the model; all spellings of one crystal are compared with each
other.  Oracle: independent expansion with exact fractions (orbit + R U R^T).
"""
import json
import math
import os
import sys
from fractions import Fraction

import numpy

from . import common, strata
from . import symcommon as sc
from .c02 import oracle_classes, lcm
from .c03 import G0, cell_of_metric, invariant_metric
from .c06 import group_average
from .c05 import exact_stabiliser

ELEMS = [("Na1+", "Na"), ("O2-", "O"), ("C", "C"), ("Fe3+", "Fe"), ("Cl1-", "Cl"), ("Si", "Si"), ("H", "H"), ("Zr", "Zr")]
B2U = 1.0 / (8 * math.pi ** 2)


def make_crystal(ck, sg, st):
    """abstract crystal: compatible cell, 1-3 sites on different strata with allowed tensors."""
    cell = cell_of_metric(invariant_metric(sg, G0))
    nsite = min(len(st), ck.rng.choice([1, 2, 2, 3]))
    chosen = ck.rng.sample(range(len(st)), nsite)
    sites = []
    cnt = {}
    for c in chosen:
        x0 = [strata.frac(p) for p in st[c]["xyz"]]
        # keep 8 decimals: what the CIF text will carry (still within eps of the special position)
        tsym, el = ck.rng.choice(ELEMS)
        cnt[el] = cnt.get(el, 0) + 1
        label = "%s%d" % (el, cnt[el])
        occ = ck.rng.choice([Fraction(1), Fraction(1, 2), Fraction(3, 4), Fraction(1, 4)])
        stab = exact_stabiliser(sg, x0)
        mode = ck.rng.choice(["iso", "aniso", "aniso", "none"])
        # entries are multiples of 48e-6 so that the average over a site-symmetry group (order divides 48)
        # is an exact multiple of 1e-6 and is printed exactly: the CIF carries an exactly allowed tensor
        v = [Fraction(48 * ck.rng.randrange(-80, 81), 10 ** 6) for _ in range(6)]
        d0 = Fraction(48 * 417, 10 ** 6)
        Ur = [[v[0] + d0, v[3], v[4]], [v[3], v[1] + d0, v[5]], [v[4], v[5], v[2] + d0]]
        Uallowed = group_average(sg, stab, Ur)
        assert all((u * 10 ** 6).denominator == 1 for r in Uallowed for u in r)
        sites.append({"label": label, "tsym": tsym, "x": x0, "occ": occ, "mode": mode, "U": Uallowed,
                      "uiso": Fraction(ck.rng.randrange(10, 400), 10000), "nstab": len(stab)})
        if ck.rng.random() < 0.3:
            # mixed site: another species at the SAME position with its own occupancy and ADPs
            tsym2, el2 = ck.rng.choice([e for e in ELEMS if e[1] != el])
            cnt[el2] = cnt.get(el2, 0) + 1
            v2 = [Fraction(48 * ck.rng.randrange(-80, 81), 10 ** 6) for _ in range(6)]
            d2 = Fraction(48 * 625, 10 ** 6)
            Ur2 = [[v2[0] + d2, v2[3], v2[4]], [v2[3], v2[1] + d2, v2[5]], [v2[4], v2[5], v2[2] + d2]]
            sites.append({"label": "%s%d" % (el2, cnt[el2]), "tsym": tsym2, "x": x0, "occ": 1 - occ if occ < 1 else Fraction(1, 2),
                          "mode": mode, "U": group_average(sg, stab, Ur2),
                          "uiso": Fraction(ck.rng.randrange(10, 400), 10000), "nstab": len(stab)})
    return {"cell": cell, "sites": sites}


def num(v, nd=8):
    return "%.*f" % (nd, float(v))


def esd(v, nd, ck):
    return "%.*f(%d)" % (nd, float(v), ck.rng.randrange(1, 30))


def number_stream(ck):
    """every spelling of a CIF number x standard-uncertainty suffix: the value read is the value of the number text.
    Model: DS.CifNum.floatMatch (the regular expression of leading_float) through the driver; oracle: Python's float()."""
    from diffpy.structure.parsers.p_cif import leading_float

    signs = ["", "+", "-"]
    mants = ["5", "5.", "5.0", ".5", "0.005", "12.345", "005", "0", "0.", ".0", "7.25000"]
    exps = ["", "e-3", "E-3", "e3", "e+3", "E+03", "E0"]
    sufs = ["", "(2)", "(12)", "(3)  "]
    cases = [(sg + m + e, sf) for sg in signs for m in mants for e in exps for sf in sufs]
    lines = ["cifnum.prefix " + w + sf.strip() for w, sf in cases]
    try:
        outs = common.driver(lines)
    except common.DriverBroken:
        outs = [None] * len(lines)
    n = 0
    for (w, sf), o in zip(cases, outs):
        n += 1
        text = w + sf
        want = float(w)
        repl = {"kind": "number", "text": text, "expected": want}
        try:
            got = leading_float(text)
        except Exception as e:  # noqa: BLE001
            ck.fail("number:%s" % type(e).__name__, "leading_float(%r) raised %r" % (text, e), dict(repl, observed=repr(e)))
            continue
        if got != want:
            ck.fail("number:value", "leading_float(%r) = %r, the number written is %r" % (text, got, want), dict(repl, observed=got))
        elif o is not None and o != w:
            ck.fail("number:model", "model prefix of %r is %r, the implementation reads %r" % (text, o, w),
                    dict(repl, model=o, theorem="correspondence stream cifnum.prefix"), no_failing_input=True)
    ck.coverage["evaluations"] += n
    ck.coverage["traces_validated_against_impl"] += n
    ck.coverage["number_spellings"] = n


def render(ck, sg, cr, sp):
    """CIF text for crystal `cr` in spelling `sp` (dict of choices)."""
    a, b, c, al, be, ga = cr["cell"]
    from diffpy.structure import Lattice

    lat = Lattice(a, b, c, al, be, ga)
    L = ["data_test"]
    f = (lambda v, nd=8: esd(v, nd, ck)) if sp["esd"] else num
    cellitems = [("_cell_length_a", a), ("_cell_length_b", b), ("_cell_length_c", c),
                 ("_cell_angle_alpha", al), ("_cell_angle_beta", be), ("_cell_angle_gamma", ga)]
    celltxt = ["%-28s %s" % (k, f(v, 10)) for k, v in cellitems]
    # symmetry
    sym = []
    if sp["sym"] in ("ops", "ops2"):
        name = "_symmetry_equiv_pos_as_xyz" if sp["sym"] == "ops" else "_space_group_symop_operation_xyz"
        from .c11 import xyz_text

        ops = [sg.symop_list[j] for j in sp["op_order"]] if sp.get("op_order") else list(sg.symop_list)
        sym += ["loop_", name] + ["'%s'" % xyz_text(o, sp.get("textstyle", 0)) for o in ops]
    if sp.get("plusnumber"):
        sym += ["_symmetry_Int_Tables_number %d" % (sg.number % 1000), "_symmetry_space_group_name_H-M '%s'" % sg.pdb_name]
    if sp["sym"] == "hm":
        sym += ["_symmetry_space_group_name_H-M '%s'" % sg.short_name]
    elif sp["sym"] == "hmfull":
        sym += ["_space_group_name_H-M_alt '%s'" % sg.pdb_name]
    elif sp["sym"] == "number":
        sym += ["_space_group_IT_number %d" % sg.number]
    # atom loop
    cols = ["_atom_site_label", "_atom_site_type_symbol"]
    cols += ["_atom_site_Cartn_x", "_atom_site_Cartn_y", "_atom_site_Cartn_z"] if sp["cartn"] else \
        ["_atom_site_fract_x", "_atom_site_fract_y", "_atom_site_fract_z"]
    cols += ["_atom_site_B_iso_or_equiv" if sp["B"] else "_atom_site_U_iso_or_equiv", "_atom_site_occupancy"]
    if sp["adptype"]:
        cols.append("_atom_site_adp_type")
    order = list(range(len(cols)))
    if sp["shufcols"]:
        ck.rng.shuffle(order)
    rows = []
    for s in cr["sites"]:
        xyz = [float(v) for v in s["x"]]
        if sp["cartn"]:
            pos = lat.cartesian(xyz)
            pv = [f(v, 10) for v in pos]
        else:
            pv = [f(v, 10) for v in xyz]
        if s["mode"] == "aniso":
            ueq = float(sum(s["U"][i][i] for i in range(3))) / 3  # informational; overwritten by the aniso loop
        elif s["mode"] == "iso":
            ueq = float(s["uiso"])
        else:
            ueq = 0.0
        uv = f(ueq / B2U if sp["B"] else ueq, 8)
        vals = [s["label"], s["tsym"]] + pv + [uv, f(s["occ"], 4)]
        if sp["adptype"]:
            vals.append(("Bani" if sp["B"] else "Uani") if s["mode"] == "aniso" else ("Biso" if sp["B"] else "Uiso"))
        rows.append(" ".join(vals[i] for i in order))
    atomloop = ["loop_"] + [cols[i] for i in order] + rows
    # aniso loop
    an = [s for s in cr["sites"] if s["mode"] == "aniso"]
    anloop = []
    if an:
        pre = "_atom_site_aniso_B_" if sp["B"] else "_atom_site_aniso_U_"
        acols = ["_atom_site_aniso_label"] + [pre + ij for ij in ("11", "22", "33", "12", "13", "23")]
        aorder = list(range(len(acols)))
        if sp["shufcols"]:
            ck.rng.shuffle(aorder)
        arows = []
        for s in an:
            U = s["U"]
            comps = [U[0][0], U[1][1], U[2][2], U[0][1], U[0][2], U[1][2]]
            vals = [s["label"]] + [f(float(u) / B2U if sp["B"] else float(u), 8) for u in comps]
            arows.append(" ".join(vals[i] for i in aorder))
        anloop = ["loop_"] + [acols[i] for i in aorder] + arows
    blocks = [celltxt, sym, atomloop, anloop]
    if sp["shufloops"]:
        # the Cartesian setter needs the lattice, which the reader takes from the block dictionary
        # independent of text order; shuffle all sections
        ck.rng.shuffle(blocks)
    for bl in blocks:
        L += bl + [""]
    return "\n".join(L) + "\n"


def classes_in_order(sg, x0, order):
    """exact orbit with the operations taken in the given order (the order of the CIF operator loop)"""
    from .c02 import exact_ops, apply

    ops = exact_ops(sg)
    pos, cls, index = [], [], {}
    for i in order:
        p = apply(ops[i], x0, (Fraction(0),) * 3)
        if p not in index:
            index[p] = len(pos)
            pos.append(p)
            cls.append([])
        cls[index[p]].append(i)
    return pos, cls


def expected(sg, cr, adptype, op_order=None):
    """Oracle: independent exact expansion. Returns list of atom dicts."""
    out = []
    for s in cr["sites"]:
        if op_order:
            opos, ocls = classes_in_order(sg, s["x"], op_order)
        else:
            opos, ocls = oracle_classes(sg, s["x"], (Fraction(0),) * 3)
        el = s["tsym"][:1].upper() + s["tsym"][1:].lower()
        for j, (p, cl) in enumerate(zip(opos, ocls)):
            lab = s["label"] if j == 0 else "%s_%d" % (s["label"], j + 1)
            R, _ = sc.exact_op(sg.symop_list[cl[0]])
            if s["mode"] == "aniso":
                U = sc.rotT(R, s["U"])
                kind = "aniso"
            elif s["mode"] == "iso":
                U = s["uiso"]
                kind = "iso"
            else:
                U = Fraction(0)
                kind = "iso"
            out.append({"label": lab, "element": el, "xyz": p, "occ": s["occ"], "kind": kind, "U": U})
    return out


def compare(stru, exp, lat_tol=1e-7):
    """Oracle comparison of a parsed structure with the expected atom list. Returns problem or None."""
    if len(stru) != len(exp):
        return "%d atoms, the union of the orbits has %d" % (len(stru), len(exp))
    labels = [a.label for a in stru]
    if len(set(labels)) != len(labels):
        return "labels are not unique: %r" % (labels,)
    for i, (a, e) in enumerate(zip(stru, exp)):
        if sc.pdist(a.xyz, e["xyz"]) > 2e-7:
            return "atom %d at %r, expected orbit point %r" % (i, a.xyz.tolist(), [float(v) for v in e["xyz"]])
        if a.element != e["element"]:
            return "atom %d element %r, parent has %r" % (i, a.element, e["element"])
        if a.label != e["label"]:
            return "atom %d label %r, expected %r" % (i, a.label, e["label"])
        if abs(a.occupancy - float(e["occ"])) > 1e-9:
            return "atom %d occupancy %r, parent has %r" % (i, a.occupancy, float(e["occ"]))
        if e["kind"] == "aniso":
            Ue = numpy.array([[float(v) for v in r] for r in e["U"]])
            if numpy.abs(a.U - Ue).max() > 2e-7:
                return "atom %d tensor %r, parent tensor rotated is %r" % (i, a.U.tolist(), Ue.tolist())
        else:
            if abs(a.Uisoequiv - float(e["U"])) > 2e-7:
                return "atom %d Uiso %r, parent has %r" % (i, a.Uisoequiv, float(e["U"]))
    return None


def same_structure(s1, s2):
    if len(s1) != len(s2):
        return "atom counts %d / %d" % (len(s1), len(s2))
    for i, (a, b) in enumerate(zip(s1, s2)):
        if sc.pdist(a.xyz, b.xyz) > 2e-7 or a.element != b.element or a.label != b.label or abs(a.occupancy - b.occupancy) > 1e-9:
            return "atom %d differs: %r %r %r / %r %r %r" % (i, a.label, a.element, a.xyz.tolist(), b.label, b.element, b.xyz.tolist())
        if numpy.abs(a.U - b.U).max() > 5e-7:
            return "atom %d tensors differ: %r / %r" % (i, a.U.tolist(), b.U.tolist())
    if numpy.abs(numpy.array(s1.lattice.abcABG()) - numpy.array(s2.lattice.abcABG())).max() > 1e-6:
        return "lattices differ"
    return None


def spellings(ck, sg, unique_hm, unique_full, number_ok):
    base = {"sym": "ops", "esd": False, "B": False, "cartn": False, "adptype": True, "shufcols": False, "shufloops": False}
    sps = [dict(base)]
    sps.append(dict(base, sym="ops2", esd=True, shufcols=True))
    sps.append(dict(base, B=True, shufloops=True))
    sps.append(dict(base, cartn=True, esd=True))
    sps.append(dict(base, adptype=False))
    if 0 < sg.number % 1000 <= 230:
        sps.append(dict(base, plusnumber=True))
    if unique_hm:
        sps.append(dict(base, sym="hm", shufcols=True))
    if unique_full:
        sps.append(dict(base, sym="hmfull", B=True, cartn=True))
    if number_ok:
        sps.append(dict(base, sym="number", esd=True, shufloops=True))
    order = list(range(len(sg.symop_list)))
    ck.rng.shuffle(order)
    sps.append(dict(base, sym="ops", op_order=order, textstyle=ck.rng.choice([1, 2, 3])))
    sps.append(dict(base, sym="ops2", textstyle=ck.rng.choice([1, 2, 3]), plusnumber=(0 < sg.number % 1000 <= 230)))
    if ck.tier == "thorough":
        sps.append(dict(base, sym="ops2", B=True, cartn=True, esd=True, shufcols=True, shufloops=True))
    return sps


def model_line(sg, cr):
    q = 100000
    for s in cr["sites"]:
        for v in s["x"]:
            q = lcm(q, Fraction(v).denominator)
    k = q
    D = 24 * k
    E = D // 100000
    parts = ["cif.expand %d %d %d" % (sg.number, k, E)]
    for s in cr["sites"]:
        xi = [int(Fraction(v) * D) for v in s["x"]]
        if s["mode"] == "aniso":
            U = s["U"]
            an = 1
        else:
            u = s["uiso"] if s["mode"] == "iso" else Fraction(0)
            U = [[u, 0, 0], [0, u, 0], [0, 0, u]]  # placeholder carried unchanged by the model for isotropic sites
            an = 0
        parts.append("%d %d %d %d %s %s" % (xi[0], xi[1], xi[2], an, " ".join(sc.qstr(Fraction(v)) for r in U for v in r), sc.qstr(s["occ"])))
    return " ".join(parts), D


def run(ck):
    sys.path.insert(0, common.VERIF)
    from translate import tables

    gen = os.path.join(common.LEAN, "DS", "Gen")
    rep = tables.main(gen, os.path.join(gen, "tables_report.json"))
    translated = {s["number"] for s in rep["settings"]}
    ok, info = ck.lean_obligations("DS.Props.C07")
    tie_ok, tie_info = ck.source_tie("DS.Props.SrcCif")   # the number reader the esd theorem is about
    # row phase (26 setters, name table, site loop, aniso loop): theorems + source tie
    okr, infor = ck.lean_obligations("DS.Props.C07Row")
    tier_ok, tier_info = ck.source_tie("DS.Props.SrcCifRow", groups=("cifrow",))
    # the operator reader (T18): `SymText.parseSymOp` (symop_text_roundtrip) IS the current source of getSymOp
    ties_ok, ties_info = ck.source_tie("DS.Props.SrcSymOp", groups=("symop",))
    import diffpy.structure.spacegroups as S
    from diffpy.structure.parsers import getParser
    from diffpy.structure.spacegroups import GetSpaceGroup

    allstrata = strata.all_strata(S.SpaceGroupList)
    sgl = list(S.SpaceGroupList)
    if ck.tier == "quick":
        # cycle through the settings over seeds; always include a few large groups
        pick = [g for i, g in enumerate(sgl) if (i + ck.seed) % 4 == 0]
    else:
        pick = sgl
    number_stream(ck)
    lines, meta = [], []
    nsp = 0
    spell_count = {}
    for sg in pick:
        st = allstrata.get(sg.number)
        if not st:
            continue
        cr = make_crystal(ck, sg, st)

        def resolves(ident):
            try:
                return GetSpaceGroup(ident) is sg
            except ValueError:
                return False

        sps = spellings(ck, sg, resolves(sg.short_name), resolves(sg.pdb_name), resolves(sg.number) and resolves(str(sg.number)))
        exp = None
        first = None
        for sp in sps:
            nsp += 1
            ck.coverage["evaluations"] += 1
            spell_count[sp["sym"]] = spell_count.get(sp["sym"], 0) + 1
            text = render(ck, sg, cr, sp)
            key = "cif:%s:%s" % (sg.number, "+".join(k for k, v in sorted(sp.items()) if v is True) + ":" + sp["sym"])
            exp_sp = expected(sg, cr, sp["adptype"], sp.get("op_order"))
            repl = {"kind": "input", "setting": sg.number, "spelling": sp, "cif": text,
                    "expected": [{"label": e["label"], "element": e["element"], "xyz": [str(v) for v in e["xyz"]], "occ": str(e["occ"]), "kind": e["kind"],
                                  "U": ([[str(v) for v in r] for r in e["U"]] if e["kind"] == "aniso" else str(e["U"]))} for e in exp_sp]}
            p = getParser("cif")
            try:
                stru = p.parse(text)
            except Exception as e:
                ck.fail(key, "CIF of %s #%s in spelling %r is rejected: %r" % (sg.short_name, sg.number, sp, e), repl)
                continue
            if stru is None:
                ck.fail(key, "CIF of %s #%s in spelling %r gives no structure" % (sg.short_name, sg.number, sp), repl)
                continue
            prob = compare(stru, exp_sp)
            if prob is None and not sp.get("op_order"):
                sgp = p.spacegroup
                if sgp is not sg and sorted(str(o) for o in sgp.symop_list) != sorted(str(o) for o in sg.symop_list):
                    prob = "parser.spacegroup is #%s, not the tabulated setting #%s" % (getattr(sgp, "number", None), sg.number)
                elif sp["sym"] in ("ops", "ops2") and sgp is not sg:
                    prob = "space group is not identified as the tabulated setting object (got %r)" % (sgp.short_name,)
            if prob:
                ck.fail(key, "CIF of %s #%s (%s): %s" % (sg.short_name, sg.number, sp["sym"], prob), dict(repl, detail=prob))
                continue
            if sp.get("op_order"):
                continue  # a different operator order legitimately changes the order of the images
            if first is None:
                first = (stru, sp, text)
            else:
                d = same_structure(first[0], stru)
                if d:
                    ck.fail("spelling:%s" % sg.number, "two spellings of the same crystal (%s #%s) give different structures: %s" % (sg.short_name, sg.number, d),
                            dict(repl, other_spelling=first[1], other_cif=first[2], detail=d))
        if first is not None and sg.number in translated:
            ln, D = model_line(sg, cr)
            lines.append(ln)
            meta.append((sg, cr, D, first[0]))
    nreuse = reuse_stream(ck, pick, allstrata, getParser)
    ck.coverage["evaluations"] += nreuse
    # which symmetry the file is read with: theorems, source tie, stream
    oks, infos = ck.lean_obligations("DS.Props.C07Sym")
    # ... composed with the table theorems of C11 on the generated settings (any reordering of a tabulated list is that setting)
    okst, infost = ck.lean_obligations("DS.Props.C07SymTables")
    if not okst:
        oks = False
        infos = {**infos, "failed_modules": list(infos.get("failed_modules") or []) + list(infost.get("failed_modules") or ["DS.Props.C07SymTables"]),
                 "errors": list(infos.get("errors") or []) + list(infost.get("errors") or [])}
    tiesym_ok, tiesym_info = ck.source_tie("DS.Props.SrcCifSym", groups=("cifsym",))
    # the expansion step (T19): `DS.Cif.expand` IS the transliterated `_expandAsymmetricUnit` under the interface `EauOf`
    tieexp_ok, tieexp_info = ck.source_tie("DS.Props.SrcCifExpand", groups=("cifsym",))
    ck.coverage["evaluations"] += symsrc_stream(ck, sgl, allstrata, getParser) * (1 if (oks and tiesym_ok) else 1)
    # row phase: model vs reader before the expansion; wider when the source tie or the proofs are broken
    row_words_stream(ck)
    row_stream(ck, (500 if ck.tier == "quick" else 6000) * (1 if (tier_ok and okr) else 4))
    try:
        outs = common.driver(lines)
    except common.DriverBroken as e:
        outs = None
        ck.notes.append("driver unavailable: %s" % str(e)[:300])
    if outs is not None:
        for ln, o, (sg, cr, D, stru) in zip(lines, outs, meta):
            ck.coverage["traces_validated_against_impl"] += 1
            prob = None
            try:
                atoms = [a.split() for a in o.split(";")] if o else []
                if len(atoms) != len(stru):
                    prob = "model has %d atoms, implementation %d" % (len(atoms), len(stru))
                else:
                    for i, (ma, a) in enumerate(zip(atoms, stru)):
                        si, ji = int(ma[0]), int(ma[1])
                        pos = [Fraction(int(v), D) for v in ma[2:5]]
                        if sc.pdist(pos, a.xyz) > 2e-7:
                            prob = "atom %d position: model %r, implementation %r" % (i, [float(v) for v in pos], a.xyz.tolist())
                            break
                        lab = cr["sites"][si]["label"] + ("" if ji == 0 else "_%d" % (ji + 1))
                        if lab != a.label:
                            prob = "atom %d label: model %r, implementation %r" % (i, lab, a.label)
                            break
                        if ma[6] == "1":
                            U = numpy.array([float(Fraction(v)) for v in ma[7:16]]).reshape(3, 3)
                            if numpy.abs(U - a.U).max() > 2e-7:
                                prob = "atom %d tensor: model %r, implementation %r" % (i, U.tolist(), a.U.tolist())
                                break
            except Exception as e:
                prob = "unparsable model output (%r)" % (e,)
            if prob:
                ck.fail("model-cif:%s" % sg.number, "Lean model DS.Model.Cif disagrees with P_cif on %s #%s although the oracle accepts the implementation: %s" % (sg.short_name, sg.number, prob),
                        {"kind": "correspondence", "driver_line": ln[:2000], "model": o[:2000], "theorem": "correspondence stream cif.expand"}, no_failing_input=True)
    ck.coverage["distinct_nontrivial"] = nsp
    ck.coverage["rule"] = ("%d settings (every 4th of the 514 in quick, offset by the seed; all in thorough) x one random crystal (compatible cell, 1-3 sites on different Wyckoff strata, "
                           "ions, partial occupancies, iso/aniso/absent ADPs with allowed tensors) x spellings %r; each parse compared with the exact oracle, all spellings "
                           "compared pairwise, one model comparison per crystal; distinct_nontrivial = CIF texts parsed" % (len(pick), sorted(spell_count.items())))
    ck.coverage["samples"] = [{"driver": lines[0][:300], "model": outs[0][:300] if outs else None}] if lines else []
    ck.assumptions += ["PyCifRW tokenisation (loop/column order independence at text level rests on it) is covered only by the differential",
                       "tensors given in the CIF are symmetry-allowed (valid CIF); a tensor that violates the site symmetry is projected by the reader (C06)",
                       "coordinates are printed with 10 decimals; comparison tolerance 2e-7"]
    ck.coverage["trusted_base"] += ["translate/tables.py", "harness/strata.py (generator only)", "CIF renderer in harness/c07.py"]
    ck.tie_verdict(tie_ok, tie_info, "p_cif.py leading_float")
    ck.tie_verdict(tier_ok, tier_info, "p_cif.py atom-site setters, name table, site loop and aniso loop")
    ck.tie_verdict(ties_ok, ties_info, "p_cif.py getSymOp, _symop_constant, symvec and the two regular expressions")
    ck.tie_verdict(tiesym_ok, tiesym_info, "p_cif.py _parse_space_group_symop_operation_xyz (which symmetry the file is read with), _parseCifBlock")
    ck.tie_verdict(tieexp_ok, tieexp_info, "p_cif.py _expandAsymmetricUnit (images per site, label suffix, tensor rule, displacement-type default)")
    if not oks and not ck.violations:
        ck.fail("lean-build", "Lean obligations of C07 (symmetry source) no longer check: %r" % infos["failed_modules"],
                {"kind": "proof-obligation", "theorem": infos["failed_modules"], "errors": infos["errors"]}, no_failing_input=True)
    ck.assumptions += ["row phase: strings are ASCII (str.upper/lower/strip, \\d, [a-zA-Z] of the model); the number of a loop value is read by the harness with the CIF number grammar (the reader's own number reader is the cifnum stream)",
                       "row phase: the lattice attributes the Cartesian setters and the isotropic tensor use are read from a Lattice object built from the printed cell (lattice construction is C10's subject)",
                       "row phase: column-order independence holds only under DS.CifRow.RowShape; the four one-loop layouts outside it are the findings roworder:*"]
    ck.coverage["trusted_base"] += ["translate/src_cifrow.py (transliteration of the setters, name table, _get_atom_setters; loop methods as text)", "row-block renderer in harness/c07.py"]
    if not okr and not ck.violations:
        ck.fail("lean-build", "Lean obligations of C07 (row phase) no longer check: %r" % infor["failed_modules"],
                {"kind": "proof-obligation", "theorem": infor["failed_modules"], "errors": infor["errors"]}, no_failing_input=True)
    if not ok and not ck.violations:
        ck.fail("lean-build", "Lean obligations of C07 no longer check: %r" % info["failed_modules"],
                {"kind": "proof-obligation", "theorem": info["failed_modules"], "errors": info["errors"]}, no_failing_input=True)



# ---------------------------------------------------------------------------------------------------------------
# which symmetry the file is read with (DS.Model.CifSym / DS.Props.C07Sym / DS.Props.SrcCifSym)

def shifted_setting(sg, off):
    """the same space group referred to an origin shifted by `off` (exact fractions, multiples of 1/24):
    operations (R, t + off - R off) - an operator list that is in general NOT tabulated"""
    from diffpy.structure.spacegroupmod import SpaceGroup, SymOp

    ops = []
    for o in sg.symop_list:
        R, t = sc.exact_op(o)
        Ro = sc.matvec(R, off)
        t2 = [(t[i] + off[i] - Ro[i]) % 1 for i in range(3)]
        ops.append(SymOp(numpy.array([[float(v) for v in r] for r in R]), numpy.array([float(v) for v in t2])))
    return SpaceGroup(number=sg.number, num_sym_equiv=sg.num_sym_equiv, num_primitive_sym_equiv=sg.num_primitive_sym_equiv,
                      short_name=sg.short_name, point_group_name=sg.point_group_name, crystal_system=sg.crystal_system,
                      pdb_name=sg.pdb_name, symop_list=ops)


def symsrc_model_line(text_items, op_texts, both=None):
    """driver line `cifsym.resolve` for a block with the given scalar items and operator column(s); the library functions
    are tabulated with the real FindSpaceGroup / IsSpaceGroupIdentifier / GetSpaceGroup / getSymOp of the tree under examination"""
    from diffpy.structure.parsers.p_cif import getSymOp
    from diffpy.structure.spacegroups import FindSpaceGroup, GetSpaceGroup, IsSpaceGroupIdentifier
    from diffpy.structure.structureerrors import StructureFormatError

    def esc(t):
        return t.replace(" ", "%20") if t else "~"

    cols = dict(op_texts)
    names = list(cols) + [k for k, _ in text_items]
    bad, finds = [], []
    for cname, texts in cols.items():
        ops = []
        okall = True
        for t in texts:
            try:
                ops.append(getSymOp(t))
            except StructureFormatError:
                bad.append(t)
                okall = False
        if okall and ops:
            try:
                g = FindSpaceGroup(ops)
                finds.append(("|".join(esc(t) for t in texts), str(g.number)))
            except ValueError:
                pass
    ids = []
    for k, v in text_items:
        if v and IsSpaceGroupIdentifier(v):
            ids.append((v, str(GetSpaceGroup(v).number)))
    f = lambda l: ";".join(l) if l else "~"
    return "cifsym.resolve %s %s %s %s %s %s" % (
        f([esc(n) for n in names]), f(["%s=%s" % (esc(k), esc(v)) for k, v in text_items]),
        f(["%s=%s" % (esc(k), "|".join(esc(t) for t in v)) for k, v in cols.items()]), f([esc(b) for b in bad]),
        f(["%s:%s" % kv for kv in finds]), f(["%s=%s" % (esc(k), v) for k, v in ids]))


def symsrc_observed(p):
    """what the parser object says after a parse, in the vocabulary of the driver"""
    g = p.spacegroup
    nm = (p.cif_sgname or "").replace(" ", "%20") or "~"
    if g is None:
        return "none"
    if (g.short_name or "").startswith("CIF "):
        from .c11 import xyz_text
        return "custom %s %s" % (g.short_name.replace(" ", "%20"), (g.crystal_system or "").replace(" ", "%20"))
    return "tab %s %s" % (g.number, nm)


def symsrc_render(ck, shifted, cr, items, opname="_symmetry_equiv_pos_as_xyz", ops=True):
    """CIF text: cell, scalar symmetry items, optionally the operator loop of `shifted`, the atom loops"""
    base = {"sym": "none", "esd": False, "B": False, "cartn": False, "adptype": True, "shufcols": False, "shufloops": False}
    text = render(ck, shifted, cr, base)
    from .c11 import xyz_text
    sym = ["%-36s '%s'" % (k, v) for k, v in items]
    op_texts = [xyz_text(o, 0) for o in shifted.symop_list]
    if ops:
        sym += ["loop_", opname] + ["'%s'" % t for t in op_texts]
    marker = "\nloop_\n_atom_site_label"
    i = text.index(marker)
    return text[:i] + "\n" + "\n".join(sym) + "\n" + text[i:], op_texts


def symsrc_stream(ck, sgl, allstrata, getParser):
    """(1) a crystal referred to a shifted origin: its operator list is not tabulated.  Alone, or with a Hall symbol, it must be
    expanded with exactly the listed operators (ad-hoc group); together with the H-M symbol or the IT number of the group
    (which do not fix the origin) the same must hold - the present reader expands with the tabulated operators instead
    (finding symsource:listed-ops-overridden).  (2) one parser object reading a second file whose symmetry is given by symbol,
    number or an untabulated operator list, after a file of another group.  (3) no usable symmetry information: format error.
    Every parse is also compared with the decision model `DS.CifSym.resolve` through the driver."""
    from diffpy.structure.spacegroups import FindSpaceGroup, GetSpaceGroup
    from diffpy.structure.structureerrors import StructureFormatError

    n = 0
    lines, obs, what = [], [], []
    cands = [g for g in sgl if allstrata.get(g.number) and len(g.symop_list) <= 48 and 0 < g.number <= 230]
    ck.rng.shuffle(cands)
    ncase = 8 if ck.tier == "quick" else 60
    first_sg = GetSpaceGroup(225)
    first_cr = make_crystal(ck, first_sg, allstrata[225])
    first_text = render(ck, first_sg, first_cr, {"sym": "ops", "esd": False, "B": False, "cartn": False, "adptype": True, "shufcols": False, "shufloops": False})
    done = 0
    for sg in cands:
        if done >= ncase:
            break
        off = None
        for _ in range(6):
            o = [Fraction(ck.rng.choice([0, 1, 2, 3, 5, 7]), ck.rng.choice([8, 12, 24])) for _ in range(3)]
            sh = shifted_setting(sg, o)
            try:
                FindSpaceGroup(sh.symop_list)
            except ValueError:
                off = o
                break
        if off is None:
            continue   # every tried shift is again a tabulated setting (e.g. P1)
        done += 1
        cr0 = make_crystal(ck, sg, allstrata[sg.number])
        cr = {"cell": cr0["cell"], "sites": [dict(s_, x=[(s_["x"][i] + off[i]) % 1 for i in range(3)]) for s_ in cr0["sites"]]}
        exp = expected(sh, cr, True)
        hall = "-X %d test" % sg.number
        unique_hm = False
        try:
            unique_hm = GetSpaceGroup(sg.short_name) is sg
        except ValueError:
            pass
        variants = [("ops-only", [], True), ("ops+hall", [("_symmetry_space_group_name_Hall", hall), ("_symmetry_cell_setting", sg.crystal_system.lower())], True),
                    ("ops+number", [("_symmetry_Int_Tables_number", str(sg.number))], True)]
        if unique_hm:
            variants.append(("ops+hm", [("_symmetry_space_group_name_H-M", sg.short_name)], True))
        for vname, items, withops in variants:
            n += 1
            opname = ck.rng.choice(["_symmetry_equiv_pos_as_xyz", "_space_group_symop_operation_xyz"])
            text, op_texts = symsrc_render(ck, sh, cr, items, opname)
            repl = {"kind": "symsrc", "variant": vname, "setting": sg.number, "origin_shift": [str(v) for v in off], "cif": text,
                    "expected": [{"label": e["label"], "xyz": [str(v) for v in e["xyz"]]} for e in exp]}
            p = getParser("cif")
            try:
                stru = p.parse(text)
            except Exception as e:  # noqa: BLE001
                ck.fail("symsource:rejected:%s" % vname, "CIF of %s #%s referred to the origin %s (%s) is rejected: %r" % (sg.short_name, sg.number, [str(v) for v in off], vname, e), repl)
                continue
            lines.append(symsrc_model_line(items, {opname: op_texts}))
            obs.append(symsrc_observed(p))
            what.append(repl)
            prob = compare(stru, exp)
            if prob:
                key = "symsource:listed-ops-overridden" if vname in ("ops+number", "ops+hm") and not (p.spacegroup.short_name or "").startswith("CIF ") else "symsource:%s" % vname
                ck.fail(key, "a CIF that lists its symmetry operators (%s #%s referred to the origin %s, an untabulated setting) together with %s is not expanded with the listed operators "
                        "but with those of the tabulated setting %r: %s" % (sg.short_name, sg.number, [str(v) for v in off], vname, p.spacegroup.short_name, prob), dict(repl, detail=prob))
            elif vname in ("ops-only", "ops+hall"):
                got = sorted(str(o) for o in p.spacegroup.symop_list)
                want = sorted(str(o) for o in sh.symop_list)
                if got != want:
                    ck.fail("symsource:%s:group" % vname, "parser.spacegroup of a CIF with an untabulated operator list does not consist of the listed operators", repl)
        # (2) reuse of a parser object after a file of another group
        for vname, items, withops in (("reuse:number", [("_symmetry_Int_Tables_number", str(sg.number))], False),
                                      ("reuse:hm", [("_symmetry_space_group_name_H-M", sg.short_name)], False),
                                      ("reuse:ops-only", [], True)):
            if not withops:
                try:
                    if GetSpaceGroup(items[0][1]) is not sg:
                        continue
                except ValueError:
                    continue
                text, op_texts = symsrc_render(ck, sg, cr0, items, ops=False)
            else:
                text, op_texts = symsrc_render(ck, sh, cr, items)
            n += 1
            shared = getParser("cif")
            try:
                shared.parse(first_text)
                s_shared = shared.parse(text)
                s_fresh = getParser("cif").parse(text)
            except Exception as e:  # noqa: BLE001
                ck.fail("symsource:%s" % vname, "parse raised %r on a rendered CIF of #%s" % (e, sg.number), {"kind": "symsrc-reuse", "variant": vname, "first": first_text, "cif": text})
                continue
            d = same_structure(s_fresh, s_shared)
            if not d and symsrc_observed(shared) != symsrc_observed(getParser("cif")) and False:
                d = None
            if d:
                ck.fail("symsource:%s" % vname, "a P_cif object that has read a file of Fm-3m before reads %s #%s (%s) differently from a fresh parser: %s" % (
                    sg.short_name, sg.number, vname, d), {"kind": "symsrc-reuse", "variant": vname, "setting": sg.number, "first": first_text, "cif": text, "detail": d})
    # (3) no usable symmetry information
    sg = GetSpaceGroup(62)
    cr0 = make_crystal(ck, sg, allstrata[62])
    for vname, items in (("none", []), ("unknown-hm", [("_symmetry_space_group_name_H-M", "P x y z")]), ("hall-only", [("_symmetry_space_group_name_Hall", "-P 2ac 2n")])):
        n += 1
        text, _ = symsrc_render(ck, sg, cr0, items, ops=False)
        p = getParser("cif")
        try:
            p.parse(text)
            out = symsrc_observed(p)
        except StructureFormatError:
            out = "SFE"
        except Exception as e:  # noqa: BLE001
            out = type(e).__name__
        lines.append(symsrc_model_line(items, {}))
        obs.append(out)
        what.append({"kind": "symsrc", "variant": vname, "cif": text})
        if out != "SFE":
            ck.fail("symsource:nosym:%s" % vname, "a CIF without usable symmetry information (%s) is not rejected with the format error: %s" % (vname, out),
                    {"kind": "symsrc", "variant": vname, "cif": text, "expected_kind": "SFE"})
    # model comparison
    try:
        outs = common.driver(lines)
    except common.DriverBroken as e:
        outs = None
        ck.notes.append("driver unavailable (cifsym): %s" % str(e)[:300])
    nm = 0
    if outs is not None:
        for ln, o, ob, w in zip(lines, outs, obs, what):
            nm += 1
            mo = o.split()
            # the model prints the operator texts of an ad-hoc group; the observation does not
            if mo and mo[0] == "custom":
                o2 = " ".join(mo[:3])
            elif mo and mo[0] == "tab":
                o2 = " ".join(mo[:3])
            else:
                o2 = o
            if o2 != ob:
                ck.fail("model-cifsym:%s" % w.get("variant"), "Lean model DS.CifSym.resolve and P_cif disagree on the symmetry used (%s): model %r, implementation %r" % (w.get("variant"), o2, ob),
                        {"kind": "correspondence", "driver_line": ln[:3000], "model": o, "observed": ob, "cif": w.get("cif"), "theorem": "correspondence stream cifsym.resolve"}, no_failing_input=True)
    ck.coverage["traces_validated_against_impl"] += nm
    ck.coverage["symsource"] = {"parses": n, "model_comparisons": nm, "settings": done}
    return n

def reuse_stream(ck, pick, allstrata, getParser):
    """One parser object used for several files in a row (parseFile): every result must equal that of a fresh parser."""
    import shutil
    import tempfile

    base = {"sym": "ops", "esd": False, "B": False, "cartn": False, "adptype": True, "shufcols": False, "shufloops": False}
    tmp = tempfile.mkdtemp(prefix="c07_")
    n = 0
    try:
        groups = [g for g in pick if allstrata.get(g.number)][:: max(1, len(pick) // 25)]
        for sg in groups:
            cr = make_crystal(ck, sg, allstrata[sg.number])
            # the same labels with the ADP information given in different ways
            texts = []
            for adptype, forced in ((True, "iso"), (False, "aniso"), (True, None)):
                cr2 = {"cell": cr["cell"], "sites": [dict(s_, mode=(forced or s_["mode"])) for s_ in cr["sites"]]}
                texts.append((render(ck, sg, cr2, dict(base, adptype=adptype)), cr2, adptype))
            shared = getParser("cif")
            hist = []
            for k, (text, cr2, adptype) in enumerate(texts):
                path = os.path.join(tmp, "f%d_%d.cif" % (sg.number, k))
                with open(path, "w") as f:
                    f.write(text)
                hist.append(text)
                n += 1
                try:
                    s_shared = shared.parseFile(path)
                    s_fresh = getParser("cif").parseFile(path)
                except Exception as e:
                    ck.fail("cif-reuse:%s" % sg.number, "parseFile raised %r on a rendered CIF of #%s" % (e, sg.number),
                            {"kind": "history", "setting": sg.number, "stream": "reuse", "texts": hist})
                    break
                d = same_structure(s_fresh, s_shared) or compare(s_shared, expected(sg, cr2, adptype))
                if d:
                    ck.fail("cif-reuse:%s" % sg.number, "a P_cif object used for a second file gives a different structure than a fresh parser (%s #%s, file %d): %s" % (
                        sg.short_name, sg.number, k + 1, d), {"kind": "history", "setting": sg.number, "stream": "reuse", "texts": hist, "detail": d})
                    break
    finally:
        shutil.rmtree(tmp, ignore_errors=True)
    return n


def replay(path):
    common.use_repo()
    r = json.load(open(path))
    from diffpy.structure.parsers import getParser

    if r.get("kind") == "symsrc":
        from diffpy.structure.structureerrors import StructureFormatError

        try:
            stru = getParser("cif").parse(r["cif"])
        except StructureFormatError as e:
            print("StructureFormatError:", e)
            return 0 if r.get("expected_kind") == "SFE" else 1
        except Exception as e:  # noqa: BLE001
            print("raised %r" % (e,))
            return 1
        if r.get("expected_kind") == "SFE":
            print("accepted (%d atoms), expected the format error" % len(stru))
            return 1
        exp = r.get("expected") or []
        if len(stru) != len(exp):
            print("%d atoms, the union of the orbits under the listed operators has %d" % (len(stru), len(exp)))
            return 1
        for i, (a, e) in enumerate(zip(stru, exp)):
            if sc.pdist(a.xyz, [Fraction(v) for v in e["xyz"]]) > 2e-7 or a.label != e["label"]:
                print("atom %d %s at %r, expected %s at %r" % (i, a.label, a.xyz.tolist(), e["label"], [float(Fraction(v)) for v in e["xyz"]]))
                return 1
        print("expanded with the listed operators")
        return 0
    if r.get("kind") == "symsrc-reuse":
        shared = getParser("cif")
        try:
            shared.parse(r["first"])
            s_shared = shared.parse(r["cif"])
            s_fresh = getParser("cif").parse(r["cif"])
        except Exception as e:  # noqa: BLE001
            print("raised %r" % (e,))
            return 1
        d = same_structure(s_fresh, s_shared)
        print("reused parser against fresh parser:", d)
        return 1 if d else 0
    if r.get("kind") in ("row", "roworder"):
        kind, real = row_real(r["cif"])
        print("first text:", kind, real if kind != "ok" else "%d atoms" % len(real))
        if kind == "exc":
            return 1
        if "expected_kind" in r:
            print("the row model says:", r["expected_kind"])
            return 1 if kind != r["expected_kind"] else 0
        bad = 0
        if r.get("expected") is not None:
            d = row_diff(real, r["expected"]) if kind == "ok" else "rejected"
            print("against the row model:", d)
            bad = bad or bool(d)
        if r.get("other_cif"):
            k2, real2 = row_real(r["other_cif"])
            d = row_diff(real, real2, tol=1e-7) if (kind, k2) == ("ok", "ok") else "%s / %s" % (kind, k2)
            print("against the other spelling:", d)
            bad = bad or bool(d)
        if r.get("observed") is not None and not r.get("expected") and not r.get("other_cif"):
            bad = 1 if kind != "ok" else 0
        return 1 if bad else 0
    if r.get("kind") == "rowsymbol":
        from diffpy.structure import Atom
        from diffpy.structure.parsers.p_cif import P_cif

        a = Atom()
        P_cif._tr_atom_site_type_symbol(a, r["text"])
        b = Atom()
        P_cif._tr_atom_site_label(b, r["text"])
        print("type_symbol -> %r, label -> %r / %r; expected %r" % (a.element, b.element, b.label, r["expected"]))
        return 0 if (a.element, b.element, b.label) == (r["expected"], r["expected"], r["text"]) else 1
    if r.get("kind") == "rowitem":
        from diffpy.structure.parsers.p_cif import P_cif

        class FakeLoop:
            def keys(self):
                return [r["name"]]

        f = P_cif._get_atom_setters(FakeLoop())[0]
        print("%r -> %s, expected %s" % (r["name"], f.__name__, r["expected"]))
        return 0 if f.__name__ == r["expected"] or (f is P_cif._tr_atom_site_adp_type and r["expected"] == "_tr_atom_site_thermal_displace_type") else 1
    if r.get("kind") == "number":
        from diffpy.structure.parsers.p_cif import leading_float

        try:
            got = leading_float(r["text"])
        except Exception as e:  # noqa: BLE001
            print("leading_float(%r) raises %r" % (r["text"], e))
            return 1
        print("leading_float(%r) = %r, written value %r" % (r["text"], got, r["expected"]))
        return 0 if got == r["expected"] else 1
    if r.get("stream") == "reuse":
        import shutil
        import tempfile

        tmp = tempfile.mkdtemp(prefix="c07r_")
        try:
            shared = getParser("cif")
            bad = 0
            for k, text in enumerate(r["texts"]):
                pth = os.path.join(tmp, "f%d.cif" % k)
                open(pth, "w").write(text)
                d = same_structure(getParser("cif").parseFile(pth), shared.parseFile(pth))
                print("file %d:" % (k + 1), d)
                bad = bad or bool(d)
            return 1 if bad else 0
        finally:
            shutil.rmtree(tmp, ignore_errors=True)

    if "cif" not in r:
        print("no CIF text in replay")
        return 1
    p = getParser("cif")
    try:
        s = p.parse(r["cif"])
    except Exception as e:
        print("parse raised %r" % (e,))
        return 1
    if s is None:
        print("no structure")
        return 1
    print("parsed %d atoms; space group %r" % (len(s), getattr(p.spacegroup, "short_name", None)))
    exp = []
    for e in r.get("expected", []):
        U = [[Fraction(v) for v in row] for row in e["U"]] if e["kind"] == "aniso" else Fraction(e["U"])
        exp.append({"label": e["label"], "element": e["element"], "xyz": [Fraction(v) for v in e["xyz"]], "occ": Fraction(e["occ"]), "kind": e["kind"], "U": U})
    prob = compare(s, exp) if exp else None
    if prob is None and r.get("other_cif"):
        s2 = getParser("cif").parse(r["other_cif"])
        prob = same_structure(s2, s)
    print("problem:", prob)
    return 1 if prob else 0


# ----------------------------------------------------------------------------------------------------------------
# Row phase (T9): the 26 `_tr_*` setters, `_get_atom_setters`, the site loop and the aniso loop, before expansion.
# Model: DS.Model.CifRow through the driver (`cifrow.parse`); tie: DS.Props.SrcCifRow (translate/src_cifrow.py).

ROW_SITE_NUMERIC = ["_atom_site_fract_x", "_atom_site_fract_y", "_atom_site_fract_z",
                    "_atom_site_Cartn_x", "_atom_site_Cartn_y", "_atom_site_Cartn_z",
                    "_atom_site_U_iso_or_equiv", "_atom_site_B_iso_or_equiv", "_atom_site_occupancy"]
ROW_ANISO_U = ["_atom_site_aniso_U_%s" % ij for ij in ("11", "22", "33", "12", "13", "23")]
ROW_ANISO_B = ["_atom_site_aniso_B_%s" % ij for ij in ("11", "22", "33", "12", "13", "23")]
ROW_UNKNOWN = ["_atom_site_calc_flag", "_atom_site_foo", "_atom_site_symmetry_multiplicity", "_atom_site_Wyckoff_symbol",
               "_atom_site_fract_w", "_atom_site_aniso_U_21", "_atom_site_u_iso", "_atom_site_ignore", "_ignore"]
ROW_ANISO_UNKNOWN = ["_atom_site_aniso_type_symbol", "_atom_site_aniso_ratio", "_atom_site_aniso_U_32"]
ROW_ADP_WORDS = ["Uiso", "Uani", "Biso", "Bani", "Uovl", "Umpe", "uiso", "UISO", "?", ".", "Uij", "Bovl"]
ROW_TYPE_WORDS = ["Na1+", "O2-", "C", "13-C", "Fe3+", "cl1-", "H", ".", "?", "zr", "Wat", "CA2+", "2-H1+", "D", "Cu+", "12", "O-2", "oX1-x"]
ROW_LABEL_WORDS = ["Na1", "O2", "C13", "Fe", "cl1a", "H1_2", "Zr01", "13-C2", "Ca2+x", "o", "X9", "1a", "Te(1)", "na", "Q-", "Wat5"]
_ROW_RX = None


def _row_number(txt):
    """what a number reader built on the CIF grammar gives for `txt` (independent of the code under test)"""
    global _ROW_RX
    import re
    if _ROW_RX is None:
        _ROW_RX = re.compile(r"[-+]?(\d+(\.\d*)?|\.\d+)([eE][-+]?\d+)?")
    m = _ROW_RX.match(txt.strip())
    return float(m.group()) if m else None


def _row_numtext(rng, v, allow_unknown=True):
    """a CIF spelling of the number v (or of 'unknown')"""
    r = rng.random()
    if allow_unknown and r < 0.07:
        return "?"
    if allow_unknown and r < 0.14:
        return "."
    nd = rng.choice([3, 4, 5, 6])
    s = "%.*f" % (nd, v)
    r = rng.random()
    if r < 0.2:
        s += "(%d)" % rng.randrange(1, 40)
    elif r < 0.25:
        s = "%.4e" % v
    elif r < 0.3 and v >= 0:
        s = "+" + s
    return s


def _row_case(rng, name):
    """the same data name in another letter case (CIF data names are case-insensitive)"""
    r = rng.random()
    if r < 0.5:
        return name
    if r < 0.65:
        return name.lower()
    if r < 0.8:
        return name.upper()
    return "".join(c.upper() if rng.random() < 0.5 else c.lower() for c in name)


def row_gen_block(rng, stratum=None):
    """abstract block: cell (or none), site loop, optional aniso loop.  A loop is {"names": [...], "rows": [[text, ...], ...]}."""
    stratum = stratum or rng.choice(["plain", "plain", "oneloop", "cartn", "mixed", "words", "bad", "qlabels", "dup"])
    cellkind = rng.choice(["tric", "tric", "mono", "ortho", "cubic", "none", "hex"])
    if cellkind == "tric":
        cell = [rng.uniform(3, 12), rng.uniform(3, 12), rng.uniform(3, 12), rng.uniform(70, 110), rng.uniform(70, 110), rng.uniform(70, 110)]
    elif cellkind == "mono":
        cell = [rng.uniform(3, 12), rng.uniform(3, 12), rng.uniform(3, 12), 90.0, rng.uniform(91, 125), 90.0]
    elif cellkind == "ortho":
        cell = [rng.uniform(3, 12), rng.uniform(3, 12), rng.uniform(3, 12), 90.0, 90.0, 90.0]
    elif cellkind == "cubic":
        a = rng.uniform(3, 9)
        cell = [a, a, a, 90.0, 90.0, 90.0]
    elif cellkind == "hex":
        a = rng.uniform(3, 9)
        cell = [a, a, rng.uniform(4, 12), 90.0, 90.0, 120.0]
    else:
        cell = None
    if cell is not None:
        cell = [float("%.4f" % v) for v in cell]
    natom = rng.choice([1, 2, 2, 3, 4])
    names = ["_atom_site_label"]
    if rng.random() < 0.7:
        names.append("_atom_site_type_symbol")
    r = rng.random()
    if stratum == "cartn" or (stratum != "mixed" and r < 0.15):
        names += ["_atom_site_Cartn_x", "_atom_site_Cartn_y", "_atom_site_Cartn_z"]
    elif stratum == "mixed":
        names += [rng.choice(["_atom_site_fract_%s", "_atom_site_Cartn_%s"]) % ax for ax in "xyz" if rng.random() < 0.85]
    elif r < 0.9:
        names += ["_atom_site_fract_x", "_atom_site_fract_y", "_atom_site_fract_z"]
    else:
        names += [n for n in ["_atom_site_fract_x", "_atom_site_fract_y", "_atom_site_fract_z"] if rng.random() < 0.6]
    r = rng.random()
    if r < 0.4:
        names.append("_atom_site_U_iso_or_equiv")
    elif r < 0.65:
        names.append("_atom_site_B_iso_or_equiv")
    elif r < 0.7:
        names += ["_atom_site_U_iso_or_equiv", "_atom_site_B_iso_or_equiv"]
    r = rng.random()
    if r < 0.4:
        names.append("_atom_site_adp_type")
    elif r < 0.55:
        names.append("_atom_site_thermal_displace_type")
    elif r < 0.6:
        names += ["_atom_site_adp_type", "_atom_site_thermal_displace_type"]
    if rng.random() < 0.5:
        names.append("_atom_site_occupancy")
    if stratum == "oneloop" or rng.random() < 0.08:
        pool = ROW_ANISO_U if rng.random() < 0.6 else ROW_ANISO_B
        names += [n for n in pool if rng.random() < 0.85]
    for _ in range(rng.choice([0, 0, 1, 2])):
        u = rng.choice(ROW_UNKNOWN)
        if u not in names:
            names.append(u)
    if rng.random() < 0.6:
        head, tail = names[:1], names[1:]
        rng.shuffle(tail)
        names = head + tail if rng.random() < 0.5 else tail[: len(tail) // 2] + head + tail[len(tail) // 2:]
    labels = []
    rows = []
    for i in range(natom):
        lab = rng.choice(ROW_LABEL_WORDS) if stratum == "words" else "%s%d" % (rng.choice(["Na", "O", "C", "Fe", "Cl", "H"]), i + 1)
        if stratum == "qlabels" and rng.random() < 0.4:
            lab = "?"
        if stratum == "dup" and labels and rng.random() < 0.5:
            lab = rng.choice(labels)
        labels.append(lab)
        row = []
        for n in names:
            if n == "_atom_site_label":
                row.append(lab)
            elif n == "_atom_site_type_symbol":
                row.append(rng.choice(ROW_TYPE_WORDS) if stratum == "words" or rng.random() < 0.3 else rng.choice(["Na1+", "O2-", "C", "Fe3+", "Cl1-", "H"]))
            elif n in ("_atom_site_adp_type", "_atom_site_thermal_displace_type"):
                row.append(rng.choice(ROW_ADP_WORDS) if rng.random() < 0.5 else rng.choice(["Uiso", "Uani", "Biso", "Bani"]))
            elif n in ROW_UNKNOWN:
                row.append(rng.choice(["d", "1", "4a", "?", ".", "0.25(3)", "Uani"]))
            elif "Cartn" in n:
                row.append(_row_numtext(rng, rng.uniform(-6, 12)))
            elif "fract" in n:
                row.append(_row_numtext(rng, rng.uniform(-0.3, 1.3)))
            elif n == "_atom_site_occupancy":
                row.append(_row_numtext(rng, rng.choice([1.0, 0.5, 0.25, rng.uniform(0, 1)])))
            elif n == "_atom_site_U_iso_or_equiv":
                row.append(_row_numtext(rng, rng.uniform(0.001, 0.08)))
            elif n == "_atom_site_B_iso_or_equiv":
                row.append(_row_numtext(rng, rng.uniform(0.1, 6.0)))
            elif n in ROW_ANISO_U:
                row.append(_row_numtext(rng, rng.uniform(-0.01, 0.01) if n[-2] != n[-1] else rng.uniform(0.002, 0.06)))
            elif n in ROW_ANISO_B:
                row.append(_row_numtext(rng, rng.uniform(-0.8, 0.8) if n[-2] != n[-1] else rng.uniform(0.2, 5.0)))
            else:
                row.append("?")
        if stratum == "bad" and rng.random() < 0.4:
            k = rng.randrange(len(names))
            if names[k] != "_atom_site_label":
                row[k] = rng.choice(["abc", "x1.5", "--1", "n/a", "e5"])
        rows.append(row)
    site = {"names": names, "rows": rows}
    aniso = None
    if rng.random() < 0.65:
        pool = ROW_ANISO_U if rng.random() < 0.55 else ROW_ANISO_B
        if rng.random() < 0.15:
            pool = [rng.choice(p) for p in zip(ROW_ANISO_U, ROW_ANISO_B)]
        an = ["_atom_site_aniso_label"] + [n for n in pool if rng.random() < 0.92]
        if rng.random() < 0.2:
            an.append(rng.choice(ROW_ANISO_UNKNOWN))
        if rng.random() < 0.1:
            an.append(rng.choice(["_atom_site_U_iso_or_equiv", "_atom_site_adp_type", "_atom_site_occupancy"]))
        # a data name may occur only once in a block
        taken = {n.lower() for n in names}
        an = [n for n in an if n.lower() not in taken]
        if rng.random() < 0.5:
            rng.shuffle(an)
        real = [lb for lb in labels if lb != "?"]
        chosen = [lb for lb in dict.fromkeys(real) if rng.random() < 0.7] or real[:1]
        rng.shuffle(chosen)
        if chosen and rng.random() < 0.2:
            chosen.insert(rng.randrange(len(chosen) + 1), "?")
        if rng.random() < 0.06:
            chosen.insert(rng.randrange(len(chosen) + 1), "Xx99")          # not in the site loop: KeyError -> format error
        if chosen and rng.random() < 0.08:
            chosen.append(rng.choice(chosen))                                 # an atom listed twice
        arows = []
        for lb in chosen:
            row = []
            for n in an:
                if n == "_atom_site_aniso_label":
                    row.append(lb)
                elif n in ROW_ANISO_U:
                    row.append(_row_numtext(rng, rng.uniform(-0.01, 0.01) if n[-2] != n[-1] else rng.uniform(0.002, 0.06)))
                elif n in ROW_ANISO_B:
                    row.append(_row_numtext(rng, rng.uniform(-0.8, 0.8) if n[-2] != n[-1] else rng.uniform(0.2, 5.0)))
                elif n == "_atom_site_U_iso_or_equiv":
                    row.append(_row_numtext(rng, rng.uniform(0.001, 0.08)))
                elif n == "_atom_site_adp_type":
                    row.append(rng.choice(["Uiso", "Uani"]))
                elif n == "_atom_site_occupancy":
                    row.append(_row_numtext(rng, rng.uniform(0, 1)))
                else:
                    row.append(rng.choice(["O", "?", "1.2"]))
            if stratum == "bad" and rng.random() < 0.2 and len(an) > 1:
                k = rng.randrange(len(an))
                if an[k] != "_atom_site_aniso_label":
                    row[k] = "bad"
            arows.append(row)
        if arows:
            aniso = {"names": an, "rows": arows}
    return {"cell": cell, "site": site, "aniso": aniso, "stratum": stratum}


def _row_cifword(t):
    if t == "" or any(c in t for c in " \t'\"") or t[0] in "_#$[];" or t.lower().startswith(("data_", "loop_", "save_", "global_", "stop_")):
        return "'%s'" % t if "'" not in t else '"%s"' % t
    return t


def row_render(rng, blk, case=True, loops_first=False):
    """CIF text of an abstract block in space group P1"""
    L = ["data_row"]
    cellpart = []
    if blk["cell"] is not None:
        for k, v in zip(("_cell_length_a", "_cell_length_b", "_cell_length_c", "_cell_angle_alpha", "_cell_angle_beta", "_cell_angle_gamma"), blk["cell"]):
            cellpart.append("%s %.4f" % (k, v))
    sym = ["_symmetry_space_group_name_H-M 'P 1'"]
    loops = []
    for lp in (blk["site"], blk["aniso"]):
        if lp is None:
            continue
        part = ["loop_"] + [(_row_case(rng, n) if case else n) for n in lp["names"]]
        part += [" ".join(_row_cifword(t) for t in row) for row in lp["rows"]]
        loops.append(part)
    if loops_first:
        loops.reverse()
        parts = loops + [cellpart, sym]
    else:
        parts = [cellpart, sym] + loops
    for p in parts:
        L += p + [""]
    return "\n".join(L) + "\n"


def row_lattice(blk):
    from diffpy.structure import Lattice

    return Lattice(*blk["cell"]) if blk["cell"] is not None else Lattice()


def _row_hex(t):
    return "x" + t.encode("ascii").hex()


def _row_unhex(w):
    return bytes.fromhex(w[1:]).decode("ascii")


def row_model_line(blk):
    from .c09 import bits, lat_words

    def loopwords(lp):
        ws = [str(len(lp["names"])), str(len(lp["rows"]))] + [n.lower() for n in lp["names"]]
        for row in lp["rows"]:
            for t in row:
                x = _row_number(t)
                ws.append("%s:%s" % (_row_hex(t), "-" if x is None else bits(x)))
        return ws

    ws = ["cifrow.parse"] + lat_words(row_lattice(blk)) + loopwords(blk["site"])
    ws += ["0"] if blk["aniso"] is None else ["1"] + loopwords(blk["aniso"])
    return " ".join(ws)


def row_real(text):
    """parse `text` with the real reader; snapshot of the atoms right after the two loops (before the symmetry expansion).
    Returns ("err", message) for the documented format error, ("exc", repr) for any other exception, else ("ok", atoms)."""
    import numpy as np
    from diffpy.structure import Atom
    from diffpy.structure.parsers.p_cif import P_cif
    from diffpy.structure.structureerrors import StructureFormatError

    class Probe(P_cif):
        snap = None

        def _parse_space_group_symop_operation_xyz(self, block):
            out = []
            for a in self.stru:
                c = Atom(a)
                out.append({"element": c.element, "label": c.label, "xyz": [float(v) for v in c.xyz], "occ": float(c.occupancy),
                            "aniso": bool(c.anisotropy), "U": [float(v) for v in np.array(c.U).reshape(9)], "uiso": float(c.Uisoequiv),
                            "li": self.labelindex.get(c.label), "an": self.anisotropy.get(c.label)})
            self.snap = out
            self.snapkeys = (sorted(self.labelindex), sorted(self.anisotropy))
            return P_cif._parse_space_group_symop_operation_xyz(self, block)

    p = Probe()
    try:
        p.parse(text)
    except StructureFormatError as e:
        return "err", str(e)
    except Exception as e:  # noqa: BLE001
        return "exc", repr(e)
    if p.snap is None:
        return "exc", "no structure"
    return "ok", p.snap


def row_parse_model(o):
    from .c09 import unbits

    if o in ("err", "empty", "bad-op"):
        return o, []
    atoms = []
    for blk in o.split(" | "):
        w = blk.split()
        atoms.append({"element": _row_unhex(w[0]), "label": _row_unhex(w[1]), "xyz": [unbits(x) for x in w[2:5]], "occ": unbits(w[5]),
                      "aniso": w[6] == "1", "U": [unbits(x) for x in w[7:16]], "uiso": unbits(w[16]),
                      "li": None if w[17] == "-" else int(w[17]), "an": None if w[18] == "-" else w[18] == "1"})
    return "ok", atoms


def row_diff(A, B, tol=1e-9):
    """first difference between two atom snapshots (lists of dicts), None when they agree"""
    if len(A) != len(B):
        return "%d / %d atoms" % (len(A), len(B))
    for i, (a, b) in enumerate(zip(A, B)):
        for k in ("element", "label", "aniso", "li", "an"):
            if a[k] != b[k]:
                return "atom %d %s: %r / %r" % (i, k, a[k], b[k])
        for k in ("xyz", "U"):
            sc = max([1.0] + [abs(x) for x in a[k]]) if k == "xyz" else max([1e-3] + [abs(x) for x in a[k]])
            for x, y in zip(a[k], b[k]):
                if not abs(x - y) <= tol * sc:
                    return "atom %d %s: %r / %r" % (i, k, a[k], b[k])
        for k in ("occ", "uiso"):
            if not abs(a[k] - b[k]) <= tol * max(1e-3, abs(a[k])):
                return "atom %d %s: %r / %r" % (i, k, a[k], b[k])
    return None


# --- hypotheses of DS.Props.C07Row.row_col_perm, evaluated on an abstract row (mirror of `RowOK`) ----------------

def _row_slot(n):
    n = n.lower()
    if n == "_atom_site_label":
        return "label"
    if n == "_atom_site_type_symbol":
        return "type"
    for ax in "xyz":
        if n in ("_atom_site_fract_" + ax, "_atom_site_cartn_" + ax):
            return "pos" + ax
    if n in ("_atom_site_u_iso_or_equiv", "_atom_site_b_iso_or_equiv"):
        return "iso"
    if n in ("_atom_site_adp_type", "_atom_site_thermal_displace_type"):
        return "adp"
    if n == "_atom_site_occupancy":
        return "occ"
    for ij in ("11", "22", "33", "12", "13", "23"):
        if n in ("_atom_site_aniso_u_" + ij, "_atom_site_aniso_b_" + ij):
            return "u" + ij
    return None


def row_ok(names, row, flag):
    """RowOK of the Lean theorem for a row applied to an atom whose anisotropy flag is `flag`"""
    slots = [_row_slot(n) for n in names]
    real = [s for s in slots if s]
    if len(set(real)) != len(real):
        return False
    low = [n.lower() for n in names]
    if any("_fract_" in n for n, s in zip(low, slots) if s and s.startswith("pos")) and any("_cartn_" in n for n, s in zip(low, slots) if s and s.startswith("pos")):
        return False
    if "label" in real and "type" in real and row[slots.index("type")] == "":
        return False
    d = [(s, t) for s, t in zip(slots, row) if s in ("iso", "adp") or (s and s[0] == "u")]
    adpv = [t not in ("Uiso", "Biso") for s, t in d if s == "adp"]
    only_ia = all(s in ("iso", "adp") for s, _ in d)
    if only_ia and (not flag or all(adpv)):
        return True                                                                  # DA
    if flag and all((s[0] == "u" and s != "adp") or (s == "adp" and t not in ("Uiso", "Biso")) for s, t in d if s != "iso") and not any(s == "iso" for s, _ in d):
        return True                                                                  # DB
    if (not flag) and not any(adpv) and sum(1 for s, _ in d if s in ("iso", "u11", "u22", "u33")) <= 1:
        return True                                                                  # DC
    return False


ROW_LAYOUTS = {
    # key -> (column names order 1, order 2, one row as a dict name -> text): one-loop layouts that violate the hypotheses
    "adp_type-after-aniso_U": (["_atom_site_label", "_atom_site_fract_x", "_atom_site_fract_y", "_atom_site_fract_z", "_atom_site_adp_type"] + ROW_ANISO_U,
                               ["_atom_site_label", "_atom_site_fract_x", "_atom_site_fract_y", "_atom_site_fract_z"] + ROW_ANISO_U + ["_atom_site_adp_type"],
                               ["C1", "0.1", "0.2", "0.3", "Uani", "0.01", "0.02", "0.03", "0.001", "0.002", "0.003"]),
    "U_iso-before-aniso_U-of-iso-atom": (["_atom_site_label", "_atom_site_fract_x", "_atom_site_fract_y", "_atom_site_fract_z", "_atom_site_aniso_U_11", "_atom_site_adp_type", "_atom_site_U_iso_or_equiv"],
                                         ["_atom_site_label", "_atom_site_fract_x", "_atom_site_fract_y", "_atom_site_fract_z", "_atom_site_U_iso_or_equiv", "_atom_site_adp_type", "_atom_site_aniso_U_11"],
                                         ["C1", "0.1", "0.2", "0.3", ".", "Uiso", "0.025"]),
    "U_equiv-after-aniso_U": (["_atom_site_label", "_atom_site_fract_x", "_atom_site_fract_y", "_atom_site_fract_z", "_atom_site_adp_type", "_atom_site_U_iso_or_equiv"] + ROW_ANISO_U,
                              ["_atom_site_label", "_atom_site_fract_x", "_atom_site_fract_y", "_atom_site_fract_z", "_atom_site_adp_type"] + ROW_ANISO_U + ["_atom_site_U_iso_or_equiv"],
                              ["C1", "0.1", "0.2", "0.3", "Uani", "0.02", "0.01", "0.02", "0.03", "0.001", "0.002", "0.003"]),
    "empty-type_symbol-after-label": (["_atom_site_type_symbol", "_atom_site_label", "_atom_site_fract_x", "_atom_site_fract_y", "_atom_site_fract_z"],
                                      ["_atom_site_label", "_atom_site_type_symbol", "_atom_site_fract_x", "_atom_site_fract_y", "_atom_site_fract_z"],
                                      ["", "C1", "0.1", "0.2", "0.3"]),
}


def row_layout_texts(key):
    n1, n2, row = ROW_LAYOUTS[key]
    byname = dict(zip(n1, row))
    cell = [4.0, 5.0, 6.0, 80.0, 95.0, 100.0]
    out = []
    for names in (n1, n2):
        blk = {"cell": cell, "site": {"names": names, "rows": [[byname[n] for n in names]]}, "aniso": None}
        out.append(row_render(None, blk, case=False))
    return out


def row_special_blocks(rng):
    """deterministic families asked for explicitly: (b) Cartesian columns in every column order (z before x/y, ...) in oblique cells, against
    the fractional spelling; (c) several sites at identical coordinates with different anisotropic tensors, aniso rows in every order, U and B.
    Every block carries "group": all members of a group are spellings of the same atoms."""
    import itertools
    import numpy as np

    out = []
    for gi in range(3):
        cell = [float("%.4f" % v) for v in (rng.uniform(3, 9), rng.uniform(3, 9), rng.uniform(3, 9), rng.uniform(65, 115), rng.uniform(65, 115), rng.uniform(65, 115))]
        lat = row_lattice({"cell": cell})
        atoms = []
        for k in range(2):
            rc = ["%.5f" % rng.uniform(-4, 9) for _ in range(3)]
            atoms.append({"label": "%s%d" % (rng.choice(["O", "Fe", "C"]), k + 1), "type": rng.choice(["O2-", "Fe3+", "C"]), "rc": rc,
                          "u": "%.4f" % rng.uniform(0.002, 0.05), "occ": "%.3f" % rng.uniform(0.2, 1.0)})
        layouts = [lambda c: [c[0], "L", c[1], "T", "U", c[2], "O"], lambda c: ["L", c[0], c[1], c[2], "T", "U", "O"],
                   lambda c: ["T", "U", c[0], "O", c[1], "L", c[2]]]
        colname = {"L": "_atom_site_label", "T": "_atom_site_type_symbol", "U": "_atom_site_U_iso_or_equiv", "O": "_atom_site_occupancy"}
        for pi, perm in enumerate(itertools.permutations("xyz")):
            for spell in ("Cartn", "fract"):
                if spell == "fract" and pi not in (0, 3):
                    continue
                lay = layouts[pi % 3](list(perm))
                names = [colname.get(t, "_atom_site_%s_%s" % (spell, t)) for t in lay]
                rows = []
                for a in atoms:
                    f = lat.fractional([float(v) for v in a["rc"]])
                    val = {"L": a["label"], "T": a["type"], "U": a["u"], "O": a["occ"]}
                    for ax, rcv, fv in zip("xyz", a["rc"], f):
                        val[ax] = rcv if spell == "Cartn" else "%.12f" % fv
                    rows.append([val[t] for t in lay])
                out.append({"cell": cell, "site": {"names": names, "rows": rows}, "aniso": None, "stratum": "cartn-orders",
                            "group": "cartn-orders-%d" % gi})
    B2 = 8 * math.pi ** 2
    for gi in range(2):
        cell = [float("%.4f" % v) for v in (rng.uniform(3, 9), rng.uniform(3, 9), rng.uniform(3, 9), rng.uniform(70, 110), rng.uniform(70, 110), rng.uniform(70, 110))]
        xyz = ["%.5f" % rng.uniform(0, 1) for _ in range(3)]
        other = ["%.5f" % rng.uniform(0, 1) for _ in range(3)]
        sites = []
        for k, el in enumerate(["Na", "K", "Ca"]):
            U = [rng.uniform(0.004, 0.05), rng.uniform(0.004, 0.05), rng.uniform(0.004, 0.05), rng.uniform(-0.004, 0.004), rng.uniform(-0.004, 0.004), rng.uniform(-0.004, 0.004)]
            sites.append({"label": "%s%d" % (el, k + 1), "xyz": xyz if (gi == 0 or k < 2) else other, "occ": "%.3f" % rng.uniform(0.1, 0.5), "U": ["%.6f" % u for u in U]})
        withadp = gi == 1
        names = ["_atom_site_label", "_atom_site_fract_x", "_atom_site_fract_y", "_atom_site_fract_z", "_atom_site_occupancy"] + (["_atom_site_adp_type"] if withadp else [])
        srows = [[s_["label"]] + s_["xyz"] + [s_["occ"]] + (["Uani"] if withadp else []) for s_ in sites]
        for pi, perm in enumerate(itertools.permutations(range(3))):
            for spell in ("U", "B"):
                if spell == "B" and pi not in (1, 4):
                    continue
                an = ["_atom_site_aniso_label"] + ["_atom_site_aniso_%s_%s" % (spell, ij) for ij in ("11", "22", "33", "12", "13", "23")]
                arows = [[sites[k]["label"]] + [(u if spell == "U" else "%.10f" % (float(u) * B2)) for u in sites[k]["U"]] for k in perm]
                order = list(range(len(an)))
                if pi % 2:
                    rng.shuffle(order)
                out.append({"cell": cell, "site": {"names": names, "rows": srows},
                            "aniso": {"names": [an[i] for i in order], "rows": [[r[i] for i in order] for r in arows]},
                            "stratum": "shared-site", "group": "shared-site-%d" % gi})
    return out


def row_stream(ck, ncases):
    """random abstract blocks -> CIF text -> real reader (snapshot before expansion) vs the Lean model; for rows that satisfy the
    hypotheses of `row_col_perm`, the same block with every loop's columns (and the aniso rows) permuted must read the same on the
    real reader; the members of a group of `row_special_blocks` must all read the same; the one-loop layouts outside the hypotheses."""
    import random

    rng = random.Random(ck.rng.random())
    blocks = row_special_blocks(rng) + [row_gen_block(rng) for _ in range(ncases)]
    lines = [row_model_line(b) for b in blocks]
    try:
        outs = common.driver(lines)
    except common.DriverBroken as e:
        outs = [None] * len(lines)
        ck.notes.append("driver unavailable for cifrow: %s" % str(e)[:300])
    nerr = nperm = nok = ngroup = 0
    strata_seen = {}
    group_first = {}
    for blk, ln, o in zip(blocks, lines, outs):
        special = "group" in blk
        text = row_render(rng, blk, case=not special or rng.random() < 0.5, loops_first=rng.random() < 0.25)
        kind, real = row_real(text)
        strata_seen[blk["stratum"]] = strata_seen.get(blk["stratum"], 0) + 1
        ck.coverage["evaluations"] += 1
        repl = {"kind": "row", "cif": text, "block": blk}
        if kind == "exc":
            ck.fail("row:%s:exception" % blk["stratum"], "reading a rendered atom-site block raised %s (documented error: StructureFormatError)" % real, dict(repl, observed=real))
            continue
        if special:
            # spellings of one set of atoms: compared with each other on the real reader (also when the model is unavailable)
            if kind != "ok":
                ck.fail("row:%s:rejected" % blk["stratum"], "a valid atom-site block is rejected: %s" % real, dict(repl, observed=real))
                continue
            first = group_first.setdefault(blk["group"], (real, text))
            if first[0] is not real:
                ngroup += 1
                dg = row_diff(first[0], real, tol=1e-8)
                if dg:
                    which = "Cartesian columns in another order / fractional coordinates" if blk["stratum"] == "cartn-orders" else "aniso rows in another order / B values"
                    ck.fail("row:%s:spelling" % blk["stratum"], "two spellings of the same atoms (%s) read differently: %s" % (which, dg),
                            dict(repl, other_cif=first[1], detail=dg, theorem="DS.Props.C07Row.cartn_vs_fract / row_col_perm / aniso_loop_order / B_vs_U"))
                    continue
        if o is None:
            continue
        ck.coverage["traces_validated_against_impl"] += 1
        mkind, model = row_parse_model(o)
        if mkind == "bad-op":
            ck.fail("row:model-bad-op", "the model driver rejected a cifrow line", {"kind": "correspondence", "driver_line": ln[:3000], "theorem": "stream cifrow.parse"}, no_failing_input=True)
            continue
        if kind == "err" or mkind == "err":
            nerr += 1
            if kind != mkind:
                what = ("the reader rejects the block (%s), the row model DS.Model.CifRow accepts it" % real) if kind == "err" else \
                    "the reader accepts a block that the row model DS.Model.CifRow rejects (a value that is not a number, or an aniso label not in the site loop)"
                ck.fail("row:%s:accept" % blk["stratum"], what, dict(repl, model=o[:1500], expected_kind=mkind, observed_kind=kind))
            continue
        d = row_diff(real, model)
        if d:
            ck.fail("row:%s:atoms" % blk["stratum"], "atoms after the atom-site and aniso loops differ from the row model DS.Model.CifRow (implementation / model): %s" % d,
                    dict(repl, expected=model, observed=real, detail=d))
            continue
        nok += 1
        if special:
            continue
        # column permutation on the real reader, where the theorem says it must not matter
        site_ok = all(row_ok(blk["site"]["names"], r, False) for r in blk["site"]["rows"])
        aniso_ok = True
        if blk["aniso"] is not None:
            ilb = blk["aniso"]["names"].index("_atom_site_aniso_label")
            known = {a["label"]: a for a in real}
            seen = set()
            for r in blk["aniso"]["rows"]:
                if r[ilb] == "?":
                    break
                if r[ilb] in seen or r[ilb] not in known:
                    aniso_ok = False
                    break
                seen.add(r[ilb])
                # the flag of the atom when its aniso row is applied: resolved by an adp_type column, else forced on
                does = any(_row_slot(n) == "adp" for n in blk["site"]["names"])
                a_site = None
                for sr in blk["site"]["rows"]:
                    if sr[blk["site"]["names"].index("_atom_site_label")] == r[ilb]:
                        a_site = sr
                flag = True
                if does and a_site is not None:
                    flag = [t not in ("Uiso", "Biso") for n, t in zip(blk["site"]["names"], a_site) if _row_slot(n) == "adp"][-1]
                if not row_ok(blk["aniso"]["names"], r, flag):
                    aniso_ok = False
                    break
        dup = len({r[blk["site"]["names"].index("_atom_site_label")] for r in blk["site"]["rows"]}) != len(blk["site"]["rows"])
        if site_ok and aniso_ok and not dup:
            blk2 = {"cell": blk["cell"], "stratum": blk["stratum"], "site": _row_permute(rng, blk["site"]),
                    "aniso": None if blk["aniso"] is None else _row_permute(rng, blk["aniso"], rows_too=True)}
            text2 = row_render(rng, blk2, loops_first=rng.random() < 0.5)
            kind2, real2 = row_real(text2)
            nperm += 1
            ck.coverage["evaluations"] += 1
            d2 = "second order is rejected: %s" % (real2,) if kind2 != "ok" else row_diff(real, real2, tol=1e-7)
            if d2:
                ck.fail("row:%s:colorder" % blk["stratum"], "the same atom-site data with the loop columns (and aniso rows) in another order read differently: %s" % d2,
                        dict(repl, other_cif=text2, detail=d2, theorem="DS.Props.C07Row.row_col_perm / aniso_loop_order"))
    # one-loop layouts outside the hypotheses of row_col_perm: each is a pair of CIF texts differing only in column order
    for key in sorted(ROW_LAYOUTS):
        t1, t2 = row_layout_texts(key)
        k1, r1 = row_real(t1)
        k2, r2 = row_real(t2)
        ck.coverage["evaluations"] += 2
        d = None if (k1, k2) == ("ok", "ok") and row_diff(r1, r2, tol=1e-7) is None else (row_diff(r1, r2, tol=1e-7) if (k1, k2) == ("ok", "ok") else "%s / %s" % (k1, k2))
        if d:
            ck.fail("roworder:%s" % key, "two CIF texts that differ only in the order of the atom_site loop columns read differently (%s): %s" % (key, d),
                    {"kind": "roworder", "layout": key, "cif": t1, "other_cif": t2, "detail": d, "theorem": "DS.Props.C07Row.row_order_dependent_*"})
    ck.coverage["row_stream"] = {"blocks": len(blocks), "agree_with_model": nok, "rejected_by_both": nerr, "column_permutations": nperm,
                                 "spelling_group_comparisons": ngroup, "strata": strata_seen}
    if blocks and outs and outs[0] is not None:
        ck.coverage["samples"] = list(ck.coverage.get("samples") or [])[:2] + [{"driver": lines[-1][:200], "model": outs[-1][:200]}]
    return nok


def row_words_stream(ck):
    """the string side of the setters: element symbol of `_tr_atom_site_type_symbol` / `_tr_atom_site_label` and the setter `_get_atom_setters`
    selects for a data name, model (`cifrow.symbol`, `cifrow.item`) against the real static methods"""
    from diffpy.structure import Atom
    from diffpy.structure.parsers.p_cif import P_cif

    words = sorted(set(ROW_TYPE_WORDS + ROW_LABEL_WORDS + ["", "1", "12-", "12-C", "12-c14+", "C4+x", "c4", "fE2+3", "O1-", "O-1", "-O", "+1", "N(3)", "Si_2",
                                                           "H2O", "D2+", "7", "7-", "7-7", "aB1+2-", "Uiso", "?", ".", "xY", "X", "x", "a1-b", "0-H", "00-h1-"]))
    names = ["_atom_site_label", "_atom_site_Label", "_ATOM_SITE_TYPE_SYMBOL", "_atom_site_fract_x", "_atom_site_Fract_Y", "_atom_site_fract_z", "_atom_site_Cartn_x",
             "_atom_site_cartn_y", "_atom_site_CARTN_Z", "_atom_site_U_iso_or_equiv", "_atom_site_u_iso_or_equiv", "_atom_site_B_iso_or_equiv", "_atom_site_adp_type",
             "_atom_site_thermal_displace_type", "_atom_site_occupancy", "_atom_site_aniso_label", "_atom_site_aniso_type_symbol", "_ignore", "_atom_site_ignore", "x",
             "", "_atom_site_fract_w", "_atom_site_aniso_U_21", "_atom_site_aniso_u_12", "_atom_site_aniso_B_12", "_atom_site_aniso_b_33"] + ROW_ANISO_U + ROW_ANISO_B
    # data names as PyCifRW's `keys()` delivers them: lower case (the reader is only ever handed such names)
    names = sorted({n.lower() for n in names})
    lines = ["cifrow.symbol " + _row_hex(w) for w in words] + ["cifrow.item " + n for n in names if n]
    try:
        outs = common.driver(lines)
    except common.DriverBroken:
        return
    n = 0
    for w, o in zip(words, outs):
        n += 1
        a = Atom()
        P_cif._tr_atom_site_type_symbol(a, w)
        b = Atom()
        P_cif._tr_atom_site_label(b, w)
        got = _row_unhex(o) if o.startswith("x") else o
        if a.element != got or b.element != got or b.label != w:
            ck.fail("row:symbol", "element symbol read from %r: type_symbol setter %r, label setter %r (label %r), row model %r" % (w, a.element, b.element, b.label, got),
                    {"kind": "rowsymbol", "text": w, "expected": got, "observed": [a.element, b.element, b.label]})

    class FakeLoop:
        def __init__(self, k):
            self._k = k

        def keys(self):
            return list(self._k)

    real_names = [x for x in names if x]
    fs = P_cif._get_atom_setters(FakeLoop(real_names))
    for nm, f, o in zip(real_names, fs, outs[len(words):]):
        n += 1
        if f.__name__ != o and not (f is P_cif._tr_atom_site_adp_type and o == "_tr_atom_site_thermal_displace_type"):
            ck.fail("row:item", "_get_atom_setters selects %s for the data name %r, the row model selects %s" % (f.__name__, nm, o),
                    {"kind": "rowitem", "name": nm, "expected": o, "observed": f.__name__})
    ck.coverage["evaluations"] += n
    ck.coverage["traces_validated_against_impl"] += n


def _row_permute(rng, lp, rows_too=False):
    order = list(range(len(lp["names"])))
    rng.shuffle(order)
    rows = [[r[i] for i in order] for r in lp["rows"]]
    if rows_too:
        ilb = lp["names"].index("_atom_site_aniso_label")
        if not any(r[ilb] == "?" for r in lp["rows"]):
            rng.shuffle(rows)
    return {"names": [lp["names"][i] for i in order], "rows": rows}
