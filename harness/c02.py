"""C02 — symmetry expansion of a site returns exactly its crystallographic orbit.

Lean: DS.Model.Orbit (literal transcription of expandPosition on exact coordinates),
DS.Props.C02 (orbit_exact under Sep, orbit–stabiliser, for every tabulated setting via C03).
Tie: (1) source tie DS.Props.SrcSym: `translate/src_sym.py` transliterates the CURRENT source of expandPosition and its
helpers over a generic ordered field with floor, and the theorem `refines` proves that this transliteration on x/D,
off/D, eps = E/D is DS.Orbit.expand / D (exact real/rational arithmetic); (2) correspondence model vs
`expandPosition`/`GeneratorSite` on all settings x strata x variants (floating point).
Oracle: exact orbit with `fractions` computed from the runtime tables, independent of the model.
Two further strata are judged by the oracle alone (`site_plan` / `judge_site`, no model side): "eau" - ONE
ExpandAsymmetricUnit call with several core sites (a stratum representative listed twice and its neighbours at 0.3, 3, 30 eps
in seeded order, eps 1e-7 / default / 1e-5 / 1e-3, in the cell and ten cells away), every listed site judged on its own;
"near" - sites 1e-7 / 1e-9 off a special position expanded with eps = 0 (exact mode: all distinct exact images distinct) or
eps 1e-10 / 1e-8 through expandPosition, GeneratorSite and ExpandAsymmetricUnit.  Their replays re-execute the whole call.
"""
import json
import math
import os
from fractions import Fraction

import numpy

from . import common, strata
from .c03 import F

EPS = Fraction(1, 100000)


def exact_ops(sg):
    out = []
    for o in sg.symop_list:
        R = [[F(o.R[i][j]) for j in range(3)] for i in range(3)]
        t = [F(o.t[i]) for i in range(3)]
        out.append((R, t))
    return out


def apply(op, x, off):
    R, t = op
    y = [x[i] + off[i] for i in range(3)]
    return tuple((sum(R[i][j] * y[j] for j in range(3)) + t[i] - off[i]) % 1 for i in range(3))


def pdist(a, b):
    d = 0.0
    for u, v in zip(a, b):
        w = float(u - v) % 1.0
        d = max(d, min(w, 1.0 - w))
    return d


def oracle_classes(sg, x0, off):
    """Exact orbit of the exact site x0: ordered distinct images and op classes."""
    ops = exact_ops(sg)
    pos, cls, index = [], [], {}
    for i, op in enumerate(ops):
        p = apply(op, x0, off)
        if p not in index:
            index[p] = len(pos)
            pos.append(p)
            cls.append([])
        cls[index[p]].append(i)
    return pos, cls


def lcm(a, b):
    return a * b // math.gcd(a, b)


def model_line(sg, x, off):
    q = 100000
    for v in list(x) + list(off):
        q = lcm(q, Fraction(v).denominator)
    k = q
    D = 24 * k
    E = D // 100000
    xi = [int(Fraction(v) * D) for v in x]
    oi = [int(Fraction(v) * D) for v in off]
    return "orbit %d %d %d %d %d %d %d %d %d" % (sg.number, k, E, oi[0], oi[1], oi[2], xi[0], xi[1], xi[2]), D


def parse_model(out, D):
    m, ps, cs = out.split("|")
    pos = [tuple(Fraction(int(v), D) for v in p.split()) for p in ps.split(";")] if ps else []
    cls = [[int(i) for i in c.split(",")] if c else [] for c in cs.split(";")] if cs else []
    return int(m), pos, cls


def gen_cases(ck, sgs, allstrata, widen=False):
    """yield (sg, kind, x0 exact special site, x actual input (Fractions), off).
    `widen`: the source tie is broken, search harder (more sites per setting, origin offsets for every site)."""
    nmax = (10 if widen else 6) if ck.tier == "quick" else 10 ** 6
    offs = [(Fraction(0),) * 3, (Fraction(1, 4), Fraction(1, 4), Fraction(1, 4)), (Fraction(1, 10), Fraction(1, 5), Fraction(3, 10)),
            (Fraction(0), Fraction(1, 4), Fraction(0)), (Fraction(1, 4), Fraction(1, 8), Fraction(0)), (Fraction(0), Fraction(0), Fraction(1, 2))]
    for sg in sgs:
        st = allstrata.get(sg.number)
        if not st:
            continue
        idx = list(range(len(st)))
        if len(idx) > nmax:
            # always the general position and the most symmetric site, rest seeded
            best = max(idx, key=lambda i: st[i]["nstab"])
            rest = [i for i in idx if i not in (0, best)]
            ck.rng.shuffle(rest)
            idx = [0, best] + rest[: nmax - 2]
        for i in idx:
            x0 = [strata.frac(p) for p in st[i]["xyz"]]
            zero = offs[0]
            yield sg, "exact", x0, x0, zero, st[i]
            d = [Fraction(ck.rng.choice([-3, -2, -1, 1, 2, 3]), 1) for _ in range(3)]
            xin = [x0[j] + d[j] * Fraction(1, 10 ** 7) / 3 for j in range(3)]
            yield sg, "inside", x0, xin, zero, st[i]
            xout = [x0[j] + d[j] * Fraction(1, 1000) * Fraction(7 + j, 10) for j in range(3)]
            yield sg, "outside", xout, xout, zero, st[i]
            n = [ck.rng.randrange(-2, 3) for _ in range(3)]
            xs = [x0[j] + n[j] for j in range(3)]
            yield sg, "shift", xs, xs, zero, st[i]
            if st[i]["nstab"] > 1:
                # displaced by 0.30-0.48 eps in EVERY coordinate: images of the site-symmetry operations lie up to
                # ~0.96 eps apart per coordinate (more than eps in Euclidean norm), around the bucket edges
                # (prime denominators; redrawn when some pair of images is within 0.1% of the cutoff in a coordinate, where
                # exact and floating-point comparison may legitimately differ)
                ops = exact_ops(sg)
                for _ in range(20):
                    f = [Fraction(ck.rng.choice([-1, 1]) * ck.rng.randrange(3002, 4804), q) for q in (10007, 10009, 10037)]
                    xe = [x0[j] + f[j] * EPS for j in range(3)]
                    imgs = list({apply(op, xe, zero) for op in ops})
                    near = False
                    for a in range(len(imgs)):
                        for b in range(a + 1, len(imgs)):
                            for u, v in zip(imgs[a], imgs[b]):
                                w = (u - v) % 1
                                w = min(w, 1 - w)
                                if abs(w - EPS) < EPS / 1000:
                                    near = True
                    if not near:
                        yield sg, "edge", x0, xe, zero, st[i]
                        break
            n2 = [ck.rng.choice([-2, -1, -1, 1]) for _ in range(3)]
            yield sg, "inside+shift", [x0[j] + n2[j] for j in range(3)], [xin[j] + n2[j] for j in range(3)], zero, st[i]
            if ck.tier == "thorough" or widen or i in idx[:2]:
                off = offs[1 + (sg.number + i) % (len(offs) - 1)]   # also origin shifts along one or two axes only
                xo = [x0[j] - off[j] for j in range(3)]
                yield sg, "offset", xo, xo, off, st[i]
                xio = [xin[j] - off[j] for j in range(3)]
                yield sg, "inside+offset", xo, xio, off, st[i]
            if ck.tier == "thorough":
                for off in offs[1:]:
                    xo = [x0[j] - off[j] + Fraction(ck.rng.randrange(-1, 2)) for j in range(3)]
                    yield sg, "offset+shift", xo, xo, off, st[i]


def check_tolerance(sg, x, off, pos, cls, mult):
    """Oracle for sites displaced from a special position by a sizeable fraction of the tolerance (`edge`): the
    documented meaning of `eps` ("cutoff for equal positions", `equalPositions`: every coordinate differs by at most
    eps, periodically) decides what "distinct images" are.  Returned positions must be pairwise distinct in that
    sense, every operation attributed once, and every image within the tolerance chain (2 eps) of its position."""
    eps = 1.0e-5
    n = len(sg.symop_list)
    if mult != len(pos) or len(cls) != len(pos):
        return "inconsistent lengths: multiplicity %r, %d positions, %d op lists" % (mult, len(pos), len(cls)), None
    for p in pos:
        if not all(0.0 <= c < 1.0 for c in p):
            return "position %r not reduced into the unit cell" % (list(map(float, p)),), None
    if pdist(pos[0], [v % 1 for v in x]) > 1e-12:
        return "input site is not first: %r" % (list(map(float, pos[0])),), None
    for i in range(len(pos)):
        for j in range(i + 1, len(pos)):
            d = pdist(pos[i], pos[j])
            if d < 0.999 * eps:
                return ("returned positions %d and %d, %r and %r, are equal within the tolerance (largest coordinate difference %.3g < eps = 1e-5) "
                        "but are listed as two distinct sites" % (i, j, list(map(float, pos[i])), list(map(float, pos[j])), d)), None
    idx_of = {id(o): i for i, o in enumerate(sg.symop_list)}
    got = [sorted(idx_of.get(id(o), -1) for o in c) for c in cls]
    if sorted(i for c in got for i in c) != list(range(n)):
        return "operations are not attributed exactly once", None
    ops = exact_ops(sg)
    for j, c in enumerate(got):
        for i in c:
            img = apply(ops[i], x, off)
            if pdist(pos[j], img) > 2.002 * eps:
                return "operation %d attributed to position %d, but its image %r is %.3g away" % (
                    i, j, list(map(float, img)), pdist(pos[j], img)), None
    return None, (len(pos), [list(map(float, p)) for p in pos], got)


def check_impl(sg, kind, x0, x, off, expandPosition, GeneratorSite):
    """Oracle on the implementation result. Returns (problem or None, result summary)."""
    xf = numpy.array([float(v) for v in x])
    of = [float(v) for v in off]
    pos, cls, mult = expandPosition(sg, xf, of, 1.0e-5)
    if kind == "edge":
        return check_tolerance(sg, x, off, pos, cls, mult)
    opos, ocls = oracle_classes(sg, x0, off)
    n = len(sg.symop_list)
    tol = 1e-9 if not kind.startswith("inside") else 5e-7
    if mult != len(pos) or len(cls) != len(pos):
        return "inconsistent lengths: multiplicity %r, %d positions, %d op lists" % (mult, len(pos), len(cls)), None
    for p in pos:
        if not all(0.0 <= c < 1.0 for c in p):
            return "position %r not reduced into the unit cell" % (list(map(float, p)),), None
    if len(pos) != len(opos):
        return "multiplicity %d, exact orbit has %d points" % (len(pos), len(opos)), None
    if pdist(pos[0], [v % 1 for v in x]) > 1e-12:
        return "input site is not first: %r" % (list(map(float, pos[0])),), None
    idx_of = {id(o): i for i, o in enumerate(sg.symop_list)}
    got = []
    for p, c in zip(pos, cls):
        got.append(sorted(idx_of.get(id(o), -1) for o in c))
    for j, (p, op_, c, oc) in enumerate(zip(pos, opos, got, ocls)):
        if pdist(p, op_) > tol:
            return "position %d is %r, exact orbit point is %r" % (j, list(map(float, p)), list(map(float, op_))), None
        if c != sorted(oc):
            return "operations attributed to position %d are %r, exact: %r" % (j, c, sorted(oc)), None
    allidx = sorted(i for c in got for i in c)
    if allidx != list(range(n)):
        return "operations are not attributed exactly once", None
    if len(pos) * len(got[0]) != n:
        return "multiplicity %d x stabiliser %d != group order %d" % (len(pos), len(got[0]), n), None
    if kind in ("inside", "offset", "offset+shift", "inside+offset", "inside+shift"):
        # GeneratorSite re-expands the (possibly adjusted) site: same orbit, also with a shifted origin
        gs = GeneratorSite(sg, xf, sgoffset=of, eps=1.0e-5)
        if gs.multiplicity != len(opos):
            return "GeneratorSite multiplicity %d, exact %d" % (gs.multiplicity, len(opos)), None
        if pdist(gs.xyz, x0) > 2e-7:
            return "GeneratorSite snapped to %r, special position is %r" % (gs.xyz.tolist(), list(map(float, x0))), None
        gcls = [sorted(idx_of.get(id(o), -1) for o in c) for c in gs.symops]
        if gcls != [sorted(c) for c in ocls]:
            return "GeneratorSite.symops attribution %r differs from the exact orbit's %r" % (gcls[:4], [sorted(c) for c in ocls][:4]), None
        # the adjusted site must stay within the tolerance of the special position and its listed
        # equivalent positions must be the exact orbit (the property speaks about the returned set;
        # how exactly the site is snapped is not part of the statement)
        if len(gs.eqxyz) != len(opos) or any(pdist(p, q) > tol for p, q in zip(gs.eqxyz, opos)):
            return "GeneratorSite.eqxyz %r differs from the exact orbit" % ([list(map(float, p)) for p in gs.eqxyz],), None
    # the returned arrays are the caller's: after they were edited in place, expanding the same site again gives the same
    # orbit (nothing of an earlier result is kept and handed out again), for expandPosition and, on every 4th case, GeneratorSite
    _PURITY[0] += 1
    first = [list(map(float, p)) for p in pos]
    for p in pos:
        p += 0.123
    pos2, cls2, mult2 = expandPosition(sg, numpy.array([float(v) for v in x]), of, 1.0e-5)
    if mult2 != mult or any(pdist(p, q) > 1e-12 for p, q in zip(pos2, first)):
        return "a second expansion after the caller edited the first result in place gives %r, the first gave %r" % (
            [list(map(float, p)) for p in pos2][:3], first[:3]), None
    if _PURITY[0] % 4 == 0 or _FORCE[0]:
        g1 = GeneratorSite(sg, numpy.array([float(v) for v in x]), sgoffset=of, eps=1.0e-5)
        e1 = [list(map(float, p)) for p in g1.eqxyz]
        x1 = list(map(float, g1.xyz))
        for p in g1.eqxyz:
            p += 0.321
        g1.xyz += 0.2
        g2 = GeneratorSite(sg, numpy.array([float(v) for v in x]), sgoffset=of, eps=1.0e-5)
        if len(g2.eqxyz) != len(e1) or any(pdist(p, q) > 1e-12 for p, q in zip(g2.eqxyz, e1)) or pdist(g2.xyz, x1) > 1e-12:
            return "a second GeneratorSite of the same site, built after the caller edited eqxyz/xyz of the first in place, has eqxyz %r; the first had %r" % (
                [list(map(float, p)) for p in g2.eqxyz][:3], e1[:3]), None
    if (_PURITY[0] % 6 == 1 or _FORCE[0]) and kind in ("exact", "shift", "offset", "offset+shift"):
        # an asymmetric unit that lists the site, another member of its orbit and a cell-shifted copy: every listed site is
        # expanded on its own - its orbit, with the listed site itself first
        from diffpy.structure.symmetryutilities import ExpandAsymmetricUnit

        xq = [Fraction(v) for v in x]
        other = list(opos[-1]) if len(opos) > 1 else None
        core = [[float(v) for v in xq]]
        if other is not None:
            core.append([float(v) for v in other])
        core.append([float(xq[0] + 1), float(xq[1] - 2), float(xq[2])])
        eau = ExpandAsymmetricUnit(sg, [numpy.array(c) for c in core], sgoffset=of, eps=1.0e-5)
        for i_, c in enumerate(core):
            ps = eau.expandedpos[i_]
            if len(ps) != len(opos) or eau.multiplicity[i_] != len(opos):
                return "ExpandAsymmetricUnit: listed site %d %r expands to %d positions, its orbit has %d" % (i_, c, len(ps), len(opos)), None
            if pdist(ps[0], [v % 1 for v in c]) > 1e-9:
                return "ExpandAsymmetricUnit: the first position of listed site %d %r is %r, not the site itself" % (i_, c, list(map(float, ps[0]))), None
            if any(min(pdist(p, q) for q in opos) > max(tol, 1e-9) for p in ps):
                return "ExpandAsymmetricUnit: positions of listed site %d are not its orbit" % i_, None
    return None, (len(pos), first, got)


_PURITY = [0]
_FORCE = [False]     # the replay runs every optional part of the oracle


# ---------------------------------------------------------------------------------------------------------------------
# Strata "eau" (ONE ExpandAsymmetricUnit call with several core sites, consecutive near-neighbours, user-chosen eps, sites
# inside the cell and ten cells away) and "near" (eps = 0 / tiny eps on sites 1e-7, 1e-9 away from special positions,
# through expandPosition, GeneratorSite and ExpandAsymmetricUnit).  Every site is judged on its own by `judge_site`
# against `site_plan`: the exact images of the site (fractions), grouped by the documented meaning of `eps`
# ("cutoff for equal positions", box distance, periodic).  The generator keeps only sites for which that meaning
# decides the answer (closeness of the images is an equivalence relation, no distance within 0.1 % of the cutoff).

MARGIN = 1.0e-3          # relative distance from the cutoff below which exact and floating comparison may differ
MINSEP = 4.0e-11         # distinct exact images nearer than this are not told apart reliably in double precision (eps = 0)
DELTAS = (Fraction(0), Fraction(3, 10), Fraction(3), Fraction(30))   # neighbour distances in units of eps
EAU_COMBOS = (((Fraction(1, 10 ** 7), "1e-7"), "in"), ((EPS, None), "far"), ((Fraction(1, 1000), "1e-3"), "mixed"),
              ((Fraction(1, 10 ** 7), "1e-7"), "far"), ((EPS, "1e-5"), "in"), ((Fraction(1, 1000), "1e-3"), "far"))
NEAR_COMBOS = ((Fraction(0), Fraction(1, 10 ** 7)), (Fraction(0), Fraction(1, 10 ** 9)),
               (Fraction(1, 10 ** 10), Fraction(1, 10 ** 7)), (Fraction(1, 10 ** 8), Fraction(1, 10 ** 7)))


def unreduced(op, x, off):
    R, t = op
    y = [x[i] + off[i] for i in range(3)]
    return [sum(R[i][j] * y[j] for j in range(3)) + t[i] - off[i] for i in range(3)]


def _boxmatrix(P):
    D = numpy.abs(P[:, None, :] - P[None, :, :])
    D = numpy.minimum(D, 1.0 - D)
    return D.max(axis=2)


def site_plan(ops, x, off, eps, snapped=False):
    """What the property statement says about the site x (Fractions) for the tolerance eps (Fraction, 0 = exact mode).
    None when the documented meaning of eps does not decide it or double precision cannot be trusted to see it:
    some pair of distinct images is within 0.1 % of the cutoff, closeness is not an equivalence relation with classes
    of one size, with eps = 0 two distinct images are nearer than 4e-11, the site adjusted to the middle of its own
    class has a coordinate that GeneratorSite would set to zero, or the adjusted site is itself such a case."""
    n = len(ops)
    e = float(eps)
    pos, cls, index = [], [], {}
    for i, op in enumerate(ops):
        p = apply(op, x, off)
        if p not in index:
            index[p] = len(pos)
            pos.append(p)
            cls.append([])
        cls[index[p]].append(i)
    m = len(pos)
    P = numpy.array([[float(c) for c in p] for p in pos])
    minsep = 1.0
    comp_of = list(range(m))
    if m > 1:
        B = _boxmatrix(P)
        b = B[numpy.triu_indices(m, 1)]
        minsep = float(b.min())
        if e > 0.0:
            if numpy.any(numpy.abs(b - e) <= MARGIN * e):
                return None
            A = B <= e
            comp_of = [-1] * m
            k = 0
            for i in range(m):
                if comp_of[i] >= 0:
                    continue
                mem = numpy.flatnonzero(A[i])
                if not (A[mem] == A[i]).all():
                    return None            # near a and near b, but a and b are not near: no classes
                for j in mem:
                    comp_of[int(j)] = k
                k += 1
        elif minsep < MINSEP:
            return None
    k = max(comp_of) + 1
    comp = [[] for _ in range(k)]
    for i, c in enumerate(comp_of):
        comp[c].append(i)
    compops = [sorted(o for i in members for o in cls[i]) for members in comp]
    if len({len(c) for c in compops}) != 1:
        return None
    sep = all(len(members) == 1 for members in comp)
    xm = tuple(v % 1 for v in x)
    home = comp_of[index[xm]] if xm in index else None
    if e > 0.0 and home is not None:
        # the middle of the site's own class (where a site within the tolerance of a special position is moved to)
        acc = [Fraction(0)] * 3
        for o in compops[home]:
            y = unreduced(ops[o], x, off)
            for c in range(3):
                d = y[c] - x[c]
                acc[c] += d - round(d)
        mid = [x[c] + acc[c] / len(compops[home]) for c in range(3)]
        if any(0 < abs(v) < Fraction(5, 2) * eps for v in mid):
            return None
        if not sep:
            if snapped:
                return None
            sub = site_plan(ops, mid, off, eps, snapped=True)
            if sub is None or not sub["sep"] or len(sub["comp"]) != k:
                return None
    elif e > 0.0 and not sep:
        return None
    return {"n": n, "P": P, "comp": comp, "comp_of": comp_of, "compops": compops, "cls": cls, "home": home, "sep": sep,
            "minsep": minsep, "of_op": {o: comp_of[i] for i in range(m) for o in cls[i]}}


def judge_site(plan, x, eps, pos, got, mult, what):
    """The expansion (pos, got = operation indices per position or None, mult) of the site x against its plan.
    eps > 0: one returned position per class of images, equal within the tolerance to every image of its class (to
    1e-9 when no two distinct images are within the tolerance), the class of the site itself first, the operations of
    a class attributed to its position, multiplicity x (operations of the first class) = group order.
    eps = 0: every two distinct exact images are returned as distinct positions (images that are equal exactly may be told
    apart by round-off, which is not judged)."""
    e = float(eps)
    n = plan["n"]
    k = len(plan["comp"])
    if mult != len(pos) or (got is not None and len(got) != len(pos)):
        return "%s: inconsistent lengths: multiplicity %r, %d positions" % (what, mult, len(pos))
    for p in pos:
        if not all(0.0 <= c < 1.0 for c in p):
            return "%s: position %r not reduced into the unit cell" % (what, list(map(float, p)))
    exactmode = e == 0.0
    if len(pos) != k and not (exactmode and k < len(pos) <= n):
        return "%s: %d positions returned, the site %r has %d distinct images (eps = %g)" % (what, len(pos), [float(v) for v in x], k, e)
    tight = min(1.0e-9, plan["minsep"] / 4.0)
    tol = tight if (plan["sep"] or exactmode) else 1.001 * e + 1.0e-12
    P = plan["P"]
    where = []
    for j, p in enumerate(pos):
        D = numpy.abs(P - numpy.asarray(p, dtype=float)[None, :])
        D = numpy.minimum(D, 1.0 - D).max(axis=1)
        c = plan["comp_of"][int(numpy.argmin(D))]
        far = max(float(D[i]) for i in plan["comp"][c])
        if far > tol:
            return "%s: position %d %r is not an image of the site %r within the tolerance (nearest image class is %.3g away, eps = %g)" % (
                what, j, list(map(float, p)), [float(v) for v in x], far, e)
        where.append(c)
    if sorted(set(where)) != list(range(k)) or (not exactmode and len(set(where)) != len(where)):
        missing = [c for c in range(k) if c not in where]
        return "%s: the returned positions do not cover the distinct images once each (%d missing, e.g. image %r; eps = %g)" % (
            what, len(missing), P[plan["comp"][missing[0]][0]].tolist() if missing else None, e)
    if pdist(pos[0], [v % 1 for v in x]) > (tol if not plan["sep"] else tight):
        return "%s: the input site %r is not first: first position %r" % (what, [float(v) for v in x], list(map(float, pos[0])))
    if got is not None:
        if sorted(i for c in got for i in c) != list(range(n)):
            return "%s: operations are not attributed exactly once" % what
        for j, c in enumerate(got):
            for i in c:
                if plan["of_op"][i] != where[j]:
                    return "%s: operation %d is attributed to position %d %r, which is not its image (eps = %g)" % (
                        what, i, j, list(map(float, pos[j])), e)
        if len(pos) == k and len(pos) * len(got[0]) != n:
            return "%s: multiplicity %d x stabiliser %d != group order %d" % (what, len(pos), len(got[0]), n)
    if len(pos) == k and plan["home"] is not None and len(pos) * len(plan["compops"][plan["home"]]) != n:
        return "%s: multiplicity %d x %d operations keeping the site != group order %d" % (what, len(pos), len(plan["compops"][plan["home"]]), n)
    return None


def _direction(rng):
    """displacement direction with largest component exactly +-1, the others 0.15-0.95 with a prime denominator"""
    d = [Fraction(rng.choice([-1, 1]) * rng.randrange(152, 958), 1009) for _ in range(3)]
    d[rng.randrange(3)] = Fraction(rng.choice([-1, 1]))
    return d


def gen_eau(rng, sg, st, combo, off, ngroups):
    """One ExpandAsymmetricUnit call: per group a base site (a stratum representative, placed in the cell or ten cells
    away) listed twice, and its neighbours at 0.3, 3 and 30 eps along one direction, in seeded order; groups one after
    another.  Returns the replay record (sites as exact fractions) or None."""
    (eps, epsname), place = combo
    ops = exact_ops(sg)
    special = [i for i in range(len(st)) if st[i]["nstab"] > 1]
    sites, tags = [], []
    for g in range(ngroups):
        if g == 0 and special:
            i = max(special, key=lambda i_: st[i_]["nstab"]) if rng.random() < 0.5 else rng.choice(special)
        else:
            i = rng.randrange(len(st))
        s = [strata.frac(p) for p in st[i]["xyz"]]
        far = place == "far" or (place == "mixed" and rng.random() < 0.5)
        shift = [rng.choice([-10, 10]) if far else 0 for _ in range(3)]
        base = [s[c] - off[c] + shift[c] for c in range(3)]
        best = []
        for _ in range(12):
            d = _direction(rng)
            members = []
            for dl in (DELTAS[0],) + DELTAS:
                x = [base[c] + dl * eps * d[c] for c in range(3)]
                if site_plan(ops, x, off, eps) is not None:
                    members.append((x, "%s+%s eps" % (i, dl)))
            if len(members) > len(best):
                best = members
            if len(best) == len(DELTAS) + 1:
                break
        rng.shuffle(best)
        sites += [m[0] for m in best]
        tags += [m[1] for m in best]
    if not sites:
        return None
    return {"kind": "eau", "setting": sg.number, "eps": epsname, "eps_exact": str(eps), "place": place,
            "sgoffset": [str(v) for v in off], "sites": [[str(v) for v in x] for x in sites], "tags": tags}


def gen_near(rng, sg, st, i, combo, off, epsint):
    """A site delta (1e-7, 1e-9) away from the special position st[i] in a generic direction, to be expanded with
    eps = 0 or a tiny eps by the three entry points."""
    eps, delta = combo
    ops = exact_ops(sg)
    s = [strata.frac(p) for p in st[i]["xyz"]]
    shift = [rng.choice([0, 0, 0, -1, 1]) for _ in range(3)]
    for _ in range(12):
        d = _direction(rng)
        x = [s[c] - off[c] + shift[c] + delta * d[c] for c in range(3)]
        if site_plan(ops, x, off, eps) is not None:
            return {"kind": "near", "setting": sg.number, "eps_exact": str(eps), "eps_int": bool(epsint and eps == 0),
                    "delta": str(delta), "sgoffset": [str(v) for v in off], "xyz": [str(v) for v in x],
                    "special_site": [str(v) for v in s]}
    return None


def _epsarg(r):
    eps = Fraction(r["eps_exact"])
    if r["kind"] == "eau":
        return eps, (None if r["eps"] is None else float(eps))
    return eps, (0 if r.get("eps_int") else float(eps))


def _opidx(sg, cls):
    idx_of = {id(o): i for i, o in enumerate(sg.symop_list)}
    return [sorted(idx_of.get(id(o), -1) for o in c) for c in cls]


def run_record(sg, r):
    """Re-execute the whole call of an "eau" / "near" record on the code under examination and judge every site.
    Returns (problem or None, number of sites judged)."""
    from diffpy.structure.symmetryutilities import ExpandAsymmetricUnit, GeneratorSite, expandPosition

    ops = exact_ops(sg)
    off = [Fraction(v) for v in r["sgoffset"]]
    of = [float(v) for v in off]
    eps, epsarg = _epsarg(r)
    if r["kind"] == "eau":
        sites = [[Fraction(v) for v in x] for x in r["sites"]]
        core = [numpy.array([float(v) for v in x]) for x in sites]
        eau = ExpandAsymmetricUnit(sg, core, sgoffset=of, eps=epsarg)
        if len(eau.expandedpos) != len(core) or len(eau.multiplicity) != len(core):
            return "ExpandAsymmetricUnit of %d sites returned %d expansions" % (len(core), len(eau.expandedpos)), 0
        nj = 0
        for i, x in enumerate(sites):
            plan = site_plan(ops, x, off, eps)
            if plan is None:
                continue
            nj += 1
            prob = judge_site(plan, x, eps, eau.expandedpos[i], None, eau.multiplicity[i],
                              "ExpandAsymmetricUnit(%d sites, eps=%s) listed site %d" % (len(core), r["eps"] or "default", i))
            if prob:
                return prob, nj
        return None, nj
    x = [Fraction(v) for v in r["xyz"]]
    plan = site_plan(ops, x, off, eps)
    if plan is None:
        return None, 0
    xf = numpy.array([float(v) for v in x])
    pos, cls, mult = expandPosition(sg, xf.copy(), of, epsarg)
    prob = judge_site(plan, x, eps, pos, _opidx(sg, cls), mult, "expandPosition(eps=%r)" % (epsarg,))
    if prob:
        return prob, 1
    gs = GeneratorSite(sg, xf.copy(), sgoffset=of, eps=epsarg)
    prob = judge_site(plan, x, eps, gs.eqxyz, _opidx(sg, gs.symops), gs.multiplicity, "GeneratorSite(eps=%r)" % (epsarg,))
    if prob:
        return prob, 1
    moved = max(abs(float(a) - float(b)) for a, b in zip(gs.xyz, x))
    if moved > (min(1.0e-9, plan["minsep"] / 4.0) if plan["sep"] or eps == 0 else 1.001 * float(eps)):
        return "GeneratorSite(eps=%r) moved the site %r to %r, farther than the tolerance" % (epsarg, xf.tolist(), gs.xyz.tolist()), 1
    if len(gs.eqxyz) == len(plan["comp"]) and len(gs.invariants) * gs.multiplicity != plan["n"]:
        return "GeneratorSite(eps=%r): %d invariants x multiplicity %d != group order %d" % (epsarg, len(gs.invariants), gs.multiplicity, plan["n"]), 1
    eau = ExpandAsymmetricUnit(sg, [xf.copy()], sgoffset=of, eps=epsarg)
    prob = judge_site(plan, x, eps, eau.expandedpos[0], None, eau.multiplicity[0], "ExpandAsymmetricUnit(1 site, eps=%r)" % (epsarg,))
    return prob, 1


def guarded_record(sg, r):
    before = [(o.R.tobytes(), o.t.tobytes()) for o in sg.symop_list]
    try:
        res = run_record(sg, r)
    except Exception as e:  # noqa: BLE001
        res = ("raised %r" % (e,), 0)
    after = [(o.R.tobytes(), o.t.tobytes()) for o in sg.symop_list]
    if after != before:
        for o, (rb, tb) in zip(sg.symop_list, before):
            o.R[...] = numpy.frombuffer(rb, dtype=o.R.dtype).reshape(o.R.shape)
            o.t[...] = numpy.frombuffer(tb, dtype=o.t.dtype).reshape(o.t.shape)
        return "the expansion changed the tabulated operations of the setting in place", res[1]
    return res


def _record_worker(job):
    """job = (setting number, "eau"/"near"/"record", ...): build the case from its own seeded generator, run it."""
    import random

    num, kind = job[0], job[1]
    sg = _W["sgs"][num]
    if kind == "record":
        r = job[2]
    else:
        st = _W["strata"][num]
        rng = random.Random(job[2])
        if kind == "eau":
            r = gen_eau(rng, sg, st, job[3], job[4], job[5])
        else:
            r = gen_near(rng, sg, st, job[3], job[4], job[5], job[6])
    if r is None:
        return None, None, 0
    prob, nj = guarded_record(sg, r)
    return r, prob, nj


def record_jobs(ck, sglist, allstrata, widen):
    """Seeded list of jobs of the two strata (generation and redraws happen in the workers, each from its own seed)."""
    offs = [(Fraction(0),) * 3, (Fraction(1, 4), Fraction(1, 4), Fraction(1, 4)), (Fraction(1, 10), Fraction(1, 5), Fraction(3, 10)),
            (Fraction(0), Fraction(1, 4), Fraction(0))]
    zero = offs[0]
    jobs = []
    thorough = ck.tier == "thorough"
    for k, sg in enumerate(sglist):
        st = allstrata.get(sg.number)
        if not st:
            continue
        half = (k + ck.seed) % 2
        combos = EAU_COMBOS if thorough else EAU_COMBOS[3 * half: 3 * half + 3]
        for c, combo in enumerate(combos):
            for rep in range(3 if thorough else 1):
                shifted = (k + c) % 5 == 0 or (rep > 0 and (thorough or widen))
                off = offs[1 + (k + c + rep) % (len(offs) - 1)] if shifted else zero
                jobs.append((sg.number, "eau", ck.rng.getrandbits(48), combo, off, 2 if (thorough or c == 0) else 1))
        special = [i for i in range(len(st)) if st[i]["nstab"] > 1]
        if not special:
            continue
        best = max(special, key=lambda i_: st[i_]["nstab"])
        if thorough:
            chosen = special
        else:
            rest = [i for i in special if i != best]
            ck.rng.shuffle(rest)
            chosen = [best] + rest[:(3 if widen else 1)]
        for a, i in enumerate(chosen):
            ncombo = len(NEAR_COMBOS) if (thorough or widen) else 2
            for b in range(ncombo):
                # quick: eps = 0 with one of the two offsets, and one tiny eps
                combo = NEAR_COMBOS[b] if (thorough or widen) else (NEAR_COMBOS[(k + a + ck.seed) % 2] if b == 0 else NEAR_COMBOS[2 + (k + a) % 2])
                off = offs[1 + (k + a + b) % 3] if (k + a + b) % 4 == 0 else zero
                jobs.append((sg.number, "near", ck.rng.getrandbits(48), i, combo, off, (k + a) % 3 == 0))
    return jobs


def source_tie_sym(ck):
    """`ck.source_tie` for the group "sym"; repeated when another check running at the same time (other tree, same
    lean/DS/Gen) has overwritten the generated file between translation and build"""
    from translate import pysrc
    ok, info = False, {}
    for attempt in range(3):
        before = (ck.coverage["obligations"], ck.coverage["discharged"])
        ok, info = ck.source_tie("DS.Props.SrcSym", groups=("sym",))
        try:
            pysrc.REPO = common.REPO
            plug = pysrc.plugins()["sym"]
            want = plug.translate({})
            have = open(os.path.join(common.LEAN, "DS", "Gen", plug.OUTFILE), encoding="utf-8").read()
        except Exception:  # noqa: BLE001  (unreadable source: source_tie has already recorded the broken tie)
            break
        if want == have:
            break
        ck.notes.append("lean/DS/Gen/SrcSym.lean was overwritten by a concurrent run; source tie repeated")
        if attempt < 2:
            ck.coverage["obligations"], ck.coverage["discharged"] = before
    return ok, info


_W = {}


def guarded_impl(sg, kind, x0, x, off, expandPosition, GeneratorSite):
    """`check_impl`, and: the call leaves the tabulated operations of the setting as they were"""
    import numpy as _np

    before = [(o.R.tobytes(), o.t.tobytes()) for o in sg.symop_list]
    try:
        res = check_impl(sg, kind, x0, x, off, expandPosition, GeneratorSite)
    except Exception as e:  # noqa: BLE001
        res = ("raised %r" % (e,), None)
    after = [(o.R.tobytes(), o.t.tobytes()) for o in sg.symop_list]
    if after != before:
        k = next(i for i, (a, b) in enumerate(zip(before, after)) if a != b)
        # restore, so that the cases that follow in this process are judged on the tables as tabulated
        for o, (rb, tb) in zip(sg.symop_list, before):
            o.R[...] = _np.frombuffer(rb, dtype=o.R.dtype).reshape(o.R.shape)
            o.t[...] = _np.frombuffer(tb, dtype=o.t.dtype).reshape(o.t.shape)
        return ("the expansion changed the tabulated operation %d of the setting in place (translation now %r)" % (
            k, _np.frombuffer(after[k][1], dtype=float).tolist()), None)
    return res


def _impl_worker(job):
    if job[1] in ("eau", "near", "record"):
        return _record_worker(job)
    num, kind, x0, x, off = job
    return guarded_impl(_W["sgs"][num], kind, x0, x, off, *_W["fns"])


def run(ck):
    import diffpy.structure.spacegroups as sgs
    from diffpy.structure.symmetryutilities import GeneratorSite, expandPosition

    # regenerate tables for the model side (shared with C03)
    import sys

    sys.path.insert(0, common.VERIF)
    from translate import tables

    rep = tables.main(os.path.join(common.LEAN, "DS", "Gen"), os.path.join(common.LEAN, "DS", "Gen", "tables_report.json"))
    translated = {s["number"] for s in rep["settings"]}
    # source tie: the integer model is the transliteration of the current source in exact arithmetic (DS.Props.SrcSym.refines)
    tie_ok, tie_info = source_tie_sym(ck)
    ok, info = ck.lean_obligations("DS.Props.C02")
    ok_g, info_g = ck.lean_obligations("DS.Props.C02Gap")
    if not ok_g:
        ok, info = False, info_g
    allstrata = strata.all_strata(sgs.SpaceGroupList)
    # corpus of minimised past failures first (harness/c02_corpus.json), then the generated cases
    cases = []
    try:
        corpus = json.load(open(os.path.join(os.path.dirname(os.path.abspath(__file__)), "c02_corpus.json")))
    except OSError:
        corpus = []
    bynum = {g.number: g for g in sgs.SpaceGroupList}
    rjobs = []
    for r in corpus:
        g = bynum.get(r["setting"])
        if g is not None and r.get("kind") in ("eau", "near"):
            rjobs.append((g.number, "record", r))
        elif g is not None:
            cases.append((g, r["variant"], [Fraction(v) for v in r["special_site"]], [Fraction(v) for v in r["xyz"]],
                          tuple(Fraction(v) for v in r["sgoffset"]), {"nstab": 1, "corpus": True}))
    ck.coverage["corpus_cases"] = len(cases) + len(rjobs)
    cases += list(gen_cases(ck, sgs.SpaceGroupList, allstrata, widen=not tie_ok))
    rjobs += record_jobs(ck, sgs.SpaceGroupList, allstrata, widen=not tie_ok)
    lines, Ds, mcases = [], [], []
    for c in cases:
        sg, kind, x0, x, off, st = c
        if sg.number in translated:
            ln, D = model_line(sg, x, off)
            lines.append(ln)
            Ds.append(D)
            mcases.append(c)
    try:
        outs = common.driver(lines)
    except common.DriverBroken as e:
        outs = None
        ck.notes.append("driver unavailable: %s" % str(e)[:300])
    model = {}
    if outs is not None:
        for c, o, D in zip(mcases, outs, Ds):
            model[id(c)] = (o, D)
    distinct = set()
    nfail = 0
    kinds = {}
    # the implementation-side oracle of every case, in worker processes (one family = the settings of one table number)
    _W["sgs"] = bynum
    _W["fns"] = (expandPosition, GeneratorSite)
    _W["strata"] = allstrata
    impl = common.parallel_families(_impl_worker, rjobs + [(c[0].number, c[1], c[2], c[3], c[4]) for c in cases], lambda j: j[0] % 1000, ck.notes)
    rres, impl = impl[:len(rjobs)], impl[len(rjobs):]
    # several core sites per ExpandAsymmetricUnit call / eps = 0 and tiny eps next to special positions
    nrec = {"eau": 0, "near": 0}
    nsites = {"eau": 0, "near": 0}
    rsamples = []
    for job, (r, prob, nj) in zip(rjobs, rres):
        if r is None:
            continue
        nrec[r["kind"]] += 1
        nsites[r["kind"]] += nj
        ck.coverage["evaluations"] += 1
        distinct.add((r["setting"], r["kind"], json.dumps(r.get("sites") or r.get("xyz")), r["eps_exact"]))
        if len(rsamples) < 2 and r["kind"] not in [q["kind"] for q in rsamples]:
            rsamples.append(r)
        if prob:
            nfail += 1
            sgr = bynum[r["setting"]]
            if r["kind"] == "eau":
                key = "expand-unit:%s:eps=%s:%s" % (r["setting"], r["eps"] or "default", r["place"])
                what = "ExpandAsymmetricUnit(%s #%s, %d core sites %s, sgoffset=%s, eps=%s): %s" % (
                    sgr.short_name, r["setting"], len(r["sites"]), [[float(Fraction(v)) for v in x] for x in r["sites"]],
                    [float(Fraction(v)) for v in r["sgoffset"]], r["eps"] or "default", prob)
            else:
                key = "expand-eps:%s:eps=%s" % (r["setting"], r["eps_exact"])
                what = "site %s of %s #%s (%s away from the special position %s), sgoffset=%s, eps=%s: %s" % (
                    [float(Fraction(v)) for v in r["xyz"]], sgr.short_name, r["setting"], r["delta"],
                    [float(Fraction(v)) for v in r["special_site"]], [float(Fraction(v)) for v in r["sgoffset"]], r["eps_exact"], prob)
            ck.fail(key, what, dict(r, detail=prob))
    ck.coverage["unit_calls"] = nrec["eau"]
    ck.coverage["unit_sites_judged"] = nsites["eau"]
    ck.coverage["exact_mode_sites"] = nrec["near"]
    for c, (prob, summ) in zip(cases, impl):
        sg, kind, x0, x, off, st = c
        ck.coverage["evaluations"] += 1
        kinds[kind] = kinds.get(kind, 0) + 1
        if st["nstab"] > 1 or kind != "exact":
            distinct.add((sg.number, tuple(map(str, x)), tuple(map(str, off))))
        key = "expand:%s:%s" % (sg.number, kind)
        repl = {"kind": "input", "setting": sg.number, "variant": kind, "xyz": [str(v) for v in x],
                "special_site": [str(v) for v in x0], "sgoffset": [str(v) for v in off]}
        if prob:
            nfail += 1
            ck.fail(key, "expandPosition(%s #%s, %s) %s" % (sg.short_name, sg.number, [float(v) for v in x], prob), dict(repl, detail=prob))
            continue
        # correspondence with the model
        if id(c) in model:
            o, D = model[id(c)]
            ck.coverage["traces_validated_against_impl"] += 1
            try:
                mm, mpos, mcls = parse_model(o, D)
            except Exception:
                mm, mpos, mcls = -1, [], []
            tol = 1e-9 if not (kind.startswith("inside") or kind == "edge") else 5e-7
            agree = (mm == summ[0] and len(mpos) == len(summ[1]) and all(pdist(a, b) <= tol for a, b in zip(mpos, summ[1])))
            if agree and kind == "edge":
                # an image within the cutoff of TWO listed positions may go to either (nearest-site ties are decided by
                # round-off): attribution is compared for the operations whose image is near exactly one listed position
                ops = exact_ops(sg)
                where_m = {i: j for j, cl in enumerate(mcls) for i in cl}
                where_i = {i: j for j, cl in enumerate(summ[2]) for i in cl}
                for i, op in enumerate(ops):
                    img = apply(op, x, off)
                    nearby = [j for j, q in enumerate(mpos) if pdist(q, img) <= 1.001e-5]
                    if len(nearby) == 1 and where_m.get(i) != where_i.get(i):
                        agree = False
            elif agree:
                agree = [sorted(cl) for cl in mcls] == summ[2]
            if not agree:
                # the oracle accepted the implementation's result, so the disagreement is the model's:
                # report as a broken tie with no failing input (never silently ignore)
                ck.fail("model-disagrees:%s:%s" % (sg.number, kind),
                        "Lean model DS.Model.Orbit disagrees with expandPosition on %s #%s %s although the exact oracle accepts the implementation" % (sg.short_name, sg.number, kind),
                        dict(repl, model=o[:500], impl=summ, theorem="correspondence stream orbit"), no_failing_input=True)
    ck.coverage["distinct_nontrivial"] = len(distinct)
    ck.coverage["rule"] = ("all %d settings x Wyckoff strata representatives (exact finder, <=6 per setting in quick) x variants %s; "
                           "distinct_nontrivial = distinct (setting, site, offset) inputs that are special positions or perturbed/shifted/offset variants"
                           % (len(sgs.SpaceGroupList), sorted(kinds.items())))
    ck.coverage["rule"] += ("; plus %d ExpandAsymmetricUnit calls with 5-10 core sites each (a stratum representative listed twice and its neighbours at "
                            "0.3, 3, 30 eps in seeded order, eps 1e-7 / default / 1e-5 / 1e-3, in the cell and ten cells away; %d sites judged one by one against "
                            "the exact images grouped by eps) and %d sites 1e-7 / 1e-9 off a special position expanded with eps = 0 or 1e-10 / 1e-8 by "
                            "expandPosition, GeneratorSite and ExpandAsymmetricUnit" % (nrec["eau"], nsites["eau"], nrec["near"]))
    ck.coverage["variants"] = kinds
    ck.coverage["strata_total"] = sum(len(v) for v in allstrata.values())
    ck.coverage["samples"] = [
        {"input": lines[i], "model": (outs[i][:200] if outs else None)} for i in (0, len(lines) // 2, len(lines) - 1) if lines
    ] + rsamples
    ck.assumptions += [
        "DS.Props.SrcSym.refines ties DS.Orbit to the current source in exact arithmetic over any ordered field with floor (Q, R): numpy/Python primitives as read in lean/DS/Model/SymReal.lean (element-wise ops, floor, masked assignment = where, argmin = first minimum, int = truncation, dict of list objects); the eps == 0 / eps < 1/sys.maxsize branch of _Position2Tuple and the default eps are text facts; parameter types are fixed from the call sites",
        "float rounding inside SymOp.__call__ and the bucket arithmetic is observed only through the differential (tolerance 1e-9; 5e-7 for sites perturbed by 1e-7)",
        "orbit_exact covers sites whose images are pairwise equal or farther apart than eps (Sep); gap_result / perturbed_counts cover sites whose images are pairwise within eps/4 or farther than 2 eps (Gap), in particular perturbations of an exactly special site by less than eps/8; configurations in between are covered by correspondence + oracle only",
    ]
    ck.assumptions.append(
        "strata eau / near: only sites for which the documented meaning of eps decides the answer are generated (no pair of images within 0.1 % of the "
        "cutoff, closeness an equivalence relation, no coordinate of the adjusted site in (0, 2.5 eps) where GeneratorSite sets it to zero; with eps = 0 "
        "distinct images at least 4e-11 apart, and images that coincide exactly may be returned once or - told apart by round-off - twice)")
    ck.coverage["trusted_base"] += ["translate/tables.py", "harness/strata.py (generator of sites; not an oracle)",
                                    "translate/src_sym.py + lean/DS/Model/SymReal.lean (transliteration of expandPosition and the reading of the numpy primitives it is written in)"]
    ck.tie_verdict(tie_ok, tie_info, "symmetryutilities.py expandPosition/_Position2Tuple/positionDifference/nearestSiteIndex/equalPositions, spacegroupmod.py SymOp.__call__")
    if not ok and not ck.violations:
        ck.fail("lean-build", "Lean obligations of C02 no longer check: %r" % info["failed_modules"],
                {"kind": "proof-obligation", "theorem": info["failed_modules"], "errors": info["errors"]}, no_failing_input=True)


def replay(path):
    common.use_repo()
    _FORCE[0] = True
    r = json.load(open(path))
    import diffpy.structure.spacegroups as sgs
    from diffpy.structure.symmetryutilities import GeneratorSite, expandPosition

    sg = [g for g in sgs.SpaceGroupList if g.number == r["setting"]][0]
    if r.get("kind") in ("eau", "near"):
        # the whole call again: every core site, the same eps and origin shift; every site judged
        prob, nj = guarded_record(sg, r)
        print("problem:", prob, "(%d sites judged)" % nj)
        return 1 if prob else 0
    x = [Fraction(v) for v in r["xyz"]]
    x0 = [Fraction(v) for v in r["special_site"]]
    off = [Fraction(v) for v in r["sgoffset"]]
    prob, summ = guarded_impl(sg, r["variant"], x0, x, off, expandPosition, GeneratorSite)
    print("problem:", prob)
    return 1 if prob else 0
