"""C06 — displacement-parameter symmetry constraints are sound and complete.

Lean: DS.Model.Constraints (checkUspace, proj, rotT), DS.Props.C06 (checkUspace_sound: an accepted
Uspace certificate is a basis of the symmetric tensors invariant under the site symmetry;
proj_fix / proj_allowed / proj_idem; coset independence; Uformula_eval; Reynolds facts; iso_flag).
The SVD + rounding code is not modelled: its output is a certificate decided exactly per site.
Oracle (model independent): exact invariance, exact dimension of the invariant space, allowed
tensor returned unchanged, rotated tensors, formula strings evaluated with fractions.
"""
import json
import os
from fractions import Fraction

import numpy

from . import common, strata
from . import symcommon as sc
from .c02 import oracle_classes
from .c05 import gen_cases, source_tie_constraints, TIE_C05, TIE_C06, TIE_WHAT

UNIT = [
    [[1, 0, 0], [0, 0, 0], [0, 0, 0]], [[0, 0, 0], [0, 1, 0], [0, 0, 0]], [[0, 0, 0], [0, 0, 0], [0, 0, 1]],
    [[0, 1, 0], [1, 0, 0], [0, 0, 0]], [[0, 0, 1], [0, 0, 0], [1, 0, 0]], [[0, 0, 0], [0, 0, 1], [0, 1, 0]],
]
USYM = ["U11", "U22", "U33", "U12", "U13", "U23"]
UIDX = {"U11": (0, 0), "U22": (1, 1), "U33": (2, 2), "U12": (0, 1), "U13": (0, 2), "U23": (1, 2)}


def inv_dim_exact(sg, stab):
    """Exact dimension of the space of symmetric tensors invariant under the stabiliser."""
    rows = []
    for i in stab:
        R, _ = sc.exact_op(sg.symop_list[i])
        # action on the 6 components: U = sum u_k E_k ; (R U R^T - U) components must vanish
        cols = []
        for E in UNIT:
            Ef = [[Fraction(v) for v in r] for r in E]
            D = sc.rotT(R, Ef)
            cols.append([D[a][b] - Ef[a][b] for (a, b) in UIDX.values()])
        for r in range(6):
            rows.append([cols[k][r] for k in range(6)])
    return len(sc.nullspace(rows, 6))


def group_average(sg, stab, U):
    acc = [[Fraction(0)] * 3 for _ in range(3)]
    for i in stab:
        R, _ = sc.exact_op(sg.symop_list[i])
        D = sc.rotT(R, U)
        for a in range(3):
            for b in range(3):
                acc[a][b] += D[a][b]
    return [[acc[a][b] / len(stab) for b in range(3)] for a in range(3)]


def flat(M):
    return [M[a][b] for a in range(3) for b in range(3)]


def close(A, B, tol):
    return all(abs(float(A[a][b]) - float(B[a][b])) <= tol for a in range(3) for b in range(3))


def site_checks(ck, sg, kind, x0, x, GeneratorSite):
    xf = numpy.array([float(v) for v in x])
    opos, ocls = oracle_classes(sg, x0, (Fraction(0),) * 3)
    stab = sorted(ocls[0])
    # input tensors: two random symmetric ones and one exactly allowed one
    tensors = []
    for _ in range(2):
        v = [Fraction(ck.rng.randrange(-90, 91), 1000) for _ in range(6)]
        U = [[v[0] + Fraction(1, 10), v[3], v[4]], [v[3], v[1] + Fraction(1, 10), v[5]], [v[4], v[5], v[2] + Fraction(1, 10)]]
        tensors.append(("random", U))
    tensors.append(("allowed", group_average(sg, stab, tensors[0][1])))
    # an allowed tensor at another scale (components of 1e-7 .. 1e-6, far below the position tolerance): still returned unchanged
    tiny = Fraction(ck.rng.choice([1, 3, 7]), 10 ** 6)
    if kind == "exact":
        tensors.append(("allowed", [[v * tiny for v in r] for r in group_average(sg, stab, tensors[1][1])]))
    dim = inv_dim_exact(sg, stab)
    lines = []
    first = True
    for tkind, U in tensors:
        Uf = numpy.array([[float(v) for v in r] for r in U])
        Uf0 = Uf.copy()
        gs = GeneratorSite(sg, xf, Uij=Uf)
        if not numpy.array_equal(Uf, Uf0):
            # the caller's array changed: a general-position site (every tensor is allowed there) built from the same
            # array object must still store the tensor the caller provided
            gs2 = GeneratorSite(sg, numpy.array([0.1234567, 0.2345678, 0.3456789]), Uij=Uf)
            if not close(gs2.Uij, Uf0, 1e-12):
                return ("GeneratorSite overwrote the caller's Uij array %r with %r; a general-position site constructed next from the same "
                        "array stores %r instead of the (allowed) tensor provided" % (Uf0.tolist(), Uf.tolist(), gs2.Uij.tolist())), []
        Hidx = sorted(sc.op_indices(sg, gs.invariants))
        if Hidx != stab:
            return "site symmetry operations %r, exact stabiliser %r" % (Hidx, stab), []
        scale = max(1e-3, float(max(abs(v) for r in U for v in r)))
        tol = 1e-9 * max(1.0, scale) * 10
        # dimension and isotropy flag
        if len(gs.Uspace) != dim or len(gs.Uparameters) != dim:
            return "%d U parameters, the invariant tensor space has dimension %d" % (len(gs.Uparameters), dim), []
        if bool(gs.Uisotropy) != (dim == 1):
            return "Uisotropy=%r but %d free tensor parameter(s)" % (gs.Uisotropy, dim), []
        # every basis tensor invariant and symmetric (exact, after exact conversion of the rounded floats)
        B = []
        for Us in gs.Uspace:
            Bq = [[sc.rat(Us[a][b]) for b in range(3)] for a in range(3)]
            if any(v is None for r in Bq for v in r):
                return "Uspace entry is not a short rational: %r" % (Us.tolist(),), []
            B.append(Bq)
            if Bq != sc.transpose(Bq):
                return "Uspace tensor %r is not symmetric" % (Us.tolist(),), []
            for i in stab:
                R, _ = sc.exact_op(sg.symop_list[i])
                if sc.rotT(R, Bq) != Bq:
                    return "Uspace tensor %r is not invariant under site-symmetry operation %d" % (Us.tolist(), i), []
        # stored tensor: invariant; allowed input returned unchanged
        Ust = [[Fraction(float(gs.Uij[a][b])).limit_denominator(10 ** 12) for b in range(3)] for a in range(3)]
        for i in stab:
            R, _ = sc.exact_op(sg.symop_list[i])
            if not close(sc.rotT(R, Ust), Ust, tol):
                return "stored Uij %r is not invariant under site-symmetry operation %d" % (gs.Uij.tolist(), i), []
        if tkind == "allowed" and not close(Ust, U, tol):
            return "an already allowed tensor %r is changed to %r" % ([[float(v) for v in r] for r in U], gs.Uij.tolist()), []
        # parameters reproduce the stored tensor
        vals = {n: Fraction(float(v)).limit_denominator(10 ** 12) for n, v in gs.Uparameters}
        if len(vals) != len(gs.Uparameters):
            return "U parameter symbols are not distinct: %r" % ([n for n, v in gs.Uparameters],), []
        # equivalent tensors: rotation by ANY operation of the class; formulas
        for j, (p, ops) in enumerate(zip(gs.eqxyz, gs.symops)):
            for o in ops:
                R, _ = sc.exact_op(o)
                if not close(sc.rotT(R, Ust), gs.eqUij[j], tol):
                    return "eqUij[%d] %r is not the generator tensor rotated by operation %d of its class" % (
                        j, gs.eqUij[j].tolist(), sc.op_indices(sg, [o])[0]), []
            fm = gs.UFormula(p)
            if set(fm) != set(USYM):
                return "UFormula of equivalent site %d returned %r" % (j, fm), []
            for s_ in USYM:
                try:
                    val = sc.eval_linear(sc.parse_linear(fm[s_]), vals)
                except (ValueError, KeyError) as e:
                    return "UFormula %r cannot be evaluated with the reported parameters %r (%s)" % (fm[s_], sorted(vals), e), []
                a, b = UIDX[s_]
                if abs(float(val) - float(gs.eqUij[j][a][b])) > max(tol, 2e-5 * scale):
                    return "UFormula %s = %r at the reported parameters gives %r, eqUij[%d] has %r" % (
                        s_, fm[s_], float(val), j, float(gs.eqUij[j][a][b])), []
        if first:
            first = False
            dual = sc.dual_basis([flat(b) for b in B])
            if dual is None:
                return "Uspace tensors are linearly dependent", []
            m = len(B)
            nums = [sc.qstr(v) for b in B for v in flat(b)] + [sc.qstr(v) for d in dual for v in d]
            lines.append(("con.uspace %d %d %s %d %s" % (sg.number, len(stab), " ".join(map(str, stab)), m, " ".join(nums)), ("uspace", None)))
            if kind != "inside":
                nums = [sc.qstr(v) for b in B for v in flat(b)] + [sc.qstr(v) for v in flat(U)]
                lines.append(("con.proj %d %s" % (m, " ".join(nums)), ("proj", (gs.Uij.tolist(), [float(v) for n, v in gs.Uparameters], tol))))
    return None, lines


# ---- stream "neareps": input tensors that miss the site symmetry by LESS than the position cutoff ---------------------------------
# The cutoff `eps` of GeneratorSite / ExpandAsymmetricUnit / SymmetryConstraints is a tolerance for POSITIONS.  Whatever its value,
# the tensor stored for a site is the symmetry-allowed part of the input: an input = allowed tensor + symmetry-breaking perturbation
# of 0.03 / 0.3 / 0.6 / 0.9 eps per element (3 eps as a control), or an ordinary tensor together with a wide user cutoff (1e-3, 1e-2, 2e-2), must
# come back exactly invariant, as the Uspace combination of the reported parameters, reproduced by the U formulas.
NEAR_SIZES = (Fraction(3, 100), Fraction(3, 10), Fraction(6, 10), Fraction(9, 10))  # x eps per element; 0.03 eps: a tighter "compliant" threshold would show too
NEAR_CONTROL = Fraction(3)
USER_EPS = (1.0e-3, 1.0e-2, 2.0e-2)
NEAR_TOL = 1e-9  # far below every perturbation used (>= 1.8e-7 per element) and far above double round-off at these magnitudes
_SKIP = "skip"


def _sym6(v):
    return [[v[0], v[3], v[4]], [v[3], v[1], v[5]], [v[4], v[5], v[2]]]


def _maxdiff(A, B):
    return max(abs(A[a][b] - B[a][b]) for a in range(3) for b in range(3))


def _exactT(M):
    """exact rational value of a float 3x3 array"""
    return [[Fraction(float(M[a][b])) for b in range(3)] for a in range(3)]


def neareps_build(rng, sg, x0, flavour, eps, size):
    """One input of the stream: {"xyz", "U", "eps", ...} or None when the site cannot carry one (every tensor allowed)."""
    opos, ocls = oracle_classes(sg, x0, (Fraction(0),) * 3)
    stab = sorted(ocls[0])
    rots = [sc.exact_op(sg.symop_list[i])[0] for i in stab]
    e = Fraction(1, 10 ** 5) if eps is None else Fraction(eps).limit_denominator(10 ** 6)
    data = {"xyz": [str(v) for v in x0], "eps": eps, "flavour": flavour}
    if flavour == "ordinary":
        # everyday displacement magnitudes (~0.005), no relation to the site symmetry
        for _ in range(20):
            U = _sym6([Fraction(rng.randrange(2000, 12001), 10 ** 6) for _ in range(3)] + [Fraction(rng.randrange(-3000, 3001), 10 ** 6) for _ in range(3)])
            if max(_maxdiff(sc.rotT(R, U), U) for R in rots) >= Fraction(1, 10 ** 4):
                break
        else:
            return None
        data["U"] = [[float(v) for v in r] for r in U]
        return data
    # an exactly allowed tensor plus a perturbation of `size` * eps per element that breaks the site symmetry
    A = group_average(sg, stab, _sym6([Fraction(rng.randrange(4000, 30001), 10 ** 6) for _ in range(3)] + [Fraction(rng.randrange(-3000, 3001), 10 ** 6) for _ in range(3)]))
    for _ in range(20):
        D = _sym6([rng.choice([-1, 1]) * size * e * Fraction(rng.randrange(60, 101), 100) for _ in range(6)])
        if max(_maxdiff(sc.rotT(R, D), D) for R in rots) >= size * e / 4:
            break
    else:
        return None
    data["U"] = [[float(A[a][b] + D[a][b]) for b in range(3)] for a in range(3)]
    data["allowed_base"] = [[float(v) for v in r] for r in A]
    data["perturbation_in_eps"] = [[float(v / e) for v in r] for r in D]
    return data


def _formula_tensor(fm, vals, what):
    """evaluate a U formula dictionary at exact parameter values; (tensor, None) or (None, problem)"""
    if not isinstance(fm, dict) or set(fm) != set(USYM):
        return None, "%s returned %r" % (what, fm)
    T = [[None] * 3 for _ in range(3)]
    for s_ in USYM:
        try:
            val = sc.eval_linear(sc.parse_linear(fm[s_]), vals)
        except (ValueError, KeyError) as e:
            return None, "%s[%s] = %r cannot be evaluated with the reported parameters %r (%s)" % (what, s_, fm[s_], sorted(vals), e)
        a, b = UIDX[s_]
        T[a][b] = T[b][a] = val
    return T, None


def neareps_eval(sg, data, GeneratorSite, ExpandAsymmetricUnit, SymmetryConstraints, full_orbit_max=48):
    """None, _SKIP (with this wide cutoff the code merges distinct images of the site: not a case of this stream) or the problem:
    every clause is evaluated, the failing ones are listed (the first one leads)."""
    x0 = [Fraction(v) for v in data["xyz"]]
    xf = [float(v) for v in x0]
    Uin = [[float(v) for v in r] for r in data["U"]]
    eps = data.get("eps")
    kw = {} if eps is None else {"eps": eps}
    tol = NEAR_TOL
    opos, ocls = oracle_classes(sg, x0, (Fraction(0),) * 3)
    stab = sorted(ocls[0])
    rots = [(i, sc.exact_op(sg.symop_list[i])[0]) for i in stab]
    tag = " [input tensor %r, %s]" % (Uin, "default eps" if eps is None else "eps=%r" % eps)
    fl = lambda T: [[float(v) for v in r] for r in T]  # noqa: E731

    def invariant(T, name):
        if _maxdiff(T, sc.transpose(T)) > tol:
            return "%s %r is not symmetric" % (name, fl(T))
        for i, R in rots:
            d = float(_maxdiff(sc.rotT(R, T), T))
            if d > tol:
                return "%s %r is not invariant under site-symmetry operation %d (changes by %.3g)" % (name, fl(T), i, d)
        return None

    gs = GeneratorSite(sg, numpy.array(xf), Uij=numpy.array(Uin), **kw)
    Hidx = sorted(sc.op_indices(sg, gs.invariants))
    if Hidx != stab or len(gs.eqxyz) != len(opos):
        if eps is not None:
            return _SKIP
        return "site symmetry operations %r, exact stabiliser %r" % (Hidx, stab)
    Ust = _exactT(gs.Uij)
    if len(gs.Uparameters) != len(gs.Uspace) or len({n for n, v in gs.Uparameters}) != len(gs.Uparameters) or len(gs.eqUij) != len(gs.eqxyz):
        return "Uparameters %r for %d Uspace tensors, %d tensors for %d equivalent positions" % (gs.Uparameters, len(gs.Uspace), len(gs.eqUij), len(gs.eqxyz)) + tag
    pars = [(n, float(v)) for n, v in gs.Uparameters]
    vals = {n: Fraction(float(v)) for n, v in gs.Uparameters}

    def c_invariant():  # (1) the stored tensor is invariant under every rotation of the site symmetry
        return invariant(Ust, "stored Uij")

    def c_combination():  # (2) it is the Uspace combination of the reported parameters
        comb = [[sum(Fraction(float(v)) * Fraction(float(Us[a][b])) for (n, v), Us in zip(gs.Uparameters, gs.Uspace)) for b in range(3)] for a in range(3)]
        d = float(_maxdiff(comb, Ust))
        if d > tol:
            return "stored Uij %r is not the Uspace combination of Uparameters %r, which is %r (off by %.3g)" % (gs.Uij.tolist(), pars, fl(comb), d)

    def c_equivalents():  # (3) equivalents are the generator tensor rotated by ANY operation of the class
        for j, ops in enumerate(gs.symops):
            for o in ops:
                R, _ = sc.exact_op(o)
                if _maxdiff(sc.rotT(R, Ust), _exactT(gs.eqUij[j])) > tol:
                    return "eqUij[%d] %r is not the generator tensor %r rotated by operation %d of its class" % (
                        j, gs.eqUij[j].tolist(), gs.Uij.tolist(), sc.op_indices(sg, [o])[0])

    def c_formulas():  # (4) the U formulas at the reported values reproduce the stored tensors
        for j, p in enumerate(gs.eqxyz):
            fm = gs.UFormula(p)
            T, prob = _formula_tensor(fm, vals, "UFormula of equivalent site %d" % j)
            if prob:
                return prob
            d = float(_maxdiff(T, _exactT(gs.eqUij[j])))
            if d > tol:
                return "UFormula of equivalent site %d %r at Uparameters %r gives %r, eqUij[%d] is %r (off by %.3g)" % (
                    j, fm, pars, fl(T), j, gs.eqUij[j].tolist(), d)

    def c_again():  # (5) storing the stored tensor again returns it unchanged
        gs2 = GeneratorSite(sg, numpy.array(xf), Uij=numpy.array(gs.Uij), **kw)
        if _maxdiff(_exactT(gs2.Uij), Ust) > tol:
            return "the stored tensor %r changes to %r when it is stored again" % (gs.Uij.tolist(), gs2.Uij.tolist())

    eau = ExpandAsymmetricUnit(sg, [numpy.array(xf)], [numpy.array(Uin)], **kw)
    eU = eau.expandedUijs[0]

    def c_expand():  # (6) ExpandAsymmetricUnit: invariant generator tensor, rotated equivalents
        if len(eU) != len(gs.eqUij):
            return "ExpandAsymmetricUnit returns %d tensors, GeneratorSite %d" % (len(eU), len(gs.eqUij))
        E0 = _exactT(eU[0])
        prob = invariant(E0, "ExpandAsymmetricUnit.expandedUijs[0][0]")
        if prob:
            return prob
        for j, ops in enumerate(gs.symops):
            R, _ = sc.exact_op(ops[-1])
            if _maxdiff(sc.rotT(R, E0), _exactT(eU[j])) > tol:
                return "ExpandAsymmetricUnit.expandedUijs[0][%d] %r is not the generator tensor %r rotated by operation %d" % (
                    j, numpy.array(eU[j]).tolist(), numpy.array(eU[0]).tolist(), sc.op_indices(sg, [ops[-1]])[0])

    def constraints(lname, P, UU, cls):  # (7), (8) SymmetryConstraints
        UU0 = [u.copy() for u in UU]
        scs = SymmetryConstraints(sg, P, UU, **kw)
        if sorted(scs.coremap) != [0] or sorted(scs.coremap[0]) != list(range(len(P))):
            return None if eps is not None else "SymmetryConstraints on %s: coremap %r" % (lname, scs.coremap)
        S0 = _exactT(scs.Uijs[0])
        prob = invariant(S0, "SymmetryConstraints(%s).Uijs[0]" % lname)
        if prob:
            return prob
        spars = [(n, float(v)) for n, v in scs.Upars]
        svals = {n: Fraction(float(v)) for n, v in scs.Upars}
        if len(svals) != len(scs.Upars):
            return "SymmetryConstraints on %s: Upars symbols not distinct %r" % (lname, scs.Upars)
        fms = scs.UFormulas()
        for i in range(len(P)):
            Si = _exactT(scs.Uijs[i])
            T, prob = _formula_tensor(fms[i], svals, "SymmetryConstraints(%s).UFormulas()[%d]" % (lname, i))
            if prob:
                return prob
            d = float(_maxdiff(T, Si))
            if d > tol:
                return "SymmetryConstraints on %s: UFormulas()[%d] %r at Upars %r gives %r, Uijs[%d] is %r (off by %.3g)" % (
                    lname, i, fms[i], spars, fl(T), i, scs.Uijs[i].tolist(), d)
            R, _ = sc.exact_op(gs.symops[cls[i]][0])
            if _maxdiff(sc.rotT(R, S0), Si) > tol:
                return "SymmetryConstraints on %s: Uijs[%d] %r is not the generator tensor %r rotated by operation %d" % (
                    lname, i, scs.Uijs[i].tolist(), scs.Uijs[0].tolist(), sc.op_indices(sg, [gs.symops[cls[i]][0]])[0])
            if len(P) > 1 and _maxdiff(Si, _exactT(UU0[i])) > tol:
                return "SymmetryConstraints on %s changed the already consistent tensor of listed site %d: %r -> %r" % (
                    lname, i, UU0[i].tolist(), scs.Uijs[i].tolist())
        if len(P) == 1 and _maxdiff(S0, Ust) > tol:
            return "SymmetryConstraints.Uijs[0] %r differs from GeneratorSite.Uij %r" % (scs.Uijs[0].tolist(), gs.Uij.tolist())

    def c_constraints_site():
        return constraints("the site alone", [list(xf)], [numpy.array(Uin)], [0])

    def c_constraints_orbit():
        if len(eU) != len(gs.eqUij) or not 1 < len(eU) <= full_orbit_max:
            return None
        return constraints("the expanded orbit", [list(map(float, p)) for p in eau.expandedpos[0]], [numpy.array(u) for u in eU], list(range(len(eU))))

    probs = []
    for clause in (c_invariant, c_combination, c_equivalents, c_formulas, c_again, c_expand, c_constraints_site, c_constraints_orbit):
        try:
            prob = clause()
        except Exception as e:  # noqa: BLE001
            prob = "%s raised %r" % (clause.__name__[2:], e)
        if prob:
            probs.append(prob)
    if not probs:
        return None
    return probs[0] + tag + ("".join(" || also: " + p for p in probs[1:]) if len(probs) > 1 else "")


def _near_worker(jobs):
    import random

    out = []
    for num, xyz, flavour, eps, size, cseed in jobs:
        sg = _W["sgs"][num]
        try:
            data = neareps_build(random.Random(cseed), sg, [Fraction(v) for v in xyz], flavour, eps, Fraction(size))
            if data is None:
                out.append((None, None))
                continue
            data["size"] = size
            try:
                prob = neareps_eval(sg, data, _W["GeneratorSite"], _W["ExpandAsymmetricUnit"], _W["SymmetryConstraints"])
            except Exception as e:  # noqa: BLE001
                prob = "evaluation raised %r" % (e,)
            out.append((data, prob))
        except Exception as e:  # noqa: BLE001
            out.append(({"xyz": xyz, "eps": eps, "flavour": flavour, "size": size, "case_seed": cseed}, "building the case raised %r" % (e,)))
    return out


def neareps_jobs(ck, sglist, allstrata):
    """(setting, site, flavour, eps, size, case seed) of the stream; drawn from a generator of its own (the other streams keep their cases)."""
    import random

    rng = random.Random(1000003 * ck.seed + 606)
    jobs = []
    for sg in sglist:
        st = allstrata.get(sg.number)
        if not st:
            continue
        special = [s_ for s_ in st if s_["nstab"] > 1 and not s_.get("error")]
        if not special:
            continue
        quick = ck.tier == "quick"
        nsite = (4 if ck.widen else 2) if quick else len(special)
        for s_ in rng.sample(special, min(nsite, len(special))):
            xyz = [str(strata.frac(p)) for p in s_["xyz"]]
            for size in NEAR_SIZES:
                jobs.append((sg.number, xyz, "near", None, str(size), rng.randrange(2 ** 31)))
            if not quick or rng.random() < 0.25:
                jobs.append((sg.number, xyz, "near", None, str(NEAR_CONTROL), rng.randrange(2 ** 31)))
            for eps in ([rng.choice(USER_EPS)] if quick else USER_EPS):
                flavour = "near" if (eps < 5e-3 and rng.random() < 0.5) else "ordinary"
                jobs.append((sg.number, xyz, flavour, eps, str(rng.choice(NEAR_SIZES)), rng.randrange(2 ** 31)))
    return jobs


_W = {}


class _CaseCK:
    def __init__(self, seed, tier):
        import random

        self.rng = random.Random(seed)
        self.tier = tier


def _site_worker(job):
    num, kind, x0, x, cseed = job
    try:
        return site_checks(_CaseCK(cseed, _W["tier"]), _W["sgs"][num], kind, x0, x, _W["GeneratorSite"])
    except Exception as e:  # noqa: BLE001
        return "raised %r" % (e,), []


def _family_worker(jobs):
    return [_site_worker(j) for j in jobs]


def run(ck):
    import sys

    import diffpy.structure.spacegroups as sgs
    from diffpy.structure.symmetryutilities import ExpandAsymmetricUnit, GeneratorSite, SymmetryConstraints

    sys.path.insert(0, common.VERIF)
    from translate import tables

    rep = tables.main(os.path.join(common.LEAN, "DS", "Gen"), os.path.join(common.LEAN, "DS", "Gen", "tables_report.json"))
    translated = {s["number"] for s in rep["settings"]}
    # the models of the tensor parameter / formula code ARE the current source (translate/src_constraints.py)
    tie_ok, tie_info = source_tie_constraints(ck, TIE_C06, TIE_C05)
    ck.widen = not tie_ok
    ok, info = ck.lean_obligations("DS.Props.C06")
    allstrata = strata.all_strata(sgs.SpaceGroupList)
    lines, expects, owners = [], [], []
    kinds = {}
    distinct = set()
    # the site cases are independent: evaluated in worker processes (forked after the tree under examination was imported);
    # every case draws its input tensors from its own seed, which the replay file records
    todo = []
    for sg, kind, x0, x, st in gen_cases(ck, sgs.SpaceGroupList, allstrata):
        if kind in ("inside", "image") and ck.tier == "quick" and not ck.widen and ck.rng.random() < 0.5:
            continue
        todo.append((sg, kind, x0, x, st, ck.rng.randrange(2 ** 31)))
    _W["sgs"] = {g.number: g for g in sgs.SpaceGroupList}
    _W["GeneratorSite"] = GeneratorSite
    _W["tier"] = ck.tier
    jobs = [(sg.number, kind, x0, x, cseed) for sg, kind, x0, x, st, cseed in todo]
    try:
        import multiprocessing

        # one unit of work = all settings of one International Tables number, in table order: settings that share a name or
        # a number are handled by the same process one after the other (state kept between calls would show)
        fams = {}
        for k_, j in enumerate(jobs):
            fams.setdefault(j[0] % 1000, []).append(k_)
        order = sorted(fams.values(), key=len, reverse=True)
        with multiprocessing.get_context("fork").Pool(processes=max(1, min(12, (os.cpu_count() or 2) - 2))) as pool:
            parts = pool.map(_family_worker, [[jobs[k_] for k_ in ks] for ks in order], chunksize=1)
        results = [None] * len(jobs)
        for ks, part in zip(order, parts):
            for k_, r_ in zip(ks, part):
                results[k_] = r_
    except Exception as e:  # noqa: BLE001  (no worker processes available: evaluate here)
        ck.notes.append("worker pool unavailable (%r): site cases evaluated sequentially" % (e,))
        results = [_site_worker(j) for j in jobs]
    for (sg, kind, x0, x, st, cseed), (prob, mls) in zip(todo, results):
        ck.coverage["evaluations"] += 3
        kinds[kind] = kinds.get(kind, 0) + 1
        if st["nstab"] > 1:
            distinct.add((sg.number, tuple(map(str, x))))
        repl = {"kind": "input", "setting": sg.number, "variant": kind, "xyz": [str(v) for v in x], "special_site": [str(v) for v in x0], "seed": ck.seed,
                "case_seed": cseed}
        if prob:
            ck.fail("site:%s:%s" % (sg.number, kind), "GeneratorSite(%s #%s, %s): %s" % (sg.short_name, sg.number, [float(v) for v in x], prob),
                    dict(repl, detail=prob))
            continue
        if sg.number in translated:
            for ln, ex in mls:
                lines.append(ln)
                expects.append(ex)
                owners.append((sg, kind, repl))
    try:
        outs = common.driver(lines)
    except common.DriverBroken as e:
        outs = None
        ck.notes.append("driver unavailable: %s" % str(e)[:300])
    northo = 0
    if outs is not None:
        for ln, o, ex, (sg, kind, repl) in zip(lines, outs, expects, owners):
            ck.coverage["traces_validated_against_impl"] += 1
            if ex[0] == "uspace":
                if "ortho=true" in o:
                    northo += 1
                if not o.startswith("true"):
                    ck.fail("uspace-cert:%s:%s" % (sg.number, kind),
                            "Uspace of GeneratorSite(%s #%s) is rejected by the exact checker (%s): it is not a basis of the invariant symmetric tensors" % (sg.short_name, sg.number, o),
                            dict(repl, driver_line=ln, model=o, theorem="DS.Props.C06.checkUspace_sound hypothesis"))
                elif "ortho=true" not in o:
                    ck.fail("uspace-ortho:%s:%s" % (sg.number, kind),
                            "Uspace of GeneratorSite(%s #%s) is not Frobenius-orthogonal, the projection would change allowed tensors" % (sg.short_name, sg.number),
                            dict(repl, driver_line=ln, model=o, theorem="DS.Props.C06.proj_fix hypothesis isOrtho"), no_failing_input=True)
            else:
                Uij, pars, tol = ex[1]
                try:
                    cs, ms = o.split("|")
                    mU = [float(Fraction(v)) for v in ms.split()]
                    mc = [float(Fraction(v)) for v in cs.split()] if cs else []
                except Exception:
                    mU, mc = None, None
                agree = mU is not None and all(abs(a - b) <= tol for a, b in zip(mU, [v for r in Uij for v in r])) and \
                    len(mc) == len(pars) and all(abs(a - b) <= tol for a, b in zip(mc, pars))
                if not agree:
                    ck.fail("proj-model:%s:%s" % (sg.number, kind),
                            "stored tensor / U parameters of %s #%s differ from the model projection: model %s, implementation %r %r" % (sg.short_name, sg.number, o[:200], Uij, pars),
                            dict(repl, driver_line=ln, model=o), no_failing_input=True)
    # whole-structure API: SymmetryConstraints / ExpandAsymmetricUnit on unions of orbits with tensors
    nws = 0
    for sg in sgs.SpaceGroupList:
        st = allstrata.get(sg.number)
        if not st or (ck.tier == "quick" and not ck.widen and ck.rng.random() < 0.6):
            continue
        nws += 1
        prob = whole_structure_case(ck, sg, st, SymmetryConstraints, ExpandAsymmetricUnit)
        if prob:
            ck.fail("whole:%s" % sg.number, "%s #%s: %s" % (sg.short_name, sg.number, prob[0]),
                    {"kind": "input", "setting": sg.number, "detail": prob[0], "data": prob[1], "stream": "whole"})
    ck.coverage["evaluations"] += nws
    # near-allowed input tensors / wide user cutoffs through the three classes (see neareps_eval)
    _W["ExpandAsymmetricUnit"] = ExpandAsymmetricUnit
    _W["SymmetryConstraints"] = SymmetryConstraints
    njobs = neareps_jobs(ck, sgs.SpaceGroupList, allstrata)
    nfams = {}
    for k_, j in enumerate(njobs):
        nfams.setdefault(j[0] % 1000, []).append(k_)
    norder = sorted(nfams.values(), key=len, reverse=True)
    try:
        import multiprocessing

        with multiprocessing.get_context("fork").Pool(processes=max(1, min(12, (os.cpu_count() or 2) - 2))) as pool:
            nparts = pool.map(_near_worker, [[njobs[k_] for k_ in ks] for ks in norder], chunksize=1)
    except Exception as e:  # noqa: BLE001
        ck.notes.append("worker pool unavailable (%r): near-eps cases evaluated sequentially" % (e,))
        nparts = [_near_worker([njobs[k_] for k_ in ks]) for ks in norder]
    nres = [None] * len(njobs)
    for ks, part in zip(norder, nparts):
        for k_, r_ in zip(ks, part):
            nres[k_] = r_
    nnear, nskip, nnone = 0, 0, 0
    near_kinds = {}
    for (num, xyz, flavour, eps, size, cseed), (data, prob) in zip(njobs, nres):
        if data is None:
            nnone += 1
            continue
        if prob == _SKIP:
            nskip += 1
            continue
        nnear += 1
        lab = "%s:%s" % (flavour + (":" + size if flavour == "near" else ""), "default" if eps is None else "%g" % eps)
        near_kinds[lab] = near_kinds.get(lab, 0) + 1
        if prob:
            sg = _W["sgs"][num]
            ck.fail("neareps:%s:%s" % (num, "default" if eps is None else "%g" % eps),
                    "%s #%s, site %s: %s" % (sg.short_name, num, [float(Fraction(v)) for v in xyz], prob),
                    {"kind": "input", "stream": "neareps", "setting": num, "data": data, "detail": prob})
    ck.coverage["evaluations"] += nnear
    ck.coverage["near_eps_cases"] = {"evaluated": nnear, "site_without_constraint": nnone, "skipped_images_merged_by_wide_cutoff": nskip,
                                     "by_input": sorted(near_kinds.items())}
    ck.coverage["distinct_nontrivial"] = len(distinct) + nws
    ck.coverage["rule"] = ("all settings x strata representatives and orbit members (<=6 strata per setting quick) x variants %s x 3 input tensors (2 random symmetric, 1 exactly allowed): "
                           "exact invariance/dimension/isotropy/rotation/formula oracle, Uspace certificate decided by the Lean checker (orthogonal in %d of them), model projection vs stored tensor; "
                           "%d whole-structure cases; %d near-eps cases (2 special sites per setting quick: allowed tensor + symmetry-breaking perturbation of 0.03/0.3/0.6/0.9 eps per element, "
                           "3 eps control, user eps 1e-3/1e-2/2e-2 with ordinary tensors, through GeneratorSite / ExpandAsymmetricUnit / SymmetryConstraints, tolerance 1e-9); "
                           "distinct_nontrivial = special sites + whole-structure cases" % (sorted(kinds.items()), northo, nws, nnear))
    ck.coverage["samples"] = [{"driver": lines[i][:300], "model": outs[i][:200] if outs else None} for i in (0, len(lines) // 2) if lines]
    ck.assumptions += ["SVD null space and numpy.around(…, 2) of _findUSpace are certificate-checked per generated site, not proved as algorithms",
                       "the stored tensor is required to be invariant and to fix allowed tensors; it is NOT required to equal the group average (the code projects orthogonally in fractional components)"]
    ck.coverage["trusted_base"] += ["translate/tables.py", "harness/strata.py (generator only)", "formula-string parser in harness/symcommon.py",
                                    "translate/src_constraints.py + lean/DS/Model/ConReal.lean (reading of the numpy/Python primitives of the constraint code)"]
    ck.assumptions += ["source tie DS.Props.SrcConstraints: exact arithmetic over an ordered field (floating point stays with the correspondence); "
                       "the '%+g' formatting of the U formula coefficients and the final clean-up of the strings are recorded as text"]
    ck.tie_verdict(tie_ok, tie_info, TIE_WHAT)
    if not ok and not ck.violations:
        ck.fail("lean-build", "Lean obligations of C06 no longer check: %r" % info["failed_modules"],
                {"kind": "proof-obligation", "theorem": info["failed_modules"], "errors": info["errors"]}, no_failing_input=True)


def whole_structure_case(ck, sg, st, SymmetryConstraints, ExpandAsymmetricUnit):
    if len(sg.symop_list) <= 4 and ck.rng.random() < 0.5:
        # many independent sites: generators at listed indices i and 10*i+d (parameter symbols U111 and U1110, ...)
        n = ck.rng.randrange(11, 27)
        sites_ = []
        while len(sites_) < n:
            x0 = [str(Fraction(ck.rng.randrange(1, 997), 997)) for _ in range(3)]
            if x0 not in sites_:
                sites_.append(x0)
        coreU = []
        for _ in range(n):
            v = [ck.rng.randrange(-90, 91) / 1000.0 for _ in range(6)]
            coreU.append([[v[0] + 0.1, v[3], v[4]], [v[3], v[1] + 0.1, v[5]], [v[4], v[5], v[2] + 0.1]])
        data = {"sites": sites_, "coreUijs": coreU, "shared_array": False,
                "shuffle_seed": ck.rng.randrange(10 ** 9) if ck.rng.random() < 0.3 else None, "eps": None, "noise_seed": 0}
        try:
            prob = whole_eval(sg, data, SymmetryConstraints, ExpandAsymmetricUnit)
        except Exception as e:
            prob = "evaluation raised %r" % (e,)
        return (prob, data) if prob else None
    k = min(len(st), ck.rng.choice([1, 2, 3]))
    chosen = ck.rng.sample(range(len(st)), k)
    coreU = []
    for c in chosen:
        v = [ck.rng.randrange(-90, 91) / 1000.0 for _ in range(6)]
        coreU.append([[v[0] + 0.1, v[3], v[4]], [v[3], v[1] + 0.1, v[5]], [v[4], v[5], v[2] + 0.1]])
    if ck.rng.random() < 0.35:
        # mixed site: the same position listed twice with different tensors
        chosen.append(chosen[0])
        v = [ck.rng.randrange(-90, 91) / 1000.0 for _ in range(6)]
        coreU.append([[v[0] + 0.2, v[3], v[4]], [v[3], v[1] + 0.2, v[5]], [v[4], v[5], v[2] + 0.2]])
    shared = len(set(chosen)) == len(chosen) and len(chosen) > 1 and ck.rng.random() < 0.4
    if shared:
        # the caller hands ONE array object to all sites (most symmetric site first): every site must still get
        # the allowed part of THAT tensor for its own site symmetry, and the caller's array must stay untouched
        chosen.sort(key=lambda c: -st[c]["nstab"])
        coreU = [coreU[0]] * len(chosen)
    data = {"sites": [[str(strata.frac(p)) for p in st[c]["xyz"]] for c in chosen], "coreUijs": coreU, "shared_array": shared,
            "shuffle_seed": ck.rng.randrange(10 ** 9) if ck.rng.random() < 0.5 else None,
            "eps": None if ck.rng.random() < 0.6 else 1.0e-3, "noise_seed": ck.rng.randrange(10 ** 9)}
    try:
        prob = whole_eval(sg, data, SymmetryConstraints, ExpandAsymmetricUnit)
    except Exception as e:  # the implementation (or its result shape) broke the evaluation of this case
        prob = "evaluation raised %r" % (e,)
    return (prob, data) if prob else None


def whole_eval(sg, data, SymmetryConstraints, ExpandAsymmetricUnit):
    import random

    sites = [[Fraction(v) for v in s_] for s_ in data["sites"]]
    corepos = [numpy.array([float(v) for v in x0]) for x0 in sites]
    coreU = [numpy.array(u) for u in data["coreUijs"]]
    if data.get("shared_array"):
        coreU = [coreU[0]] * len(coreU)
    eau = ExpandAsymmetricUnit(sg, corepos, coreU)
    for i, u in enumerate(coreU):
        if not numpy.array_equal(u, numpy.array(data["coreUijs"][i])):
            return "ExpandAsymmetricUnit modified the caller's tensor array of site %d: %r -> %r" % (i, data["coreUijs"][i], u.tolist())
    for i in range(len(sites)):
        # every listed site gets the allowed part of ITS input, whatever else is listed and however the arrays are shared
        own = ExpandAsymmetricUnit(sg, [corepos[i].copy()], [numpy.array(data["coreUijs"][i])])
        if len(own.expandedUijs[0]) != len(eau.expandedUijs[i]) or any(
                not close(a, b, 1e-9) for a, b in zip(eau.expandedUijs[i], own.expandedUijs[0])):
            return ("site %d: tensors %r differ from those obtained when the site is expanded alone with the same input tensor %r"
                    % (i, numpy.array(eau.expandedUijs[i][0]).tolist(), numpy.array(own.expandedUijs[0][0]).tolist()))
    pos, Us, owner = [], [], []
    for i, (ps, us) in enumerate(zip(eau.expandedpos, eau.expandedUijs)):
        x0 = sites[i]
        opos, ocls = oracle_classes(sg, x0, (Fraction(0),) * 3)
        if len(ps) != len(opos) or eau.multiplicity[i] != len(opos):
            return "ExpandAsymmetricUnit multiplicity %r, exact %d" % (eau.multiplicity[i], len(opos))
        for j, (p, u) in enumerate(zip(ps, us)):
            R, _ = sc.exact_op(sg.symop_list[ocls[j][0]])
            U0 = [[Fraction(float(eau.expandedUijs[i][0][a][b])).limit_denominator(10 ** 12) for b in range(3)] for a in range(3)]
            if not close(sc.rotT(R, U0), u, 1e-8):
                return "expandedUijs[%d][%d] is not the rotated generator tensor" % (i, j)
            pos.append(p)
            Us.append(u)
            owner.append(i)
    order = list(range(len(pos)))
    if data.get("shuffle_seed") is not None:
        random.Random(data["shuffle_seed"]).shuffle(order)  # otherwise grouped by orbit: later generators get large indices (U1112, ...)
    if len({tuple(s_) for s_ in data["sites"]}) != len(data["sites"]):
        # the same position twice: every listed site must have got ITS OWN projected tensor
        for i in range(len(sites)):
            gsite = ExpandAsymmetricUnit(sg, [corepos[i]], [coreU[i]])
            for j in range(len(eau.expandedUijs[i])):
                if not close(eau.expandedUijs[i][j], gsite.expandedUijs[0][j], 1e-9):
                    return "site %d shares its position with another listed site and got tensors that are not those of its own input" % i
        return None
    eps = data.get("eps")
    P = [list(map(float, pos[i])) for i in order]
    if eps is not None:
        nr = random.Random(data.get("noise_seed", 0))
        P = [[c + nr.choice([-1, 0, 1]) * 6e-5 for c in p_] for p_ in P]
    UU = [numpy.array(Us[i]) for i in order]
    scs = SymmetryConstraints(sg, P, UU) if eps is None else SymmetryConstraints(sg, P, UU, eps=eps)
    vals = {n: Fraction(float(v)).limit_denominator(10 ** 12) for n, v in scs.Upars}
    # a query must not change the object: the pruned formulas are asked for first, the full ones must still be complete
    before = [dict(d) for d in scs.UFormulas()]
    scs.UFormulasPruned()
    after = [dict(d) for d in scs.UFormulas()]
    if before != after:
        k = [i for i, (a, b) in enumerate(zip(before, after)) if a != b][0]
        return "after a call of UFormulasPruned() the U formulas of listed site %d are %r (before: %r)" % (k, after[k], before[k])
    for i, fm in enumerate(scs.UFormulas()):
        if not isinstance(fm, dict) or set(fm) != set(USYM):
            return "Ueqns[%d] is %r: the U formulas of a listed site are missing" % (i, fm)
        for s_ in USYM:
            a, b = UIDX[s_]
            try:
                val = sc.eval_linear(sc.parse_linear(fm[s_]), vals)
            except (ValueError, KeyError) as e:
                return "Ueqns[%d][%s] = %r cannot be evaluated with Upars (%s)" % (i, s_, fm[s_], e)
            if abs(float(val) - float(scs.Uijs[i][a][b])) > 1e-5:
                return "Ueqns[%d][%s] = %r at Upars gives %r, Uijs has %r" % (i, s_, fm[s_], float(val), float(scs.Uijs[i][a][b]))
            if abs(float(scs.Uijs[i][a][b]) - float(UU[i][a][b])) > 1e-8:
                return "SymmetryConstraints changed an already consistent tensor at listed site %d" % i
    # custom parameter symbols must denote the same tensors
    usyms = scs.UparSymbols()
    custom = ["q%dq" % i for i in range(len(usyms))]
    if custom:
        cvals = {c: Fraction(float(v)).limit_denominator(10 ** 12) for c, v in zip(custom, scs.UparValues())}
        for name, fn in (("UFormulas", scs.UFormulas), ("UFormulasPruned", scs.UFormulasPruned)):
            try:
                fms = fn(custom)
            except Exception as e:
                return "%s(custom symbols) raised %r" % (name, e)
            for i, fm in enumerate(fms):
                for s_ in USYM:
                    if s_ not in fm:
                        if name == "UFormulas":
                            return "%s(custom)[%d] lacks %s" % (name, i, s_)
                        continue
                    a, b = UIDX[s_]
                    try:
                        val = sc.eval_linear(sc.parse_linear(fm[s_]), cvals)
                    except (ValueError, KeyError) as e:
                        return "%s(custom)[%d][%s] = %r cannot be evaluated with the custom symbols (%r)" % (name, i, s_, fm[s_], e)
                    if abs(float(val) - float(scs.Uijs[i][a][b])) > 1e-5:
                        return "%s(custom)[%d][%s] = %r gives %r, Uijs has %r" % (name, i, s_, fm[s_], float(val), float(scs.Uijs[i][a][b]))
    gens = sorted(scs.coremap)
    iso_expected = {}
    for g in gens:
        o = owner[order[g]]
        iso_expected[g] = eau.Uisotropy[o]
    for g, members in scs.coremap.items():
        for mbr in members:
            if bool(scs.Uisotropy[mbr]) != bool(iso_expected[g]):
                return "Uisotropy flag of listed site %d differs from its generator's" % mbr
    return None


def replay(path):
    common.use_repo()
    r = json.load(open(path))
    if r.get("kind") in ("source-tie", "proof-obligation") and "setting" not in r:
        # regenerate the transliteration from the tree under examination and re-check the theorems of this property
        ck = common.Check("C06", "quick", 0)
        ok, info = source_tie_constraints(ck, TIE_C06, TIE_C05)
        unt = {k: v["untranslatable"] for k, v in info.get("translator", {}).items() if isinstance(v, dict) and v.get("untranslatable")}
        print("source tie DS.Props.SrcConstraints:", "holds" if ok else "broken: theorems %r, not translatable %r" % (info.get("broken_theorems"), unt))
        return 0 if ok else 1
    import random

    import diffpy.structure.spacegroups as sgs
    from diffpy.structure.symmetryutilities import GeneratorSite

    if r.get("stream") == "neareps":
        from diffpy.structure.symmetryutilities import ExpandAsymmetricUnit, SymmetryConstraints

        sg = [g for g in sgs.SpaceGroupList if g.number == r["setting"]][0]
        try:
            prob = neareps_eval(sg, r["data"], GeneratorSite, ExpandAsymmetricUnit, SymmetryConstraints)
        except Exception as e:  # noqa: BLE001
            prob = "evaluation raised %r" % (e,)
        print("problem:", prob)
        return 1 if prob and prob != _SKIP else 0
    if r.get("stream") == "whole":
        from diffpy.structure.symmetryutilities import ExpandAsymmetricUnit, SymmetryConstraints

        sg = [g for g in sgs.SpaceGroupList if g.number == r["setting"]][0]
        try:
            prob = whole_eval(sg, r["data"], SymmetryConstraints, ExpandAsymmetricUnit)
        except Exception as e:
            prob = "raised %r" % (e,)
        print("problem:", prob)
        return 1 if prob else 0
    sg = [g for g in sgs.SpaceGroupList if g.number == r["setting"]][0]

    class CK:
        rng = random.Random(r.get("seed", 0))
        tier = "quick"

    x = [Fraction(v) for v in r["xyz"]]
    x0 = [Fraction(v) for v in r["special_site"]]
    bad = 0
    if r.get("case_seed") is not None:
        # first with exactly the input tensors of the run
        prob, _l = site_checks(_CaseCK(r["case_seed"], "quick"), sg, r["variant"], x0, x, GeneratorSite)
        if prob:
            print("problem:", prob)
            return 1
    for _ in range(5):
        prob, _l = site_checks(CK, sg, r["variant"], x0, x, GeneratorSite)
        if prob:
            print("problem:", prob)
            bad = 1
            break
    if not bad:
        print("problem: None")
    return bad
