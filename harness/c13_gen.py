"""C13 helpers: seed corpus of valid documents, single-fault corruptions, watchdogged real-parser runs, shrinker.

Kept separate from c13.py so that the worker processes import only what they need.
"""
import os
import re
import signal
import sys
import warnings

from . import common

FORMATS = ["pdb", "pdffit", "discus", "xyz", "rawxyz", "xcfg", "cif"]
HUGE = "1" + "0" * 400          # a valid int and a float that overflows to inf
REPL = ["", " ", "abc", "0", "-1", HUGE, "nan", "inf", "1,2", "#"]   # " " = blank out keeping the columns
WATCHDOG_S = 5.0


class WatchdogTimeout(BaseException):
    pass


def _alarm(signum, frame):
    raise WatchdogTimeout()


_initialised = False
_DEVNULL = open(os.devnull, "w")


def init_real():
    """Prepare this process for running the parsers of the tree under test."""
    global _initialised
    if _initialised:
        return
    common.use_repo()
    warnings.simplefilter("ignore")
    import numpy

    numpy.seterr(all="ignore")
    # a runaway allocation must end as MemoryError, not as an OOM kill of the check
    try:
        import resource

        with open("/proc/self/statm") as f:
            vm = int(f.read().split()[0]) * os.sysconf("SC_PAGE_SIZE")
        soft = vm + (3 << 30)
        _, hard = resource.getrlimit(resource.RLIMIT_AS)
        if hard == resource.RLIM_INFINITY or soft < hard:
            resource.setrlimit(resource.RLIMIT_AS, (soft, hard))
    except Exception:
        pass
    signal.signal(signal.SIGALRM, _alarm)
    _initialised = True


def run_real(fmt, text, timeout=WATCHDOG_S):
    """Outcome kind of the real parser on `text`:
    'ok' | 'none' | 'SFE' | 'NotImpl' | 'Timeout' | <exception class name>; second item = message."""
    init_real()
    from diffpy.structure import Structure
    from diffpy.structure.parsers import getParser
    from diffpy.structure.structureerrors import StructureFormatError

    so, se = sys.stdout, sys.stderr
    sys.stdout = sys.stderr = _DEVNULL      # PyCifRW prints its syntax errors
    signal.setitimer(signal.ITIMER_REAL, timeout)
    try:
        try:
            p = getParser(fmt)
            r = p.parse(text)
        finally:
            signal.setitimer(signal.ITIMER_REAL, 0)
            sys.stdout, sys.stderr = so, se
    except StructureFormatError as e:
        return "SFE", str(e)[:120]
    except NotImplementedError as e:
        return "NotImpl", str(e)[:120]
    except WatchdogTimeout:
        return "Timeout", "no result within %.0f s" % timeout
    except KeyboardInterrupt:
        raise
    except BaseException as e:  # noqa: B902  (the property is about *any* other exception type)
        return type(e).__name__, str(e)[:120]
    if r is None:
        return "none", ""
    if isinstance(r, Structure):
        return "ok", ""
    return "returned:" + type(r).__name__, ""


def _work(job):
    fmt, text = job
    return run_real(fmt, text)


def run_many(jobs, nproc=None):
    """Run (fmt, text) jobs in forked workers; returns list of (kind, message) in order."""
    import multiprocessing as mp

    if not jobs:
        return []
    nproc = nproc or min(12, os.cpu_count() or 2)
    if len(jobs) < 64 or nproc <= 1:
        return [_work(j) for j in jobs]
    ctx = mp.get_context("fork")
    with ctx.Pool(nproc) as pool:
        return pool.map(_work, jobs, chunksize=max(1, min(200, len(jobs) // (nproc * 4))))


# ---- seed corpus ------------------------------------------------------------------------

TESTDATA = {
    "pdffit": ["Ni.stru", "CdSe_bulk.stru", "Ni_prim123.stru", "ZnSb_RT_Q28X_VM_20_fxiso.rstr"],
    "discus": ["Ni-discus.stru"],
    "pdb": ["arginine.pdb"],
    "xyz": ["bucky.xyz"],
    "rawxyz": ["bucky-raw.xyz", "bucky-plain.xyz", "hexagon-raw.xyz", "hexagon-raw.xy"],
    "xcfg": ["BubbleRaftShort.xcfg"],
    "cif": ["Ni_ref.cif", "PbTe.cif", "TeI.cif", "TeI-unkocc.cif", "graphite.cif", "customsg.cif", "curlybrackets.cif",
            "nosites.cif"],
}


def _structures():
    """A few structures for the library's own writers."""
    init_real()
    import numpy
    from diffpy.structure import Atom, Lattice, Structure
    from diffpy.structure.parsers import getParser

    td = os.path.join(common.REPO, "tests", "testdata")
    out = []
    try:
        out.append(("Ni", getParser("pdffit").parseFile(os.path.join(td, "Ni.stru"))))
    except Exception:
        pass
    try:
        out.append(("CdSe", getParser("pdffit").parseFile(os.path.join(td, "CdSe_bulk.stru"))))
    except Exception:
        pass
    s = Structure(lattice=Lattice(5.1, 6.2, 7.3, 81.0, 97.0, 103.0), title="triclinic test")
    s.addNewAtom("C", xyz=[0.1, 0.2, 0.3], occupancy=0.5, label="C1")
    s.addNewAtom("O", xyz=[0.7, 0.25, 0.9], label="O1")
    s.addNewAtom("Pb", xyz=[0.0, 0.5, 0.5], label="Pb1")
    s[0].anisotropy = True
    s[0].U = numpy.array([[0.011, 0.001, 0.002], [0.001, 0.022, 0.003], [0.002, 0.003, 0.033]])
    s[1].Uisoequiv = 0.0125
    s[2].sigxyz = numpy.array([0.01, 0.02, 0.03])
    s[2].sigo = 0.05
    s[2].sigU = numpy.identity(3) * 0.001
    out.append(("tri", s))
    s2 = Structure(lattice=Lattice(3.0, 3.0, 4.0, 90, 90, 120), title="two")
    s2.addNewAtom("Zn", xyz=[1 / 3.0, 2 / 3.0, 0.0])
    s2.addNewAtom("O", xyz=[1 / 3.0, 2 / 3.0, 0.382])
    out.append(("hex", s2))
    return out


def seed_corpus():
    """dict fmt -> list of (name, text) of valid documents (each verified to parse)."""
    init_real()
    from diffpy.structure.parsers import getParser

    td = os.path.join(common.REPO, "tests", "testdata")
    corpus = {f: [] for f in FORMATS}
    for fmt, names in TESTDATA.items():
        for n in names:
            p = os.path.join(td, n)
            try:
                with open(p) as f:
                    corpus[fmt].append((n, f.read()))
            except OSError:
                pass
    for name, s in _structures():
        for fmt in FORMATS:
            try:
                txt = getParser(fmt).tostring(s)
            except Exception:
                continue
            corpus[fmt].append(("writer:" + name, txt))
    # keep only documents the current parser accepts (a seed must be valid)
    good = {f: [] for f in FORMATS}
    rejected = []
    for fmt in FORMATS:
        for name, txt in corpus[fmt]:
            k, msg = run_real(fmt, txt)
            if k == "ok":
                good[fmt].append((name, txt))
            else:
                rejected.append((fmt, name, k, msg))
    return good, rejected


# ---- single-fault corruptions -------------------------------------------------------------

TOK = re.compile(r"\S+")


def mutant_descriptors(text):
    """All single-fault corruption descriptors of one document (cheap tuples, applied lazily)."""
    lines = text.split("\n")
    if lines and lines[-1] == "":
        lines.pop()
    n = len(lines)
    ds = []
    for i in range(n):
        ds.append(("trunc_line", i))
        toks = [m.span() for m in TOK.finditer(lines[i])]
        for j in range(1, len(toks)):
            ds.append(("trunc_tok", i, j))
        ds.append(("del", i))
        ds.append(("dup", i))
        if i + 1 < n:
            ds.append(("swap", i))
        for j in range(len(toks)):
            for r in range(len(REPL)):
                ds.append(("rep", i, j, r))
    return ds


def apply_mutant(text, d):
    lines = text.split("\n")
    if lines and lines[-1] == "":
        lines.pop()
    op = d[0]
    if op == "trunc_line":
        out = lines[:d[1]]
    elif op == "trunc_tok":
        i, j = d[1], d[2]
        toks = [m.span() for m in TOK.finditer(lines[i])]
        out = lines[:i] + [lines[i][:toks[j][0]].rstrip()]
    elif op == "del":
        out = lines[:d[1]] + lines[d[1] + 1:]
    elif op == "dup":
        out = lines[:d[1] + 1] + lines[d[1]:]
    elif op == "swap":
        i = d[1]
        out = lines[:i] + [lines[i + 1], lines[i]] + lines[i + 2:]
    elif op == "rep":
        i, j, r = d[1], d[2], REPL[d[3]]
        toks = [m.span() for m in TOK.finditer(lines[i])]
        s, e = toks[j]
        if r == " ":
            r = " " * (e - s)
        out = lines[:i] + [lines[i][:s] + r + lines[i][e:]] + lines[i + 1:]
    else:
        raise ValueError(d)
    return "\n".join(out) + "\n"


# ---- shrinking ---------------------------------------------------------------------------

def shrink(fmt, text, kind, budget=400):
    """Drop lines, then tokens, while the real parser keeps ending with the same kind."""
    def same(t):
        nonlocal budget
        budget -= 1
        return run_real(fmt, t, timeout=WATCHDOG_S)[0] == kind

    if kind == "Timeout":
        return text
    lines = text.split("\n")
    if lines and lines[-1] == "":
        lines.pop()
    # delta debugging on lines: chunks of decreasing size
    size = max(1, len(lines) // 2)
    while size >= 1 and budget > 0:
        i = 0
        changed = False
        while i < len(lines) and budget > 0:
            cand = lines[:i] + lines[i + size:]
            if cand != lines and same("\n".join(cand) + "\n"):
                lines = cand
                changed = True
            else:
                i += size
        if size == 1 and not changed:
            break
        size = max(1, size // 2) if size > 1 else (1 if changed else 0)
    # tokens
    i = 0
    while i < len(lines) and budget > 0:
        toks = [m.span() for m in TOK.finditer(lines[i])]
        j = len(toks) - 1
        while j >= 0 and budget > 0:
            s, e = toks[j]
            cand_line = (lines[i][:s] + lines[i][e:]) if fmt != "pdb" else (lines[i][:s] + " " * (e - s) + lines[i][e:])
            cand = lines[:i] + [cand_line] + lines[i + 1:]
            if cand_line != lines[i] and same("\n".join(cand) + "\n"):
                lines = cand
                toks = [m.span() for m in TOK.finditer(lines[i])]
                j = min(j, len(toks)) - 1
            else:
                j -= 1
        i += 1
    return "\n".join(lines) + "\n"
