"""C13 helpers: seed corpus of valid documents, single-fault corruptions, watchdogged real-parser runs, shrinker.

Kept separate from c13.py so that the worker processes import only what they need.
"""
import os
import re
import signal
import sys
import warnings

from . import common

FORMATS = ["pdb", "pdffit", "discus", "xyz", "rawxyz", "xcfg", "cif"]
HUGE = "1" + "0" * 400          # a valid int and a float that overflows to inf
DIGITS4301 = "9" * 4301          # str.isdigit() holds, int() refuses (CPython's 4300-digit limit), float() gives inf
# " " = blank out keeping the columns; "\u00b3" (superscript three): isdigit() but neither int() nor float() accept it;
# "\u0663" (Arabic-Indic three) and "1_0": accepted by int() and float() although str(int(w)) != w
REPL = ["", " ", "abc", "0", "-1", HUGE, "nan", "inf", "1,2", "#", "\u00b3", "\u0663", "1_0", DIGITS4301,
        "' Zz9'", "'Zz9 '", '"q r"']   # quoted values with inner / outer blanks (CIF strings; several tokens elsewhere)
WATCHDOG_S = 5.0


class WatchdogTimeout(BaseException):
    pass


ENUM = ["SFE", "NotImpl", "ValueError", "IndexError", "TypeError", "KeyError", "StopIteration", "ZeroDivisionError",
        "LatticeError", "UnboundLocalError", "AttributeError", "OverflowError", "AssertionError", "YappsSyntaxError",
        "StarError", "Resource", "Other"]


def enum_of_exc(e):
    """Most specific kind of the line-protocol enum for an exception instance (walks the MRO)."""
    from diffpy.structure.structureerrors import StructureFormatError

    if isinstance(e, StructureFormatError):
        return "SFE"
    if isinstance(e, NotImplementedError):
        return "NotImpl"
    if isinstance(e, (MemoryError, WatchdogTimeout)):
        return "Resource"
    for c in type(e).__mro__:
        if c.__name__ in ENUM:
            return c.__name__
    return "Other"


def _alarm(signum, frame):
    raise WatchdogTimeout()


_initialised = False
_DEVNULL = open(os.devnull, "w")


def init_real(limit=False):
    """Prepare this process for running code of the tree under test.  `limit=True` (worker processes
    only) additionally caps the address space so that a runaway allocation ends as MemoryError."""
    global _initialised
    if not _initialised:
        common.use_repo()
        warnings.simplefilter("ignore")
        import numpy

        numpy.seterr(all="ignore")
        _initialised = True
    if limit:
        try:
            import resource

            with open("/proc/self/statm") as f:
                vm = int(f.read().split()[0]) * os.sysconf("SC_PAGE_SIZE")
            soft = vm + (3 << 30)
            _, hard = resource.getrlimit(resource.RLIMIT_AS)
            if hard == resource.RLIM_INFINITY or soft < hard:
                resource.setrlimit(resource.RLIMIT_AS, (soft, hard))
        except Exception:
            pass
        signal.signal(signal.SIGALRM, _alarm)


def _site(e):
    """module.function of the innermost frame inside diffpy.structure (stable under line shifts)."""
    import traceback

    site = "?"
    for fs in traceback.extract_tb(e.__traceback__):
        if "diffpy" in fs.filename and "structure" in fs.filename:
            site = "%s.%s" % (os.path.splitext(os.path.basename(fs.filename))[0], fs.name)
    return site


def run_real(fmt, text, timeout=WATCHDOG_S):
    """Outcome of the real parser on `text`: (kind, exception class name, message) with
    kind in {'ok', 'none'} + ENUM ('Resource' = watchdog timeout or MemoryError)."""
    init_real()
    from diffpy.structure import Structure
    from diffpy.structure.parsers import getParser

    so, se = sys.stdout, sys.stderr
    sys.stdout = sys.stderr = _DEVNULL      # PyCifRW prints its syntax errors
    signal.setitimer(signal.ITIMER_REAL, timeout)
    try:
        try:
            p = getParser(fmt)
            if isinstance(text, (list, tuple)):
                # ONE parser object reads the texts one after the other; the outcome of the last one counts
                for t0 in text[:-1]:
                    try:
                        p.parse(t0)
                    except WatchdogTimeout:
                        raise
                    except Exception:  # noqa: BLE001  (judged when that text is the last one)
                        pass
                text = text[-1]
            r = p.parse(text)
        finally:
            signal.setitimer(signal.ITIMER_REAL, 0)
            sys.stdout, sys.stderr = so, se
    except WatchdogTimeout as e:
        return "Resource", "Timeout", "%s: no result within %.0f s" % (_site(e), timeout)
    except KeyboardInterrupt:
        raise
    except BaseException as e:  # noqa: B902  (the property is about *any* other exception type)
        return enum_of_exc(e), type(e).__name__, (_site(e) + ": " + str(e))[:160]
    if r is None:
        return "none", "", ""
    if isinstance(r, Structure):
        return "ok", "", ""
    return "Other", "returned:" + type(r).__name__, ""


def _work(job):
    """(outcome of the real parser, abstraction of the text) -- both computed in the worker."""
    from . import c13_abs

    fmt, text, want_alpha = job
    r = run_real(fmt, text)
    a = (None, "not requested")
    if want_alpha:
        signal.setitimer(signal.ITIMER_REAL, WATCHDOG_S)
        try:
            try:
                a = c13_abs.alpha(fmt, text)
            finally:
                signal.setitimer(signal.ITIMER_REAL, 0)
        except WatchdogTimeout:
            a = (None, "abstraction timed out")
        except MemoryError:
            a = (None, "abstraction ran out of memory")
    return r, a


def _worker_init():
    init_real(limit=True)


_pool = None


def get_pool():
    """Persistent pool of forked workers (the real parsers never run in the main process: the
    address-space cap and the alarm-based watchdog live in the workers)."""
    global _pool
    if _pool is None:
        import atexit
        import multiprocessing as mp

        init_real()
        _pool = mp.get_context("fork").Pool(min(12, os.cpu_count() or 2), initializer=_worker_init)
        atexit.register(close_pool)
    return _pool


def close_pool():
    global _pool
    if _pool is not None:
        _pool.terminate()
        _pool = None


def run_many(jobs):
    """Run (fmt, text, want_alpha) jobs in the workers; returns list of
    ((kind, class name, message), (alpha words | None, reason)) in order.
    A worker that does not answer (hang inside C code, killed) counts as 'Resource'."""
    import multiprocessing as mp

    if not jobs:
        return []
    pool = get_pool()
    n = len(jobs)
    chunk = max(1, min(100, n // 48))
    parts = [jobs[i:i + chunk] for i in range(0, n, chunk)]
    asyncs = [pool.map_async(_work, part) for part in parts]
    out = []
    broken = False
    for part, a in zip(parts, asyncs):
        try:
            out += a.get(timeout=len(part) * (WATCHDOG_S + 1) + 30)
        except mp.TimeoutError:
            broken = True
            out += [None] * len(part)
    if broken:
        close_pool()
        for i, r in enumerate(out):
            if r is None:       # redo one by one to find the culprit
                try:
                    out[i] = get_pool().apply_async(_work, (jobs[i],)).get(timeout=WATCHDOG_S + 10)
                except mp.TimeoutError:
                    close_pool()
                    out[i] = (("Resource", "Timeout", "worker did not answer"), (None, "worker did not answer"))
    return out


def run_one(fmt, text):
    return run_many([(fmt, text, False)])[0][0]


# ---- seed corpus ------------------------------------------------------------------------

TESTDATA = {
    "pdffit": ["Ni.stru", "CdSe_bulk.stru", "Ni_prim123.stru", "ZnSb_RT_Q28X_VM_20_fxiso.rstr"],
    "discus": ["Ni-discus.stru"],
    "pdb": ["arginine.pdb"],
    "xyz": ["bucky.xyz"],
    "rawxyz": ["bucky-raw.xyz", "bucky-plain.xyz", "hexagon-raw.xyz", "hexagon-raw.xy"],
    "xcfg": ["BubbleRaftShort.xcfg"],
    "cif": ["Ni_ref.cif", "PbTe.cif", "TeI.cif", "TeI-unkocc.cif", "graphite.cif", "customsg.cif", "curlybrackets.cif",
            "nosites.cif"],
}


def _structures():
    """A few structures for the library's own writers."""
    init_real()
    import numpy
    from diffpy.structure import Atom, Lattice, Structure
    from diffpy.structure.parsers import getParser

    td = os.path.join(common.REPO, "tests", "testdata")
    out = []
    try:
        out.append(("Ni", getParser("pdffit").parseFile(os.path.join(td, "Ni.stru"))))
    except Exception:
        pass
    try:
        out.append(("CdSe", getParser("pdffit").parseFile(os.path.join(td, "CdSe_bulk.stru"))))
    except Exception:
        pass
    s = Structure(lattice=Lattice(5.1, 6.2, 7.3, 81.0, 97.0, 103.0), title="triclinic test")
    s.addNewAtom("C", xyz=[0.1, 0.2, 0.3], occupancy=0.5, label="C1")
    s.addNewAtom("O", xyz=[0.7, 0.25, 0.9], label="O1")
    s.addNewAtom("Pb", xyz=[0.0, 0.5, 0.5], label="Pb1")
    s[0].anisotropy = True
    s[0].U = numpy.array([[0.011, 0.001, 0.002], [0.001, 0.022, 0.003], [0.002, 0.003, 0.033]])
    s[1].Uisoequiv = 0.0125
    s[2].sigxyz = numpy.array([0.01, 0.02, 0.03])
    s[2].sigo = 0.05
    s[2].sigU = numpy.identity(3) * 0.001
    out.append(("tri", s))
    s2 = Structure(lattice=Lattice(3.0, 3.0, 4.0, 90, 90, 120), title="two")
    s2.addNewAtom("Zn", xyz=[1 / 3.0, 2 / 3.0, 0.0])
    s2.addNewAtom("O", xyz=[1 / 3.0, 2 / 3.0, 0.382])
    out.append(("hex", s2))
    # records the writers emit only for particular metadata: PDFfit `shape sphere` / `shape stepcut`, `sharp`, `dcell`
    try:
        from diffpy.structure import PDFFitStructure

        for nm, meta in (("sphere", {"spdiameter": 25.0, "delta2": 1.5, "rcut": 3.0, "sratio": 0.8}), ("stepcut", {"stepcut": 12.5, "delta1": 0.3})):
            p3 = PDFFitStructure(lattice=Lattice(3.0, 3.0, 4.0, 90, 90, 120), title="shape " + nm)
            p3.addNewAtom("Zn", xyz=[1 / 3.0, 2 / 3.0, 0.0])
            p3.addNewAtom("O", xyz=[1 / 3.0, 2 / 3.0, 0.382])
            p3.pdffit.update(meta)
            out.append((nm, p3))
    except Exception:
        pass
    return out


def seed_corpus():
    """dict fmt -> list of (name, text) of valid documents (each verified to parse)."""
    init_real()
    from diffpy.structure.parsers import getParser

    td = os.path.join(common.REPO, "tests", "testdata")
    corpus = {f: [] for f in FORMATS}
    for fmt, names in TESTDATA.items():
        for n in names:
            p = os.path.join(td, n)
            try:
                with open(p) as f:
                    corpus[fmt].append((n, f.read()))
            except OSError:
                pass
    for name, s in _structures():
        for fmt in FORMATS:
            try:
                txt = getParser(fmt).tostring(s)
            except Exception:
                continue
            corpus[fmt].append(("writer:" + name, txt))
    # supercell variants of the PDFfit / DISCUS documents: the same atoms declared as a 2 x 1 x 1 (or 1 x 1 x 2 ...) block of
    # half as many sites per cell, so that the `ncell` multiplier branch of the readers is entered by valid seeds
    for fmt in ("pdffit", "discus"):
        extra = []
        for name, txt in corpus.get(fmt, []):
            m = re.search(r"^(ncell\s+)(\d+)\s*,\s*(\d+)\s*,\s*(\d+)\s*,\s*(\d+)\s*$", txt, re.M)
            if m and m.group(2, 3, 4) == ("1", "1", "1") and int(m.group(5)) % 2 == 0 and int(m.group(5)) > 0:
                for k, mult in enumerate(("2, 1, 1", "1, 1, 2")):
                    extra.append((name + ":supercell%d" % k, txt[:m.start()] + "%s%s, %d" % (m.group(1), mult, int(m.group(5)) // 2) + txt[m.end():]))
        corpus[fmt] += extra[:4]
    # keep only documents the current parser accepts (a seed must be valid)
    good = {f: [] for f in FORMATS}
    rejected = []
    for fmt in FORMATS:
        for name, txt in corpus[fmt]:
            k, _, msg = run_one(fmt, txt)
            if k == "ok":
                good[fmt].append((name, txt))
            else:
                rejected.append((fmt, name, k, msg))
    return good, rejected


# ---- single-fault corruptions -------------------------------------------------------------

TOK = re.compile(r"\S+")


def mutant_descriptors(text):
    """All single-fault corruption descriptors of one document (cheap tuples, applied lazily)."""
    lines = text.split("\n")
    if lines and lines[-1] == "":
        lines.pop()
    n = len(lines)
    ds = []
    for i in range(n):
        ds.append(("trunc_line", i))
        toks = [m.span() for m in TOK.finditer(lines[i])]
        for j in range(1, len(toks)):
            ds.append(("trunc_tok", i, j))
        ds.append(("del", i))
        ds.append(("dup", i))
        if i + 1 < n:
            ds.append(("swap", i))
        for j in range(len(toks)):
            for r in range(len(REPL)):
                ds.append(("rep", i, j, r))
            w = lines[i][toks[j][0]:toks[j][1]]
            if any(ch.isalpha() for ch in w):
                # the same word in another letter case (record keywords, format names, element symbols)
                for k, v in enumerate((w.upper(), w.capitalize(), w.lower())):
                    if v != w:
                        ds.append(("case", i, j, k))
    return ds


def apply_mutant(text, d):
    lines = text.split("\n")
    if lines and lines[-1] == "":
        lines.pop()
    op = d[0]
    if op == "trunc_line":
        out = lines[:d[1]]
    elif op == "trunc_tok":
        i, j = d[1], d[2]
        toks = [m.span() for m in TOK.finditer(lines[i])]
        out = lines[:i] + [lines[i][:toks[j][0]].rstrip()]
    elif op == "del":
        out = lines[:d[1]] + lines[d[1] + 1:]
    elif op == "dup":
        out = lines[:d[1] + 1] + lines[d[1]:]
    elif op == "swap":
        i = d[1]
        out = lines[:i] + [lines[i + 1], lines[i]] + lines[i + 2:]
    elif op == "rep":
        i, j, r = d[1], d[2], REPL[d[3]]
        toks = [m.span() for m in TOK.finditer(lines[i])]
        s, e = toks[j]
        if r == " ":
            r = " " * (e - s)
        out = lines[:i] + [lines[i][:s] + r + lines[i][e:]] + lines[i + 1:]
    elif op == "case":
        i, j, k = d[1], d[2], d[3]
        toks = [m.span() for m in TOK.finditer(lines[i])]
        s, e = toks[j]
        w = lines[i][s:e]
        out = lines[:i] + [lines[i][:s] + (w.upper(), w.capitalize(), w.lower())[k] + lines[i][e:]] + lines[i + 1:]
    else:
        raise ValueError(d)
    return "\n".join(out) + "\n"


# ---- record keywords of the parser under examination -------------------------------------------

_KW_CACHE = {}


def source_keywords(fmt):
    """Word-like string literals of the format's parser module in the tree under examination (record names, data names,
    option words): the vocabulary a document may use to reach every record branch, including branches the valid seed
    documents never enter."""
    import ast
    import os

    from . import common

    if fmt in _KW_CACHE:
        return _KW_CACHE[fmt]
    path = os.path.join(common.REPO, "src", "diffpy", "structure", "parsers", "p_%s.py" % fmt)
    words = set()
    try:
        tree = ast.parse(open(path, encoding="utf-8").read())
        for n in ast.walk(tree):
            if isinstance(n, ast.Constant) and isinstance(n.value, str):
                for w in n.value.replace(",", " ").split() if len(n.value) < 200 else ():
                    if re.fullmatch(r"[A-Za-z_][A-Za-z0-9_\[\]\-]{1,40}", w):
                        words.add(w)
                    elif len(w) <= 3 and not any(ch.isalnum() or ch.isspace() for ch in w):
                        words.add(w)          # punctuation the parser looks for (comment / continuation marks, separators)
                for w in re.findall(r"[A-Za-z_][A-Za-z0-9_]*=\\?\"?", n.value) if len(n.value) < 200 else ():
                    words.add(w.replace("\\", ""))    # key=value / key="..." entries the parser searches for (also inside patterns)
    except (OSError, SyntaxError):
        pass
    _KW_CACHE[fmt] = sorted(words)
    return _KW_CACHE[fmt]


def keyword_documents(fmt, text, rng, limit):
    """documents obtained from `text` by bringing in a record keyword of the parser: as a new line (bare, with one number,
    with words) at the start / before each of up to 6 lines / at the end, or in place of the first word of a line"""
    kws = source_keywords(fmt)
    lines = text.split("\n")
    if lines and lines[-1] == "":
        lines.pop()
    n = len(lines)
    pos = sorted(set([0, 1, n // 2, max(0, n - 1), n] + ([rng.randrange(n + 1) for _ in range(2)] if n else [])))
    pos = [p for p in pos if 0 <= p <= n]
    docs = []
    KV = ["1 0 0 0 1 0 0 0 1", "1 0 0 0 1 0 0 0 -1", "0 0 0 0 0 0 0 0 0", "1 2 3 2 4 6 0 0 1", "1 2 3", "1", "abc", "", "1e400 0 0 0 1 0 0 0 1", "nan 0 0 0 1 0 0 0 1"]
    for w in kws:
        if w.endswith("=") or w.endswith('="'):
            # a key=value entry: with several value shapes (counts, signs, degenerate / left-handed triples of vectors), quoted
            # and bare, appended to each of the first lines and on a line of its own
            key = w.rstrip('"')
            for v in KV:
                for ent in (key + '"' + v + '"', key + v.replace(" ", ","), key + v):
                    for p in [q for q in (0, 1, 2, n - 1) if 0 <= q < n]:
                        docs.append("\n".join(lines[:p] + [lines[p] + " " + ent] + lines[p + 1:]) + "\n")
                    docs.append("\n".join(lines[:1] + [ent] + lines[1:]) + "\n")
            continue
        if not (w[0].isalpha() or w[0] == "_"):
            # a punctuation mark of the parser: after / glued to the end of a line, alone on a line, before a line
            for p in pos + [n - 1]:
                if 0 <= p < n:
                    docs.append("\n".join(lines[:p] + [lines[p] + " " + w] + lines[p + 1:]) + "\n")
                    docs.append("\n".join(lines[:p] + [lines[p] + w] + lines[p + 1:]) + "\n")
                    docs.append("\n".join(lines[:p] + [w + lines[p]] + lines[p + 1:]) + "\n")
                docs.append("\n".join(lines[:p] + [w] + lines[p:]) + "\n")
            docs.append("\n".join(lines + [w, "", ""]) + "\n")
            continue
        for p in pos:
            for tail in ("", " 1", " x, y, z", " 1 2 3 4 5 6"):
                docs.append("\n".join(lines[:p] + [w + tail] + lines[p:]) + "\n")
        for p in pos:
            if p < n and lines[p].split():
                first = lines[p].split()[0]
                docs.append("\n".join(lines[:p] + [lines[p].replace(first, w, 1)] + lines[p + 1:]) + "\n")
    docs = sorted(set(docs))
    if len(docs) > limit:
        docs = rng.sample(docs, limit)
    return docs


# ---- shrinking ---------------------------------------------------------------------------

def failure_key(fmt, real):
    """Specific key of a failing outcome: format, exception class, module.function, message without
    digits and punctuation (stable under line shifts and differing tokens)."""
    kind, cls, msg = real
    site = msg.split(":")[0] if msg else "?"
    if kind == "Resource":          # watchdog timeout or MemoryError, whichever comes first on this machine
        return "%s:Resource:%s" % (fmt, site)
    slug = re.sub(r"\s+", " ", re.sub(r"[^A-Za-z_' ]", "", msg.split(":", 1)[1] if ":" in msg else "")).strip()[:60]
    return "%s:%s:%s:%s" % (fmt, cls, site, slug)


def shrink(fmt, text, key, budget=400):
    """Drop lines, then tokens, while the real parser keeps failing with the same key."""
    def same(t):
        nonlocal budget
        budget -= 1
        return failure_key(fmt, run_one(fmt, t)) == key

    if ":Resource:" in key:
        return text
    lines = text.split("\n")
    if lines and lines[-1] == "":
        lines.pop()
    # delta debugging on lines: chunks of decreasing size
    size = max(1, len(lines) // 2)
    while size >= 1 and budget > 0:
        i = 0
        changed = False
        while i < len(lines) and budget > 0:
            cand = lines[:i] + lines[i + size:]
            if cand != lines and same("\n".join(cand) + "\n"):
                lines = cand
                changed = True
            else:
                i += size
        if size == 1 and not changed:
            break
        size = max(1, size // 2) if size > 1 else (1 if changed else 0)
    # tokens
    i = 0
    while i < len(lines) and budget > 0:
        toks = [m.span() for m in TOK.finditer(lines[i])]
        j = len(toks) - 1
        while j >= 0 and budget > 0:
            s, e = toks[j]
            cand_line = (lines[i][:s] + lines[i][e:]) if fmt != "pdb" else (lines[i][:s] + " " * (e - s) + lines[i][e:])
            cand = lines[:i] + [cand_line] + lines[i + 1:]
            if cand_line != lines[i] and same("\n".join(cand) + "\n"):
                lines = cand
                toks = [m.span() for m in TOK.finditer(lines[i])]
                j = min(j, len(toks)) - 1
            else:
                j -= 1
        i += 1
    return "\n".join(lines) + "\n"
