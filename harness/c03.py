"""C03 — every tabulated space-group setting is a group with consistent metadata.

Deciding method: translator (tables regenerated from the repository on every run) + Lean kernel
obligations (`decide +kernel` per setting on certificates) + `checkGroup_sound` (hand proof).
The Python side only (a) translates, (b) runs an independent exact oracle used for the
failing-input search and for the lattice-parameter clause, (c) spot-checks `SymOp.__call__`
against the model's action.

Space-group TYPE (DS.Props.C03c): translate/screw.py emits, per setting, a certificate of the screw order of every
operation (least m >= 1 with m*(N t) in N(L)); the kernel checks it (`checkScrew`, one obligation per setting) and compares the
census of (det, trace, m) per coset with the committed reference of `number % 1000` (lean/DS/Ref/ItCensus.lean);
`checkScrew_sound` is the hand proof.  `type_census` below is the independent Python oracle of the same invariant
(failing-input search, replay stream "ittype").

Space-group TYPE by explicit equivalence (DS.Props.C03d): harness/c03_equiv.py finds, for every setting, an orientation-preserving
affine change of coordinates (P, p) onto the FROZEN standard setting of `number % 1000` (harness/c03_equiv.json =
lean/DS/Ref/ItRef*.lean) and verifies it exactly for all operations in both directions; translate/equiv.py expands it into a
certificate with index maps that the kernel checks (`checkEquiv`, one obligation per setting); `checkEquiv_sound` is the hand
proof that an accepted certificate carries the one group onto the other.  A setting without a certificate is reported as
`ittype:<number>` (replay stream "itequiv": the search is repeated on the tree under test), naming the type it IS a setting of.

The tables survive use (section 7 below, replay stream "survive"): everything above looks at the tables as they are right after import.
A history of public API calls that hand out the shared tabulated objects (GetSpaceGroup / FindSpaceGroup, CIF documents that resolve to a
tabulated setting by symbol, number or operation list in table order and DECLARE disagreeing scalar symmetry items, expandPosition,
GeneratorSite, ExpandAsymmetricUnit, SymmetryConstraints, isSpaceGroupLatPar, copies / pickles edited by their owner, structures read from
CIF pickled and copied, PDFFitStructure reads) runs in a fresh interpreter beside the Lean builds; the state of all settings is taken after
every call, the canonical serialisation is compared with the one the translator read, and the Python mirror of the metadata clauses is
re-evaluated at the end.  The first call after which anything differs is the failing input (confirmed alone in another fresh interpreter).
"""
import itertools
import json
import os
import sys
from fractions import Fraction

from . import common
from .common import LEAN, VERIF

GEN = os.path.join(LEAN, "DS", "Gen")
LATSEEN = set()


def F(x):
    return Fraction(float(x)).limit_denominator(10000)


def exact_ops(sg):
    ops = []
    for o in sg.symop_list:
        R = tuple(tuple(F(o.R[i][j]) for j in range(3)) for i in range(3))
        t = tuple(F(o.t[i]) for i in range(3))
        ops.append((R, t))
    return ops


def mul(a, b):
    Ra, ta = a
    Rb, tb = b
    R = tuple(tuple(sum(Ra[i][k] * Rb[k][j] for k in range(3)) for j in range(3)) for i in range(3))
    t = tuple((sum(Ra[i][k] * tb[k] for k in range(3)) + ta[i]) % 1 for i in range(3))
    return (R, t)


ID = (((1, 0, 0), (0, 1, 0), (0, 0, 1)), (0, 0, 0))


def det3(R):
    return (R[0][0] * (R[1][1] * R[2][2] - R[1][2] * R[2][1]) - R[0][1] * (R[1][0] * R[2][2] - R[1][2] * R[2][0])
            + R[0][2] * (R[1][0] * R[2][1] - R[1][1] * R[2][0]))


def group_oracle(sg):
    """Independent exact evaluation of the group clause on the runtime objects.

    Returns None when it holds, else a dict describing the first failing input."""
    ops = exact_ops(sg)
    norm = [(R, tuple(x % 1 for x in t)) for R, t in ops]
    if not ops or norm[0] != ID or ops[0][1] != (0, 0, 0):
        return {"what": "identity is not listed first"}
    s = {}
    for i, o in enumerate(norm):
        if o in s:
            return {"what": "operation listed twice", "ops": [s[o], i]}
        s[o] = i
    for i, (R, t) in enumerate(ops):
        if any(x.denominator != 1 for row in R for x in row) or det3(R) not in (1, -1):
            return {"what": "rotation part not integer with det +-1", "ops": [i]}
    for i, a in enumerate(norm):
        for j, b in enumerate(norm):
            if mul(a, b) not in s:
                return {"what": "composition leaves the table", "ops": [i, j]}
    for i, a in enumerate(norm):
        if not any(mul(a, b) == ID for b in norm):
            return {"what": "no inverse in the table", "ops": [i]}
    return None


def counts_oracle(sg):
    ops = exact_ops(sg)
    n = len(ops)
    nc = sum(1 for R, t in ops if R == ID[0])
    if n != sg.num_sym_equiv:
        return {"what": "len(symop_list)=%d, num_sym_equiv=%r" % (n, sg.num_sym_equiv)}
    if nc == 0 or n % nc or n // nc != sg.num_primitive_sym_equiv:
        return {"what": "num_primitive_sym_equiv=%r, expected %s (%d ops, %d centring translations)" % (
            sg.num_primitive_sym_equiv, n // nc if nc else "?", n, nc)}
    return None


# ---- lattice-parameter clause -----------------------------------------------------------

def invariant_metric(sg, G0):
    """Group average of the metric G0 (exact)."""
    rots = {R for R, t in exact_ops(sg)}
    acc = [[Fraction(0)] * 3 for _ in range(3)]
    for R in rots:
        for i in range(3):
            for j in range(3):
                acc[i][j] += sum(R[k][i] * G0[k][l] * R[l][j] for k in range(3) for l in range(3))
    n = len(rots)
    return [[acc[i][j] / n for j in range(3)] for i in range(3)]


def cell_of_metric(G):
    import math

    a, b, c = (math.sqrt(float(G[i][i])) for i in range(3))

    def ang(gij, gii, gjj):
        if gij == 0:
            return 90.0
        if gii == gjj and gij == -gii / 2:
            return 120.0
        if gii == gjj and gij == gii / 2:
            return 60.0
        return math.degrees(math.acos(float(gij) / math.sqrt(float(gii) * float(gjj))))

    return (a, b, c, ang(G[1][2], G[1][1], G[2][2]), ang(G[0][2], G[0][0], G[2][2]), ang(G[0][1], G[0][0], G[1][1]))


G0 = [[Fraction(25), Fraction(-3), Fraction(-5)], [Fraction(-3), Fraction(36), Fraction(-7)], [Fraction(-5), Fraction(-7), Fraction(49)]]

# generic cells by *shape* of each crystal system, (system, cell)
SHAPES = [
    ("TRICLINIC", (5.1, 6.2, 7.3, 81.0, 97.0, 103.0)),
    ("MONOCLINIC", (5.1, 6.2, 7.3, 90.0, 97.0, 90.0)),
    ("MONOCLINIC", (5.1, 6.2, 7.3, 90.0, 90.0, 103.0)),
    ("MONOCLINIC", (5.1, 6.2, 7.3, 81.0, 90.0, 90.0)),
    ("ORTHORHOMBIC", (5.1, 6.2, 7.3, 90.0, 90.0, 90.0)),
    ("TETRAGONAL", (5.1, 5.1, 7.3, 90.0, 90.0, 90.0)),
    ("TRIGONAL", (5.1, 5.1, 5.1, 81.0, 81.0, 81.0)),
    ("HEXAGONAL", (5.1, 5.1, 7.3, 90.0, 90.0, 120.0)),
    ("CUBIC", (5.1, 5.1, 5.1, 90.0, 90.0, 90.0)),
]
# cells of a lower system that miss the special shape of a higher one only in the 5th-6th significant digit
NEAR_SHAPES = [
    ("TRICLINIC", (5.1, 6.2, 7.3, 90.0004, 97.0, 90.0)),
    ("MONOCLINIC", (5.1, 6.2, 7.3, 90.0, 90.0005, 90.0)),
    ("MONOCLINIC", (5.1, 5.1, 7.3, 90.0, 90.0, 120.0008)),
    ("ORTHORHOMBIC", (5.1, 5.10003, 7.3, 90.0, 90.0, 90.0)),
    ("TRICLINIC", (5.1, 5.1, 5.1, 81.0, 81.0, 81.0005)),
    ("TETRAGONAL", (5.1, 5.1, 5.10004, 90.0, 90.0, 90.0)),
]
# S' strictly lower than S  (cells that only a lower system allows must be rejected by S)
LOWER = {
    "TRICLINIC": [],
    "MONOCLINIC": ["TRICLINIC"],
    "ORTHORHOMBIC": ["TRICLINIC", "MONOCLINIC"],
    "TETRAGONAL": ["TRICLINIC", "MONOCLINIC", "ORTHORHOMBIC"],
    "TRIGONAL": ["TRICLINIC", "MONOCLINIC", "ORTHORHOMBIC"],
    "HEXAGONAL": ["TRICLINIC", "MONOCLINIC", "ORTHORHOMBIC"],
    "CUBIC": ["TRICLINIC", "MONOCLINIC", "ORTHORHOMBIC", "TETRAGONAL", "TRIGONAL"],
}


def latpar_oracle(sg, isSpaceGroupLatPar):
    """Returns list of failing inputs for the lattice-compatibility clause."""
    out = []
    cell = cell_of_metric(invariant_metric(sg, G0))
    if not isSpaceGroupLatPar(sg, *cell):
        out.append({"what": "rejects a cell its own operations leave invariant", "cell": cell})
    for shape_sys, c in SHAPES + NEAR_SHAPES:
        if shape_sys in LOWER.get(sg.crystal_system, []):
            if isSpaceGroupLatPar(sg, *c):
                out.append({"what": "accepts a cell of the lower system %s" % shape_sys, "cell": c})
    # every cell the operations leave invariant must be accepted, also the more symmetric ones
    # (a monoclinic setting with an orthorhombic or cubic metric, a tetragonal one with a cubic metric, ...)
    rots = {R for R, t in exact_ops(sg)}
    for shape_sys, c in SHAPES + EXTRA_SHAPES:
        G = metric_of_cell(c)
        if all(max(abs(sum(R[k][i] * G[k][l] * R[l][j] for k in range(3) for l in range(3)) - G[i][j])
                   for i in range(3) for j in range(3)) < 1e-9 for R in rots):
            if not isSpaceGroupLatPar(sg, *c):
                out.append({"what": "rejects the %s-shaped cell that its operations leave invariant" % shape_sys.lower(), "cell": c})
    return out


EXTRA_SHAPES = [("TETRAGONAL", (5.1, 7.3, 5.1, 90.0, 90.0, 90.0)), ("TETRAGONAL", (7.3, 5.1, 5.1, 90.0, 90.0, 90.0)),
                ("HEXAGONAL", (5.1, 5.1, 5.1, 90.0, 90.0, 120.0)), ("TRIGONAL", (5.1, 5.1, 5.1, 60.0, 60.0, 60.0))]


def metric_of_cell(c):
    import math

    a, b, cc, al, be, ga = c

    def cs(x):
        return {90.0: 0.0, 120.0: -0.5, 60.0: 0.5}.get(x, math.cos(math.radians(x)))

    return [[a * a, a * b * cs(ga), a * cc * cs(be)], [a * b * cs(ga), b * b, b * cc * cs(al)], [a * cc * cs(be), b * cc * cs(al), cc * cc]]


# ---- the check --------------------------------------------------------------------------

# ---- space-group type beyond class / centring / order: rotation vs screw, mirror vs glide ----------------------

_I3 = [[1, 0, 0], [0, 1, 0], [0, 0, 1]]


def _mm(A, B):
    return [[sum(A[i][k] * B[k][j] for k in range(3)) for j in range(3)] for i in range(3)]


def _mv(A, v):
    return [sum(A[i][k] * v[k] for k in range(3)) for i in range(3)]


def _echelon(gens):
    """echelon basis over Z of the lattice generated by integer 3-vectors"""
    rows = [list(g) for g in gens if any(g)]
    basis = []
    for col in range(3):
        cand = [r for r in rows if r[col] != 0]
        rest = [r for r in rows if r[col] == 0]
        while len(cand) > 1:
            cand.sort(key=lambda r: abs(r[col]))
            p = cand[0]
            new = [p]
            for r in cand[1:]:
                q = r[col] // p[col]
                r2 = [r[i] - q * p[i] for i in range(3)]
                if r2[col] != 0:
                    new.append(r2)
                elif any(r2):
                    rest.append(r2)
            cand = new
        if cand:
            basis.append((col, cand[0]))
        rows = rest
    return basis


def _member(basis, v):
    v = list(v)
    for col, b in basis:
        if v[col] % b[col] != 0:
            return False
        q = v[col] // b[col]
        v = [v[i] - q * b[i] for i in range(3)]
    return not any(v)


def type_census(sg):
    """Invariant of the space-group TYPE (unchanged by any change of axes or origin): for every coset g.T of the translation
    subgroup T (integer translations and the centring translations listed in the table) the kind of its rotation part
    (det, trace) and the smallest m >= 1 such that some element of the coset has (element)^(m*n) = identity-up-to... precisely:
    with n the order of R, N = 1 + R + ... + R^(n-1), s = N t (so g^n is the translation s), m is the least positive integer
    with m*s in N(L), L the translation lattice; m = 1 iff the coset contains an element of finite order (a pure rotation,
    reflection or roto-inversion), m = 2 for 2_1 screws and ordinary glides, 4 for 4_1/4_3 and d glides, ...
    Returns {"det,trace,m": number of cosets}."""
    ops = []
    for op in sg.iter_symops():
        R = [[int(round(float(x))) for x in row] for row in op.R]
        t = [int(round(float(x) * 24)) for x in op.t]
        ops.append((R, t))
    cent = [t for R, t in ops if R == _I3]
    L = [[24, 0, 0], [0, 24, 0], [0, 0, 24]] + cent
    c = {}
    for R, t in ops:
        P, n = R, 1
        while P != _I3:
            P = _mm(P, R)
            n += 1
            if n > 6:
                return {"not-a-finite-order-rotation": 1}
        N = [[0] * 3 for _ in range(3)]
        P = _I3
        for _ in range(n):
            N = [[N[a][b] + P[a][b] for b in range(3)] for a in range(3)]
            P = _mm(P, R)
        s_ = _mv(N, t)
        basis = _echelon([_mv(N, l) for l in L])
        m = next((k for k in (1, 2, 3, 4, 6, 8, 12, 24) if _member(basis, [k * x for x in s_])), None)
        key = "%d,%d,%s" % (det3(R), R[0][0] + R[1][1] + R[2][2], m)
        c[key] = c.get(key, 0) + 1
    nc = max(1, len(cent))
    if any(v % nc for v in c.values()):
        return {"cosets-not-uniform": 1}
    return dict(sorted((k, v // nc) for k, v in c.items()))


def census_reference():
    """harness/c03_itcensus.json: the census of each of the 230 space-group types, keyed by International Tables number
    (reference data: computed once from the standard settings and confirmed by every alternative setting of the same number
    - 514 settings from two independent sources, mmLib and cctbx - giving the same census; see DESIGN 9.8)"""
    return json.load(open(os.path.join(os.path.dirname(os.path.abspath(__file__)), "c03_itcensus.json")))


def census_oracle(sg, ref):
    got = type_census(sg)
    want = ref.get(str(sg.number % 1000))
    if want is None or got == want:
        return None
    return {"what": "the operations are those of another space-group type than No. %d: rotation/screw and mirror/glide census per coset "
                    "{det,trace,m: count} is %r, No. %d has %r" % (sg.number % 1000, got, sg.number % 1000, want), "census": got, "expected": want}


# ---- 7. the tables survive use ------------------------------------------------------------------------------
# The kernel obligations and the oracles above look at the tables as they are right after import.  The same objects are
# handed out by the public API for as long as the process lives: GetSpaceGroup / FindSpaceGroup return them, the CIF reader
# resolves a file to them, the symmetry utilities work on them.  This phase exercises that API in a FRESH interpreter
# (worker part of this file, `python -m harness.c03`), takes the state of all settings (every attribute, every operation,
# what GetSpaceGroup returns for every number and name) after every call, and at the end recomputes the canonical
# serialisation the translator's view was taken from and the Python mirror of the metadata clauses.  The first call after
# which anything differs is the failing input (re-executed alone in another fresh interpreter to confirm).

SURVIVE_FIXED = [1, 2, 5, 14, 15, 62, 88, 139, 143, 152, 164, 173, 186, 194, 195, 221, 225, 227]
SURVIVE_WORDS = {
    "TRICLINIC": ["monoclinic", "anorthic"], "MONOCLINIC": ["triclinic", "orthorhombic"], "ORTHORHOMBIC": ["monoclinic", "tetragonal"],
    "TETRAGONAL": ["orthorhombic", "cubic"], "TRIGONAL": ["rhombohedral", "hexagonal"], "HEXAGONAL": ["trigonal", "rhombohedral"],
    "CUBIC": ["tetragonal", "rhombohedral"]}


def tables_canon(sgs_mod):
    """canonical serialisation (values only, no object identities) of everything the tables say: per setting all attributes and
    the bytes of every operation; -> (sha256 hex, number of settings)"""
    import hashlib

    h = hashlib.sha256()
    n = 0
    for g in sgs_mod.SpaceGroupList:
        n += 1
        d = vars(g)
        h.update(repr([(k, repr(d[k])) for k in sorted(d) if k != "symop_list"]).encode("utf-8", "replace"))
        ops = d.get("symop_list")
        if isinstance(ops, (list, tuple)):
            for o in ops:
                try:
                    h.update(b"R" + o.R.dtype.str.encode() + o.R.tobytes() + b"t" + o.t.dtype.str.encode() + o.t.tobytes())
                except AttributeError:
                    h.update(repr(o).encode("utf-8", "replace"))
        else:
            h.update(repr(ops).encode("utf-8", "replace"))
        h.update(b"|")
    return h.hexdigest(), n


def survive_op_text(op):
    """x,y,z text of a tabulated operation (entries -1, 0, 1; translations in 24ths)"""
    rows = []
    for i in range(3):
        t = ""
        for j, c in enumerate("xyz"):
            v = int(round(float(op.R[i][j])))
            if v:
                t += ("+" if v > 0 else "-") + (c if abs(v) == 1 else "%d*%s" % (abs(v), c))
        f = Fraction(float(op.t[i])).limit_denominator(24)
        if f:
            t += "+%d/%d" % (f.numerator, f.denominator)
        rows.append(t.lstrip("+") or "0")
    return ",".join(rows)


def survive_cif(sg, way, declared, cell, other=None):
    """CIF text that names the setting `sg` in one `way` and carries the scalar items `declared` (lines)"""
    a, b, c, al, be, ga = cell
    L = ["data_survive", "_cell_length_a %.6f" % a, "_cell_length_b %.6f" % b, "_cell_length_c %.6f" % c,
         "_cell_angle_alpha %.5f" % al, "_cell_angle_beta %.5f" % be, "_cell_angle_gamma %.5f" % ga]
    ops = list(sg.symop_list)
    if way.endswith("reversed"):
        ops = ops[:1] + ops[:0:-1]
    oploop = ["loop_", "_symmetry_equiv_pos_as_xyz"] + ["'%s'" % survive_op_text(o) for o in ops]
    oploop2 = ["loop_", "_space_group_symop_id", "_space_group_symop_operation_xyz"] + ["%d '%s'" % (i + 1, survive_op_text(o)) for i, o in enumerate(ops)]
    if way == "number":
        L.append("_symmetry_Int_Tables_number %d" % sg.number)
    elif way == "number-new-tag":
        L.append("_space_group_IT_number %d" % sg.number)
    elif way == "hm":
        L.append("_symmetry_space_group_name_H-M '%s'" % sg.short_name)
    elif way == "hm-full":
        L.append("_space_group_name_H-M_alt '%s'" % sg.pdb_name)
    elif way in ("ops", "ops-reversed"):
        L += oploop
    elif way == "ops-new-tag":
        L += oploop2
    elif way == "ops+other-identifiers" and other is not None:
        # the operations name the setting; number and symbol of ANOTHER setting are declared beside them
        L += ["_symmetry_Int_Tables_number %d" % (other.number % 1000), "_symmetry_space_group_name_H-M '%s'" % other.short_name] + oploop
    elif way == "ops+own-identifiers":
        L += ["_symmetry_Int_Tables_number %d" % (sg.number % 1000), "_symmetry_space_group_name_H-M '%s'" % sg.pdb_name] + oploop
    else:
        raise ValueError(way)
    L += list(declared)
    L += ["loop_", "_atom_site_label", "_atom_site_type_symbol", "_atom_site_fract_x", "_atom_site_fract_y", "_atom_site_fract_z",
          "_atom_site_U_iso_or_equiv", "C1 C 0.1031 0.2172 0.3393 0.01", "O1 O 0 0 0 0.02"]
    return "\n".join(L) + "\n"


def survive_calls(ck, sgs_mod):
    """the history of API calls (JSON-able descriptors; CIF texts are rendered here, the worker only executes)"""
    import random

    rng = random.Random(ck.seed * 7919 + 3)
    quick = ck.tier == "quick"
    lst = list(sgs_mod.SpaceGroupList)
    bynum = {}
    for i, g in enumerate(lst):
        bynum.setdefault(g.number, i)
    chosen = [bynum[n] for n in SURVIVE_FIXED if n in bynum]
    # every rhombohedral-lattice setting (hexagonal and rhombohedral axes): files call them `rhombohedral`, the tables TRIGONAL
    chosen += [i for i, g in enumerate(lst) if isinstance(g.number, int) and g.number % 1000 in (146, 148, 155, 160, 161, 166, 167)]
    rest = [i for i in range(len(lst)) if i not in set(chosen)]
    chosen += rng.sample(rest, min(len(rest), 14)) if quick else rest
    seen = set()
    chosen = [i for i in chosen if not (i in seen or seen.add(i))]
    calls = []
    tags = ["_symmetry_cell_setting", "_space_group_crystal_system"]
    halls = ["-P 1", "P 2ac 2ab", "-R 3 2\"c", "R 3 -2\"c"]
    vias = ["P_cif", "readStr", "pdffit", "file", "auto", "pdffit-file"]
    k = 0
    for i in chosen:
        g = lst[i]
        nops = len(g.symop_list)
        ident = {"pos": i, "number": g.number, "short_name": g.short_name}
        try:
            cell = cell_of_metric(invariant_metric(g, G0))
        except Exception:  # noqa: BLE001  (operations that are not a group: the oracles above report it)
            cell = (5.1, 6.2, 7.3, 90.0, 90.0, 90.0)
        words = SURVIVE_WORDS.get(g.crystal_system, ["triclinic", "cubic"])
        own = str(g.crystal_system)
        # ---- direct API calls on the tabulated object
        calls.append(dict(ident, op="api", what="GetSpaceGroup", ids=[g.number, str(g.number), g.short_name, g.pdb_name,
                                                                          " " + g.short_name.lower() + " ", g.pdb_name.upper()]))
        calls.append(dict(ident, op="api", what="FindSpaceGroup", orders=["same", "rounded4", "reversed", "reversed-shuffle"]))
        calls.append(dict(ident, op="api", what="iterate", vec=[0.1031, 0.2172, 0.3393]))
        calls.append(dict(ident, op="api", what="isSpaceGroupLatPar", cells=[list(cell), [5.1, 6.2, 7.3, 81.0, 97.0, 103.0], [5.1, 5.1, 5.1, 90.0, 90.0, 90.0]]))
        calls.append(dict(ident, op="api", what="copies", how=["copy", "deepcopy", "pickle0", "pickle2", "pickle5"]))
        if nops <= 96 or not quick:
            calls.append(dict(ident, op="api", what="expand", xyz=[[0.1031, 0.2172, 0.3393], [0, 0, 0], [0.5, 0.5, 0.5], [0.25, 0.25, 0.25]]))
        if nops <= 48 or not quick:
            calls.append(dict(ident, op="api", what="constraints", xyz=[[0.1031, 0.2172, 0.3393], [0, 0, 0], [0.25, 0.25, 0.25]]))
        # ---- CIF documents that resolve to the tabulated object and declare scalar items that disagree with it
        ways = ["hm", "hm-full"]
        if isinstance(g.number, int) and bynum.get(g.number) == i:
            ways += ["number", "number-new-tag"]
        if nops <= 96 or not quick:
            ways += ["ops", "ops+other-identifiers", "ops+own-identifiers", "ops-new-tag"]
            if nops <= 24:
                ways.append("ops-reversed")
        if quick:
            # the three branches of the reader (symbol, number, operation list) always, two of their variants in rotation
            main3 = [w for w in ("hm", "number", "ops") if w in ways]
            var = [w for w in ways if w not in main3]
            ways = main3 + [var[(i + j) % len(var)] for j in range(min(2, len(var)))]
        other = lst[(i + 37) % len(lst)]
        decls = [["%s %s" % (tags[0], words[0])], ["%s %s" % (tags[1], words[1])],
                 ["%s %s" % (tags[0], words[1].upper()), "%s '%s'" % (tags[1], words[0].capitalize())],
                 ["%s %s" % (tags[k % 2], own.capitalize())], ["%s '%s'" % (tags[(k + 1) % 2], own.lower() + " ")],
                 ["_symmetry_space_group_name_Hall '%s'" % halls[k % len(halls)]],
                 ["_space_group_name_Hall '%s'" % halls[(k + 1) % len(halls)], "%s ?" % tags[0], "%s ." % tags[1]],
                 ["_cell_formula_units_Z 7", "_symmetry_cell_setting '%s'" % words[0], "_space_group_crystal_system '%s'" % words[0]],
                 []]
        thens = [["latpar"], ["pickle-stru", "copy-stru"], ["write-cif"], ["copy-sg-edit"], ["expand"], ["reparse"], ["pickle-sg"], ["latpar", "constraints"]]
        for wi, way in enumerate(ways):
            for di, decl in enumerate(decls):
                k += 1
                # quick: every way of every setting meets one of the two disagreeing declarations (in turn); the other
                # combinations in rotation
                if quick and ((di < 2 and (wi + i) % 2 != di) or (di >= 2 and (wi + di + i) % 7)):
                    continue
                if not quick and di >= 2 and (wi + di + i) % 3:
                    continue
                then = thens[k % len(thens)]
                if nops > 48 and quick:
                    then = [t_ for t_ in then if t_ not in ("constraints", "expand")]
                calls.append(dict(ident, op="cif", way=way, via=vias[k % len(vias)], declared=decl, then=then,
                                  text=survive_cif(g, way, decl, cell, other)))
    return calls, chosen


def survive_start(ck, sgs_mod):
    """start the worker(s) on the history (they run beside the Lean builds); -> handle for survive_finish.
    Quick tier: one history in one interpreter; thorough tier: the settings are dealt out to 6 independent histories."""
    import shutil
    import subprocess
    import tempfile

    calls, chosen = survive_calls(ck, sgs_mod)
    nw = 1 if ck.tier == "quick" else 6
    order = []
    for c in calls:
        if c["pos"] not in order:
            order.append(c["pos"])
    parts = [[c for c in calls if order.index(c["pos"]) % nw == w] for w in range(nw)]
    os.makedirs(common.WORK, exist_ok=True)
    workers = []
    for part in parts:
        wd = tempfile.mkdtemp(prefix="c03_survive_", dir=common.WORK)
        jobf = os.path.join(wd, "job.json")
        with open(jobf, "w") as f:
            json.dump({"cwd": wd, "calls": part, "mirror_before": False}, f)
        proc = subprocess.Popen([common.PY, "-m", "harness.c03", jobf], cwd=VERIF, stdout=subprocess.PIPE, stderr=subprocess.PIPE, text=True)
        workers.append({"proc": proc, "wd": wd, "calls": part})
    return {"workers": workers, "chosen": chosen, "ncalls": len(calls), "rmtree": shutil.rmtree}


def survive_run(calls, mirror_before=True, timeout=3000):
    """run a history in a fresh interpreter and wait for it"""
    import shutil
    import subprocess
    import tempfile

    os.makedirs(common.WORK, exist_ok=True)
    wd = tempfile.mkdtemp(prefix="c03_survive_", dir=common.WORK)
    try:
        jobf = os.path.join(wd, "job.json")
        with open(jobf, "w") as f:
            json.dump({"cwd": wd, "calls": calls, "mirror_before": mirror_before}, f)
        p = subprocess.run([common.PY, "-m", "harness.c03", jobf], cwd=VERIF, capture_output=True, text=True, timeout=timeout)
        if p.returncode != 0:
            raise common.Broken("C03 survive worker failed: " + p.stderr[-1500:])
        return json.loads(p.stdout)
    finally:
        shutil.rmtree(wd, ignore_errors=True)


def call_text(c):
    if c.get("op") == "cif":
        return "read a CIF naming #%s %s by %s and declaring %r through %s, then %s" % (
            c.get("number"), c.get("short_name"), c.get("way"), c.get("declared"), c.get("via"), "/".join(c.get("then") or ["nothing"]))
    return "%s on the tabulated #%s %s" % (c.get("what"), c.get("number"), c.get("short_name"))


def survive_finish(ck, h, import_canon, import_bad):
    """collect the worker(s); every difference is a failure with the (minimal) history as replay"""
    results = []
    try:
        for w in h["workers"]:
            out, err = w["proc"].communicate(timeout=6000)
            if w["proc"].returncode != 0:
                raise common.Broken("C03 survive worker failed: " + err[-1500:])
            results.append((w["calls"], json.loads(out)))
    finally:
        survive_cleanup(h)
    outcomes = {}
    for _calls, res in results:
        for k_, v_ in res["outcomes"].items():
            outcomes[k_] = outcomes.get(k_, 0) + v_
    ncalls = sum(len(c) for c, _ in results)
    cov = {"settings_exercised": len(h["chosen"]), "histories": len(results), "calls": ncalls,
           "cif_documents": sum(1 for calls, _ in results for c in calls if c["op"] == "cif"),
           "cif_resolved_to_the_tabulated_object": sum(r["shared"] for _, r in results),
           "cif_resolved_to_a_copy": sum(r["copied"] for _, r in results),
           "outcomes": dict(sorted(outcomes.items())), "snapshots": sum(r["snapshots"] for _, r in results),
           "worker_s": [r["seconds"] for _, r in results], "state_changes": sum(len(r["changes"]) for _, r in results),
           "canonical_sha256": import_canon[0][:16]}
    ck.coverage["survive_use"] = cov
    ck.coverage["evaluations"] += ncalls
    ck.coverage["traces_validated_against_impl"] += cov["snapshots"]
    reported = set()
    todo = []
    known_bad = {(b["number"], c) for b in import_bad for c in b["failed"]}
    for calls, res in results:
        if res["canon_start"] != list(import_canon):
            ck.fail("table-import-unstable", "two fresh imports of the space-group tables differ: %s here, %s in a second interpreter" % (
                import_canon[0][:16], res["canon_start"][0][:16]), {"kind": "history", "stream": "survive", "calls": []}, no_failing_input=True)
        for chg in res["changes"]:
            d0 = chg["diff"][0] if chg["diff"] else {"number": "?", "field": "?"}
            fkey = d0.get("field")
            if fkey in reported or len(todo) >= 3:
                continue
            reported.add(fkey)
            todo.append(("table-modified-by-use:%s:%s" % (d0.get("number"), fkey), calls, chg, d0))
        # the end state against the state the translator (and so the kernel) saw, and the mirror of the metadata clauses on it
        if not res["changes"] and res["canon_end"] != res["canon_start"]:
            ck.fail("table-modified-by-use:end-state", "the serialisation of the tables after the history differs from the one before it although "
                    "no single call changed the observed state", {"kind": "history", "stream": "survive", "calls": calls})
        for m in res["mirror_end"]:
            if (m["number"], m["component"]) in known_bad or res["changes"]:
                continue
            ck.fail("table-modified-by-use:%s:%s" % (m["number"], m["component"]),
                    "after the history the metadata of setting #%s no longer agree with its operations: %s" % (m["number"], m["why"]),
                    {"kind": "history", "stream": "survive", "setting": m["number"], "calls": calls, "detail": m})
    for key, calls, chg, d0 in todo:
        i = chg["call"]
        hist = [calls[i]]
        alone = survive_run(hist, mirror_before=False)
        if not (alone["changes"] or alone["canon_start"] != alone["canon_end"]):
            hist = calls[:i + 1]       # the call needs what went before it
        ck.fail(key, "the tabulated setting #%s is no longer what the table files define: %s %s -> %s after: %s%s" % (
            d0.get("number"), d0.get("field"), d0.get("old"), d0.get("new"), call_text(calls[i]),
            "" if len(hist) == 1 else " (call %d of the history)" % (i + 1)),
            {"kind": "history", "stream": "survive", "setting": d0.get("number"), "calls": hist, "diff": chg["diff"][:10],
             "outcome": chg.get("outcome"), "history_length": len(hist)})
    return results


def survive_cleanup(h):
    for w in h.get("workers", []):
        if w["proc"].poll() is None:
            w["proc"].kill()
        h["rmtree"](w["wd"], ignore_errors=True)


# ---- worker part (fresh interpreter: `python -m harness.c03 job.json`) ---------------------------------------

def _survive_worker(job):
    import copy
    import pickle
    import time

    t0 = time.time()
    common.use_repo()
    os.chdir(job["cwd"])
    import numpy

    import diffpy.structure.spacegroups as sgs
    from diffpy.structure import PDFFitStructure, Structure, loadStructure
    from diffpy.structure.parsers import getParser
    from diffpy.structure.spacegroups import FindSpaceGroup, GetSpaceGroup, SymOp
    from diffpy.structure.symmetryutilities import (ExpandAsymmetricUnit, GeneratorSite, SymmetryConstraints, expandPosition,
                                                    isSpaceGroupLatPar)

    assert os.path.realpath(sgs.__file__).startswith(os.path.realpath(common.REPO)), sgs.__file__
    table = list(sgs.SpaceGroupList)      # the objects as listed at import
    lookups = []
    for g in table:
        for idn in (getattr(g, "number", None), getattr(g, "short_name", None), getattr(g, "pdb_name", None)):
            lookups.append(idn)

    def state():
        out = []
        cur = sgs.SpaceGroupList
        out.append((id(cur), len(cur)))
        for g in cur:
            d = vars(g)
            ops = d.get("symop_list")
            try:
                ov = (id(ops), tuple([(id(o), o.R.tobytes(), o.t.tobytes()) for o in ops]))
            except (AttributeError, TypeError):
                ov = (id(ops), repr(ops)[:200])
            out.append((id(g), tuple([(k, repr(v)) for k, v in sorted(d.items()) if k != "symop_list"]), ov))
        lk = []
        for idn in lookups:
            try:
                lk.append(id(GetSpaceGroup(idn)))
            except Exception as e:  # noqa: BLE001
                lk.append(type(e).__name__)
        out.append(tuple(lk))
        return out

    def diff(a, b):
        res = []
        if a[0] != b[0]:
            res.append({"number": "list", "field": "SpaceGroupList", "old": "%d entries" % a[0][1], "new": "%d entries%s" % (
                b[0][1], "" if a[0][0] == b[0][0] else " (another list object)")})
        for pos, (x, y) in enumerate(zip(a[1:-1], b[1:-1])):
            if x == y:
                continue
            num = dict(x[1]).get("number", "?")
            if x[0] != y[0]:
                res.append({"pos": pos, "number": num, "field": "entry", "old": "object listed at import", "new": "another object"})
            dx, dy = dict(x[1]), dict(y[1])
            for k in sorted(set(dx) | set(dy)):
                if dx.get(k) != dy.get(k):
                    res.append({"pos": pos, "number": num, "field": k, "old": dx.get(k, "<absent>"), "new": dy.get(k, "<absent>")})
            if x[2] != y[2]:
                ox, oy = x[2], y[2]
                if isinstance(ox[1], tuple) and isinstance(oy[1], tuple):
                    if len(ox[1]) != len(oy[1]):
                        what = ("%d operations" % len(ox[1]), "%d operations" % len(oy[1]))
                    else:
                        kk = [j for j, (p, q) in enumerate(zip(ox[1], oy[1])) if p[1:] != q[1:]]
                        if kk:
                            what = ("operation %d as tabulated" % kk[0], "other values (%d operation(s) differ)" % len(kk))
                        elif ox[0] != oy[0]:
                            what = ("list object of the table", "another list object with the same values")
                        else:
                            what = ("operation objects of the table", "other operation objects with the same values")
                else:
                    what = (str(ox[1])[:60], str(oy[1])[:60])
                res.append({"pos": pos, "number": num, "field": "symop_list", "old": what[0], "new": what[1]})
            if len(res) >= 20:
                break
        if a[-1] != b[-1]:
            kk = [j for j, (p, q) in enumerate(zip(a[-1], b[-1])) if p != q]
            res.append({"number": repr(lookups[kk[0]]), "field": "GetSpaceGroup", "old": "the setting listed first under this identifier",
                        "new": "another object / %s (%d identifier(s) differ)" % (b[-1][kk[0]] if isinstance(b[-1][kk[0]], str) else "object", len(kk))})
        return res

    def mirror():
        sys.path.insert(0, VERIF)
        from translate import tables

        bad = []
        for g in sgs.SpaceGroupList:
            try:
                ops = [tables.op_to_ints(o) for o in g.symop_list]
                if g.crystal_system not in tables.SYS:
                    raise ValueError("unknown crystal_system %r" % (g.crystal_system,))
                r = tables.mirror_checks(g, ops, tables.make_cert(ops))
                for comp, (ok_, why) in r.items():
                    if not ok_:
                        bad.append({"number": g.number, "component": comp, "why": why})
            except Exception as e:  # noqa: BLE001
                bad.append({"number": getattr(g, "number", "?"), "component": "untranslatable", "why": "%s: %s" % (type(e).__name__, e)})
        return bad

    counts = {"shared": 0, "copied": 0}
    outcomes = {}

    def note(k):
        outcomes[k] = outcomes.get(k, 0) + 1

    def the_group(c):
        pos = c.get("pos")
        if isinstance(pos, int) and 0 <= pos < len(table):
            return table[pos]
        return GetSpaceGroup(c["number"])

    def do_api(c):
        g = the_group(c)
        what = c["what"]
        if what == "GetSpaceGroup":
            for idn in c["ids"]:
                try:
                    r = GetSpaceGroup(idn)
                    note("GetSpaceGroup:" + ("same-object" if r is g else "other-setting"))
                except ValueError:
                    note("GetSpaceGroup:ValueError")
        elif what == "FindSpaceGroup":
            for order in c["orders"]:
                if order == "same":
                    mine = list(g.symop_list)
                elif order == "rounded4":
                    mine = [SymOp(numpy.array(o.R, dtype=float), numpy.round(numpy.array(o.t, dtype=float), 4)) for o in g.symop_list]
                else:
                    mine = [SymOp(numpy.array(o.R, dtype=float), numpy.array(o.t, dtype=float)) for o in g.symop_list]
                    mine = mine[:1] + mine[:0:-1]
                try:
                    r = FindSpaceGroup(mine, shuffle=order.endswith("shuffle"))
                    note("FindSpaceGroup:%s:%s" % (order, "tabulated-object" if any(r is t_ for t_ in table) else "copy"))
                    if not any(r is t_ for t_ in table):
                        # the caller owns the copy it was given: it may rename it and give it other operations
                        r.short_name = "mine"
                        r.crystal_system = "MINE"
                        r.number = -1
                        r.symop_list = mine[:1]
                except ValueError:
                    note("FindSpaceGroup:%s:ValueError" % order)
                # the caller owns its list
                mine.reverse()
                del mine[1:]
        elif what == "iterate":
            v = numpy.array(c["vec"], dtype=float)
            n = 0
            for o in g.iter_symops():
                str(o)
                o.is_identity()
                o == o      # noqa: B015
                n += len(o(v))
            list(g.iter_equivalent_positions(v))
            repr(g)
            for nm in (g.short_name, g.pdb_name, g.number, "nonsense", g.point_group_name):
                g.check_group_name(nm)
            note("iterate")
        elif what == "isSpaceGroupLatPar":
            for cell in c["cells"]:
                note("isSpaceGroupLatPar:%s" % isSpaceGroupLatPar(g, *cell))
        elif what == "copies":
            for how in c["how"]:
                if how == "copy":
                    r = copy.copy(g)
                elif how == "deepcopy":
                    r = copy.deepcopy(g)
                else:
                    r = pickle.loads(pickle.dumps(g, int(how[6:])))
                # the copy belongs to the caller (attributes only; a shallow copy shares the operation list object)
                r.short_name = "mine"
                r.crystal_system = "MINE"
                r.pdb_name = "m i n e"
                r.number = -1
                r.num_sym_equiv = 0
                r.symop_list = list(r.symop_list)[:1]
                if how != "copy":
                    r.symop_list[0].t[:] = 0.5
                note("copies:" + how)
        elif what == "expand":
            for xyz in c["xyz"]:
                v = numpy.array(xyz, dtype=float)
                pos, pops, mult = expandPosition(g, v)
                pos[0][:] = 9.0              # results belong to the caller
                pops[0].reverse()
                gs = GeneratorSite(g, v)
                gs.positionFormula(gs.xyz)
                gs.UFormula(gs.xyz)
                eau = ExpandAsymmetricUnit(g, [v, v * 0.5], [numpy.identity(3) * 0.01, numpy.identity(3) * 0.02])
                eau.expandedpos[0][0][:] = 9.0
                note("expand")
        elif what == "constraints":
            pts = numpy.array(c["xyz"], dtype=float)
            sc_ = SymmetryConstraints(g, pts, [numpy.identity(3) * 0.01] * len(pts))
            sc_.posparSymbols()
            sc_.posparValues()
            sc_.positionFormulas()
            sc_.positionFormulasPruned()
            sc_.UparSymbols()
            sc_.UFormulas()
            sc_.UFormulasPruned()
            note("constraints")
        else:
            raise ValueError("unknown api call %r" % (what,))

    def do_cif(c):
        text = c["text"]
        via = c["via"]
        p = None
        if via == "P_cif":
            p = getParser("cif")
            s = p.parse(text)
        elif via == "readStr":
            s = Structure()
            p = s.readStr(text, "cif")
        elif via == "auto":
            s = Structure()
            p = s.readStr(text)
        elif via == "pdffit":
            s = PDFFitStructure()
            p = s.readStr(text, "cif")
        else:
            with open("survive.cif", "w") as f:
                f.write(text)
            if via == "file":
                s = loadStructure("survive.cif")
                p = None
            else:
                s = PDFFitStructure()
                p = s.read("survive.cif", "cif")
        sg = getattr(p, "spacegroup", None)
        if p is not None:
            if any(sg is t_ for t_ in table):
                counts["shared"] += 1
            else:
                counts["copied"] += 1
        for t_ in c.get("then") or []:
            if sg is None and t_ not in ("pickle-stru", "copy-stru", "write-cif"):
                sg = the_group(c)
            if t_ == "latpar":
                isSpaceGroupLatPar(sg, *s.lattice.abcABG())
            elif t_ == "pickle-stru":
                for proto in (0, 2, pickle.HIGHEST_PROTOCOL):
                    s2 = pickle.loads(pickle.dumps(s, proto))
                    s2[0].xyz[:] = 0.0
            elif t_ == "copy-stru":
                s3 = copy.copy(s)
                s4 = copy.deepcopy(s)
                s3.title = "mine"
                s4[0].xyz[:] = 0.0
            elif t_ == "write-cif":
                s.writeStr("cif")
            elif t_ == "copy-sg-edit":
                r = copy.copy(sg)
                r.crystal_system = "MINE"
                r.short_name = "mine"
                r.symop_list = list(r.symop_list)[:1]
            elif t_ == "pickle-sg":
                r = pickle.loads(pickle.dumps(sg))
                r.crystal_system = "MINE"
                r.symop_list[0].t[:] = 0.25
            elif t_ == "expand":
                expandPosition(sg, numpy.array([0.1031, 0.2172, 0.3393]))
                GeneratorSite(sg, numpy.array([0.0, 0.0, 0.0]))
            elif t_ == "constraints":
                SymmetryConstraints(sg, numpy.array([a.xyz for a in s[:3]]))
            elif t_ == "reparse" and p is not None:
                p.parse(text)
                p.parse(text.replace("data_survive", "data_again"))
        note("cif:%s:%s" % (c["way"], "ok"))

    start = state()
    canon_start = list(tables_canon(sgs))
    mirror_start = mirror() if job.get("mirror_before") else None
    prev = start
    changes = []
    nsnap = 1
    for i, c in enumerate(job["calls"]):
        outcome = "ok"
        try:
            if c["op"] == "cif":
                do_cif(c)
            else:
                do_api(c)
        except Exception as e:  # noqa: BLE001  (judged by the state only; the other properties judge the results)
            outcome = "%s: %s" % (type(e).__name__, str(e)[:120])
            note("%s:%s" % (c.get("what") or "cif:" + c.get("way", "?"), type(e).__name__))
        cur = state()
        nsnap += 1
        if cur != prev:
            if len(changes) < 200:
                changes.append({"call": i, "diff": diff(prev, cur), "outcome": outcome})
            prev = cur
    canon_end = list(tables_canon(sgs))
    mirror_end = mirror()
    return {"canon_start": canon_start, "canon_end": canon_end, "changes": changes, "mirror_start": mirror_start, "mirror_end": mirror_end,
            "shared": counts["shared"], "copied": counts["copied"], "outcomes": dict(sorted(outcomes.items())), "snapshots": nsnap,
            "seconds": round(time.time() - t0, 2)}


def replay_survive(r):
    res = survive_run(r.get("calls") or [], mirror_before=True)
    for chg in res["changes"]:
        print("after call %d (%s): %s" % (chg["call"] + 1, call_text((r.get("calls") or [])[chg["call"]]), chg["diff"][:3]))
    new_bad = [m for m in res["mirror_end"] if m not in (res["mirror_start"] or [])]
    print("tables serialised before / after the history: %s / %s" % (res["canon_start"][0][:16], res["canon_end"][0][:16]))
    print("metadata clauses that fail after the history and held before it:", new_bad[:5])
    return 1 if (res["changes"] or res["canon_start"] != res["canon_end"] or new_bad) else 0



def run(ck):
    holder = {}
    try:
        _run(ck, holder)
    finally:
        if holder.get("survive") is not None:
            survive_cleanup(holder["survive"])


def _run(ck, holder):
    sys.path.insert(0, VERIF)
    from translate import tables

    rep = tables.main(GEN, os.path.join(GEN, "tables_report.json"))
    import diffpy.structure.spacegroups as sgs
    from diffpy.structure.symmetryutilities import isSpaceGroupLatPar

    # the state of the tables the translator has just read (= what the kernel obligations below are about), and the worker
    # that uses the library in a fresh interpreter meanwhile (section 7; collected at the end)
    import_canon = tables_canon(sgs)
    holder["survive"] = survive_start(ck, sgs)

    bypos = {i: g for i, g in enumerate(sgs.SpaceGroupList)}
    nset = len(sgs.SpaceGroupList)
    ck.coverage["rule"] = (
        "translator regenerates all %d settings; one kernel obligation (checkSG = group certificate + counts + centring "
        "letter + crystal class) per setting; independent exact all-pairs oracle in Python on every setting; "
        "lattice-rule oracle on the group-averaged metric and on %d generic cells of other systems; "
        "one kernel obligation (checkScrew = screw order of every operation by witness + separating functionals, census of "
        "(det, trace, screw order) per coset against the committed reference of number %% 1000) per setting; the same census "
        "recomputed by an independent Python oracle on every setting; "
        "every setting certified affinely equivalent (det P > 0) to the frozen reference setting of number %% 1000 by an exactly "
        "verified (P, p, index maps) certificate (harness/c03_equiv.py); "
        "tables survive use: a history of public API calls on the shared tabulated objects (look-ups, CIF documents resolving to them while "
        "declaring disagreeing cell setting / crystal system / Hall / number items, symmetry utilities, copies and pickles edited by the caller) in a "
        "fresh interpreter, state of all settings compared after every call and with the translator's serialisation at the end; "
        "distinct_nontrivial = settings with more than one operation" % (nset, len(SHAPES)))
    # 1. Lean obligations (group/metadata certificates, and the lattice-rule certificates of C03b)
    from translate import latpar

    lrep = latpar.main(GEN, os.path.join(GEN, "latpar_report.json"))
    ok, info = ck.lean_obligations("DS.Props.C03", extra_count=rep["ok"] + sum(4 for _ in rep["bad"]))
    ok_b, info_b = ck.lean_obligations("DS.Props.C03b", extra_count=lrep.get("obligations", 0))
    # space-group TYPE certificates (screw order of every operation + census against the committed reference)
    from translate import screw

    srep = screw.main(GEN, os.path.join(GEN, "screw_report.json"))
    if not srep.get("reference_in_sync"):
        raise common.Broken("lean/DS/Ref/ItCensus.lean is not what translate/screw.py --write-reference derives from "
                            "harness/c03_itcensus.json (reference data edited on one side only)")
    ok_c, info_c = ck.lean_obligations("DS.Props.C03c", extra_count=srep.get("obligations", 0))
    # space-group TYPE by equivalence certificates against the frozen reference settings (kernel side of harness/c03_equiv.py)
    from translate import equiv

    erep = equiv.main(GEN, os.path.join(GEN, "equiv_report.json"))
    if not erep.get("reference_in_sync"):
        raise common.Broken("lean/DS/Ref/ItRef*.lean is not what translate/equiv.py --write-reference derives from "
                            "harness/c03_equiv.json (reference data edited on one side only)")
    ok_d, info_d = ck.lean_obligations("DS.Props.C03d", extra_count=erep.get("obligations", 0))
    healthy = not lrep.get("uncertified") and not lrep.get("rule_errors") and not lrep.get("rule_differs_from_model")
    if healthy:
        ok_f, info_f = ck.lean_obligations("DS.Props.C03bFull")
    else:
        ok_f, info_f = True, {"failed_modules": []}
    lat_flagged = {}
    for u in lrep.get("uncertified", []):
        lat_flagged[u["number"]] = u
    # 2. independent oracle on every setting (always, also when everything agrees)
    oracle_fail = {}
    census_fail = {}
    cref = census_reference()
    notgroup = set()
    for pos, sg in bypos.items():
        r = group_oracle(sg)
        if r:
            notgroup.add(pos)
        r = r or counts_oracle(sg)
        ck.coverage["evaluations"] += 1
        # the space-group type implied by the operations vs the International Tables number (number % 1000)
        try:
            cr = census_oracle(sg, cref)
        except Exception as e:  # operations that are not even integer matrices / 24ths: the group oracle reports them
            cr = None if r else {"what": "type census raised %r" % (e,)}
        if cr:
            census_fail[pos] = cr
        if len(sg.symop_list) > 1:
            ck.coverage["distinct_nontrivial"] += 1
        if r:
            oracle_fail[pos] = r
    # space-group TYPE by explicit equivalence certificates against the frozen reference setting of number % 1000
    # (harness/c03_equiv.py; results are merged into the `ittype:` verdicts below)
    from . import c03_equiv

    eqres = c03_equiv.run_equiv(ck, sgs.SpaceGroupList, skip_pos=notgroup, deep=(ck.tier == "thorough"))
    eq_fail = eqres["failed"]
    eq_failed_pos = set(eq_fail)
    ck.coverage["itequiv"] = {"certified": eqres["certified"], "uncertified": len(eqres["uncertified"]),
                              "uncertified_settings": eqres["uncertified"], "failed": len(eq_fail), "skipped": eqres["skipped"],
                              "by_crystal_system": eqres["by_system"], "certificate_sources": eqres["sources"],
                              "edited_references_still_equivalent": eqres["edited_references"]}
    for e_ in eqres["edited_references"]:
        ck.notes.append("reference setting #%s differs from the frozen operation list but is equivalent to it: %s" % (
            e_["number"], c03_equiv.cert_text(e_["certificate"])))
    # translator findings -> verdicts
    for b in rep["bad"]:
        sg = bypos[b["pos"]]
        o = oracle_fail.pop(b["pos"], None)
        for comp, why in b["failed"].items():
            key = "%s:%s" % (comp, b["number"])
            ck.fail(key, "setting %s (#%s): %s" % (sg.short_name, b["number"], why),
                    {"kind": "table-obligation", "setting": b["number"], "component": comp, "detail": why, "oracle": o,
                     "theorem": "DS.Gen.%s_%s (kernel-proved = false)" % (b["name"], comp)})
    # type census: a setting without a kernel-accepted type certificate (translator mirror) and/or rejected by the oracle
    for b in srep["bad"]:
        sg = bypos[b["pos"]]
        o = census_fail.pop(b["pos"], None)
        thm = ("DS.Gen.%s_type_ops (= true) / DS.Gen.%s_type_census (kernel-proved = false)" % (b["name"], b["name"])
               if b.get("stage") == "census" else "DS.Gen.%s_type (no certificate: %s)" % (b["name"], b["why"]))
        if o is None and not oracle_fail.get(b["pos"]):
            # the certificate search and the oracle disagree: broken obligation without a confirmed input
            ck.fail("ittype-cert:%s" % b["number"], "setting %s (#%s): no type certificate (%s) but the census oracle accepts it" % (
                sg.short_name, b["number"], b["why"]),
                {"kind": "proof-obligation", "setting": b["number"], "stream": "ittype", "theorem": thm, "detail": b}, no_failing_input=True)
            continue
        ck.fail("ittype:%s" % b["number"], "setting %s (#%s): %s" % (sg.short_name, b["number"], (o or {}).get("what") or b["why"]),
                {"kind": "table-obligation", "setting": b["number"], "stream": "ittype", "theorem": thm,
                 "detail": o or {"what": b["why"]}, "certificate": {k: b.get(k) for k in ("stage", "census", "expected")},
                 "equivalence": eq_fail.pop(b["pos"], None)})
    for pos, cr in census_fail.items():
        sg = bypos[pos]
        ck.fail("ittype:%s" % sg.number, "setting %s (#%s): %s" % (sg.short_name, sg.number, cr["what"]),
                {"kind": "oracle", "setting": sg.number, "stream": "ittype", "detail": cr, "equivalence": eq_fail.pop(pos, None)})
    # settings the census cannot tell from their declared type but that no change of axes / origin maps onto its reference
    for pos, er in sorted(eq_fail.items()):
        sg = bypos[pos]
        ck.fail("ittype:%s" % sg.number, "setting %s (#%s): %s" % (sg.short_name, sg.number, er["what"]),
                {"kind": "oracle", "setting": sg.number, "stream": "itequiv", "detail": er,
                 "theorem": "no DS.Gen.sg%s_equiv (DS.Props.C03d)%s" % (sg.number, (
                     "; DS.Gen.sg%s_is_type_%s (kernel-checked)" % (sg.number, er["is_setting_of"]) if er.get("is_setting_of") else ""))})
    ebad = {b["pos"] for b in erep["bad"]}
    unc_pos = {p_ for p_, sg_ in bypos.items() if sg_.number in {u["number"] for u in eqres["uncertified"]}}
    if ebad - notgroup != (eq_failed_pos | unc_pos) - notgroup and not ck.violations:
        ck.fail("itequiv-cert", "translate/equiv.py and harness/c03_equiv.py disagree about the settings without a certificate: %r vs %r" % (
            sorted(ebad), sorted(eq_failed_pos | unc_pos)), {"kind": "proof-obligation", "stream": "itequiv", "theorem": "DS.Gen.allE_ok"},
            no_failing_input=True)
    for u in rep["untranslatable"]:
        o = oracle_fail.pop(u["pos"], None)
        ck.fail("untranslatable:%s" % u["number"], "setting #%s: %s" % (u["number"], u["why"]),
                {"kind": "translator", "setting": u["number"], "detail": u["why"], "oracle": o}, no_failing_input=o is None)
    for pos, o in oracle_fail.items():
        sg = bypos[pos]
        ck.fail("oracle:%s" % sg.number, "setting #%s: %s %s" % (sg.number, o["what"], o.get("ops", "")),
                {"kind": "oracle", "setting": sg.number, "detail": o})
    for d in rep["ast"]:
        ck.fail("ast:" + d.split(":")[0].split(".")[0].split(" ")[0], "table literal and runtime object differ: " + d,
                {"kind": "translator-crosscheck", "detail": d}, no_failing_input=True)
    if not ok and not ck.violations:
        ck.fail("lean-build", "Lean obligations of C03 no longer check: %s" % (info["failed_modules"],),
                {"kind": "proof-obligation", "theorem": info["failed_modules"], "errors": info["errors"], "log": info.get("log_tail", "")},
                no_failing_input=True)
    if not ok_c and not ck.violations:
        ck.fail("lean-build-c03c", "Lean obligations of C03c (space-group type census) no longer check: %s" % (info_c["failed_modules"],),
                {"kind": "proof-obligation", "theorem": info_c["failed_modules"], "errors": info_c["errors"], "log": info_c.get("log_tail", "")},
                no_failing_input=True)
    if not ok_d and not ck.violations:
        ck.fail("lean-build-c03d", "Lean obligations of C03d (space-group type by equivalence certificates) no longer check: %s" % (
            info_d["failed_modules"],),
            {"kind": "proof-obligation", "theorem": info_d["failed_modules"], "errors": info_d["errors"], "log": info_d.get("log_tail", "")},
            no_failing_input=True)
    # 3. distinct numbers / uniqueness of registered numbers
    nums = [g.number for g in sgs.SpaceGroupList]
    if len(set(nums)) != len(nums):
        dup = sorted({n for n in nums if nums.count(n) > 1})
        ck.fail("dupnumber:%s" % dup[0], "settings share the number(s) %r" % dup, {"kind": "oracle", "numbers": dup})
    # 4. lattice-parameter clause (implementation-side exact oracle)
    nlat = 0
    for pos, sg in bypos.items():
        try:
            fails = latpar_oracle(sg, isSpaceGroupLatPar)
        except Exception as e:  # an exception is a failure of the clause as well
            fails = [{"what": "isSpaceGroupLatPar raised %r" % e, "cell": None}]
        nlat += 1 + 2 * len(SHAPES) + len(EXTRA_SHAPES)
        for f in fails:
            LATSEEN.add("latpar:%s" % sg.number)
            ck.fail("latpar:%s" % sg.number, "isSpaceGroupLatPar(%s #%s) %s: %r" % (sg.short_name, sg.number, f["what"], f["cell"]),
                    {"kind": "oracle", "setting": sg.number, "cell": f["cell"], "detail": f["what"]})
    ck.coverage["evaluations"] += nlat
    # lattice-rule certificates that could not be found: the oracle above should have produced the failing cell;
    # if it did not, try the cell the translator proposes, else report the broken obligation without an input
    for num, u in lat_flagged.items():
        sgm = [g for g in sgs.SpaceGroupList if g.number == num]
        cell = u.get("invariant_cell_to_try")
        hit = False
        if sgm and cell:
            try:
                if not isSpaceGroupLatPar(sgm[0], *cell):
                    hit = True
                    ck.fail("latpar:%s" % num, "isSpaceGroupLatPar(%s #%s) rejects the invariant cell %r (%s)" % (sgm[0].short_name, num, cell, u.get("reason")),
                            {"kind": "oracle", "setting": num, "cell": cell, "detail": u.get("reason")})
            except Exception as e:
                hit = True
                ck.fail("latpar:%s" % num, "isSpaceGroupLatPar(#%s) raised %r on %r" % (num, e, cell), {"kind": "oracle", "setting": num, "cell": cell})
        if not hit and ("latpar:%s" % num) not in LATSEEN:
            ck.fail("latpar-cert:%s" % num, "no lattice-rule certificate for setting #%s: %s" % (num, u.get("reason")),
                    {"kind": "proof-obligation", "setting": num, "theorem": "DS.Gen.sg%s_lat / DS.Props.C03b.latpar_complete" % num, "detail": u}, no_failing_input=True)
    for key in ("rule_errors", "rule_differs_from_model", "accepts_lower"):
        for item in (lrep.get(key) or []):
            if key == "accepts_lower" and any(k.startswith("latpar:") for k in LATSEEN):
                continue
            ck.fail("latpar-rule:%s:%s" % (key, str(item)[:40]), "isSpaceGroupLatPar source rule: %s: %r" % (key, item),
                    {"kind": "translator", "detail": {key: item}, "theorem": "DS.Props.C03bFull.all_agree"}, no_failing_input=(key != "accepts_lower"))
    if (not ok_b or not ok_f) and not ck.violations:
        ck.fail("lean-build-c03b", "Lean obligations of C03b no longer check: %r %r" % (info_b.get("failed_modules"), info_f.get("failed_modules")),
                {"kind": "proof-obligation", "theorem": (info_b.get("failed_modules") or []) + (info_f.get("failed_modules") or []),
                 "errors": info_b.get("errors")}, no_failing_input=True)
    # 5. differential spot check of SymOp.__call__ against the model action (driver)
    import numpy

    lines, expect = [], []
    nspot = 300 if ck.tier == "quick" else 5000
    trans = {s["pos"]: s for s in rep["settings"]}
    poss = sorted(trans)
    for _ in range(nspot):
        pos = ck.rng.choice(poss)
        sg = bypos[pos]
        i = ck.rng.randrange(len(sg.symop_list))
        k = ck.rng.choice([1, 5, 7])
        D = 24 * k
        x = [ck.rng.randrange(-2 * D, 3 * D) for _ in range(3)]
        lines.append("sym.act %d %d %d %d %d %d" % (sg.number, i, k, x[0], x[1], x[2]))
        v = sg.symop_list[i](numpy.array(x, dtype=float) / D)
        expect.append([float(c) for c in v])
    out = common.driver(lines)
    nd = 0
    for ln, o, e in zip(lines, out, expect):
        try:
            got = [int(t) for t in o.split()]
            assert len(got) == 3
        except Exception:
            got = None
        k = int(ln.split()[3])
        D = 24 * k
        agree = got is not None and all(abs(((g / D) - c + 0.5) % 1.0 - 0.5) < 1e-9 for g, c in zip(got, e))
        ck.coverage["traces_validated_against_impl"] += 1
        if not agree:
            nd += 1
            ck.fail("symop-call:%s" % ln.split()[1], "SymOp.__call__ disagrees with the model action on %r: model %r impl %r" % (ln, o, e),
                    {"kind": "correspondence", "input": ln, "model": o, "impl": e})
    ck.coverage["evaluations"] += nspot
    # 6. the tables stay what they are while the library is used: look settings up by their own operation lists
    #    (same order, caller-owned list and operation objects with 4-decimal translations as CIF files carry them),
    #    mutate the caller's list afterwards, then compare every tabulated object with its state at the start
    from diffpy.structure.spacegroups import FindSpaceGroup, GetSpaceGroup, SymOp

    snap = [(id(g.symop_list), [id(o) for o in g.symop_list], [(o.R.tolist(), o.t.tolist()) for o in g.symop_list],
             (g.number, g.num_sym_equiv, g.num_primitive_sym_equiv, g.short_name, g.pdb_name, g.crystal_system)) for g in sgs.SpaceGroupList]
    used = []
    tbl_assert = None
    for pos in poss[:: max(1, len(poss) // 80)]:
        g = bypos[pos]
        mine = [SymOp(numpy.array(o.R, dtype=float), numpy.round(numpy.array(o.t, dtype=float), 4)) for o in g.symop_list]
        try:
            FindSpaceGroup(mine)
            FindSpaceGroup(list(g.symop_list))
            GetSpaceGroup(g.number)
        except ValueError:
            pass
        except AssertionError as e:
            # the library's own consistency assertion on its lookup table (e.g. two settings with identical operations)
            if tbl_assert is None:
                tbl_assert = (g.number, "FindSpaceGroup(operations of #%s) raised AssertionError %s" % (g.number, e))
        mine.reverse()
        del mine[1:]
        used.append(g.number)
    if tbl_assert is not None and not ck.violations:
        ck.fail("lookup-assert:%s" % tbl_assert[0], "the space-group tables are not consistent: " + tbl_assert[1],
                {"kind": "history", "setting": tbl_assert[0], "stream": "use", "history": "FindSpaceGroup(copy of the setting's operations)"})
    for g, (lid, oids, vals, meta) in zip(sgs.SpaceGroupList, snap):
        now = (g.number, g.num_sym_equiv, g.num_primitive_sym_equiv, g.short_name, g.pdb_name, g.crystal_system)
        same = id(g.symop_list) == lid and [id(o) for o in g.symop_list] == oids and \
            [(o.R.tolist(), o.t.tolist()) for o in g.symop_list] == vals and now == meta
        if not same:
            bad = group_oracle(g) or counts_oracle(g)
            ck.fail("table-modified-by-use:%s" % meta[0],
                    "the tabulated setting #%s is no longer what the table files define after it was looked up by its operations (%s)" % (
                        meta[0], (bad or {}).get("what", "operation list object replaced")),
                    {"kind": "history", "setting": meta[0], "stream": "use", "history": "FindSpaceGroup(caller-owned copy of the operations with 4-decimal translations); caller then edits its list",
                     "detail": bad})
            break
    ck.coverage["evaluations"] += len(used)
    # 7. the same question for the whole public API, in a fresh interpreter, with the state taken after every call
    survive_finish(ck, holder["survive"], import_canon, rep["bad"])
    if tables_canon(sgs) != import_canon:
        ck.fail("table-modified-by-use:check-process", "the tables in the checking process itself differ from their state at import after the "
                "oracles of this check have used them", {"kind": "history", "stream": "survive", "calls": []}, no_failing_input=True)
    ck.coverage["samples"] = [
        {"obligation": "theorem DS.Gen.sg225_ok : checkSG sg225 sg225c = true := by decide +kernel"},
        {"obligation": "theorem DS.Gen.sg76_type : checkScrew sg76 sg76_sc = true := by decide +kernel"},
        {"obligation": "theorem DS.Gen.sg2033_equiv : checkEquivSG sg2033 sg2033_eq = true := by decide +kernel",
         "certificate": c03_equiv.load_reference()["certificates"].get("2033")},
        {"driver": lines[0], "model": out[0], "impl": expect[0]},
        {"latpar": "sg #%s invariant cell %r" % (bypos[poss[-1]].number, cell_of_metric(invariant_metric(bypos[poss[-1]], G0)))},
    ]
    ck.coverage["exhaustive"] = True
    ck.coverage["trusted_base"] += ["translate/tables.py (float->24ths conversion, metadata reading; cross-checked against ast literals)",
                                    "class table / centring table in DS/Model/Sym.lean (reference data)",
                                    "lean/DS/Ref/ItCensus.lean = harness/c03_itcensus.json (reference census of the 230 types; committed, "
                                    "checked to be in sync)",
                                    "harness/c03_equiv.json: operation lists of the 230 standard settings frozen from the pinned tree "
                                    "(reference data; committed, never written at run time)"]
    ck.assumptions += ["that the tables stay what the kernel checked while the library is used is established by the exercised history only "
                       "(quick: 46 settings, every rhombohedral-lattice setting among them; thorough: all settings), not by a proof over the "
                       "library's code",
                       "lattice-compatibility clause is decided by the implementation-side exact oracle on the group-averaged metric "
                       "(Lean theorem latpar_complete not yet part of the obligations)",
                       "IT number is checked at the level of crystal class + centring + order + rotation/screw and mirror/glide census "
                       "per coset of the translation group (kernel-checked per setting, DS.Props.C03c), and by an explicit affine "
                       "equivalence (P, p), det P > 0, with the frozen standard setting of number % 1000 (harness/c03_equiv.json), "
                       "verified exactly for all operations in both directions; that the 230 frozen operation lists are the 230 "
                       "types of International Tables is reference data (mmLib standard settings, cross-checked by the census "
                       "and by the cctbx-generated alternative settings being equivalent to them)",
                       "a setting without a certificate is reported only when the finite candidate list (unimodular U with entries "
                       "<= 2 between primitive lattice bases) is exhausted; the report names the type the operations ARE a "
                       "setting of when a certificate against another reference of the crystal class exists"]
    if ck.tier == "thorough":
        thorough(ck)


def thorough(ck):
    """leanchecker re-check of the compiled obligations; consistency of the frozen reference settings."""
    from . import c03_equiv

    same = c03_equiv.references_pairwise_inequivalent()
    ck.notes.append("frozen reference settings: %d pairs of one crystal class found equivalent (expected 0)" % len(same))
    if same:
        raise common.Broken("harness/c03_equiv.json: reference settings of different numbers are equivalent: %r" % (same[:3],))
    for mod in ("DS.Props.C03", "DS.Props.C03c", "DS.Props.C03d"):
        with common.LeanLock():
            rc, out, err = common.run(["lake", "env", "leanchecker", mod], cwd=LEAN, timeout=7200)
        ck.notes.append("leanchecker %s: rc=%d %s" % (mod, rc, (out + err)[-300:]))
        if rc != 0:
            raise common.Broken("leanchecker rejected %s: " % mod + (out + err)[-1000:])


def replay(path):
    common.use_repo()
    r = json.load(open(path))
    if r.get("stream") == "survive":
        return replay_survive(r)
    import diffpy.structure.spacegroups as sgs
    from diffpy.structure.symmetryutilities import isSpaceGroupLatPar

    sg = [g for g in sgs.SpaceGroupList if g.number == r.get("setting")]
    if not sg:
        print("setting %r not present" % r.get("setting"))
        return 1
    sg = sg[0]
    if r.get("stream") == "use":
        import numpy
        from diffpy.structure.spacegroups import FindSpaceGroup, SymOp

        before = (id(sg.symop_list), [(o.R.tolist(), o.t.tolist()) for o in sg.symop_list])
        mine = [SymOp(numpy.array(o.R, dtype=float), numpy.round(numpy.array(o.t, dtype=float), 4)) for o in sg.symop_list]
        try:
            FindSpaceGroup(mine)
        except ValueError:
            pass
        except AssertionError as e:
            print("FindSpaceGroup raised AssertionError", e)
            return 1
        mine.reverse()
        del mine[1:]
        after = (id(sg.symop_list), [(o.R.tolist(), o.t.tolist()) for o in sg.symop_list])
        print("tabulated object unchanged by the lookup:", before == after)
        return 0 if before == after else 1
    if r.get("stream") == "itequiv":
        from . import c03_equiv

        return c03_equiv.replay_setting(sg)
    if r.get("stream") == "ittype":
        cr = census_oracle(sg, census_reference())
        print("type census:", cr["what"] if cr else "agrees with No. %d" % (sg.number % 1000))
        return 1 if cr else 0
    bad = group_oracle(sg) or counts_oracle(sg)
    lat = latpar_oracle(sg, isSpaceGroupLatPar)
    print("group/counts oracle:", bad)
    print("latpar oracle:", lat)
    sys.path.insert(0, VERIF)
    from translate import tables

    meta = None
    try:
        ops = [tables.op_to_ints(o) for o in sg.symop_list]
        res = tables.mirror_checks(sg, ops, tables.make_cert(ops))
        meta = {k: v[1] for k, v in res.items() if not v[0]}
    except ValueError as e:
        meta = {"untranslatable": str(e)}
    print("metadata / certificate checks:", meta)
    return 1 if (bad or lat or meta) else 0


if __name__ == "__main__":
    _job = json.load(open(sys.argv[1]))
    json.dump(_survive_worker(_job), sys.stdout)
    sys.exit(0)
