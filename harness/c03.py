"""C03 — every tabulated space-group setting is a group with consistent metadata.

Deciding method: translator (tables regenerated from the repository on every run) + Lean kernel
obligations (`decide +kernel` per setting on certificates) + `checkGroup_sound` (hand proof).
The Python side only (a) translates, (b) runs an independent exact oracle used for the
failing-input search and for the lattice-parameter clause, (c) spot-checks `SymOp.__call__`
against the model's action.

Space-group TYPE (DS.Props.C03c): translate/screw.py emits, per setting, a certificate of the screw order of every
operation (least m >= 1 with m*(N t) in N(L)); the kernel checks it (`checkScrew`, one obligation per setting) and compares the
census of (det, trace, m) per coset with the committed reference of `number % 1000` (lean/DS/Ref/ItCensus.lean);
`checkScrew_sound` is the hand proof.  `type_census` below is the independent Python oracle of the same invariant
(failing-input search, replay stream "ittype").

Space-group TYPE by explicit equivalence (DS.Props.C03d): harness/c03_equiv.py finds, for every setting, an orientation-preserving
affine change of coordinates (P, p) onto the FROZEN standard setting of `number % 1000` (harness/c03_equiv.json =
lean/DS/Ref/ItRef*.lean) and verifies it exactly for all operations in both directions; translate/equiv.py expands it into a
certificate with index maps that the kernel checks (`checkEquiv`, one obligation per setting); `checkEquiv_sound` is the hand
proof that an accepted certificate carries the one group onto the other.  A setting without a certificate is reported as
`ittype:<number>` (replay stream "itequiv": the search is repeated on the tree under test), naming the type it IS a setting of.
"""
import itertools
import json
import os
import sys
from fractions import Fraction

from . import common
from .common import LEAN, VERIF

GEN = os.path.join(LEAN, "DS", "Gen")
LATSEEN = set()


def F(x):
    return Fraction(float(x)).limit_denominator(10000)


def exact_ops(sg):
    ops = []
    for o in sg.symop_list:
        R = tuple(tuple(F(o.R[i][j]) for j in range(3)) for i in range(3))
        t = tuple(F(o.t[i]) for i in range(3))
        ops.append((R, t))
    return ops


def mul(a, b):
    Ra, ta = a
    Rb, tb = b
    R = tuple(tuple(sum(Ra[i][k] * Rb[k][j] for k in range(3)) for j in range(3)) for i in range(3))
    t = tuple((sum(Ra[i][k] * tb[k] for k in range(3)) + ta[i]) % 1 for i in range(3))
    return (R, t)


ID = (((1, 0, 0), (0, 1, 0), (0, 0, 1)), (0, 0, 0))


def det3(R):
    return (R[0][0] * (R[1][1] * R[2][2] - R[1][2] * R[2][1]) - R[0][1] * (R[1][0] * R[2][2] - R[1][2] * R[2][0])
            + R[0][2] * (R[1][0] * R[2][1] - R[1][1] * R[2][0]))


def group_oracle(sg):
    """Independent exact evaluation of the group clause on the runtime objects.

    Returns None when it holds, else a dict describing the first failing input."""
    ops = exact_ops(sg)
    norm = [(R, tuple(x % 1 for x in t)) for R, t in ops]
    if not ops or norm[0] != ID or ops[0][1] != (0, 0, 0):
        return {"what": "identity is not listed first"}
    s = {}
    for i, o in enumerate(norm):
        if o in s:
            return {"what": "operation listed twice", "ops": [s[o], i]}
        s[o] = i
    for i, (R, t) in enumerate(ops):
        if any(x.denominator != 1 for row in R for x in row) or det3(R) not in (1, -1):
            return {"what": "rotation part not integer with det +-1", "ops": [i]}
    for i, a in enumerate(norm):
        for j, b in enumerate(norm):
            if mul(a, b) not in s:
                return {"what": "composition leaves the table", "ops": [i, j]}
    for i, a in enumerate(norm):
        if not any(mul(a, b) == ID for b in norm):
            return {"what": "no inverse in the table", "ops": [i]}
    return None


def counts_oracle(sg):
    ops = exact_ops(sg)
    n = len(ops)
    nc = sum(1 for R, t in ops if R == ID[0])
    if n != sg.num_sym_equiv:
        return {"what": "len(symop_list)=%d, num_sym_equiv=%r" % (n, sg.num_sym_equiv)}
    if nc == 0 or n % nc or n // nc != sg.num_primitive_sym_equiv:
        return {"what": "num_primitive_sym_equiv=%r, expected %s (%d ops, %d centring translations)" % (
            sg.num_primitive_sym_equiv, n // nc if nc else "?", n, nc)}
    return None


# ---- lattice-parameter clause -----------------------------------------------------------

def invariant_metric(sg, G0):
    """Group average of the metric G0 (exact)."""
    rots = {R for R, t in exact_ops(sg)}
    acc = [[Fraction(0)] * 3 for _ in range(3)]
    for R in rots:
        for i in range(3):
            for j in range(3):
                acc[i][j] += sum(R[k][i] * G0[k][l] * R[l][j] for k in range(3) for l in range(3))
    n = len(rots)
    return [[acc[i][j] / n for j in range(3)] for i in range(3)]


def cell_of_metric(G):
    import math

    a, b, c = (math.sqrt(float(G[i][i])) for i in range(3))

    def ang(gij, gii, gjj):
        if gij == 0:
            return 90.0
        if gii == gjj and gij == -gii / 2:
            return 120.0
        if gii == gjj and gij == gii / 2:
            return 60.0
        return math.degrees(math.acos(float(gij) / math.sqrt(float(gii) * float(gjj))))

    return (a, b, c, ang(G[1][2], G[1][1], G[2][2]), ang(G[0][2], G[0][0], G[2][2]), ang(G[0][1], G[0][0], G[1][1]))


G0 = [[Fraction(25), Fraction(-3), Fraction(-5)], [Fraction(-3), Fraction(36), Fraction(-7)], [Fraction(-5), Fraction(-7), Fraction(49)]]

# generic cells by *shape* of each crystal system, (system, cell)
SHAPES = [
    ("TRICLINIC", (5.1, 6.2, 7.3, 81.0, 97.0, 103.0)),
    ("MONOCLINIC", (5.1, 6.2, 7.3, 90.0, 97.0, 90.0)),
    ("MONOCLINIC", (5.1, 6.2, 7.3, 90.0, 90.0, 103.0)),
    ("MONOCLINIC", (5.1, 6.2, 7.3, 81.0, 90.0, 90.0)),
    ("ORTHORHOMBIC", (5.1, 6.2, 7.3, 90.0, 90.0, 90.0)),
    ("TETRAGONAL", (5.1, 5.1, 7.3, 90.0, 90.0, 90.0)),
    ("TRIGONAL", (5.1, 5.1, 5.1, 81.0, 81.0, 81.0)),
    ("HEXAGONAL", (5.1, 5.1, 7.3, 90.0, 90.0, 120.0)),
    ("CUBIC", (5.1, 5.1, 5.1, 90.0, 90.0, 90.0)),
]
# cells of a lower system that miss the special shape of a higher one only in the 5th-6th significant digit
NEAR_SHAPES = [
    ("TRICLINIC", (5.1, 6.2, 7.3, 90.0004, 97.0, 90.0)),
    ("MONOCLINIC", (5.1, 6.2, 7.3, 90.0, 90.0005, 90.0)),
    ("MONOCLINIC", (5.1, 5.1, 7.3, 90.0, 90.0, 120.0008)),
    ("ORTHORHOMBIC", (5.1, 5.10003, 7.3, 90.0, 90.0, 90.0)),
    ("TRICLINIC", (5.1, 5.1, 5.1, 81.0, 81.0, 81.0005)),
    ("TETRAGONAL", (5.1, 5.1, 5.10004, 90.0, 90.0, 90.0)),
]
# S' strictly lower than S  (cells that only a lower system allows must be rejected by S)
LOWER = {
    "TRICLINIC": [],
    "MONOCLINIC": ["TRICLINIC"],
    "ORTHORHOMBIC": ["TRICLINIC", "MONOCLINIC"],
    "TETRAGONAL": ["TRICLINIC", "MONOCLINIC", "ORTHORHOMBIC"],
    "TRIGONAL": ["TRICLINIC", "MONOCLINIC", "ORTHORHOMBIC"],
    "HEXAGONAL": ["TRICLINIC", "MONOCLINIC", "ORTHORHOMBIC"],
    "CUBIC": ["TRICLINIC", "MONOCLINIC", "ORTHORHOMBIC", "TETRAGONAL", "TRIGONAL"],
}


def latpar_oracle(sg, isSpaceGroupLatPar):
    """Returns list of failing inputs for the lattice-compatibility clause."""
    out = []
    cell = cell_of_metric(invariant_metric(sg, G0))
    if not isSpaceGroupLatPar(sg, *cell):
        out.append({"what": "rejects a cell its own operations leave invariant", "cell": cell})
    for shape_sys, c in SHAPES + NEAR_SHAPES:
        if shape_sys in LOWER.get(sg.crystal_system, []):
            if isSpaceGroupLatPar(sg, *c):
                out.append({"what": "accepts a cell of the lower system %s" % shape_sys, "cell": c})
    # every cell the operations leave invariant must be accepted, also the more symmetric ones
    # (a monoclinic setting with an orthorhombic or cubic metric, a tetragonal one with a cubic metric, ...)
    rots = {R for R, t in exact_ops(sg)}
    for shape_sys, c in SHAPES + EXTRA_SHAPES:
        G = metric_of_cell(c)
        if all(max(abs(sum(R[k][i] * G[k][l] * R[l][j] for k in range(3) for l in range(3)) - G[i][j])
                   for i in range(3) for j in range(3)) < 1e-9 for R in rots):
            if not isSpaceGroupLatPar(sg, *c):
                out.append({"what": "rejects the %s-shaped cell that its operations leave invariant" % shape_sys.lower(), "cell": c})
    return out


EXTRA_SHAPES = [("TETRAGONAL", (5.1, 7.3, 5.1, 90.0, 90.0, 90.0)), ("TETRAGONAL", (7.3, 5.1, 5.1, 90.0, 90.0, 90.0)),
                ("HEXAGONAL", (5.1, 5.1, 5.1, 90.0, 90.0, 120.0)), ("TRIGONAL", (5.1, 5.1, 5.1, 60.0, 60.0, 60.0))]


def metric_of_cell(c):
    import math

    a, b, cc, al, be, ga = c

    def cs(x):
        return {90.0: 0.0, 120.0: -0.5, 60.0: 0.5}.get(x, math.cos(math.radians(x)))

    return [[a * a, a * b * cs(ga), a * cc * cs(be)], [a * b * cs(ga), b * b, b * cc * cs(al)], [a * cc * cs(be), b * cc * cs(al), cc * cc]]


# ---- the check --------------------------------------------------------------------------

# ---- space-group type beyond class / centring / order: rotation vs screw, mirror vs glide ----------------------

_I3 = [[1, 0, 0], [0, 1, 0], [0, 0, 1]]


def _mm(A, B):
    return [[sum(A[i][k] * B[k][j] for k in range(3)) for j in range(3)] for i in range(3)]


def _mv(A, v):
    return [sum(A[i][k] * v[k] for k in range(3)) for i in range(3)]


def _echelon(gens):
    """echelon basis over Z of the lattice generated by integer 3-vectors"""
    rows = [list(g) for g in gens if any(g)]
    basis = []
    for col in range(3):
        cand = [r for r in rows if r[col] != 0]
        rest = [r for r in rows if r[col] == 0]
        while len(cand) > 1:
            cand.sort(key=lambda r: abs(r[col]))
            p = cand[0]
            new = [p]
            for r in cand[1:]:
                q = r[col] // p[col]
                r2 = [r[i] - q * p[i] for i in range(3)]
                if r2[col] != 0:
                    new.append(r2)
                elif any(r2):
                    rest.append(r2)
            cand = new
        if cand:
            basis.append((col, cand[0]))
        rows = rest
    return basis


def _member(basis, v):
    v = list(v)
    for col, b in basis:
        if v[col] % b[col] != 0:
            return False
        q = v[col] // b[col]
        v = [v[i] - q * b[i] for i in range(3)]
    return not any(v)


def type_census(sg):
    """Invariant of the space-group TYPE (unchanged by any change of axes or origin): for every coset g.T of the translation
    subgroup T (integer translations and the centring translations listed in the table) the kind of its rotation part
    (det, trace) and the smallest m >= 1 such that some element of the coset has (element)^(m*n) = identity-up-to... precisely:
    with n the order of R, N = 1 + R + ... + R^(n-1), s = N t (so g^n is the translation s), m is the least positive integer
    with m*s in N(L), L the translation lattice; m = 1 iff the coset contains an element of finite order (a pure rotation,
    reflection or roto-inversion), m = 2 for 2_1 screws and ordinary glides, 4 for 4_1/4_3 and d glides, ...
    Returns {"det,trace,m": number of cosets}."""
    ops = []
    for op in sg.iter_symops():
        R = [[int(round(float(x))) for x in row] for row in op.R]
        t = [int(round(float(x) * 24)) for x in op.t]
        ops.append((R, t))
    cent = [t for R, t in ops if R == _I3]
    L = [[24, 0, 0], [0, 24, 0], [0, 0, 24]] + cent
    c = {}
    for R, t in ops:
        P, n = R, 1
        while P != _I3:
            P = _mm(P, R)
            n += 1
            if n > 6:
                return {"not-a-finite-order-rotation": 1}
        N = [[0] * 3 for _ in range(3)]
        P = _I3
        for _ in range(n):
            N = [[N[a][b] + P[a][b] for b in range(3)] for a in range(3)]
            P = _mm(P, R)
        s_ = _mv(N, t)
        basis = _echelon([_mv(N, l) for l in L])
        m = next((k for k in (1, 2, 3, 4, 6, 8, 12, 24) if _member(basis, [k * x for x in s_])), None)
        key = "%d,%d,%s" % (det3(R), R[0][0] + R[1][1] + R[2][2], m)
        c[key] = c.get(key, 0) + 1
    nc = max(1, len(cent))
    if any(v % nc for v in c.values()):
        return {"cosets-not-uniform": 1}
    return dict(sorted((k, v // nc) for k, v in c.items()))


def census_reference():
    """harness/c03_itcensus.json: the census of each of the 230 space-group types, keyed by International Tables number
    (reference data: computed once from the standard settings and confirmed by every alternative setting of the same number
    - 514 settings from two independent sources, mmLib and cctbx - giving the same census; see DESIGN 9.8)"""
    return json.load(open(os.path.join(os.path.dirname(os.path.abspath(__file__)), "c03_itcensus.json")))


def census_oracle(sg, ref):
    got = type_census(sg)
    want = ref.get(str(sg.number % 1000))
    if want is None or got == want:
        return None
    return {"what": "the operations are those of another space-group type than No. %d: rotation/screw and mirror/glide census per coset "
                    "{det,trace,m: count} is %r, No. %d has %r" % (sg.number % 1000, got, sg.number % 1000, want), "census": got, "expected": want}


def run(ck):
    sys.path.insert(0, VERIF)
    from translate import tables

    rep = tables.main(GEN, os.path.join(GEN, "tables_report.json"))
    import diffpy.structure.spacegroups as sgs
    from diffpy.structure.symmetryutilities import isSpaceGroupLatPar

    bypos = {i: g for i, g in enumerate(sgs.SpaceGroupList)}
    nset = len(sgs.SpaceGroupList)
    ck.coverage["rule"] = (
        "translator regenerates all %d settings; one kernel obligation (checkSG = group certificate + counts + centring "
        "letter + crystal class) per setting; independent exact all-pairs oracle in Python on every setting; "
        "lattice-rule oracle on the group-averaged metric and on %d generic cells of other systems; "
        "one kernel obligation (checkScrew = screw order of every operation by witness + separating functionals, census of "
        "(det, trace, screw order) per coset against the committed reference of number %% 1000) per setting; the same census "
        "recomputed by an independent Python oracle on every setting; "
        "every setting certified affinely equivalent (det P > 0) to the frozen reference setting of number %% 1000 by an exactly "
        "verified (P, p, index maps) certificate (harness/c03_equiv.py); "
        "distinct_nontrivial = settings with more than one operation" % (nset, len(SHAPES)))
    # 1. Lean obligations (group/metadata certificates, and the lattice-rule certificates of C03b)
    from translate import latpar

    lrep = latpar.main(GEN, os.path.join(GEN, "latpar_report.json"))
    ok, info = ck.lean_obligations("DS.Props.C03", extra_count=rep["ok"] + sum(4 for _ in rep["bad"]))
    ok_b, info_b = ck.lean_obligations("DS.Props.C03b", extra_count=lrep.get("obligations", 0))
    # space-group TYPE certificates (screw order of every operation + census against the committed reference)
    from translate import screw

    srep = screw.main(GEN, os.path.join(GEN, "screw_report.json"))
    if not srep.get("reference_in_sync"):
        raise common.Broken("lean/DS/Ref/ItCensus.lean is not what translate/screw.py --write-reference derives from "
                            "harness/c03_itcensus.json (reference data edited on one side only)")
    ok_c, info_c = ck.lean_obligations("DS.Props.C03c", extra_count=srep.get("obligations", 0))
    # space-group TYPE by equivalence certificates against the frozen reference settings (kernel side of harness/c03_equiv.py)
    from translate import equiv

    erep = equiv.main(GEN, os.path.join(GEN, "equiv_report.json"))
    if not erep.get("reference_in_sync"):
        raise common.Broken("lean/DS/Ref/ItRef*.lean is not what translate/equiv.py --write-reference derives from "
                            "harness/c03_equiv.json (reference data edited on one side only)")
    ok_d, info_d = ck.lean_obligations("DS.Props.C03d", extra_count=erep.get("obligations", 0))
    healthy = not lrep.get("uncertified") and not lrep.get("rule_errors") and not lrep.get("rule_differs_from_model")
    if healthy:
        ok_f, info_f = ck.lean_obligations("DS.Props.C03bFull")
    else:
        ok_f, info_f = True, {"failed_modules": []}
    lat_flagged = {}
    for u in lrep.get("uncertified", []):
        lat_flagged[u["number"]] = u
    # 2. independent oracle on every setting (always, also when everything agrees)
    oracle_fail = {}
    census_fail = {}
    cref = census_reference()
    notgroup = set()
    for pos, sg in bypos.items():
        r = group_oracle(sg)
        if r:
            notgroup.add(pos)
        r = r or counts_oracle(sg)
        ck.coverage["evaluations"] += 1
        # the space-group type implied by the operations vs the International Tables number (number % 1000)
        try:
            cr = census_oracle(sg, cref)
        except Exception as e:  # operations that are not even integer matrices / 24ths: the group oracle reports them
            cr = None if r else {"what": "type census raised %r" % (e,)}
        if cr:
            census_fail[pos] = cr
        if len(sg.symop_list) > 1:
            ck.coverage["distinct_nontrivial"] += 1
        if r:
            oracle_fail[pos] = r
    # space-group TYPE by explicit equivalence certificates against the frozen reference setting of number % 1000
    # (harness/c03_equiv.py; results are merged into the `ittype:` verdicts below)
    from . import c03_equiv

    eqres = c03_equiv.run_equiv(ck, sgs.SpaceGroupList, skip_pos=notgroup, deep=(ck.tier == "thorough"))
    eq_fail = eqres["failed"]
    eq_failed_pos = set(eq_fail)
    ck.coverage["itequiv"] = {"certified": eqres["certified"], "uncertified": len(eqres["uncertified"]),
                              "uncertified_settings": eqres["uncertified"], "failed": len(eq_fail), "skipped": eqres["skipped"],
                              "by_crystal_system": eqres["by_system"], "certificate_sources": eqres["sources"],
                              "edited_references_still_equivalent": eqres["edited_references"]}
    for e_ in eqres["edited_references"]:
        ck.notes.append("reference setting #%s differs from the frozen operation list but is equivalent to it: %s" % (
            e_["number"], c03_equiv.cert_text(e_["certificate"])))
    # translator findings -> verdicts
    for b in rep["bad"]:
        sg = bypos[b["pos"]]
        o = oracle_fail.pop(b["pos"], None)
        for comp, why in b["failed"].items():
            key = "%s:%s" % (comp, b["number"])
            ck.fail(key, "setting %s (#%s): %s" % (sg.short_name, b["number"], why),
                    {"kind": "table-obligation", "setting": b["number"], "component": comp, "detail": why, "oracle": o,
                     "theorem": "DS.Gen.%s_%s (kernel-proved = false)" % (b["name"], comp)})
    # type census: a setting without a kernel-accepted type certificate (translator mirror) and/or rejected by the oracle
    for b in srep["bad"]:
        sg = bypos[b["pos"]]
        o = census_fail.pop(b["pos"], None)
        thm = ("DS.Gen.%s_type_ops (= true) / DS.Gen.%s_type_census (kernel-proved = false)" % (b["name"], b["name"])
               if b.get("stage") == "census" else "DS.Gen.%s_type (no certificate: %s)" % (b["name"], b["why"]))
        if o is None and not oracle_fail.get(b["pos"]):
            # the certificate search and the oracle disagree: broken obligation without a confirmed input
            ck.fail("ittype-cert:%s" % b["number"], "setting %s (#%s): no type certificate (%s) but the census oracle accepts it" % (
                sg.short_name, b["number"], b["why"]),
                {"kind": "proof-obligation", "setting": b["number"], "stream": "ittype", "theorem": thm, "detail": b}, no_failing_input=True)
            continue
        ck.fail("ittype:%s" % b["number"], "setting %s (#%s): %s" % (sg.short_name, b["number"], (o or {}).get("what") or b["why"]),
                {"kind": "table-obligation", "setting": b["number"], "stream": "ittype", "theorem": thm,
                 "detail": o or {"what": b["why"]}, "certificate": {k: b.get(k) for k in ("stage", "census", "expected")},
                 "equivalence": eq_fail.pop(b["pos"], None)})
    for pos, cr in census_fail.items():
        sg = bypos[pos]
        ck.fail("ittype:%s" % sg.number, "setting %s (#%s): %s" % (sg.short_name, sg.number, cr["what"]),
                {"kind": "oracle", "setting": sg.number, "stream": "ittype", "detail": cr, "equivalence": eq_fail.pop(pos, None)})
    # settings the census cannot tell from their declared type but that no change of axes / origin maps onto its reference
    for pos, er in sorted(eq_fail.items()):
        sg = bypos[pos]
        ck.fail("ittype:%s" % sg.number, "setting %s (#%s): %s" % (sg.short_name, sg.number, er["what"]),
                {"kind": "oracle", "setting": sg.number, "stream": "itequiv", "detail": er,
                 "theorem": "no DS.Gen.sg%s_equiv (DS.Props.C03d)%s" % (sg.number, (
                     "; DS.Gen.sg%s_is_type_%s (kernel-checked)" % (sg.number, er["is_setting_of"]) if er.get("is_setting_of") else ""))})
    ebad = {b["pos"] for b in erep["bad"]}
    unc_pos = {p_ for p_, sg_ in bypos.items() if sg_.number in {u["number"] for u in eqres["uncertified"]}}
    if ebad - notgroup != (eq_failed_pos | unc_pos) - notgroup and not ck.violations:
        ck.fail("itequiv-cert", "translate/equiv.py and harness/c03_equiv.py disagree about the settings without a certificate: %r vs %r" % (
            sorted(ebad), sorted(eq_failed_pos | unc_pos)), {"kind": "proof-obligation", "stream": "itequiv", "theorem": "DS.Gen.allE_ok"},
            no_failing_input=True)
    for u in rep["untranslatable"]:
        o = oracle_fail.pop(u["pos"], None)
        ck.fail("untranslatable:%s" % u["number"], "setting #%s: %s" % (u["number"], u["why"]),
                {"kind": "translator", "setting": u["number"], "detail": u["why"], "oracle": o}, no_failing_input=o is None)
    for pos, o in oracle_fail.items():
        sg = bypos[pos]
        ck.fail("oracle:%s" % sg.number, "setting #%s: %s %s" % (sg.number, o["what"], o.get("ops", "")),
                {"kind": "oracle", "setting": sg.number, "detail": o})
    for d in rep["ast"]:
        ck.fail("ast:" + d.split(":")[0].split(".")[0].split(" ")[0], "table literal and runtime object differ: " + d,
                {"kind": "translator-crosscheck", "detail": d}, no_failing_input=True)
    if not ok and not ck.violations:
        ck.fail("lean-build", "Lean obligations of C03 no longer check: %s" % (info["failed_modules"],),
                {"kind": "proof-obligation", "theorem": info["failed_modules"], "errors": info["errors"], "log": info.get("log_tail", "")},
                no_failing_input=True)
    if not ok_c and not ck.violations:
        ck.fail("lean-build-c03c", "Lean obligations of C03c (space-group type census) no longer check: %s" % (info_c["failed_modules"],),
                {"kind": "proof-obligation", "theorem": info_c["failed_modules"], "errors": info_c["errors"], "log": info_c.get("log_tail", "")},
                no_failing_input=True)
    if not ok_d and not ck.violations:
        ck.fail("lean-build-c03d", "Lean obligations of C03d (space-group type by equivalence certificates) no longer check: %s" % (
            info_d["failed_modules"],),
            {"kind": "proof-obligation", "theorem": info_d["failed_modules"], "errors": info_d["errors"], "log": info_d.get("log_tail", "")},
            no_failing_input=True)
    # 3. distinct numbers / uniqueness of registered numbers
    nums = [g.number for g in sgs.SpaceGroupList]
    if len(set(nums)) != len(nums):
        dup = sorted({n for n in nums if nums.count(n) > 1})
        ck.fail("dupnumber:%s" % dup[0], "settings share the number(s) %r" % dup, {"kind": "oracle", "numbers": dup})
    # 4. lattice-parameter clause (implementation-side exact oracle)
    nlat = 0
    for pos, sg in bypos.items():
        try:
            fails = latpar_oracle(sg, isSpaceGroupLatPar)
        except Exception as e:  # an exception is a failure of the clause as well
            fails = [{"what": "isSpaceGroupLatPar raised %r" % e, "cell": None}]
        nlat += 1 + 2 * len(SHAPES) + len(EXTRA_SHAPES)
        for f in fails:
            LATSEEN.add("latpar:%s" % sg.number)
            ck.fail("latpar:%s" % sg.number, "isSpaceGroupLatPar(%s #%s) %s: %r" % (sg.short_name, sg.number, f["what"], f["cell"]),
                    {"kind": "oracle", "setting": sg.number, "cell": f["cell"], "detail": f["what"]})
    ck.coverage["evaluations"] += nlat
    # lattice-rule certificates that could not be found: the oracle above should have produced the failing cell;
    # if it did not, try the cell the translator proposes, else report the broken obligation without an input
    for num, u in lat_flagged.items():
        sgm = [g for g in sgs.SpaceGroupList if g.number == num]
        cell = u.get("invariant_cell_to_try")
        hit = False
        if sgm and cell:
            try:
                if not isSpaceGroupLatPar(sgm[0], *cell):
                    hit = True
                    ck.fail("latpar:%s" % num, "isSpaceGroupLatPar(%s #%s) rejects the invariant cell %r (%s)" % (sgm[0].short_name, num, cell, u.get("reason")),
                            {"kind": "oracle", "setting": num, "cell": cell, "detail": u.get("reason")})
            except Exception as e:
                hit = True
                ck.fail("latpar:%s" % num, "isSpaceGroupLatPar(#%s) raised %r on %r" % (num, e, cell), {"kind": "oracle", "setting": num, "cell": cell})
        if not hit and ("latpar:%s" % num) not in LATSEEN:
            ck.fail("latpar-cert:%s" % num, "no lattice-rule certificate for setting #%s: %s" % (num, u.get("reason")),
                    {"kind": "proof-obligation", "setting": num, "theorem": "DS.Gen.sg%s_lat / DS.Props.C03b.latpar_complete" % num, "detail": u}, no_failing_input=True)
    for key in ("rule_errors", "rule_differs_from_model", "accepts_lower"):
        for item in (lrep.get(key) or []):
            if key == "accepts_lower" and any(k.startswith("latpar:") for k in LATSEEN):
                continue
            ck.fail("latpar-rule:%s:%s" % (key, str(item)[:40]), "isSpaceGroupLatPar source rule: %s: %r" % (key, item),
                    {"kind": "translator", "detail": {key: item}, "theorem": "DS.Props.C03bFull.all_agree"}, no_failing_input=(key != "accepts_lower"))
    if (not ok_b or not ok_f) and not ck.violations:
        ck.fail("lean-build-c03b", "Lean obligations of C03b no longer check: %r %r" % (info_b.get("failed_modules"), info_f.get("failed_modules")),
                {"kind": "proof-obligation", "theorem": (info_b.get("failed_modules") or []) + (info_f.get("failed_modules") or []),
                 "errors": info_b.get("errors")}, no_failing_input=True)
    # 5. differential spot check of SymOp.__call__ against the model action (driver)
    import numpy

    lines, expect = [], []
    nspot = 300 if ck.tier == "quick" else 5000
    trans = {s["pos"]: s for s in rep["settings"]}
    poss = sorted(trans)
    for _ in range(nspot):
        pos = ck.rng.choice(poss)
        sg = bypos[pos]
        i = ck.rng.randrange(len(sg.symop_list))
        k = ck.rng.choice([1, 5, 7])
        D = 24 * k
        x = [ck.rng.randrange(-2 * D, 3 * D) for _ in range(3)]
        lines.append("sym.act %d %d %d %d %d %d" % (sg.number, i, k, x[0], x[1], x[2]))
        v = sg.symop_list[i](numpy.array(x, dtype=float) / D)
        expect.append([float(c) for c in v])
    out = common.driver(lines)
    nd = 0
    for ln, o, e in zip(lines, out, expect):
        try:
            got = [int(t) for t in o.split()]
            assert len(got) == 3
        except Exception:
            got = None
        k = int(ln.split()[3])
        D = 24 * k
        agree = got is not None and all(abs(((g / D) - c + 0.5) % 1.0 - 0.5) < 1e-9 for g, c in zip(got, e))
        ck.coverage["traces_validated_against_impl"] += 1
        if not agree:
            nd += 1
            ck.fail("symop-call:%s" % ln.split()[1], "SymOp.__call__ disagrees with the model action on %r: model %r impl %r" % (ln, o, e),
                    {"kind": "correspondence", "input": ln, "model": o, "impl": e})
    ck.coverage["evaluations"] += nspot
    # 6. the tables stay what they are while the library is used: look settings up by their own operation lists
    #    (same order, caller-owned list and operation objects with 4-decimal translations as CIF files carry them),
    #    mutate the caller's list afterwards, then compare every tabulated object with its state at the start
    from diffpy.structure.spacegroups import FindSpaceGroup, GetSpaceGroup, SymOp

    snap = [(id(g.symop_list), [id(o) for o in g.symop_list], [(o.R.tolist(), o.t.tolist()) for o in g.symop_list],
             (g.number, g.num_sym_equiv, g.num_primitive_sym_equiv, g.short_name, g.pdb_name, g.crystal_system)) for g in sgs.SpaceGroupList]
    used = []
    tbl_assert = None
    for pos in poss[:: max(1, len(poss) // 80)]:
        g = bypos[pos]
        mine = [SymOp(numpy.array(o.R, dtype=float), numpy.round(numpy.array(o.t, dtype=float), 4)) for o in g.symop_list]
        try:
            FindSpaceGroup(mine)
            FindSpaceGroup(list(g.symop_list))
            GetSpaceGroup(g.number)
        except ValueError:
            pass
        except AssertionError as e:
            # the library's own consistency assertion on its lookup table (e.g. two settings with identical operations)
            if tbl_assert is None:
                tbl_assert = (g.number, "FindSpaceGroup(operations of #%s) raised AssertionError %s" % (g.number, e))
        mine.reverse()
        del mine[1:]
        used.append(g.number)
    if tbl_assert is not None and not ck.violations:
        ck.fail("lookup-assert:%s" % tbl_assert[0], "the space-group tables are not consistent: " + tbl_assert[1],
                {"kind": "history", "setting": tbl_assert[0], "stream": "use", "history": "FindSpaceGroup(copy of the setting's operations)"})
    for g, (lid, oids, vals, meta) in zip(sgs.SpaceGroupList, snap):
        now = (g.number, g.num_sym_equiv, g.num_primitive_sym_equiv, g.short_name, g.pdb_name, g.crystal_system)
        same = id(g.symop_list) == lid and [id(o) for o in g.symop_list] == oids and \
            [(o.R.tolist(), o.t.tolist()) for o in g.symop_list] == vals and now == meta
        if not same:
            bad = group_oracle(g) or counts_oracle(g)
            ck.fail("table-modified-by-use:%s" % meta[0],
                    "the tabulated setting #%s is no longer what the table files define after it was looked up by its operations (%s)" % (
                        meta[0], (bad or {}).get("what", "operation list object replaced")),
                    {"kind": "history", "setting": meta[0], "stream": "use", "history": "FindSpaceGroup(caller-owned copy of the operations with 4-decimal translations); caller then edits its list",
                     "detail": bad})
            break
    ck.coverage["evaluations"] += len(used)
    ck.coverage["samples"] = [
        {"obligation": "theorem DS.Gen.sg225_ok : checkSG sg225 sg225c = true := by decide +kernel"},
        {"obligation": "theorem DS.Gen.sg76_type : checkScrew sg76 sg76_sc = true := by decide +kernel"},
        {"obligation": "theorem DS.Gen.sg2033_equiv : checkEquivSG sg2033 sg2033_eq = true := by decide +kernel",
         "certificate": c03_equiv.load_reference()["certificates"].get("2033")},
        {"driver": lines[0], "model": out[0], "impl": expect[0]},
        {"latpar": "sg #%s invariant cell %r" % (bypos[poss[-1]].number, cell_of_metric(invariant_metric(bypos[poss[-1]], G0)))},
    ]
    ck.coverage["exhaustive"] = True
    ck.coverage["trusted_base"] += ["translate/tables.py (float->24ths conversion, metadata reading; cross-checked against ast literals)",
                                    "class table / centring table in DS/Model/Sym.lean (reference data)",
                                    "lean/DS/Ref/ItCensus.lean = harness/c03_itcensus.json (reference census of the 230 types; committed, "
                                    "checked to be in sync)",
                                    "harness/c03_equiv.json: operation lists of the 230 standard settings frozen from the pinned tree "
                                    "(reference data; committed, never written at run time)"]
    ck.assumptions += ["lattice-compatibility clause is decided by the implementation-side exact oracle on the group-averaged metric "
                       "(Lean theorem latpar_complete not yet part of the obligations)",
                       "IT number is checked at the level of crystal class + centring + order + rotation/screw and mirror/glide census "
                       "per coset of the translation group (kernel-checked per setting, DS.Props.C03c), and by an explicit affine "
                       "equivalence (P, p), det P > 0, with the frozen standard setting of number % 1000 (harness/c03_equiv.json), "
                       "verified exactly for all operations in both directions; that the 230 frozen operation lists are the 230 "
                       "types of International Tables is reference data (mmLib standard settings, cross-checked by the census "
                       "and by the cctbx-generated alternative settings being equivalent to them)",
                       "a setting without a certificate is reported only when the finite candidate list (unimodular U with entries "
                       "<= 2 between primitive lattice bases) is exhausted; the report names the type the operations ARE a "
                       "setting of when a certificate against another reference of the crystal class exists"]
    if ck.tier == "thorough":
        thorough(ck)


def thorough(ck):
    """leanchecker re-check of the compiled obligations; consistency of the frozen reference settings."""
    from . import c03_equiv

    same = c03_equiv.references_pairwise_inequivalent()
    ck.notes.append("frozen reference settings: %d pairs of one crystal class found equivalent (expected 0)" % len(same))
    if same:
        raise common.Broken("harness/c03_equiv.json: reference settings of different numbers are equivalent: %r" % (same[:3],))
    for mod in ("DS.Props.C03", "DS.Props.C03c", "DS.Props.C03d"):
        with common.LeanLock():
            rc, out, err = common.run(["lake", "env", "leanchecker", mod], cwd=LEAN, timeout=7200)
        ck.notes.append("leanchecker %s: rc=%d %s" % (mod, rc, (out + err)[-300:]))
        if rc != 0:
            raise common.Broken("leanchecker rejected %s: " % mod + (out + err)[-1000:])


def replay(path):
    common.use_repo()
    r = json.load(open(path))
    import diffpy.structure.spacegroups as sgs
    from diffpy.structure.symmetryutilities import isSpaceGroupLatPar

    sg = [g for g in sgs.SpaceGroupList if g.number == r.get("setting")]
    if not sg:
        print("setting %r not present" % r.get("setting"))
        return 1
    sg = sg[0]
    if r.get("stream") == "use":
        import numpy
        from diffpy.structure.spacegroups import FindSpaceGroup, SymOp

        before = (id(sg.symop_list), [(o.R.tolist(), o.t.tolist()) for o in sg.symop_list])
        mine = [SymOp(numpy.array(o.R, dtype=float), numpy.round(numpy.array(o.t, dtype=float), 4)) for o in sg.symop_list]
        try:
            FindSpaceGroup(mine)
        except ValueError:
            pass
        except AssertionError as e:
            print("FindSpaceGroup raised AssertionError", e)
            return 1
        mine.reverse()
        del mine[1:]
        after = (id(sg.symop_list), [(o.R.tolist(), o.t.tolist()) for o in sg.symop_list])
        print("tabulated object unchanged by the lookup:", before == after)
        return 0 if before == after else 1
    if r.get("stream") == "itequiv":
        from . import c03_equiv

        return c03_equiv.replay_setting(sg)
    if r.get("stream") == "ittype":
        cr = census_oracle(sg, census_reference())
        print("type census:", cr["what"] if cr else "agrees with No. %d" % (sg.number % 1000))
        return 1 if cr else 0
    bad = group_oracle(sg) or counts_oracle(sg)
    lat = latpar_oracle(sg, isSpaceGroupLatPar)
    print("group/counts oracle:", bad)
    print("latpar oracle:", lat)
    sys.path.insert(0, VERIF)
    from translate import tables

    meta = None
    try:
        ops = [tables.op_to_ints(o) for o in sg.symop_list]
        res = tables.mirror_checks(sg, ops, tables.make_cert(ops))
        meta = {k: v[1] for k, v in res.items() if not v[0]}
    except ValueError as e:
        meta = {"untranslatable": str(e)}
    print("metadata / certificate checks:", meta)
    return 1 if (bad or lat or meta) else 0
