"""C18 — nanoparticle cut-outs contain only crystal sites inside the requested shape.

Lean side: DS.Props.C18 (theorems about the model DS.Expand.makeEllipsoid / makeSphere / findCenter of
expansion/makeellipsoid.py and expansion/shapeutils.py, on top of the supercell model of C15).
Tie: the compiled model (`ell.cut`) and the real makeEllipsoid/makeSphere run on the same seeded structures
(cubic / hexagonal / oblique, partly rotated cells; 1-6 atoms; one, two or three radii); block multiplier,
centre index and the set of kept block atoms are compared (atoms within 1e-9 of the surface are excluded
from the comparison and counted; a centre chosen between atoms equidistant within 1e-9 is re-run with the
implementation's choice and counted).
Oracle (independent of the model): brute-force enumeration of the lattice sites of the returned cell in plain
numpy: every returned atom is a parent + integer cell vectors with the parent's attributes, lies inside the
ellipsoid about a returned atom, no site twice, every site of the returned cell inside the ellipsoid is
present (input atoms in [0,1)^3), sphere = ellipsoid with equal radii, input untouched and not shared.
A site is the pair (parent atom, lattice translation), never a bare position: templates with several atoms on one
position (mixed occupancy), with distinct atoms less than 1e-4 Angstrom apart and with split sites are generated
(`share_sites`, `mixed_occupancy_cases`) and "no site twice" / completeness are judged for every parent separately.
Lattices come from the C15 generator (incl. mirror-image settings and cells far from the Angstrom scale).
"""
import copy
import json
import math

from . import common
from .c15 import (GEOM_ASSUMPTION, TOL, attrs_of, bits, build, cell_label, gen_atom, gen_structure, geom_tie, matmul, my_stdbase, snapshot, unbits,
                  vecmat)

SURF = 1e-9


def block_multiplier(spec, sabc):
    """max(ceil(2*frac)) computed independently (textbook base, numpy solve); also the distance of
    2*frac from the nearest integer (ambiguity of the ceil)."""
    import numpy

    lat = spec["lattice"]
    B0 = numpy.array(matmul(my_stdbase(*lat["abcABG"]), lat["baserot"]))
    frac = numpy.linalg.solve(B0.T, numpy.array(sabc, dtype=float))
    two = 2 * frac
    amb = min(abs(x - round(x)) for x in two)
    return max(int(math.ceil(x)) for x in two), amb, B0


def is_exact(spec, sabc, k):
    """all float operations of the cut are exact: orthogonal unrotated cell, power-of-two block multiplier and radii,
    lengths and positions multiples of 1/8 -> an atom exactly on the surface has d == 1.0 on every correct evaluation"""
    lat = spec["lattice"]

    def pow2(x):
        return x > 0 and math.frexp(x)[0] == 0.5

    def eighth(x):
        return abs(x) < 1024 and float(x * 8).is_integer()

    return (lat["abcABG"][3:] == [90.0, 90.0, 90.0] and lat["baserot"] == [[1.0, 0.0, 0.0], [0.0, 1.0, 0.0], [0.0, 0.0, 1.0]]
            and k >= 1 and pow2(float(k)) and all(pow2(float(r)) for r in sabc) and all(eighth(x) for x in lat["abcABG"][:3])
            and all(eighth(x) for at in spec["atoms"] for x in at["xyz"]))


def model_line(spec, radii, fm="auto", fc="auto"):
    lat = spec["lattice"]
    a = radii[0]
    b = radii[1] if len(radii) > 1 else None
    c = radii[2] if len(radii) > 2 else None
    ws = ["ell.cut", bits(a), "none" if b is None else bits(b), "none" if c is None else bits(c), str(fm), str(fc)]
    ws += [bits(x) for x in lat["abcABG"]] + [bits(x) for row in lat["baserot"] for x in row]
    ws.append(str(len(spec["atoms"])))
    for at in spec["atoms"]:
        ws.append(str(at["vid"]))
        ws += [bits(x) for x in at["xyz"]]
    return " ".join(ws)


def parse_model(out):
    ws = out.split()
    if not ws or ws[0] != "ok":
        return {"error": out.strip()}
    k, nc, N, nk = int(ws[1]), int(ws[2]), int(ws[3]), int(ws[4])
    nk2 = int(ws[5])
    kept = [int(x) for x in ws[6:6 + nk2]]
    ds = [unbits(x) for x in ws[6 + nk2:6 + nk2 + N]]
    return {"mno": k, "centre": nc, "N": N, "nkept": nk, "kept": kept, "d": ds}


class CutTimeout(Exception):
    """the cut-out did not return within CALL_LIMIT seconds (every generated input needs a block of at most 6^3 cells)"""


class CutSkipped(Exception):
    """not evaluated: several earlier inputs did not return in time"""


CALL_LIMIT = 60.0
_timeouts = [0]


def _limited(fn):
    """run `fn()` with a wall-clock limit (main thread only): a cut-out that builds a block of the wrong size can run for hours"""
    import signal
    import threading

    if threading.current_thread() is not threading.main_thread() or not hasattr(signal, "setitimer"):
        return fn()
    if _timeouts[0] >= 3:
        raise CutSkipped("not evaluated: %d earlier inputs did not return within %.0f s" % (_timeouts[0], CALL_LIMIT))

    def on_alarm(signum, frame):
        _timeouts[0] += 1
        raise CutTimeout("no result after %.0f s" % CALL_LIMIT)

    old = signal.signal(signal.SIGALRM, on_alarm)
    signal.setitimer(signal.ITIMER_REAL, CALL_LIMIT)
    try:
        return fn()
    finally:
        signal.setitimer(signal.ITIMER_REAL, 0)
        signal.signal(signal.SIGALRM, old)


def call(spec, radii, sphere=False, S=None):
    from diffpy.structure.expansion.makeellipsoid import makeEllipsoid, makeSphere

    if S is None:
        S = build(spec)
    before = snapshot(S)
    try:
        R = _limited(lambda: makeSphere(S, radii[0]) if sphere else makeEllipsoid(S, *radii))
        err = None
    except Exception as e:  # noqa: BLE001
        R, err = None, e
    return S, before, R, err


def oracle(spec, radii, sphere=False, S=None):
    """Statement of C18 on the real code for one input (`S`: an existing parent object whose current state `spec`
    describes; default a fresh one).  Returns (fails, info)."""
    import numpy

    fails = []
    info = {}
    sabc = [radii[0], radii[1] if len(radii) > 1 else radii[0], radii[2] if len(radii) > 2 else radii[0]]
    S, before, R, err = call(spec, radii, sphere, S)
    if snapshot(S) != before:
        fails.append(("input-modified", "the input structure was modified"))
    k, amb, B0 = block_multiplier(spec, sabc)
    info.update(mno=k, amb=amb)
    if err is not None:
        info["error"] = type(err).__name__
        if isinstance(err, CutSkipped):
            return fails, info
        if k >= 1 and len(spec["atoms"]) > 0 and amb > 1e-9:
            fails.append(("raises:%s" % type(err).__name__, "raised %r (block multiplier %d, %d atoms)" % (err, k, len(spec["atoms"]))))
        return fails, info
    lat = spec["lattice"]
    a, b, c, al, be, ga = lat["abcABG"]
    parents = list(S)
    if not hasattr(R, "lattice") or not hasattr(R, "__len__"):
        fails.append(("result", "the result %r is not a structure" % (R,)))
        return fails, info
    # the returned cell must be an integer multiple of the input cell (same multiplier on all axes)
    ra, rb, rc = R.lattice.abcABG()[:3]
    kk = int(round(ra / a))
    if kk < 1 or max(abs(ra - kk * a), abs(rb - kk * b), abs(rc - kk * c)) > TOL * max(ra, rb, rc) or \
            max(abs(x - y) for x, y in zip(R.lattice.abcABG()[3:], (al, be, ga))) > TOL:
        fails.append(("lattice", "returned cell %r is not a whole multiple of the input cell" % (R.lattice.abcABG(),)))
        return fails, info
    info["k_returned"] = kk
    Bk = kk * B0
    scale = max(ra, rb, rc)
    if numpy.abs(numpy.array(R.lattice.base) - Bk).max() > TOL * scale:
        fails.append(("lattice", "returned base vectors are not %d x the input vectors" % kk))
    if len(R) == 0:
        fails.append(("centre", "no atom returned (the centre atom must be kept)"))
        return fails, info
    C = numpy.dot(numpy.array([t.xyz for t in R]).reshape(-1, 3), R.lattice.base)
    # genuine sites with the parent's attributes
    pc = [numpy.array(vecmat(at["xyz"], B0)) for at in spec["atoms"]]
    site = []
    for i, t in enumerate(R):
        p = getattr(t, "vid", None)
        if p is None or not (0 <= p < len(parents)) or attrs_of(t) != attrs_of(parents[p]):
            fails.append(("attrs", "returned atom %d does not carry the attributes of an input atom" % i))
            return fails, info
        fr = numpy.linalg.solve(B0.T, C[i] - pc[p])
        r = [int(round(x)) for x in fr]
        if max(abs(fr[q] - r[q]) for q in range(3)) > 1e-7:
            fails.append(("site", "returned atom %d (parent %d) is displaced by %r cell vectors: not a crystal site" % (i, p, fr.tolist())))
            return fails, info
        site.append((p, tuple(r)))
        if t.lattice is not R.lattice:
            fails.append(("attrs", "returned atom %d does not refer to the returned lattice" % i))
    # "no site listed twice": a crystal site is an atom of the template displaced by whole cell vectors, i.e. the pair
    # (parent atom, translation) -- unconditionally.  A bare position is NOT a site: a template may list several atoms on
    # one position (mixed occupancy Cd0.5 Zn0.5, split sites a fraction of a picometre apart) and every one of them is a
    # site of the crystal in its own right, so coinciding positions of DIFFERENT parents are not duplicates.
    if len(set(site)) != len(site):
        seen_ = set()
        dup = next(x for x in site if x in seen_ or seen_.add(x))
        fails.append(("duplicate", "the site parent %d + %r is listed %d times" % (dup[0], dup[1], site.count(dup))))
    info["shared_positions"] = shared_positions(spec, B0)
    sabcv = numpy.array(sabc, dtype=float)

    def dmax(center):
        return numpy.sqrt((((C - center) / sabcv) ** 2).sum(axis=1))

    # all inside the ellipsoid centred on one of the returned atoms
    centres = [i for i in range(len(R)) if dmax(C[i]).max() <= 1 + SURF]
    if not centres:
        far = min(float(dmax(C[i]).max()) for i in range(len(R)))
        fails.append(("outside", "no returned atom is a centre for which all returned atoms lie inside the ellipsoid (best max d = %.12g)" % far))
        return fails, info
    # the centre the code documents: the atom nearest the middle of the returned cell
    mid = numpy.dot([0.5, 0.5, 0.5], Bk)
    dist_mid = numpy.sqrt(((C - mid) ** 2).sum(axis=1))
    cidx = min(centres, key=lambda i: dist_mid[i])
    info["centre_cart"] = C[cidx].tolist()
    info["n_centres"] = len(centres)
    # completeness inside the returned cell, for input atoms inside [0,1)^3
    incell = all(0 <= x < 1 for at in spec["atoms"] for x in at["xyz"])
    info["incell"] = incell
    exact = is_exact(spec, sabc, kk)
    info["exact"] = exact
    nsurf = 0
    if incell:
        have = set(site)
        okc = False
        miss = None
        for ci in centres:
            miss = None
            for p, at in enumerate(spec["atoms"]):
                for n1 in range(-1, kk + 1):
                    for n2 in range(-1, kk + 1):
                        for n3 in range(-1, kk + 1):
                            u = [(at["xyz"][0] + n1) / kk, (at["xyz"][1] + n2) / kk, (at["xyz"][2] + n3) / kk]
                            if not all(0 <= x < 1 for x in u):
                                continue
                            pos = pc[p] + n1 * B0[0] + n2 * B0[1] + n3 * B0[2]
                            d = math.sqrt(sum(((pos[q] - C[ci][q]) / sabc[q]) ** 2 for q in range(3)))
                            onsurf = exact and d == 1.0  # exact arithmetic: the surface belongs to the ellipsoid (deleted iff d > 1)
                            if abs(d - 1) <= SURF and not onsurf:
                                nsurf += 1
                                continue
                            if (d < 1 or onsurf) and (p, (n1, n2, n3)) not in have:
                                miss = (p, (n1, n2, n3), d)
                                break
                        if miss:
                            break
                    if miss:
                        break
                if miss:
                    break
            if miss is None:
                okc = True
                break
        if not okc:
            fails.append(("incomplete", "site parent %d + %r (d = %.9f) lies in the returned cell and inside the ellipsoid but is absent" % miss))
    info["near_surface"] = nsurf
    # result is not shared with the input
    sid = set(before["ids"])
    if R is S or R.lattice is S.lattice or any(id(t) in sid for t in R) or \
            any(numpy.shares_memory(t.xyz, s.xyz) or numpy.shares_memory(t._U, s._U) for t in R for s in S):
        fails.append(("alias", "the result shares objects with the input"))
    info["R"] = R
    info["S"] = S
    return fails, info


def kept_indices(spec, k, R):
    """indices (in the real supercell block) of the returned atoms, and the block"""
    from diffpy.structure.expansion import supercell

    T = supercell(build(spec), (k, k, k))
    pos = {}
    for i, t in enumerate(T):
        pos.setdefault((t.vid, tuple(float(x) for x in t.xyz)), []).append(i)
    out = []
    for t in R:
        key = (t.vid, tuple(float(x) for x in t.xyz))
        if key not in pos or not pos[key]:
            return None, T
        out.append(pos[key].pop(0))
    return out, T


def shared_positions(spec, B0, within=1.0e-3):
    """number of pairs of template atoms closer than `within` Angstrom (same position, lattice translations not considered)"""
    import numpy

    pc = [numpy.array(vecmat(at["xyz"], B0)) for at in spec["atoms"]]
    return sum(1 for i in range(len(pc)) for j in range(i) if float(numpy.abs(pc[i] - pc[j]).max()) < within)


SHARE_MODES = ["same", "same", "same", "near", "near", "split", "triple"]


def share_sites(rng, spec, mode=None):
    """Let atoms of the template occupy ONE position, as substitutional disorder is written down (two or three species with
    partial occupancies on the same site), or positions a fraction of 1e-4 Angstrom apart (`near`: distinct atoms that any
    rounding of coordinates to 4 decimals merges), or a split site 3e-4 .. 2e-3 Angstrom wide.  The atoms stay different
    atoms: element, label, occupancy and displacement parameters of each are its own.  Returns the mode used or None."""
    ats = spec["atoms"]
    if len(ats) < 2:
        return None
    mode = mode or rng.choice(SHARE_MODES)
    group = rng.sample(range(len(ats)), 3 if (mode == "triple" and len(ats) >= 3) else 2)
    src = ats[group[0]]
    edges = spec["lattice"]["abcABG"][:3]
    occ = {2: [0.5, 0.5], 3: [0.5, 0.3, 0.2]}[len(group)] if rng.random() < 0.7 else [round(rng.uniform(0.05, 0.6), 3) for _ in group]
    src["occupancy"] = occ[0]
    for n_, j in enumerate(group[1:], 1):
        dst = ats[j]
        dst["xyz"] = list(src["xyz"])
        dst.pop("xyz_dtype", None)
        if src.get("xyz_dtype"):
            dst["xyz_dtype"] = src["xyz_dtype"]
        dst["element"] = rng.choice([e for e in ("C", "O", "Ni", "Cd", "Zn", "Se", "Na", "Cl", "Ti") if e != src["element"]])
        dst["occupancy"] = occ[n_]
        if mode in ("near", "split") and not src.get("xyz_dtype"):
            ax = rng.randrange(3)
            d = (rng.uniform(1.0e-5, 9.0e-5) if mode == "near" else rng.uniform(3.0e-4, 2.0e-3)) / edges[ax]   # along a cell edge: d Angstrom
            x = dst["xyz"][ax]
            if 0.0 <= x + d < 1.0 or not (0.0 <= x < 1.0):
                dst["xyz"][ax] = x + d
            elif 0.0 <= x - d:
                dst["xyz"][ax] = x - d
    spec["shared"] = mode
    return mode


def gen_case(rng, cap):
    kind = rng.choice(["cubic", "cubic", "hex", "hex", "tric", "mono", "ortho", "rhomb"])
    for _ in range(200):
        # a quarter of the templates list some atoms outside [0,1)^3 (legal; the completeness clause does not apply then)
        spec = gen_structure(rng, natoms=rng.choice([1, 1, 2, 3, 4, 5, 6]), kind=kind, in_cell=rng.random() >= 0.25)
        if rng.random() < 0.6:
            spec["lattice"]["baserot"] = [[1.0, 0.0, 0.0], [0.0, 1.0, 0.0], [0.0, 0.0, 1.0]]
            spec["lattice"]["orient"] = "identity"
        # a third of the templates with several atoms have a site shared by different atoms (mixed occupancy)
        if len(spec["atoms"]) >= 2 and rng.random() < 0.35:
            share_sites(rng, spec)
        cell = spec["lattice"]["abcABG"]
        nr = rng.choice([1, 1, 2, 3, 3])
        base = rng.uniform(0.4, 0.5 * cap) * min(cell[:3])
        if rng.random() < 0.25:
            base = float(round(base))  # integer radii: sites on the surface are likely for cubic cells
            if base <= 0:
                base = 1.0
        radii = [base] + [base * rng.uniform(0.5, 1.6) for _ in range(nr - 1)]
        sabc = [radii[0], radii[1] if nr > 1 else radii[0], radii[2] if nr > 2 else radii[0]]
        k, amb, _ = block_multiplier(spec, sabc)
        if 1 <= k <= cap and amb > 1e-7:
            return spec, radii
    return spec, radii


def mixed_occupancy_cases(rng):
    """textbook templates with substitutional disorder: several species on ONE position with partial occupancies (and one
    pair of distinct atoms 5e-5 Angstrom apart).  Every listed atom is a site of the crystal; all are inside the cell, so
    the completeness clause applies to each of them separately."""
    ident = [[1.0, 0.0, 0.0], [0.0, 1.0, 0.0], [0.0, 0.0, 1.0]]

    def mk(kind, cell, atoms, rot=ident, orient="identity"):
        sp = {"lattice": {"kind": kind, "abcABG": cell, "baserot": rot, "history": None, "orient": orient, "size": "ordinary"},
              "title": "mixed", "shared": "same", "atoms": []}
        for i, (el, occ, xyz, u) in enumerate(atoms):
            sp["atoms"].append({"element": el, "xyz": list(xyz), "label": "%s%d" % (el, i + 1), "occupancy": occ, "vid": i, "Uiso": u})
        return sp

    fcc = [[0.0, 0.0, 0.0], [0.0, 0.5, 0.5], [0.5, 0.0, 0.5], [0.5, 0.5, 0.0]]
    zb = [("Cd", 0.5, x, 0.011) for x in fcc] + [("Zn", 0.5, x, 0.009) for x in fcc] + [("Se", 1.0, [u + 0.25 for u in x], 0.013) for x in fcc]
    wz = [("Cd", 0.5, [1 / 3, 2 / 3, 0.0], 0.01), ("Zn", 0.5, [1 / 3, 2 / 3, 0.0], 0.008), ("Cd", 0.5, [2 / 3, 1 / 3, 0.5], 0.01),
          ("Zn", 0.5, [2 / 3, 1 / 3, 0.5], 0.008), ("Se", 1.0, [1 / 3, 2 / 3, 0.375], 0.012), ("Se", 1.0, [2 / 3, 1 / 3, 0.875], 0.012)]
    # interleaved listing: Zn directly after its Cd partner, and the shared site listed last
    zb2 = [a for x in fcc for a in (("Se", 1.0, [u + 0.25 for u in x], 0.013), ("Cd", 0.7, x, 0.011), ("Zn", 0.3, x, 0.009))]
    pv = [("Ba", 0.6, [0.0, 0.0, 0.0], 0.006), ("Sr", 0.4, [0.0, 0.0, 0.0], 0.007), ("O", 1.0, [0.5, 0.5, 0.0], 0.01), ("O", 1.0, [0.5, 0.0, 0.5], 0.01),
          ("O", 1.0, [0.0, 0.5, 0.5], 0.01), ("Ti", 0.5, [0.5, 0.5, 0.5], 0.004), ("Zr", 0.3, [0.5, 0.5, 0.5], 0.005), ("Nb", 0.2, [0.5, 0.5, 0.5], 0.005)]
    near = [("Ni", 0.5, [0.25, 0.25, 0.25], 0.005), ("Cu", 0.5, [0.25 + 1.25e-5, 0.25, 0.25], 0.006), ("O", 1.0, [0.75, 0.6, 0.1], 0.01)]
    mrot = [[1.0, 0.0, 0.0], [0.0, 1.0, 0.0], [0.0, 0.0, -1.0]]     # the mirror image of the cell (z -> -z)
    out = [
        (mk("zincblende-mixed", [5.9, 5.9, 5.9, 90.0, 90.0, 90.0], zb), [7.0]),
        (mk("zincblende-mixed", [5.9, 5.9, 5.9, 90.0, 90.0, 90.0], zb2), [5.0, 7.0, 4.0]),
        (mk("wurtzite-mixed", [4.2, 4.2, 6.9, 90.0, 90.0, 120.0], wz), [6.0, 6.0, 8.0]),
        (mk("perovskite-mixed", [4.0, 4.0, 4.0, 90.0, 90.0, 90.0], pv), [5.5]),
        (mk("perovskite-mixed", [3.9, 3.9, 4.1, 90.0, 90.0, 90.0], pv), [1.9]),                   # block multiplier 1: the template itself is cut
        (mk("near-pair", [4.0, 4.0, 4.0, 90.0, 90.0, 90.0], near), [4.5, 3.0]),
        (mk("wurtzite-mixed", [4.2, 4.2, 6.9, 90.0, 90.0, 120.0], wz, mrot, "mirror"), [6.0, 6.0, 8.0]),
    ]
    # a generated template in which EVERY atom has a partner of another species on its position
    for kind in ("tric", "mono"):
        sp = gen_structure(rng, natoms=3, kind=kind, in_cell=True, orient="identity", size="ordinary")
        twins = []
        for at in sp["atoms"]:
            at.pop("xyz_dtype", None)
            tw = dict(copy.deepcopy(at), element="Zn" if at["element"] != "Zn" else "Cd", label=at["label"] + "'", occupancy=0.25)
            twins.append(tw)
        sp["atoms"] += twins
        for i, at in enumerate(sp["atoms"]):
            at["vid"] = i
        sp["shared"] = "same"
        out.append((sp, [0.9 * min(sp["lattice"]["abcABG"][:3])]))
    return out


def sparse_cases(rng, n):
    """sparse templates: few atoms in a large cell, radii below half a cell (block multiplier 1), every atom at least
    len(S) Angstrom from the middle of the block -- findCenter then reports 'no atom found' (-1) and the source centres
    the cut on the last atom; the cut must still be centred on a returned atom and be non-empty"""
    ident = [[1.0, 0.0, 0.0], [0.0, 1.0, 0.0], [0.0, 0.0, 1.0]]

    def mk(cell, pos, kind="sparse"):
        sp = {"lattice": {"kind": kind, "abcABG": cell, "baserot": ident}, "title": "sparse", "atoms": []}
        for i, x in enumerate(pos):
            at = gen_atom(rng, i, in_cell=True)
            at["xyz"] = list(x)
            at.pop("xyz_dtype", None)
            sp["atoms"].append(at)
        return sp

    out = [
        (mk([20.0, 20.0, 20.0, 90.0, 90.0, 90.0], [[0.35, 0.5, 0.5], [0.65, 0.5, 0.5]]), [3.5]),       # 3 A either side of the middle, 6 A apart
        (mk([20.0, 20.0, 20.0, 90.0, 90.0, 90.0], [[0.1, 0.1, 0.1]]), [4.0]),                           # one atom near a corner
        (mk([24.0, 18.0, 30.0, 90.0, 90.0, 90.0], [[0.1, 0.2, 0.3], [0.8, 0.7, 0.2], [0.3, 0.9, 0.9]]), [5.0, 4.0, 6.0]),
        (mk([16.0, 16.0, 25.0, 90.0, 90.0, 120.0], [[0.2, 0.1, 0.1], [0.25, 0.15, 0.12]], "sparse-hex"), [3.0, 3.0, 4.0]),
        (mk([20.0, 20.0, 20.0, 90.0, 90.0, 90.0], [[0.45, 0.5, 0.5], [0.1, 0.1, 0.1]]), [3.0]),        # one atom near the middle: ordinary choice
    ]
    tries = 0
    while len(out) < n and tries < 50 * n:
        tries += 1
        kind = rng.choice(["cubic", "ortho", "mono", "hex"])
        L = [round(rng.uniform(15.0, 30.0), 2) for _ in range(3)]
        cell = {"cubic": [L[0], L[0], L[0], 90.0, 90.0, 90.0], "ortho": L + [90.0, 90.0, 90.0],
                "mono": L + [90.0, round(rng.uniform(95, 115), 1), 90.0], "hex": [L[0], L[0], L[2], 90.0, 90.0, 120.0]}[kind]
        N = rng.choice([1, 1, 2, 3])
        pos = [[rng.random() for _ in range(3)] for _ in range(N)]
        sp = mk(cell, pos, "sparse-" + kind)
        nr = rng.choice([1, 2, 3])
        radii = [round(rng.uniform(1.5, 0.45 * min(cell[:3])), 3) for _ in range(nr)]
        sabc = [radii[0], radii[1] if nr > 1 else radii[0], radii[2] if nr > 2 else radii[0]]
        k, amb, B0 = block_multiplier(sp, sabc)
        mid = [0.5 * (B0[0][q] + B0[1][q] + B0[2][q]) for q in range(3)]
        far = all(math.dist(vecmat(x, B0.tolist()), mid) >= N + 0.5 for x in pos)
        if k == 1 and amb > 1e-7 and far:
            out.append((sp, radii))
    return out


def edited_spec(rng, spec):
    """the same parent after an in-place edit: same number of atoms, same cell; positions, element, occupancy, U values
    changed, two atoms exchanged"""
    sp = copy.deepcopy(spec)
    ats = sp["atoms"]
    swap = None
    if len(ats) >= 2 and rng.random() < 0.7:
        i, j = rng.sample(range(len(ats)), 2)
        ats[i], ats[j] = ats[j], ats[i]
        swap = (i, j)
    for idx, at in enumerate(ats):
        at["vid"] = idx
        if rng.random() < 0.8:
            at["xyz"] = [rng.random() for _ in range(3)]
            at.pop("xyz_dtype", None)          # generic coordinates: stored as a float array again
        at["element"] = rng.choice([e for e in ("C", "O", "Ni", "Cd", "Se", "Na", "Cl", "Ti") if e != at["element"]])
        at["occupancy"] = round(rng.uniform(0.05, 0.95), 3)
        if "U" in at:
            at["U"] = [[1.5 * v for v in row] for row in at["U"]]
        elif "Uiso" in at:
            at["Uiso"] = round(at["Uiso"] * 1.7, 6)
    return sp, swap


def apply_inplace(S, spec1, swap):
    import numpy

    if swap:
        i, j = swap
        a, b = S[i], S[j]
        list.__setitem__(S, i, b)
        list.__setitem__(S, j, a)
    for a, at in zip(S, spec1["atoms"]):
        if at.get("xyz_dtype") or a.xyz.dtype != float:
            a.xyz = numpy.array(at["xyz"], dtype={"int": int, "float32": numpy.float32}.get(at.get("xyz_dtype"), float))
        else:
            a.xyz[:] = at["xyz"]
        a.element = at["element"]
        a.occupancy = at["occupancy"]
        a.label = at["label"]
        a.vid = at["vid"]
        if "U" in at:
            a.U = numpy.array(at["U"], dtype=float)
        elif "Uiso" in at:
            a.Uisoequiv = at["Uiso"]
    ref = build(spec1)
    if len(ref) != len(S) or any(attrs_of(x) != attrs_of(y) or not numpy.array_equal(x.xyz, y.xyz) for x, y in zip(S, ref)):
        raise RuntimeError("harness: in-place edit did not reach the described state")


def oracle_sequence(spec0, spec1, swap, radii):
    """cut; edit the SAME parent object in place; cut again with the same radii.  The second result must satisfy the
    property w.r.t. the current parent and equal the cut of a fresh copy of it."""
    import numpy

    S = build(spec0)
    f1, _ = oracle(spec0, radii, S=S)
    apply_inplace(S, spec1, swap)
    f2, i2 = oracle(spec1, radii, S=S)
    f3, i3 = oracle(spec1, radii)
    fails = list(f1) + [("sequence:" + k, "second cut of the same parent object after an in-place edit: " + m) for k, m in f2]
    R2, R3 = i2.get("R"), i3.get("R")
    if not f2 and not f3:
        if i2.get("error") != i3.get("error"):
            fails.append(("sequence:differs", "second cut of the edited parent %s, a fresh copy of it %s" % (
                i2.get("error", "returns"), i3.get("error", "returns"))))
        elif R2 is not None and R3 is not None:
            same = len(R2) == len(R3) and R2.lattice.abcABG() == R3.lattice.abcABG() and all(
                attrs_of(x) == attrs_of(y) and numpy.array_equal(x.xyz, y.xyz) for x, y in zip(R2, R3))
            if not same:
                fails.append(("sequence:differs", "second cut of the edited parent (%d atoms) differs from the cut of a fresh copy of it (%d atoms)" % (len(R2), len(R3))))
    return fails


def model_disagreements(spec, radii, mout, inf, stats):
    """compare one model output line with what the implementation did (inf = info of the oracle).
    Returns (disagreements, (nc_impl, kept) when the centre is a tie to be re-run, sample)."""
    import numpy
    from diffpy.structure.expansion.shapeutils import findCenter

    M = parse_model(mout)
    dis = []
    smp = None
    if "error" in inf:
        stats["errors"][inf["error"]] = stats["errors"].get(inf["error"], 0) + 1
        if M.get("error") != inf["error"]:
            dis.append("implementation raised %s, model says %r" % (inf["error"], mout[:60]))
    elif "R" in inf:
        R = inf["R"]
        stats["mno_hist"][inf["k_returned"]] = stats["mno_hist"].get(inf["k_returned"], 0) + 1
        stats["oracle_surface"] += inf.get("near_surface", 0)
        if "error" in M:
            dis.append("model says %s, implementation returned %d atoms" % (M["error"], len(R)))
        elif M["mno"] != inf["k_returned"]:
            dis.append("block multiplier: model %d, implementation %d" % (M["mno"], inf["k_returned"]))
        else:
            kept, T = kept_indices(spec, M["mno"], R)
            if kept is None:
                dis.append("a returned atom is not an atom of supercell(S, %d)" % M["mno"])
            else:
                nc_impl = findCenter(T)
                if not isinstance(nc_impl, (int, numpy.integer)) or isinstance(nc_impl, bool) or not (-len(T) <= nc_impl < len(T)):
                    dis.append("findCenter returned %r for a block of %d atoms (documented: the index of the centre atom)" % (nc_impl, len(T)))
                    nc_impl = M["centre"]
                elif nc_impl < 0:
                    nc_impl += len(T)
                if nc_impl != M["centre"]:
                    mid = numpy.dot([0.5, 0.5, 0.5], T.lattice.base)
                    Ct = T.xyz_cartn
                    d1 = float(numpy.linalg.norm(Ct[nc_impl] - mid))
                    d2 = float(numpy.linalg.norm(Ct[M["centre"]] - mid))
                    if abs(d1 - d2) <= 1e-9 * max(1.0, d1):
                        stats["centre_ties"] += 1
                        return [], (nc_impl, kept), None
                    dis.append("centre atom: model %d (%.12g from the middle), implementation %d (%.12g)" % (M["centre"], d2, nc_impl, d1))
                if not dis:
                    dis += compare_kept(M, kept, stats, inf.get("exact", False))
                    stats["exact_cases"] += 1 if inf.get("exact") else 0
                smp = {"cell": spec["lattice"]["abcABG"], "natoms": len(spec["atoms"]), "radii": radii, "mno": M["mno"], "centre": M["centre"],
                       "block": len(T), "kept": len(R), "nontrivial": 1 < len(R) < len(T)}
    return dis, None, smp


def new_stats():
    return {"shared_site_cases": 0, "shared_site_complete_judged": 0, "exact_cases": 0, "exact_surface_compared": 0, "surface_excluded": 0, "centre_ties": 0, "errors": {}, "mno_hist": {}, "oracle_surface": 0}


def tie_one(spec, radii, sphere=False):
    """model vs implementation for ONE case (used by replays of correspondence failures)"""
    fails, inf = oracle(spec, radii, sphere)
    stats = new_stats()
    mout = common.driver([model_line(spec, radii)])[0]
    dis, tie, _ = model_disagreements(spec, radii, mout, inf, stats)
    if tie is not None:
        M = parse_model(common.driver([model_line(spec, radii, "auto", tie[0])])[0])
        dis = ["model: %s" % M["error"]] if "error" in M else compare_kept(M, tie[1], stats, False)
    return fails, dis


def run(ck):
    common.use_repo()
    import numpy
    try:
        from diffpy.structure.expansion.shapeutils import findCenter
    except Exception as e:  # noqa: BLE001
        ck.fail("import:%s" % type(e).__name__, "the package under test cannot be imported: %r" % (e,), {"kind": "import", "observed": repr(e)})
        return

    ok, info = ck.lean_obligations("DS.Props.C18")
    tie_ok, tie_info = ck.source_tie("DS.Props.SrcLattice")  # the block is a supercell: same Lattice model as C15
    tie2_ok, tie2_info = ck.source_tie("DS.Props.SrcExpand")   # supercell: index list, image coordinates, new cell, guards
    # findCenter / makeEllipsoid / makeSphere themselves: the model IS the transliteration of the current source
    tie3_ok, tie3_info = ck.source_tie("DS.Props.SrcShape", groups=("shape",))
    # `.dist .cartesian .fractional` of the lattice record those functions use = the transliterated lattice.py
    geom_ok, geom_info = geom_tie(ck)
    rng = ck.rng
    quick = ck.tier == "quick"
    cap = 4 if quick else 6
    # a broken tie of the cut-out functions themselves is not a verdict: search harder for a concrete failing input
    widen = 1 if (tie3_ok and geom_ok) else 4
    ncases = (70 if quick else 1200) * widen
    cases = [gen_case(rng, cap) + (False,) for _ in range(ncases)]
    # spheres
    for _ in range(10 if quick else 60):
        spec, radii = gen_case(rng, cap)
        cases.append((spec, radii[:1], True))
    # outside the statement: no atoms; block multiplier < 1 (rotated cell); recorded, model must agree
    e_spec = gen_structure(rng, natoms=0, kind="cubic")
    cases.append((e_spec, [3.0], False))
    r_spec = gen_structure(rng, natoms=2, kind="ortho", in_cell=True)
    # rotation by pi about (1,-1,0): the vector (r,r,r) has negative fractional coordinates -> multiplier < 1
    r_spec["lattice"]["baserot"] = [[0.0, -1.0, 0.0], [-1.0, 0.0, 0.0], [0.0, 0.0, -1.0]]
    cases.append((r_spec, [3.0], False))
    # textbook cells with special positions and round radii: equidistant centre candidates, sites on the surface
    fcc = [[0.0, 0.0, 0.0], [0.0, 0.5, 0.5], [0.5, 0.0, 0.5], [0.5, 0.5, 0.0]]
    for cell, pos, radii in [
        ([4.0, 4.0, 4.0, 90.0, 90.0, 90.0], fcc, [4.0]),
        ([4.0, 4.0, 4.0, 90.0, 90.0, 90.0], fcc, [6.0, 4.0, 2.0]),
        ([3.0, 3.0, 3.0, 90.0, 90.0, 90.0], [[0.0, 0.0, 0.0]], [4.4]),
        ([3.0, 3.0, 3.0, 90.0, 90.0, 90.0], [[0.0, 0.0, 0.0], [0.5, 0.5, 0.5]], [3.7, 5.0]),
        ([2.0, 2.0, 2.0, 90.0, 90.0, 90.0], [[0.25, 0.25, 0.25]], [2.0, 3.0, 1.0]),
        ([3.0, 3.0, 5.0, 90.0, 90.0, 120.0], [[0.0, 0.0, 0.0], [1.0 / 3, 2.0 / 3, 0.5]], [4.0, 4.0, 6.0]),
        ([3.52, 3.52, 3.52, 90.0, 90.0, 90.0], fcc, [5.0]),
        ([4.0, 4.0, 4.0, 90.0, 90.0, 90.0], fcc, [2.0]),
        ([2.0, 2.0, 4.0, 90.0, 90.0, 90.0], [[0.0, 0.0, 0.0], [0.5, 0.5, 0.5]], [4.0, 2.0, 4.0]),
        ([1.5, 2.0, 2.5, 90.0, 90.0, 90.0], [[0.0, 0.0, 0.0], [0.5, 0.5, 0.25]], [2.0, 2.0]),
        ([4.0, 5.0, 6.0, 90.0, 90.0, 90.0], [[0.0, 0.0, 0.0], [0.5, 0.5, 0.5]], [5.0, 5.0, 6.0]),
    ]:
        sp = {"lattice": {"kind": "textbook", "abcABG": cell, "baserot": [[1.0, 0.0, 0.0], [0.0, 1.0, 0.0], [0.0, 0.0, 1.0]]}, "title": "tb",
              "atoms": [{"element": "Ni", "xyz": x, "label": "Ni%d" % i, "occupancy": 1.0, "vid": i, "Uiso": 0.005} for i, x in enumerate(pos)]}
        cases.append((sp, radii, False))
    cases += [(sp, radii, False) for sp, radii in mixed_occupancy_cases(rng)]
    for sp, radii in sparse_cases(rng, (14 if quick else 80) * widen):
        cases.append((sp, radii, False))
    lines = [model_line(s, r) for s, r, _ in cases]
    outs = common.driver(lines)
    stats = new_stats()
    samples = []
    retry = []
    nontrivial = 0
    for ci, ((spec, radii, sphere), mout) in enumerate(zip(cases, outs)):
        replay = {"kind": "sphere" if sphere else "ellipsoid", "input": {"structure": spec, "radii": radii}}
        try:
            fails, inf = oracle(spec, radii, sphere)
            ck.coverage["evaluations"] += 1
            replay = {"kind": "sphere" if sphere else "ellipsoid", "input": {"structure": spec, "radii": radii}}
            for key, msg in fails:
                ck.fail("cut:" + key, "%s(%s cell, %d atoms%s, radii %r): %s" % (
                    "makeSphere" if sphere else "makeEllipsoid", cell_label(spec["lattice"]), len(spec["atoms"]),
                    ", %d pairs of atoms on one position" % inf["shared_positions"] if inf.get("shared_positions") else "", radii, msg),
                    dict(replay, observed=msg))
            if inf.get("shared_positions") and "R" in inf:
                stats["shared_site_cases"] += 1
                stats["shared_site_complete_judged"] += 1 if inf.get("incell") else 0
            ck.coverage["traces_validated_against_impl"] += 1
            dis, tie, smp = model_disagreements(spec, radii, mout, inf, stats)
            if tie is not None:
                retry.append((ci,) + tie)
                continue
            if smp:
                nontrivial += 1 if smp["nontrivial"] else 0
                if len(samples) < 3 and smp["kept"] > 2:
                    samples.append(smp)
            if dis and not fails:
                ck.fail("tie:ell.cut", "model and implementation disagree on %s(radii %r): %s" % ("makeSphere" if sphere else "makeEllipsoid", radii, dis[0]),
                        dict(replay, kind="correspondence", model=mout[:300], observed=dis, theorem="DS.Expand.makeEllipsoid"), no_failing_input=True)
        except Exception as e:  # noqa: BLE001  whatever the implementation returns or raises is a verdict on this case
            ck.fail("cut:unexpected:%s" % type(e).__name__, "%s(%d atoms, radii %r): evaluation of the result failed with %r" % (
                "makeSphere" if sphere else "makeEllipsoid", len(spec["atoms"]), radii, e), dict(replay, observed=repr(e)))
    # centre ties: rerun the model with the implementation's choice among equidistant atoms
    if retry:
        lines2 = [model_line(cases[ci][0], cases[ci][1], "auto", nc) for ci, nc, _ in retry]
        for (ci, nc, kept), mout in zip(retry, common.driver(lines2)):
            M = parse_model(mout)
            dis = ["model: %s" % M["error"]] if "error" in M else compare_kept(M, kept, stats, False)
            if dis:
                spec, radii, sphere = cases[ci]
                ck.fail("tie:ell.cut", "model (centre forced to the implementation's among equidistant atoms) disagrees: %s" % dis[0],
                        {"kind": "correspondence", "input": {"structure": spec, "radii": radii}, "observed": dis, "theorem": "DS.Expand.cutWith"},
                        no_failing_input=True)
    # several cuts from ONE parent object with in-place edits in between
    nseq = 0
    seq_src = [gen_case(rng, min(cap, 3)) for _ in range(20 if quick else 120)] + sparse_cases(rng, 8 if quick else 30)
    for spec0, radii in seq_src:
        spec1, swap = edited_spec(rng, spec0)
        replay = {"kind": "sequence", "input": {"structure": spec0, "edited": spec1, "swap": swap, "radii": radii}}
        nseq += 1
        ck.coverage["evaluations"] += 1
        try:
            fails = oracle_sequence(spec0, spec1, swap, radii)
        except Exception as e:  # noqa: BLE001
            fails = [("unexpected:%s" % type(e).__name__, "cut / edit in place / cut again: evaluation failed with %r" % (e,))]
        for key, msg in fails:
            ck.fail("cut:" + key, "makeEllipsoid(%d atoms, radii %r): %s" % (len(spec0["atoms"]), radii, msg), dict(replay, observed=msg))
    if widen > 1:
        ck.notes.append("source tie DS.Props.SrcShape broken (%s): search widened x%d" % (
            ", ".join(tie3_info.get("broken_theorems") or tie3_info.get("failed_modules") or ["translator"]), widen))
    ck.notes.append("call sequences on one parent object (cut, edit atoms in place, cut again): %d" % nseq)
    # sphere = ellipsoid with equal radii (implementation side, exact)
    from diffpy.structure.expansion.makeellipsoid import makeEllipsoid, makeSphere

    for spec, radii, sphere in cases:
        if not sphere:
            continue
        ck.coverage["evaluations"] += 1
        same = sphere_equals_ellipsoid(spec, radii[0])
        if not same:
            ck.fail("cut:sphere", "makeSphere(r=%r) differs from makeEllipsoid(r,r,r)" % radii[0],
                    {"kind": "sphere-eq", "input": {"structure": spec, "radii": radii}})
    # findCenter alone, on random (non-block) structures
    fc_specs = [gen_structure(rng, natoms=rng.choice([1, 2, 3, 5, 8])) for _ in range((30 if quick else 200) * widen)]
    fl = []
    for s in fc_specs:
        lat = s["lattice"]
        ws = ["ell.center"] + [bits(x) for x in lat["abcABG"]] + [bits(x) for row in lat["baserot"] for x in row] + [str(len(s["atoms"]))]
        for at in s["atoms"]:
            ws += [str(at["vid"])] + [bits(x) for x in at["xyz"]]
        fl.append(" ".join(ws))
    for s, o in zip(fc_specs, common.driver(fl)):
        ck.coverage["traces_validated_against_impl"] += 1
        try:
            S = build(s)
            got = findCenter(S)
            d = [float(S.lattice.dist(a.xyz, [0.5, 0.5, 0.5])) for a in S]
        except Exception as e:  # noqa: BLE001
            got, d = "raised %r" % (e,), []
        if str(got) != o.strip():
            mi = int(o) if o.strip().lstrip("-").isdigit() else None
            isint = isinstance(got, (int, numpy.integer)) and not isinstance(got, bool)
            tie = mi is not None and isint and 0 <= mi < len(d) and 0 <= got < len(d) and abs(d[mi] - d[got]) < 1e-9
            if not tie:
                ck.fail("tie:ell.center", "findCenter: model %s, implementation %r (distances %r)" % (o, got, d),
                        {"kind": "correspondence", "input": {"structure": s}, "theorem": "DS.Expand.findCenter"}, no_failing_input=True)
    # the Lean counter-example to the unconditional geometric reading of "no site twice"
    # (DS.Props.C18.nodup_positions_statement_false), replayed on the implementation: recorded, not a failure --
    # the two input atoms are the same crystal site; pairs (parent, translation) stay distinct (oracle above).
    sp = {"lattice": {"kind": "textbook", "abcABG": [2.0, 2.0, 2.0, 90.0, 90.0, 90.0], "baserot": [[1.0, 0.0, 0.0], [0.0, 1.0, 0.0], [0.0, 0.0, 1.0]]},
          "title": "dup", "atoms": [{"element": "Ni", "xyz": [0.0, 0.0, 0.0], "label": "a", "occupancy": 1.0, "vid": 0},
                                    {"element": "Cu", "xyz": [1.0, 0.0, 0.0], "label": "b", "occupancy": 1.0, "vid": 1}]}
    try:
        Rd = _limited(lambda: makeEllipsoid(build(sp), 1.5))
        Cd = [tuple(round(float(x), 9) for x in c) for c in Rd.xyz_cartn]
    except Exception as e:  # noqa: BLE001  informational only
        Cd = [repr(e)]
    ck.notes.append("input with two lattice-equivalent atoms (x=0 and x=1): %d returned atoms on %d distinct positions (same behaviour as the model; "
                    "positions are pairwise different only for inputs without lattice-equivalent atoms)" % (len(Cd), len(set(Cd))))
    ck.coverage["distinct_nontrivial"] += nontrivial
    ck.coverage["samples"] = samples
    ck.coverage["rule"] = (
        "%d seeded cases: cell kind in cubic/hex/ortho/mono/rhomb/triclinic (orientation and size classes of the C15 generator: 40%% not in "
        "the standard orientation, of these a third mirror-image settings; cell edges from 1e-4 to thousands of Angstrom), 1-6 atoms in "
        "[0,1)^3 (a quarter of the templates also outside) incl. special positions, in a third of the templates with several atoms two or "
        "three different atoms on ONE position or within 1e-4 A (mixed occupancy) or a split site, textbook mixed-occupancy templates, 1-3 radii (25%% integer-valued) with block multiplier 1..%d, plus spheres, the empty structure and a "
        "rotated cell with block multiplier < 1; distinct_nontrivial = cases where the cut-out keeps more than one and fewer than all "
        "block atoms" % (len(cases), cap))
    ck.notes.append("templates with several atoms on one position (within 1e-3 A; mixed occupancy, near pairs, split sites): %d cut, completeness "
                    "judged per (parent atom, translation) in %d of them" % (stats["shared_site_cases"], stats["shared_site_complete_judged"]))
    ck.notes.append("block multipliers returned: %r; implementation errors (outside the statement): %r" % (stats["mno_hist"], stats["errors"]))
    ck.notes.append("atoms within 1e-9 of the surface excluded from the model comparison: %d; sites within 1e-9 of the surface skipped by the "
                    "completeness oracle: %d; cases with exact float arithmetic (surface atoms compared, d == 1.0): %d (%d surface atoms); centre chosen among equidistant atoms (model re-run with the implementation's choice): %d"
                    % (stats["surface_excluded"], stats["oracle_surface"], stats["exact_cases"], stats["exact_surface_compared"], stats["centre_ties"]))
    ck.assumptions += [
        "IEEE floating point, numpy dot/inv and pow(x, 0.5) are modelled by real arithmetic in the theorems; the tie excludes atoms within 1e-9 of the surface",
        "the supercell block is the model of C15; attributes other than xyz are an opaque bundle",
        "an empty structure raises IndexError and a block multiplier < 1 raises ValueError (the source's FIXME for rotated cells): outside the "
        "statement, reproduced by the model, counted in the notes",
        "fresh allocation of the result is the heap model of C15 (supercellH); the oracle checks object identities on CPython",
        "source tie DS.Props.SrcShape: findCenter / makeEllipsoid / makeSphere are transliterated by translate/src_shape.py (its reading of "
        "Python is trusted: int indices with negatives from the end, `** 0.5` as sqrt, `sum` from 0, for-loops as folds, IndexError the only "
        "exception of the subset; math.ceil of a non-finite float raising is not modelled) and proved equal to the model for all inputs",
        GEOM_ASSUMPTION,
    ]
    ck.coverage["trusted_base"] += ["harness/c18.py oracle (plain numpy enumeration of lattice sites)", "compiled Lean model driver (DS.Expand.expandHandle)"]
    ck.tie_verdict(tie_ok, tie_info, "lattice.py")
    ck.tie_verdict(tie2_ok, tie2_info, "supercell_mod.py")
    ck.tie_verdict(tie3_ok, tie3_info, "shapeutils.py findCenter / makeellipsoid.py makeEllipsoid, makeSphere")
    ck.tie_verdict(geom_ok, geom_info, "lattice.py cartesian / fractional / norm / dist / setLatPar vs the lattice record of the cut-out model")
    if not ok and not ck.violations:
        ck.fail("lean-build", "Lean obligations of C18 no longer check: %r" % (info["failed_modules"],),
                {"kind": "proof-obligation", "theorem": info["failed_modules"], "errors": info["errors"]}, no_failing_input=True)
    if ck.tier == "thorough" and ok:
        thorough(ck)


def compare_kept(M, kept, stats, exact=False):
    near = {i for i, d in enumerate(M["d"]) if abs(d - 1) <= SURF and not (exact and d == 1.0)}
    if exact:
        stats["exact_surface_compared"] += sum(1 for d in M["d"] if d == 1.0)
    a = set(M["kept"]) - near
    b = set(kept) - near
    stats["surface_excluded"] += len(near)
    dis = []
    if a != b:
        only_m = sorted(a - b)[:5]
        only_i = sorted(b - a)[:5]
        dis.append("kept block atoms differ: only model %r (d %r), only implementation %r (d %r)" % (
            only_m, [M["d"][i] for i in only_m], only_i, [M["d"][i] for i in only_i]))
    elif [i for i in M["kept"] if i not in near] != [i for i in kept if i not in near]:
        dis.append("kept atoms come in a different order")
    return dis


def thorough(ck):
    """leanchecker re-check of the compiled obligations (thorough tier)."""
    with common.LeanLock():
        rc, out, err = common.run(["lake", "env", "leanchecker", "DS.Props.C18", "DS.Lemmas.Expand"], cwd=common.LEAN, timeout=7200)
    ck.notes.append("leanchecker DS.Props.C18 DS.Lemmas.Expand: rc=%d %s" % (rc, (out + err)[-300:]))
    if rc != 0:
        raise common.Broken("leanchecker rejected DS.Props.C18: " + (out + err)[-1000:])


def sphere_equals_ellipsoid(spec, r):
    """makeSphere(S, r) and makeEllipsoid(S, r, r, r) behave alike: the same atoms in the same cell, or the same kind of
    exception (the block multiplier < 1 of a rotated lattice - the source's FIXME - and an empty input are outside the
    statement, but a sphere is then still the ellipsoid with three equal radii)"""
    import numpy
    from diffpy.structure.expansion.makeellipsoid import makeEllipsoid, makeSphere

    def run(f, *a):
        try:
            return ("ok", _limited(lambda: f(build(spec), *a)))
        except Exception as e:  # noqa: BLE001
            return ("exc", type(e).__name__)

    A, B = run(makeSphere, r), run(makeEllipsoid, r, r, r)
    if A[0] != B[0]:
        return False
    if A[0] == "exc":
        return A[1] == B[1]
    A, B = A[1], B[1]
    return len(A) == len(B) and A.lattice.abcABG() == B.lattice.abcABG() and all(
        attrs_of(x) == attrs_of(y) and numpy.array_equal(x.xyz, y.xyz) for x, y in zip(A, B))


def replay(path):
    common.use_repo()
    r = json.load(open(path))
    inp = r.get("input", {})
    if r.get("kind") == "import":
        try:
            import importlib

            importlib.import_module("diffpy.structure.expansion.shapeutils")
        except Exception as e:  # noqa: BLE001
            print("FAILS import: %r" % (e,))
            return 1
        print("the package imports")
        return 0
    if "structure" not in inp or "radii" not in inp:
        print("replay names no concrete input:", r.get("theorem"))
        return 1
    if r.get("kind") == "sequence":
        try:
            fails = oracle_sequence(inp["structure"], inp["edited"], tuple(inp["swap"]) if inp.get("swap") else None, inp["radii"])
        except Exception as e:  # noqa: BLE001
            fails = [("unexpected:%s" % type(e).__name__, "evaluation failed with %r" % (e,))]
        for key, msg in fails:
            print("FAILS cut:%s %s" % (key, msg))
        if not fails:
            print("oracle holds on this sequence")
        return 1 if fails else 0
    if r.get("kind") == "sphere-eq":
        import numpy
        from diffpy.structure.expansion.makeellipsoid import makeEllipsoid, makeSphere

        same = sphere_equals_ellipsoid(inp["structure"], inp["radii"][0])
        print("sphere == ellipsoid:", same)
        return 0 if same else 1
    try:
        if r.get("kind") == "correspondence":
            fails, dis = tie_one(inp["structure"], inp["radii"])
            for d_ in dis:
                print("DISAGREES with the model: %s" % d_)
            fails = list(fails) + [("tie", d_) for d_ in dis]
        else:
            fails, _ = oracle(inp["structure"], inp["radii"], r.get("kind") == "sphere")
    except Exception as e:  # noqa: BLE001
        fails = [("unexpected:%s" % type(e).__name__, "evaluation of the result failed with %r" % (e,))]
    for key, msg in fails:
        print("FAILS cut:%s %s" % (key, msg))
    if not fails:
        print("oracle holds on this input")
    return 1 if fails else 0
