"""C13 — parsers reject bad input only with the documented format error.

Deciding method (DESIGN 4.C13): Lean model of the control flow of every `parseLines` over abstract
documents with the handler tuples GENERATED from the source (translate/handlers.py -> DS/Gen/Handlers.lean);
theorems in DS/Props/C13.lean (handler tuple sufficient and necessary, per format); this module ties
the model to the code: abstraction alpha (real str.split/float/int + real library primitives for the
oracle fields), outcome kinds compared model vs real parser on (a) single-fault corruptions of valid
documents, (b) random abstract documents rendered to text, (c) the witness documents the model gives
for every needed-but-unhandled kind.  The oracle is the statement itself: the exception type the real
parser ends with (5 s watchdog, address-space cap; a hang is a failure).
"""
import json
import os
import re
import sys

from . import c13_abs as A
from . import c13_gen as G
from . import common
from .common import LEAN, VERIF

GEN = os.path.join(LEAN, "DS", "Gen")
CORPUS = os.path.join(os.path.dirname(os.path.abspath(__file__)), "c13_corpus")
ALLOWED = ("ok", "none", "SFE", "NotImpl")
QUICK_MUTANTS = 3000
QUICK_RANDOM = 700


def driver(lines):
    """common.driver, retried when another builder relinks the driver binary at this very moment."""
    import time

    for attempt in range(6):
        try:
            return common.driver(lines)
        except (FileNotFoundError, PermissionError, OSError, common.DriverBroken):
            if attempt == 5:
                raise
            time.sleep(5 + 5 * attempt)
            common._driver_built = False


# ---- (b) random abstract documents ------------------------------------------------------------

INTS = ["0", "1", "1", "2", "-1", "7", G.HUGE, "+1"]
FLOATS = ["0.5", "4.5", "90.0", "0.0", "nan", "inf", "-2.5", "1e400"]
JUNK = ["abc", "#", "#c", "1,2", "pdffit", "sphere", "stepcut"]


def _tok(rng, want="any"):
    r = rng.random()
    if want == "float":
        return rng.choice(FLOATS + INTS[:5]) if r < 0.9 else rng.choice(JUNK)
    if want == "int":
        return rng.choice(INTS) if r < 0.9 else rng.choice(JUNK + FLOATS[:2])
    return rng.choice(INTS + FLOATS + JUNK)


def _sep(rng):
    return rng.choice([" ", " ", ", ", ","])


def _cell(rng):
    r = rng.random()
    if r < 0.55:
        v = ["4.5", "4.5", "4.5", "90", "90", "90"]
    elif r < 0.65:
        v = ["0", "4.5", "4.5", "90", "90", "90"]
    elif r < 0.75:
        v = ["4.5", "4.5", "4.5", "10", "10", "170"]
    elif r < 0.8:
        v = ["4.5", "4.5", "4.5", "90", "90", "0"]
    elif r < 0.85:
        v = ["inf", "4.5", "4.5", "90", "90", "90"]
    else:
        v = [_tok(rng, "float") for _ in range(rng.randrange(0, 8))]
    s = _sep(rng)
    return "cell " + s.join(v)


def rand_pdffit_like(rng, discus):
    lines = []
    kws = ["title", "scale", "sharp", "spcgr", "shape", "dcell", "format", "generator", "molecule", "symmetry", "foo", "",
           "#c", "atoms"]
    ncell = None
    for _ in range(rng.randrange(0, 5)):
        k = rng.choice(kws)
        if k in ("generator", "molecule", "symmetry") and rng.random() < 0.7:
            continue
        args = [_tok(rng, "float" if k in ("scale", "sharp", "dcell", "shape") else "any") for _ in range(rng.randrange(0, 5))]
        if k == "shape" and rng.random() < 0.7:
            args = [rng.choice(["sphere", "stepcut", "sphere,", "box"])] + args
        lines.append((k + " " + _sep(rng).join(args)).strip())
    if rng.random() < 0.85:
        lines.insert(rng.randrange(0, len(lines) + 1), _cell(rng))
    if rng.random() < 0.7:
        n = rng.randrange(0, 6)
        ncell = [rng.choice(["1", "1", "1", "2", "0", "-1", G.HUGE, "abc"]) for _ in range(n)]
        lines.insert(rng.randrange(0, len(lines) + 1), "ncell " + _sep(rng).join(ncell))
    if rng.random() < 0.9:
        lines.append("atoms")
        prod = 1
        try:
            for v in (ncell if ncell is not None else ([1, 1, 1, 0])):
                prod *= int(v)
        except ValueError:
            prod = 1
        natoms = prod if (rng.random() < 0.6 and 0 <= prod <= 4) else rng.randrange(0, 3)
        for _ in range(natoms):
            if discus:
                f = ["Ni"] + [_tok(rng, "float") if rng.random() < 0.1 else "0.5" for _ in range(rng.choice([4, 4, 4, 3, 5]))]
                lines.append(_sep(rng).join(f) if rng.random() < 0.3 else " ".join(f))
            else:
                blk = [["Ni", "0.0", "0.5", "0.5", "1.0"], ["0.0", "0.0", "0.0", "0.0"], ["0.1", "0.1", "0.1"], ["0", "0", "0"],
                       ["0", "0", "0"], ["0", "0", "0"]]
                if rng.random() < 0.3:
                    i = rng.randrange(6)
                    j = rng.randrange(len(blk[i]))
                    r = rng.random()
                    if r < 0.4:
                        blk[i][j] = _tok(rng)
                    elif r < 0.7:
                        blk[i] = blk[i][:j]
                    else:
                        blk = blk[:i]
                lines += [" ".join(b) for b in blk]
    if rng.random() < 0.2:
        lines.append("")
    return "\n".join(lines) + "\n"


def rand_xyz(rng, raw):
    lines = []
    for _ in range(rng.randrange(0, 2)):
        lines.append(rng.choice(["", "# c", "#c"]))
    n = rng.randrange(0, 4)
    if not raw:
        r = rng.random()
        lines.append(str(n) if r < 0.6 else rng.choice(["+%d" % n, "abc", "1 2", str(n + 1), "0", "-1", "1.0", G.HUGE]))
        if rng.random() < 0.85:
            lines.append(rng.choice(["title", "", "# x", "1 2 3 4"]))
    ncol = rng.choice([4, 4, 4, 3, 5, 2]) if not raw else rng.choice([3, 4, 4, 3, 2, 5])
    for _ in range(n):
        f = ["0.5"] * ncol
        if ncol >= 4 and (not raw or rng.random() < 0.7):
            f[0] = "C"
        if rng.random() < 0.25:
            f[rng.randrange(len(f))] = _tok(rng)
        if rng.random() < 0.1:
            f = f[:-1]
        lines.append(" ".join(f))
        if rng.random() < 0.1:
            lines.append("")
    for _ in range(rng.randrange(0, 2)):
        lines.append("")
    return "\n".join(lines) + "\n"


def rand_xcfg(rng):
    """Random abstract XCFG document (encoding words), rendered by c13_abs.render_xcfg."""
    def tokf(kind):
        r = rng.random()
        if r < 0.8:
            return ("1", "n", "1") if kind == "f" else ("1", rng.choice(["1", "2", "0", "3", "4", "5", "-1"]), "1")
        if r < 0.9:
            return ("1", "n", "0")
        return ("0", "n", "0")
    def X(hk, t=("0", "n", "0"), hi="s", hj="s", ai="n", ao=0, nw=0, w0=0, af=0):
        return "X%d,%s,%s,%s,%s,%s,%s,%d,%d,%d,%d" % (hk, t[0], t[1], t[2], hi, hj, ai, ao, nw, w0, af)
    words = []
    novel = rng.random() < 0.7
    naux = rng.choice([0, 0, 1, 2])
    auxs = []
    for i in range(naux):
        idx = i if rng.random() < 0.8 else rng.choice([0, 3, 10 ** 10])
        auxs.append((idx, rng.choice([0, 0, 0, 1, 2, 3, 4])))
    natoms = rng.randrange(0, 3)
    if rng.random() < 0.2:
        words.append(X(rng.choice([0, 1])))
    if rng.random() < 0.92:
        words.append(X(2, tokf("i") if rng.random() < 0.3 else ("1", str(natoms if rng.random() < 0.8 else natoms + 1), "1")))
    hdr = []
    if rng.random() < 0.9:
        hdr.append(X(3, tokf("f")))
    skip = rng.randrange(9) if rng.random() < 0.15 else -1
    for k in range(9):
        if k == skip:
            continue
        i, j = k // 3 + 1, k % 3 + 1
        hi, hj = str(i), str(j)
        if rng.random() < 0.04:
            hi = rng.choice(["0", "4", "b", "s", "9"])
        if rng.random() < 0.04:
            hj = rng.choice(["0", "4", "b", "s"])
        hdr.append(X(4, tokf("f") if rng.random() < 0.1 else ("1", "n", "1"), hi, hj))
    if novel:
        hdr.append(X(5))
    ec = len({a for a, _ in auxs}) + (3 if novel else 6)
    if auxs and max(a for a, _ in auxs) < 100:
        ec = max(a for a, _ in auxs) + 1 + (3 if novel else 6)
    if rng.random() < 0.92:
        hdr.append(X(6, ("1", str(ec if rng.random() < 0.85 else ec + 1), "1")))
    for a, o in auxs:
        hdr.append(X(7, ("1", "n", "0") if rng.random() < 0.95 else ("0", "n", "0"), ai=str(a), ao=o))
    if rng.random() < 0.2:
        rng.shuffle(hdr)
    words += hdr
    words.append(X(8, nw=1, w0=1, af=1))          # mass line ends the header
    if rng.random() < 0.9:
        words.append(X(8, nw=1))                  # element
    for _ in range(natoms):
        r = rng.random()
        if r < 0.8:
            words.append(X(8, nw=ec, w0=1, af=1))
        elif r < 0.9:
            words.append(X(8, nw=ec, w0=1, af=0))
        else:
            words.append(X(8, nw=max(2, ec - 1), w0=1, af=1))
    base = rng.choice([0, 0, 0, 0, 2, 3])
    return ["B%d" % base] + words


def rand_pdb(rng):
    def P(k, n=0, af=0, uf=0, oc=0, b=0, el=0, la=0, iv=1, co=1, off=0):
        return "P%d,%d,%d,%d,%d,%d,%d,%d,%d,%d,%d" % (k, n, af, uf, oc, b, el, la, iv, co, off)
    words = []
    for _ in range(rng.randrange(1, 7)):
        k = rng.choice([0, 1, 2, 3, 4, 5, 6, 6, 6, 7, 8, 9, 9, 10, 11])
        n = rng.choice([3, 3, 3, 6, 6, 0, 1, 2, 4, 7])
        if k in (8, 9) and rng.random() < 0.7:
            n = 6
        if k in (3, 4, 5, 6, 7) and rng.random() < 0.7:
            n = 3
        af = int(rng.random() < 0.85)
        words.append(P(k, n, af, int(rng.random() < 0.85), int(rng.random() < 0.8), int(rng.random() < 0.8),
                       int(rng.random() < 0.9), rng.choice([0, 0, 0, 1, 2, 3]), 1, 1, int(rng.random() < 0.1)))
    if rng.random() < 0.3:          # a complete SCALE block
        at = rng.randrange(0, len(words) + 1)
        la = rng.choice([0, 0, 3])
        words[at:at] = [P(3, 3, 1, 1), P(4, 3, 1, 1), P(5, 3, 1, 1, la=la, off=int(rng.random() < 0.3))]
    return words


def random_text(fmt, rng):
    if fmt == "pdffit":
        return rand_pdffit_like(rng, False)
    if fmt == "discus":
        return rand_pdffit_like(rng, True)
    if fmt == "xyz":
        return rand_xyz(rng, False)
    if fmt == "rawxyz":
        return rand_xyz(rng, True)
    if fmt == "xcfg":
        return A.render_xcfg(rand_xcfg(rng))
    if fmt == "pdb":
        return A.render_pdb(rand_pdb(rng))
    return None


def multi_fault(fmt, seeds, rng):
    """2-4 independent single-fault corruptions of a valid document."""
    name, txt = rng.choice(seeds)
    if len(txt) > 6000:
        name, txt = min(seeds, key=lambda s: len(s[1]))
    for _ in range(rng.randrange(2, 5)):
        ds = G.mutant_descriptors(txt)
        if not ds:
            break
        txt = G.apply_mutant(txt, rng.choice(ds))
    return txt


# ---- corpus of minimised past failures -----------------------------------------------------------

def load_corpus():
    out = []
    if os.path.isdir(CORPUS):
        for fn in sorted(os.listdir(CORPUS)):
            if fn.endswith(".json"):
                try:
                    d = json.load(open(os.path.join(CORPUS, fn)))
                    out.append((fn, d["format"], d["text"]))
                except Exception:
                    pass
    return out


# ---- reader source tie ---------------------------------------------------------------------------------

TIE_FORMATS = ("xyz", "rawxyz", "discus", "pdffit")


def reader_tie_formats(tie_ok, tie_info):
    """formats whose reader tie (DS.Props.SrcReaders) is broken: named by the broken theorems / untranslatable methods
    (`xyz_*`, `parseXyz_eq`, `rawxyz_*`, `parseRawxyz_eq`, `discus*`, `parseDiscus_eq`, `pdffit*`, `parsePdffit_eq`); when nothing can
    be attributed, all tied formats"""
    if tie_ok:
        return set()
    names = list(tie_info.get("broken_theorems") or [])
    for v in (tie_info.get("translator") or {}).values():
        if isinstance(v, dict):
            names += list((v.get("untranslatable") or {}).keys())
    out = set()
    for n in names:
        low = n.lower()
        if "discus" in low:
            out.add("discus")
        elif "pdffit" in low:
            out.add("pdffit")
        elif "rawxyz" in low:
            out.add("rawxyz")
        elif "xyz" in low:
            out.add("xyz")
    return out or set(TIE_FORMATS)


# ---- the check ---------------------------------------------------------------------------------------

class Tally:
    """Collects oracle failures and model/real disagreements; one ck.fail per distinct key."""

    def __init__(self):
        self.oracle = {}       # key -> [count, fmt, text, info]
        self.disagree = {}     # key -> [count, fmt, text, model, real]
        self.unmodelled = {}

    def see(self, stream, fmt, text, real, alpha_res, model):
        kind, cls, msg = real
        if kind not in ALLOWED:
            key = G.failure_key(fmt, real)
            e = self.oracle.setdefault(key, [0, fmt, text, {"stream": stream, "kind": kind, "exception": cls, "message": msg}])
            e[0] += 1
            if len(text) < len(e[2]):
                e[2] = text
        if alpha_res[0] is None:
            self.unmodelled[alpha_res[1]] = self.unmodelled.get(alpha_res[1], 0) + 1
        elif model is not None and model != kind:
            key = "corr:%s:model=%s:real=%s" % (fmt, model, kind)
            e = self.disagree.setdefault(key, [0, fmt, text, model, kind, stream])
            e[0] += 1
            if len(text) < len(e[2]):
                e[2] = text


def run_stream(ck, tally, stream, fmt, texts):
    """real parser + alpha in the workers, model through the driver; returns (n, kinds histogram, results, model)."""
    texts = list(texts)
    res = G.run_many([(fmt, t, True) for t in texts])
    idx = [i for i, (r, a) in enumerate(res) if a[0] is not None]
    model = {}
    batch, size = [], 0
    def flush():
        nonlocal batch, size
        if batch:
            out = driver(["parse.%s %s" % (fmt, " ".join(res[i][1][0])) for i in batch])
            model.update(zip(batch, out))
        batch, size = [], 0
    for i in idx:
        batch.append(i)
        size += sum(len(w) + 1 for w in res[i][1][0])
        if size > 40_000_000:
            flush()
    flush()
    hist = {}
    for i, t in enumerate(texts):
        r, a = res[i]
        m = model.get(i)
        if m in ("bad-op", "bad-doc"):
            tally.unmodelled["driver:" + m] = tally.unmodelled.get("driver:" + m, 0) + 1
            a = (None, "driver:" + m)
            m = None
        tally.see(stream, fmt, t, r, a, m)
        hist[r[0]] = hist.get(r[0], 0) + 1
        ck.coverage["evaluations"] += 1
        if m is not None:
            ck.coverage["traces_validated_against_impl"] += 1
    return len(texts), hist, res, model


def add_hist(a, b):
    for k, v in b.items():
        a[k] = a.get(k, 0) + v
    return a


def run(ck):
    sys.path.insert(0, VERIF)
    from translate import handlers

    rep = handlers.main(GEN, os.path.join(GEN, "handlers_report.json"))
    G.init_real()
    tally = Tally()
    ck.coverage["rule"] = (
        "per format: corpus of minimised past failures, then single-fault corruptions of valid documents (truncate at every "
        "line/token, delete/duplicate/swap lines, each token -> empty/blank/word/0/-1/huge/nan/inf/'1,2'/'#'; %s), random "
        "abstract documents rendered to text, 2-4-fault corruptions, and the Lean witness of every needed kind the generated "
        "handler tuple lacks; distinct_nontrivial = distinct texts whose real outcome is not 'ok'" % (
            "%d sampled per format, stratified by seed document" % QUICK_MUTANTS if ck.tier == "quick" else "all"))
    # 1. Lean obligations over the generated handler tuples
    ok, info = ck.lean_obligations("DS.Props.C13", extra_targets=["DS.Gen.Handlers"])
    # reader tie: `xyzRun` / `rawxyzRun` / `parseDiscus` / `parsePdffit` ARE the current source of P_xyz / P_rawxyz / P_discus / P_pdffit .parseLines (translate/src_readers.py:
    # statement-by-statement transliteration; DS.Props.SrcReaders proves the models equal to it for every abstract document)
    tie_ok, tie_info = ck.source_tie("DS.Props.SrcReaders", groups=("readers",))
    tie_broken_fmts = reader_tie_formats(tie_ok, tie_info)
    for p in rep["problems"]:
        ck.fail("translator:" + p.split(":")[0], "translate/handlers.py: " + p,
                {"kind": "translator", "detail": p}, no_failing_input=True)
    good, rejected = G.seed_corpus()
    for fmt, name, k, msg in rejected:
        ck.notes.append("seed %s/%s is rejected by its own parser (%s: %s); not used as a seed" % (fmt, name, k, msg))
    dist = {}
    nontrivial = 0
    samples = []
    # 2. corpus of minimised past failures (runs first)
    by_fmt = {}
    for fn, fmt, text in load_corpus():
        by_fmt.setdefault(fmt, []).append(text)
    for fmt, texts in by_fmt.items():
        n, hist, _, _ = run_stream(ck, tally, "corpus", fmt, texts)
        dist.setdefault(fmt, {})["corpus"] = hist
    # 3. witnesses from the model for every needed kind the generated tuples lack
    esc = driver(["parse.escapes %s" % f for f in G.FORMATS])
    for fmt, line in zip(G.FORMATS, esc):
        if line in ("-", "bad-op"):
            continue
        for item in line.split(" | "):
            _, kind, enc = item.split(":", 2)
            words = enc.split()
            text = A.render(fmt, words) if words != ["?"] else None
            if text is None:
                ck.notes.append("model: %s lacks %s in its handler tuple; no text rendering of the abstract witness" % (fmt, kind))
                continue
            n, hist, res, model = run_stream(ck, tally, "witness", fmt, [text])
            real, a = res[0]
            realised = a[0] == words
            samples.append({"witness": fmt, "kind": kind, "text": text[:200], "real": real[0], "realises_abstract_doc": realised})
            if real[0] in ALLOWED:
                ck.fail("witness:%s:%s" % (fmt, kind),
                        "model: %s escapes %s on the witness document, the real parser ends with %s" % (kind, fmt, real[0]),
                        {"kind": "correspondence", "stream": "witness", "format": fmt, "text": text, "model": kind, "real": real[0],
                         "theorem": "DS.Parsers.parse%s_escapes" % fmt.capitalize()}, no_failing_input=True)
    reuse_texts = {}      # texts of the single-fault stream, a sample of which is also given to a parser object that has read valid files before
    # 4. (a) single-fault corruptions (materialised in batches: the thorough tier runs all of them)
    for fmt in G.FORMATS:
        cases = [(txt, G.mutant_descriptors(txt)) for name, txt in good[fmt]]
        total = sum(len(ds) for _, ds in cases)
        todo = []
        # a broken reader tie of this format is not a verdict: twice the corruptions (and random documents below)
        budget = QUICK_MUTANTS * (2 if fmt in tie_broken_fmts else 1)
        if ck.tier == "quick" and total > budget:
            # equal share per seed document; what small documents do not use goes to the larger ones
            quota = {i: 0 for i in range(len(cases))}
            left, open_ = budget, set(quota)
            while left > 0 and open_:
                share = max(1, left // len(open_))
                for i in sorted(open_):
                    take = min(share, len(cases[i][1]) - quota[i], left)
                    quota[i] += take
                    left -= take
                    if quota[i] >= len(cases[i][1]):
                        open_.discard(i)
                    if left <= 0:
                        break
            for i, (txt, ds) in enumerate(cases):
                todo += [(txt, d) for d in (ds if len(ds) <= quota[i] else ck.rng.sample(ds, quota[i]))]
            # always: every distinct record keyword (first word of a line) once in each other letter case
            kw_seen = set()
            for txt, ds in cases:
                ls = txt.split("\n")
                for d in ds:
                    if d[0] == "case" and d[2] == 0:
                        w = ls[d[1]].split()[0]
                        if (w, d[3]) not in kw_seen:
                            kw_seen.add((w, d[3]))
                            todo.append((txt, d))
        else:
            for txt, ds in cases:
                todo += [(txt, d) for d in ds]
        hist, nrun, seen = {}, 0, set()
        first = sorted({t for _, t in good[fmt]})
        for b in range(0, max(1, len(todo)), 1500):
            texts = set(first) if b == 0 else set()
            for txt, d in todo[b:b + 1500]:
                t = G.apply_mutant(txt, d)
                h = hash(t)
                if h not in seen:
                    seen.add(h)
                    texts.add(t)
            texts = sorted(texts)
            n, h1, res, model = run_stream(ck, tally, "single-fault", fmt, texts)
            if len(reuse_texts.setdefault(fmt, set())) < 20000:
                reuse_texts[fmt].update(texts)
            add_hist(hist, h1)
            nrun += n
            nontrivial += sum(1 for r, a in res if r[0] != "ok")
            if b == 0 and texts:
                i = len(texts) // 2
                samples.append({"single-fault": fmt, "text": texts[i][:160], "real": res[i][0][0], "model": model.get(i)})
        dist.setdefault(fmt, {})["single-fault"] = dict(hist, _descriptors=total, _run=nrun)
    # 4b. record keywords of the parser under examination brought into valid documents (branches the seeds never enter)
    for fmt in G.FORMATS:
        if not good[fmt]:
            continue
        seeds = sorted(good[fmt], key=lambda nt: len(nt[1]))[:2]
        texts = set()
        for name, txt in seeds:
            texts.update(G.keyword_documents(fmt, txt, ck.rng, 1200 if ck.tier == "quick" else 20000))
        n, h1, res, model = run_stream(ck, tally, "keyword", fmt, sorted(texts))
        nontrivial += sum(1 for r, a in res if r[0] != "ok")
        dist.setdefault(fmt, {})["keyword"] = dict(h1, _keywords=len(G.source_keywords(fmt)), _run=n)
    # 4c. the source of a tied reader changed and names record words the model does not know: documents that use ALL the new
    # record kinds together (each with element names / numbers as arguments), combined with shortened or renamed atom lines
    for fmt in ("discus", "pdffit"):
        if fmt not in tie_broken_fmts or not good[fmt]:
            continue
        newkw = [w for w in G.source_keywords(fmt) if re.fullmatch(r"[a-z][a-z_]{2,12}", w) and w not in A.KW
                 and w not in ("sphere", "stepcut", "pdffit", "the", "not", "and", "for", "file", "format", "line", "read", "atoms", "is", "in")]
        if not newkw:
            continue
        texts = set()
        for name, txt in sorted(good[fmt], key=lambda nt: len(nt[1]))[:3]:
            lines = txt.split("\n")
            ia = next((i for i, l in enumerate(lines) if l.split()[:1] == ["atoms"]), None)
            if ia is None:
                continue
            els = sorted({l.split()[0] for l in lines[ia + 1:] if l.split() and not l.startswith("#")})
            argsets = [" ".join(els), ", ".join(els), " ".join(els[:1]), "1 2 3", " ".join("0.5" for _ in els), ", ".join("0.5" for _ in els[:1]), ""]
            for order in (newkw, newkw[::-1]):
                for a1 in argsets:
                    for a2 in argsets:
                        hdr = [("%s %s" % (w, a1 if k % 2 == 0 else a2)).rstrip() for k, w in enumerate(order)]
                        base = lines[:ia] + hdr + lines[ia:]
                        texts.add("\n".join(base))
                        ib = ia + len(hdr) + 1
                        for j in range(ib, min(len(base), ib + 4)):
                            ws = base[j].split()
                            for keep in (4, 3, 2, 1):
                                if len(ws) > keep:
                                    texts.add("\n".join(base[:j] + [" ".join(ws[:keep])] + base[j + 1:]))
                            if ws:
                                texts.add("\n".join(base[:j] + [" ".join(["Xx"] + ws[1:])] + base[j + 1:]))
                                texts.add("\n".join(base[:j] + [" ".join(["Xx"] + ws[1:4])] + base[j + 1:]))
        texts = sorted(texts)[:4000]
        n, h1, res, model = run_stream(ck, tally, "combo", fmt, texts)
        nontrivial += sum(1 for r, a in res if r[0] != "ok")
        dist.setdefault(fmt, {})["combo"] = dict(h1, _new_keywords=newkw, _run=n)
    # 5. (b) random abstract documents rendered to text, and multi-fault corruptions
    nrand = QUICK_RANDOM if ck.tier == "quick" else 20000 // 6
    for fmt in G.FORMATS:
        texts = set()
        wide = 4 if fmt in tie_broken_fmts else 1
        if fmt != "cif":
            for _ in range(nrand * wide):
                texts.add(random_text(fmt, ck.rng))
        if good[fmt]:
            for _ in range((nrand // 2 if fmt != "cif" else nrand // 4) * wide):
                texts.add(multi_fault(fmt, good[fmt], ck.rng))
        if fmt == "cif":
            texts |= set(A.CIF_TEXTS.values())
        texts = sorted(texts)
        n, hist, res, model = run_stream(ck, tally, "random", fmt, texts)
        nontrivial += sum(1 for r, a in res if r[0] != "ok")
        dist.setdefault(fmt, {})["random"] = dict(hist, _run=n)
    # 5. (c) one parser object reading several texts in a row: "for any text whatsoever" also holds for a parser that has read
    # other files before (state kept on the instance between calls)
    reuse_fail = {}
    nreuse = 0
    for fmt in G.FORMATS:
        pool_ok = [t for _, t in good[fmt]][:4]
        if not pool_ok:
            continue
        cand = sorted(reuse_texts.get(fmt, ()))
        ck.rng.shuffle(cand)
        cand = cand[: (250 if ck.tier == "quick" else 3000)]
        jobs = []
        for t in cand:
            k = ck.rng.choice([1, 1, 2])
            jobs.append((fmt, [ck.rng.choice(pool_ok) for _ in range(k)] + [t], False))
        res = G.run_many(jobs)
        hist = {}
        for (f_, seq, _), (r, _a) in zip(jobs, res):
            nreuse += 1
            hist[r[0]] = hist.get(r[0], 0) + 1
            if r[0] not in ALLOWED:
                key = "reuse:" + G.failure_key(fmt, r)
                e = reuse_fail.setdefault(key, [0, fmt, seq, r])
                e[0] += 1
                if sum(map(len, seq)) < sum(map(len, e[2])):
                    e[2], e[3] = seq, r
        dist.setdefault(fmt, {})["reuse"] = dict(hist, _run=len(jobs))
    ck.coverage["evaluations"] += nreuse
    for key, (cnt, fmt, seq, r) in sorted(reuse_fail.items()):
        # already failing with a fresh parser: reported by the streams above
        if G.run_one(fmt, seq[-1])[0] not in ALLOWED:
            continue
        ck.fail(key, "%s parser object that has read %d valid text(s) before ends with %s (%s) on the next text instead of StructureFormatError "
                "(a fresh parser object handles that text as documented); %d sequence(s) this run; last text %r" % (fmt, len(seq) - 1, r[1], r[2], cnt, seq[-1][:200]),
                {"kind": "oracle-reuse", "format": fmt, "texts": seq, "exception": r[1], "message": r[2], "occurrences": cnt})
    # 6. verdicts
    for key, (cnt, fmt, text, inf) in sorted(tally.oracle.items()):
        small = G.shrink(fmt, text, key) if len(text) > 80 else text
        if G.failure_key(fmt, G.run_one(fmt, small)) != key:
            small = text
        ck.fail(key, "%s parser ends with %s (%s) instead of StructureFormatError; %d input(s) this run; minimal text %r" % (
            fmt, inf["exception"], inf["message"], cnt, small[:200]),
            {"kind": "oracle", "format": fmt, "text": small, "exception": inf["exception"], "message": inf["message"],
             "stream": inf["stream"], "occurrences": cnt})
    for key, (cnt, fmt, text, m, r, stream) in sorted(tally.disagree.items()):
        ck.fail(key, "model and real %s parser disagree (%d input(s), stream %s): model %s, real %s; text %r" % (
            fmt, cnt, stream, m, r, text[:200]),
            {"kind": "correspondence", "format": fmt, "text": text, "model": m, "real": r, "stream": stream,
             "theorem": "correspondence stream %s/%s" % (stream, fmt)}, no_failing_input=True)
    if tie_broken_fmts:
        ck.notes.append("source tie DS.Props.SrcReaders broken (%s): search widened for %s (x2 single-fault corruptions, x4 random / "
                        "multi-fault documents)" % (", ".join(tie_info.get("broken_theorems") or tie_info.get("failed_modules") or ["translator"]),
                                                    ", ".join(sorted(tie_broken_fmts))))
    ck.tie_verdict(tie_ok, tie_info, "C13 readers: parsers/p_xyz.py P_xyz.parseLines, parsers/p_rawxyz.py P_rawxyz.parseLines, parsers/p_discus.py "
                   "P_discus.parseLines with its record helpers, parsers/p_pdffit.py P_pdffit.parseLines with _parse_shape")
    if not ok and not ck.violations:
        ck.fail("lean-build", "Lean obligations of C13 no longer check: %r" % (info["failed_modules"],),
                {"kind": "proof-obligation", "theorem": info["failed_modules"], "errors": info["errors"],
                 "log": info.get("log_tail", "")}, no_failing_input=True)
    ck.coverage["distinct_nontrivial"] += nontrivial
    ck.coverage["samples"] = samples[:8]
    ck.coverage["distribution"] = dist
    ck.coverage["unmodelled"] = tally.unmodelled
    ck.coverage["handler_tuples"] = rep["cfg"]
    ck.coverage["model_escapes"] = [e for e in esc if e not in ("-",)]
    ck.coverage["reader_tie"] = {
        "module": "DS.Props.SrcReaders", "ok": tie_ok, "tied": list(TIE_FORMATS),
        "not_tied": "xcfg, pdb, cif: control flow tied differentially only",
        "broken_formats": sorted(tie_broken_fmts)}
    ck.coverage["trusted_base"] += [
        "translate/src_readers.py (statement-by-statement transliteration of P_xyz.parseLines / P_rawxyz.parseLines / P_discus.parseLines "
        "with its record helpers, line iterator and dispatch dictionary / P_pdffit.parseLines with _parse_shape; its conventions "
        "- tokens are non-empty strings, addNewAtom(str, xyz=list of floats) does not raise, message building does not raise - are "
        "listed at the top of the file)",
        "translate/handlers.py (ast reading of the except clauses)",
        "harness/c13_abs.py (abstraction alpha; oracle fields computed with the real Lattice/numpy/_assign_auxiliaries/PyCifRW)"]
    ck.assumptions += [
        "numeric library calls (Lattice, setLatPar, setLatBase, numpy.linalg.inv, setattr on Atom) are oracle fields of the "
        "abstract document: the theorems quantify over all their outcomes in {ok, ValueError, ZeroDivisionError, LatticeError}, "
        "alpha computes them with the real primitive",
        "CIF: PyCifRW and the four block parsers are parameters raising kinds of enumerated sets (CifDoc.wf); alpha checks the "
        "sets on every document it abstracts",
        "XCFG auxiliary names that overwrite Atom internals (lattice, _U, _anisotropy) are outside the modelled domain "
        "(still judged by the oracle)",
        "P_cif.parse returning None (no block with _atom_site_label) is counted as an accepted result: Structure.read/readStr "
        "and P_auto handle it explicitly",
        "numpy.linalg.LinAlgError is a ValueError subclass"]
    G.close_pool()
    if ck.tier == "thorough":
        with common.LeanLock():
            rc, out, err = common.run(["lake", "env", "leanchecker", "DS.Props.C13"], cwd=LEAN, timeout=3600)
        ck.notes.append("leanchecker DS.Props.C13: rc=%d %s" % (rc, (out + err)[-200:]))
        if rc != 0 and ok:
            raise common.Broken("leanchecker rejected DS.Props.C13: " + (out + err)[-1000:])


def replay(path):
    common.use_repo()
    r = json.load(open(path))
    if r.get("kind") == "oracle-reuse":
        kind, cls, msg = G.run_many([(r["format"], r["texts"], False)])[0][0]
        print("one %s parser object, %d text(s) in a row, outcome of the last: %s %s %s" % (r["format"], len(r["texts"]), kind, cls, msg))
        G.close_pool()
        return 0 if kind in ALLOWED else 1
    fmt, text = r.get("format"), r.get("text")
    if fmt is None or text is None:
        print("replay: no input recorded (%s)" % r.get("kind"))
        return 1
    kind, cls, msg = G.run_one(fmt, text)
    print("real %s parser: %s %s %s" % (fmt, kind, cls, msg))
    G.close_pool()
    if r.get("kind") == "correspondence":
        a, why = A.alpha(fmt, text)
        if a is None:
            print("document outside the modelled domain: %s" % why)
            return 0
        m = driver(["parse.%s %s" % (fmt, " ".join(a))])[0]
        print("model: %s" % m)
        return 1 if m != kind else 0
    return 0 if kind in ALLOWED else 1
