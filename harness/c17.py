"""C17 — file content is treated as data, never executed.

Deciding method
  * translator `translate/sinks.py` (ast of every module reachable from the parser entry points)
    -> lean/DS/Gen/Sinks.lean; Lean `DS.Props.C17`: no_tainted_exec_sink, attr_sinks_reviewed,
    no_eval_anywhere (decided against the generated list and the reviewed allow-list);
  * Lean model of `getSymOp` as the literal grammar (symop_numeric, symop_rejects, render_parse);
    correspondence model <-> real `getSymOp` on operator strings that an evaluator would accept but the
    grammar must reject, and on ones both accept (expected values known by construction);
  * dynamic oracle: every real parse of the correspondence and of a corpus of adversarial documents
    (Python-looking payloads in every field position of documents of all 8 input formats) runs in a
    subprocess under `sys.addaudithook`; compile/exec/import/open-for-writing/process events caused by
    the input, new files in the working directory and new entries of sys.modules are failures.
    NUMERIC fields (cell parameters, coordinates, occupancies, displacement parameters, counts, scale factors) of
    every format get their own payloads: arithmetic-only ratios (`1/3`, `(1)/3`, `2**-1/1`: evaluating them has no
    effect but the compilation itself), and harmless observable calls (a directory / a file in the temporary working
    directory, an import) written without one ASCII letter - identifiers in mathematical / full-width alphabets,
    which the Python compiler NFKC-normalises to `__import__`, `chr`, `mkdir`, `open`.  A compile event counts as
    caused by the input when the compiled text is a piece of the input or contains a whole field of it, whatever the
    parse returns afterwards (a format error does not undo the compilation).

The worker part of this file runs in a fresh interpreter (`python -m harness.c17`).
"""
import json
import os
import shutil
import subprocess
import sys
from fractions import Fraction

if __name__ != "__main__":
    from . import common
    from .common import LEAN, VERIF

WATCH_PREFIX = ("os.system", "os.exec", "os.posix_spawn", "os.spawn", "os.fork", "os.forkpty", "subprocess.", "os.remove", "os.rename",
                "os.mkdir", "os.rmdir", "os.chmod", "os.chown", "os.link", "os.symlink", "os.truncate", "os.putenv", "os.unsetenv",
                "os.kill", "shutil.", "socket.", "ctypes.", "pty.spawn", "webbrowser.open", "urllib.Request", "ftplib.", "smtplib.",
                "http.client", "sys.addaudithook", "code.__new__", "function.__new__", "marshal.load", "pickle.find_class", "winreg.",
                "tempfile.", "os.startfile", "cpython.run_", "sys._getframe_no")


# ======================================================================================
# worker (fresh interpreter)
# ======================================================================================

def _worker(job):
    import re as _re
    _rx_tok = _re.compile(r"[A-Za-z_][A-Za-z0-9_]{1,}")
    import unicodedata as _ud
    state = {"armed": False, "events": [], "tokens": set(), "benign": 0, "learn": False, "text": "", "fields": []}
    allowed_sources = set()
    templates = set()
    forbidden_modules = set(job.get("forbidden_modules", ()))
    _rx_field = _re.compile(r"'[^'\n]*'|\"[^\"\n]*\"|\S+")

    def input_fields(text):
        """fields of the input: whitespace-separated words and quoted strings, with and without quotes / a trailing comma;
        three characters at least; not part of a code template the library compiles for valid documents anyway"""
        out = set()
        for w in set(_rx_field.findall(text)) | set(text.split()):
            for v in (w, w.strip("'\""), w.rstrip(","), w.strip("'\"").strip()):
                if len(v) >= 3 and not any(v in t for t in templates):
                    out.add(v)
        return sorted(out, key=lambda v: (-len(v), v))

    def hook(event, args):
        if not state["armed"]:
            if state["learn"] and event == "compile" and isinstance(args[0], str) and len(templates) < 10000:
                templates.add(args[0])      # code templates the library compiles for valid documents (warm-up)
            return
        try:
            if event == "compile":
                src = args[0]
                if isinstance(src, (bytes, bytearray)):
                    src = src.decode("utf-8", "replace")
                if isinstance(src, str) and src.strip() in allowed_sources:
                    return
                fname = args[1] if isinstance(args[1], str) else ""
                if fname.endswith(".py") and os.path.isfile(fname) and (fname.startswith(job["src"]) or fname.startswith(sys.prefix) or fname.startswith(sys.base_prefix)):
                    return      # the import system compiling a module source (lazy import; judged by the `import` event and sys.modules)
                # text of the input handed to the compiler: the compiled text IS a piece of the input, or contains a whole
                # field of it (whatever the outcome of the parse is - a format error afterwards does not undo the compilation)
                if isinstance(src, str) and src not in templates:
                    bare = src.strip()
                    hit = None
                    if bare and bare in state["text"]:
                        hit = bare
                    else:
                        for f_ in state["fields"]:
                            if f_ in src:
                                hit = f_
                                break
                    if hit is not None:
                        state["events"].append(["compile", repr(src)[:200], repr(args[1])[:80], "input text compiled: %r" % hit[:80]])
                        return
                # library-internal code templates (collections.namedtuple in PyCifRW) are not caused by the input:
                # an event counts when the compiled text shares an identifier-like token with the input
                txt = src if isinstance(src, str) else repr(src)
                if not (set(_rx_tok.findall(txt)) & state["tokens"]):
                    state["benign"] += 1
                    return
                state["events"].append(["compile", repr(src)[:200], repr(args[1])[:80]])
            elif event == "exec":
                co = args[0]
                names = set(getattr(co, "co_names", ()))
                strs = {c for c in getattr(co, "co_consts", ()) if isinstance(c, str)}
                if getattr(co, "co_filename", "") == "<string>" and names <= {"diffpy.structure.parsers", "pm"} | state["pmods"]:
                    return      # the registry import command of parsers.getParser
                if not ((names | strs | set(getattr(co, "co_varnames", ()))) & state["tokens"]):
                    state["benign"] += 1
                    return
                state["events"].append(["exec", getattr(co, "co_filename", "?"), sorted(names)[:10]])
            elif event == "import":
                state["events"].append(["import", str(args[0])])
            elif event == "open":
                path, mode, flags = args[0], args[1], args[2]
                writing = (isinstance(mode, str) and bool(set(mode) & set("wax+"))) or (mode is None and isinstance(flags, int) and flags & (os.O_WRONLY | os.O_RDWR | os.O_CREAT | os.O_APPEND | os.O_TRUNC))
                if writing:
                    state["events"].append(["open-write", repr(path)[:120], repr(mode)])
            elif event.startswith(WATCH_PREFIX):
                state["events"].append([event, repr(args)[:200]])
        except Exception as e:  # never let the hook disturb the parse
            state["events"].append(["hook-error", repr(e)[:100]])

    state["pmods"] = set()
    sys.addaudithook(hook)
    os.chdir(job["cwd"])
    sys.path.insert(0, job["src"])
    import diffpy.structure
    from diffpy.structure import Structure
    from diffpy.structure.parsers import parser_index
    from diffpy.structure.parsers.p_cif import P_cif, getSymOp
    from diffpy.structure.structureerrors import StructureFormatError

    assert os.path.realpath(diffpy.structure.__file__).startswith(os.path.realpath(job["src"])), diffpy.structure.__file__
    for fmt, prop in parser_index.items():
        allowed_sources.add("from diffpy.structure.parsers import %s as pm" % prop["module"])
        state["pmods"].add(prop["module"])
    # support for the allow-list reason of P_cif._get_atom_setters: the table only names _tr_* methods
    setters_ok = all(isinstance(v, str) and v.startswith("_tr_") and callable(getattr(P_cif, v, None)) for v in P_cif._atom_setters.values())
    # warm-up: lazy imports, lookup tables
    state["learn"] = True
    for d in job["warmup"]:
        try:
            s = Structure()
            s.readStr(d["text"], d["fmt"])
            for f in ("xcfg", "cif", "pdb", "xyz", "pdffit", "discus", "rawxyz"):
                s.writeStr(f)
        except Exception:
            pass
    for op in ("x,y,z", "-x,1/2+y,z+.5"):
        getSymOp(op)
    # fill the two lazily built lookup tables and let a failing CIF / auto parse happen once before the first snapshot
    import diffpy.structure.spacegroups as _sgs
    _sgs.GetSpaceGroup(1)
    _sgs.FindSpaceGroup(_sgs.SpaceGroupList[0].symop_list)
    # (only successful parses before the first snapshot: state lost on an error path must show up as a difference)
    import diffpy.structure.parsers.p_auto  # noqa
    try:
        import CifFile.yapps3_compiled_rt  # noqa
    except Exception:
        pass
    import locale
    import warnings
    import gc
    import numpy

    _BASIC = (bool, int, float, str, bytes, complex, type(None))

    memo = {}       # digests of one snapshot, by object identity (one object has one value at one instant)

    def dg(v, depth):
        """structural digest: containers by content, library objects by identity + scalar attributes, the rest by identity"""
        t = type(v)
        if t in _BASIC:
            return repr(v)
        if t in (list, tuple):
            if depth <= 0:
                return (t.__name__, len(v), id(v))
            key = ("c", id(v), depth)
            r = memo.get(key)
            if r is None:
                r = memo[key] = (t.__name__, tuple(dg(x, depth - 1) for x in v))
            return r
        if t in (set, frozenset):
            return (t.__name__, len(v)) if depth <= 0 else (t.__name__, tuple(sorted(repr(dg(x, depth - 1)) for x in v)))
        if isinstance(v, dict):
            if depth <= 0:
                return ("dict", len(v), id(v))
            key = ("c", id(v), depth)
            r = memo.get(key)
            if r is None:
                r = memo[key] = ("dict", tuple(sorted(((repr(dg(k, 1)), dg(x, depth - 1)) for k, x in list(v.items())), key=lambda kv: kv[0])))
            return r
        if isinstance(v, numpy.ndarray):
            key = ("a", id(v))
            r = memo.get(key)
            if r is None:
                r = memo[key] = ("ndarray", v.shape, hash(v.tobytes()))
            return r
        if getattr(t, "__module__", "").startswith("diffpy.structure") and hasattr(v, "__dict__") and depth > 0:
            key = ("o", id(v))
            r = memo.get(key)
            if r is None:
                r = memo[key] = (t.__name__, id(v), tuple(sorted((k, dg(x, 0) if type(x) not in _BASIC else repr(x)) for k, x in vars(v).items())))
            return r
        return (t.__name__, id(v))

    def snapshot():
        snap = {}
        memo.clear()
        for name, mod in list(sys.modules.items()):
            if mod is None or not name.startswith("diffpy.structure"):
                continue
            for k, v in list(vars(mod).items()):
                if k.startswith("__") and k.endswith("__"):
                    continue
                if isinstance(v, type(sys)):
                    continue
                snap["%s.%s" % (name, k)] = dg(v, 3)
                if isinstance(v, type) and getattr(v, "__module__", None) == name:
                    for ck_, cv in list(vars(v).items()):
                        if ck_.startswith("__") and ck_.endswith("__"):
                            continue
                        if type(cv) in _BASIC or isinstance(cv, (dict, list, set, tuple, frozenset)):
                            snap["%s.%s.%s" % (name, k, ck_)] = dg(cv, 2)
                        else:
                            snap["%s.%s.%s" % (name, k, ck_)] = (type(cv).__name__, id(cv))
        # contents of the tabulated objects: every SpaceGroup of SpaceGroupList (scalar fields, identity and length of
        # symop_list, identity and values of R and t of every SymOp)
        for _i, _g in enumerate(_sgs.SpaceGroupList):
            _nm = "diffpy.structure.spacegroups.SpaceGroupList[%d #%s]" % (_i, getattr(_g, "number", "?"))
            snap[_nm + ".fields"] = (id(_g),) + tuple(sorted((k, repr(x) if type(x) in _BASIC else "%s@%d" % (type(x).__name__, id(x)))
                                                             for k, x in vars(_g).items()))
            _ops = getattr(_g, "symop_list", None)
            if isinstance(_ops, list):
                try:
                    _t = tuple([(id(o), id(o.R), o.R.tobytes(), id(o.t), o.t.tobytes()) for o in _ops])
                except AttributeError:      # something that is not a SymOp with array parts
                    _t = tuple((id(o), id(o.R), o.R.tobytes(), id(o.t), o.t.tobytes()) if hasattr(o, "R") and hasattr(o.R, "tobytes") and hasattr(o, "t")
                               and hasattr(o.t, "tobytes") else (id(o), repr(o)) for o in _ops)
                snap[_nm + ".symops"] = (id(_ops), len(_ops), _t)
            else:
                snap[_nm + ".symops"] = repr(type(_ops))
        snap["diffpy.structure.spacegroups.SpaceGroupList.len"] = (id(_sgs.SpaceGroupList), len(_sgs.SpaceGroupList))
        try:
            import CifFile.yapps3_compiled_rt as _y
            snap["CifFile.yapps3_compiled_rt.print_error"] = (getattr(_y.print_error, "__qualname__", "?"), id(_y.print_error))
            import CifFile.StarFile as _sf
            for k in ("print_error",):
                if hasattr(_sf, k):
                    snap["CifFile.StarFile." + k] = id(getattr(_sf, k))
        except Exception:
            pass
        snap["sys.stdout"] = id(sys.stdout)
        snap["sys.stderr"] = id(sys.stderr)
        snap["sys.stdin"] = id(sys.stdin)
        snap["sys.displayhook"] = id(sys.displayhook)
        snap["sys.excepthook"] = id(sys.excepthook)
        snap["os.getcwd"] = os.getcwd()
        snap["os.environ"] = tuple(sorted(os.environ.items()))
        snap["os.umask"] = None
        snap["numpy.geterr"] = tuple(sorted(numpy.geterr().items()))
        snap["numpy.printoptions"] = repr(sorted(numpy.get_printoptions().items(), key=lambda kv: kv[0]))
        snap["warnings.filters"] = len(warnings.filters)
        snap["locale.getlocale"] = repr(locale.getlocale())
        snap["sys.path"] = tuple(sys.path)
        snap["sys.meta_path"] = len(sys.meta_path)
        snap["sys.path_hooks"] = len(sys.path_hooks)
        snap["sys.recursionlimit"] = sys.getrecursionlimit()
        snap["gc.isenabled"] = gc.isenabled()
        snap["sys.gettrace"] = id(sys.gettrace())
        snap["sys.getprofile"] = id(sys.getprofile())
        memo.clear()
        return snap

    def snap_diff(a, b):
        out = []
        for k in a:
            if k in b and a[k] != b[k]:
                if k.endswith(".fields") and isinstance(a[k], tuple) and isinstance(b[k], tuple):
                    da, db = dict(a[k][1:]), dict(b[k][1:])
                    names = sorted(n for n in set(da) | set(db) if da.get(n) != db.get(n)) or ["<identity>"]
                    out.append("%s: %s" % (k[:-len(".fields")], ", ".join("%s %s -> %s" % (n, da.get(n), db.get(n)) for n in names[:3])))
                else:
                    out.append(k)
        # attributes that disappeared / appeared in modules present before
        mods_a = {k.rsplit(".", 1)[0] for k in a}
        for k in b:
            if k not in a and k.rsplit(".", 1)[0] in mods_a:
                out.append(k + " (new)")
        for k in a:
            if k not in b:
                out.append(k + " (deleted)")
        return sorted(out)

    state["learn"] = False
    state["snap"] = snapshot()
    import io as _io  # noqa
    stdlib = set(getattr(sys, "stdlib_module_names", ()))
    mods = set(sys.modules)
    files = set(os.listdir("."))

    def run_item(fn, text):
        nonlocal mods, files
        state["events"] = []
        # identifiers of the input, also in the form the compiler reads them (NFKC: `𝐜𝐡𝐫`, `ｃｈｒ` are `chr`)
        state["tokens"] = set(_rx_tok.findall(text)) | set(_rx_tok.findall(_ud.normalize("NFKC", text)))
        state["text"] = text
        state["fields"] = input_fields(text)
        state["armed"] = True
        try:
            try:
                out = fn()
            except StructureFormatError as e:
                out = ["SFE", str(e)[:120]]
            except BaseException as e:  # noqa
                out = ["exc", type(e).__name__, str(e)[:120]]
        finally:
            state["armed"] = False
        viol = []
        for ev in state["events"]:
            if ev[0] == "import":
                m = ev[1]
                top = m.split(".")[0]
                lazy_ok = m.startswith("diffpy.structure") or top in ("CifFile", "encodings") or (top in stdlib and top not in text)
                if not lazy_ok or top in forbidden_modules:
                    viol.append(ev)
            else:
                viol.append(ev)
        newmods = set(sys.modules) - mods
        bad = sorted(m for m in newmods if m.split(".")[0] in forbidden_modules or not (
            m.startswith("diffpy.structure") or m.split(".")[0] in ("CifFile", "encodings")
            or (m.split(".")[0] in stdlib and m.split(".")[0] not in text)))
        if bad:
            viol.append(["sys.modules", bad[:6]])
        mods |= newmods
        newfiles = sorted(set(os.listdir(".")) - files)
        if newfiles:
            viol.append(["new-files", newfiles[:6]])
            files |= set(newfiles)
        # process state before / after (the previous `after` is this parse's `before`)
        after = snapshot()
        changed = snap_diff(state["snap"], after)
        state["snap"] = after
        if changed:
            viol.append(["global-state", sorted(changed, key=lambda c: (not c.startswith("diffpy.structure.spacegroups.SpaceGroupList["), c))[:8]])
        return out, viol

    res_ops = []
    for op in job["ops"]:
        def f(op=op):
            o = getSymOp(op)
            return ["ok", [float(x) for x in o.R.ravel()], [float(x) for x in o.t]]
        res_ops.append(run_item(f, op))
    res_docs = []
    for d in job["docs"]:
        def g(d=d):
            s = Structure()
            s.readStr(d["text"], d["fmt"])
            r = ["ok", len(s)]
            if d.get("write"):
                try:
                    s.writeStr(d["write"])
                    r.append("written")
                except StructureFormatError:
                    r.append("write-SFE")
                except Exception as e:  # noqa
                    r.append("write-" + type(e).__name__)
            return r
        res_docs.append(run_item(g, d["text"]))
    return {"ops": res_ops, "docs": res_docs, "setters_ok": setters_ok, "benign_compile_exec": state["benign"]}


if __name__ == "__main__":
    job = json.load(sys.stdin)
    json.dump(_worker(job), sys.stdout)
    sys.exit(0)


# ======================================================================================
# harness
# ======================================================================================

PAY = [
    "__import__('os').mkdir('PWNED')",
    "open('PWNED2','w').write('q')",
    "__import__('wave')",
    "eval(compile('1','q','eval'))",
    "__import__('os').system('mkdir${IFS}PWNED3')",
    "exec(\"import_colorsys\".replace('_',chr(32)))",
]
# payloads usable inside one operator component: no comma, no blank, no x/y/z letter
PAY_OP = [p for p in PAY if "," not in p and not set(p.lower()) & set("xyz ")]

# modules that payloads try to import (in any spelling): never a legitimate lazy import of the library
FORBIDDEN_MODULES = ["wave", "colorsys", "sndhdr", "cgi"]

# ---- payloads for NUMERIC fields -----------------------------------------------------------------------
# arithmetic only: nothing observable happens when such a text is evaluated, except that it was compiled
NUM_ARITH = ["1/3", "(1)/3", "2**-1/1", "(2/3)", "-1/2", "1/3.", "[1][0]/1", "1_0/3", "+1/+3", "1//3", "3%2/1", "~1/1", "1/3+0", "1/1e0", "(1,)[0]/3",
             ".5/1", "1/3(2)", "1/0", "''/1", "1/3#"]
# harmless but observable calls written without any quoted name (`chr` sums), so that every letter is part of an identifier
NUM_CALLS = [
    "__import__(chr(111)+chr(115)).mkdir('7351')",                       # os.mkdir in the (temporary) working directory
    "__import__(chr(119)+chr(97)+chr(118)+chr(101))",                    # import wave
    "open(chr(80)+chr(87),chr(119)).close()",                            # creates the file PW
]
# alphabets whose letters NFKC-normalise to a-z: Python reads identifiers spelled with them as the ASCII names
UNI_STYLES = {"bold": 0x1D41A, "italic": 0x1D44E, "bold-italic": 0x1D482, "sans": 0x1D5BA, "sans-bold": 0x1D5EE, "monospace": 0x1D68A,
              "double-struck": 0x1D552, "fullwidth": 0xFF41, "fraktur": 0x1D51E, "bold-script": 0x1D4EA}


def uni_spell(s, style):
    """the ASCII small letters of `s` in another alphabet (the text contains no ASCII letter afterwards if it had no capitals)"""
    import unicodedata

    base = UNI_STYLES[style]
    out = []
    for c in s:
        if "a" <= c <= "z":
            u = chr(base + ord(c) - 97)
            if unicodedata.normalize("NFKC", u) != c:       # holes of the block (italic h is U+210E)
                u = {"h": "\u210e"}.get(c, c) if style == "italic" else c
            out.append(u)
        else:
            out.append(c)
    return "".join(out)


def numeric_payloads(k, n_arith, n_uni, with_plain=True):
    """payloads for the k-th numeric field: rotating through the lists so that every payload and every alphabet meets
    fields of every kind; always at least one arithmetic ratio and one letter-free call ending in `/1`"""
    out = []
    for j in range(n_arith):
        # the first one is a plain ratio (`1/3`, `(1)/3`, `2**-1/1` in turn), the others go through the rest of the list
        out.append(("arith", NUM_ARITH[k % 3] if j == 0 else NUM_ARITH[3 + (k * (n_arith - 1) + j - 1) % (len(NUM_ARITH) - 3)]))
    styles = sorted(UNI_STYLES)
    forms = ["%s/1", "%s", "(%s)/1", "1/%s", "0+%s/1"]
    for j in range(n_uni):
        i = k * n_uni + j
        call = NUM_CALLS[i % len(NUM_CALLS)]
        st = styles[(i // len(NUM_CALLS)) % len(styles)]
        form = forms[0] if j == 0 else forms[(i // 2) % len(forms)]
        out.append(("unicode:" + st, form % uni_spell(call, st)))
    if with_plain:
        out.append(("plain", [PAY[0] + "/1", "1/" + PAY[2], PAY[1] + "/1"][k % 3]))
    return out


def is_number(tok):
    t = tok.rstrip(",")
    try:
        float(t)
        return bool(t)
    except ValueError:
        return False


def put_token(line, ti, new):
    """`line` with its ti-th whitespace-separated word replaced; a word that fits keeps the columns (fixed-column formats)"""
    import re

    m = list(re.finditer(r"\S+", line))[ti]
    old = m.group()
    comma = "," if old.endswith(",") and len(old) > 1 else ""
    if len(new) + len(comma) <= len(old):
        new = (new + comma).rjust(len(old))
    else:
        new = new + comma
    return line[:m.start()] + new + line[m.end():]


def cif_quote(p):
    if "'" not in p:
        return "'%s'" % p
    if '"' not in p:
        return '"%s"' % p
    return "\n;%s\n;\n" % p


CIF_BASE2 = """data_adv2
_cell_length_a 4.1(1)
_cell_length_b 5.2
_cell_length_c 6.7
_cell_angle_alpha 90
_cell_angle_beta 101.5
_cell_angle_gamma 90.
_symmetry_Int_Tables_number 1
_cell_formula_units_Z 2
loop_
_atom_site_label
_atom_site_Cartn_x
_atom_site_Cartn_y
_atom_site_Cartn_z
_atom_site_B_iso_or_equiv
_atom_site_occupancy
_atom_site_adp_type
Zn1 0.5 1.25 2.0 0.8 1 Bani
S1 1.5 0.25 1e-1 1.2(3) .5 Biso
loop_
_atom_site_aniso_label
_atom_site_aniso_B_11
_atom_site_aniso_B_22
_atom_site_aniso_B_33
_atom_site_aniso_B_12
_atom_site_aniso_B_13
_atom_site_aniso_B_23
Zn1 0.8 0.9 1.0 0.1 -0.1 0.0
"""


def numeric_field_docs(ck, base_docs):
    """payloads in the NUMERIC fields of every format: cell parameters, coordinates, occupancies, displacement parameters,
    counts, scale factors ... (every whitespace-separated word that reads as a number)"""
    quick = ck.tier == "quick"
    docs = []
    k = 0
    bases = list(base_docs) + [("cif", CIF_BASE2)]
    for fmt, text in bases:
        lines = text.split("\n")
        for li, line in enumerate(lines):
            toks = line.split()
            if fmt == "cif" and line.lstrip().startswith(("loop_", "data_", "'", '"')):
                continue
            for ti, tok in enumerate(toks):
                if not (is_number(tok) or (fmt == "cif" and tok[:1].isdigit())):
                    continue
                if fmt == "cif" and ti == 0 and len(toks) > 1 and line.lstrip().startswith("_"):
                    continue
                k += 1
                if fmt == "cif":
                    pays = numeric_payloads(k, 2 if quick else len(NUM_ARITH), 2 if quick else 30, with_plain=True)
                else:
                    pays = numeric_payloads(k, 1 if quick else 6, 2 if quick else 12, with_plain=not quick or k % 4 == 0)
                for fam, p in pays:
                    if fmt == "cif":
                        bare_ok = not any(c.isspace() for c in p) and p[0] not in "_#$'\"[];" and "'" not in p and '"' not in p
                        q = p if (bare_ok and (k + len(p)) % 2) else cif_quote(p)
                    else:
                        if any(c.isspace() for c in p):
                            continue
                        q = p
                    newline = put_token(line, ti, q)
                    docs.append({"fmt": fmt, "text": "\n".join(lines[:li] + [newline] + lines[li + 1:]), "pos": ["numeric", li, ti],
                                 "payload": p, "mode": "numeric:" + fam, "write": "xcfg" if fmt == "xcfg" else None})
    return docs


EVAL_ACCEPTS = ["2**-1", "(1)/2", "1e0", "0x1", "True", "1 if 1 else 0", "__import__('os').getcwd()", "1//2", "1*2", "abs(1)", "1_0", "1j",
                "0b1", "-(1/2)", "1/2/3", "+-1", "--1", "1.5.2", "1/0", "1/0.0", "1/", "/2", ".", "+", "-", "1+", "1/+2", "1/-2", "1e-1",
                "0o7", "1.e1", "float(1)", "[1][0]", "1;2", "1#", "1\t", "\t1", "'1'", "1.0f", "1/2.5.1", "3%2", "~1", "1<<1", "1and1",
                "1or0", "not0", "1==1", "lambda:1", "None", "1,", "1/2+", "1/2-+1/4", "٣", "½", "１/２"]


def frac_text(rng):
    """(text, exact value) of one literal number"""
    k = rng.randrange(8)
    if k == 0:
        n, d = rng.randrange(0, 25), rng.choice([2, 3, 4, 6, 8, 12, 24])
        return "%d/%d" % (n, d), Fraction(n, d)
    if k == 1:
        n = rng.randrange(0, 4)
        return "%d" % n, Fraction(n)
    if k == 2:
        a, b = rng.randrange(0, 3), rng.randrange(0, 1000)
        return "%d.%03d" % (a, b), Fraction(a * 1000 + b, 1000)
    if k == 3:
        b = rng.randrange(0, 100)
        return ".%02d" % b, Fraction(b, 100)
    if k == 4:
        a = rng.randrange(0, 5)
        return "%d." % a, Fraction(a)
    if k == 5:
        n, d = rng.randrange(1, 9), rng.choice(["2.", ".5", "0.25", "4.0", "08"])
        return "%d/%s" % (n, d), Fraction(n) / Fraction(d.rstrip(".") if d != "08" else "8")
    if k == 6:
        n = rng.randrange(0, 10 ** 6)      # larger numerators lose the fractional part to float rounding
        return "%d/%d" % (n, 24), Fraction(n, 24)
    return "0%d/0%d" % (rng.randrange(0, 9), rng.randrange(1, 9)), None


def gen_row(rng):
    """random accepted component: (text, R row, exact constant)"""
    terms = []
    row = [0, 0, 0]
    const = Fraction(0)
    n = rng.randrange(1, 5)
    prev_num = False
    for i in range(n):
        if rng.random() < 0.55:
            ax = rng.randrange(3)
            sg = rng.choice(["", "+", "-"]) if (i == 0 or True) else rng.choice(["+", "-"])
            if sg == "" and terms and prev_num is False and not terms[-1][-1:].lower() in "xyz":
                sg = "+"
            letter = "xyz"[ax] if rng.random() < 0.8 else "XYZ"[ax]
            terms.append(sg + letter)
            row[ax] += -1 if sg == "-" else 1
            prev_num = False
        else:
            txt, val = frac_text(rng)
            if val is None:
                a, b = txt.split("/")
                val = Fraction(int(a), int(b))
            sg = rng.choice(["+", "-"]) if prev_num else rng.choice(["", "+", "-"])
            terms.append(sg + txt)
            const += -val if sg == "-" else val
            prev_num = True
    txt = "".join(terms)
    if rng.random() < 0.3:
        txt = " ".join(txt) if rng.random() < 0.3 else txt.replace("+", " + ")
    return txt, row, const


def build_ops(ck):
    rng = ck.rng
    quick = ck.tier == "quick"
    ops = []   # (string, family, expected) expected: ("ok", R, t) | "reject" | "index" | None (non-ASCII: oracle only)
    for _ in range((140 if quick else 3000) * getattr(ck, "widen", 1)):
        rows = [gen_row(rng) for _ in range(3)]
        s = ",".join(r[0] for r in rows)
        if rng.random() < 0.15:
            s += "," + rng.choice(["", "z", "garbage", PAY[0]])
        ops.append((s, "accepted", ("ok", [r[1] for r in rows], [r[2] % 1 for r in rows])))
    base = ["x", "y", "z"]
    for e in EVAL_ACCEPTS:
        for variant in range(3 if quick else 6):
            comp = rng.randrange(3)
            b = list(base)
            if variant % 3 == 0:
                b[comp] = b[comp] + "+" + e
            elif variant % 3 == 1:
                b[comp] = e + "+" + b[comp] if not e.endswith(("+", "-")) else e + b[comp]
            else:
                b[comp] = e
            s = ",".join(b)
            asc = all(ord(c) < 128 for c in s)
            # a letter x/y/z inside the expression is a variable term of the grammar (`0x1` reads as 0 + x + 1): model decides
            # and a leading/trailing sign or a comma can combine with the neighbouring term into a valid operator
            plain = "," not in e and not (set(e.lower()) & set("xyz"))
            clean = plain and e[0] not in "+-" and e[-1] not in "+-"
            ops.append((s, "evaluator-only", None if not asc else "reject" if (clean or (plain and variant % 3 == 2)) else "model"))
    for p in PAY_OP:
        for form in ("x,y,z+%s", "x,%s,z", "%s,y,z", "x,y,1/2+%s", "x,y,%s/2", "x,y,1/%s", "x,y,z+1/2%s", "x,y,z-%s+1/4"):
            ops.append((form % p, "payload", "reject"))
    # the same calls spelled in other alphabets (no ASCII letter, so none of them is an x/y/z term either)
    for i, st in enumerate(sorted(UNI_STYLES)):
        for call in NUM_CALLS[:2]:
            p = uni_spell(call, st)
            for form in (("x,y,z+%s", "x,y,%s/1", "%s,y,z") if not quick else (("x,y,z+%s", "x,y,%s/1", "%s,y,z")[i % 3],)):
                ops.append((form % p, "payload-unicode", "reject"))
    for s in ["", "x", "x,y", ",", ",,", "x,,z", ",,,", "x,y,z", "X , Y , Z", "x,y,z,", "x;y;z", "x,y\n,z", "x,y,z\n", "-x,-y,-z", "x-y,x,z", "2x,y,z",
              "x2,y,z", "x1/2,y,z", "1/2x,y,z", "x/2,y,z", "x,y,z+1 2", "x,y,z+1\t", "xx,y,z", "x+x-x,y,z", "+x,+y,+z", "x,y,zz", "x,y,z" * 50]:
        comps = s.replace(" ", "").split(",")
        ops.append((s, "structural", "index" if len(comps) < 3 else "model"))
    return ops


CIF_BASE = """data_adv
_cell_length_a 4.1
_cell_length_b 4.1
_cell_length_c 6.7
_cell_angle_alpha 90
_cell_angle_beta 90
_cell_angle_gamma 120
_symmetry_space_group_name_H-M 'P 1'
loop_
_symmetry_equiv_pos_as_xyz
'x, y, z'
'-x, -y, z+1/2'
loop_
_atom_site_label
_atom_site_type_symbol
_atom_site_fract_x
_atom_site_fract_y
_atom_site_fract_z
_atom_site_occupancy
_atom_site_U_iso_or_equiv
Zn1 Zn 0.3333 0.6667 0.0 1.0 0.01
S1 S 0.3333 0.6667 0.375 0.5 0.02
loop_
_atom_site_aniso_label
_atom_site_aniso_U_11
_atom_site_aniso_U_22
_atom_site_aniso_U_33
_atom_site_aniso_U_12
_atom_site_aniso_U_13
_atom_site_aniso_U_23
Zn1 0.01 0.01 0.02 0.005 0 0
"""


def render_op(op):
    """x,y,z text of a SymOp of the tables (entries -1,0,1; translations in 24ths)"""
    rows = []
    for i in range(3):
        t = ""
        for j, c in enumerate("xyz"):
            v = int(round(float(op.R[i][j])))
            if v:
                t += ("+" if v > 0 else "-") + c * 1 if abs(v) == 1 else "%+d*%s" % (v, c)
        f = Fraction(float(op.t[i])).limit_denominator(24)
        if f:
            t += "+%d/%d" % (f.numerator, f.denominator)
        rows.append(t.lstrip("+") or "0")
    return ",".join(rows)


def tabulated_setting_cifs(quick):
    """CIF documents that resolve to a predefined SpaceGroup instance by IT number only, by H-M symbol only and by
    the operator list in table order, carrying crystal-system / cell-setting words that differ from the table."""
    from diffpy.structure.spacegroups import GetSpaceGroup

    cells = {166: (5.0, 5.0, 12.0, 90, 90, 120), 194: (3.2, 3.2, 5.2, 90, 90, 120), 225: (4.0, 4.0, 4.0, 90, 90, 90),
             62: (5.0, 6.0, 7.0, 90, 90, 90), 14: (5.0, 6.0, 7.0, 90, 105, 90), 1: (5.0, 6.0, 7.0, 80, 95, 100)}
    words = ["rhombohedral", "trigonal", "hexagonal", "cubic", "arbitrary words here", "__import__('os').mkdir('PWNED')", "?", ""]
    tags = ["_symmetry_cell_setting", "_space_group_crystal_system"]
    docs = []
    numbers = [166, 194, 225] if quick else [166, 194, 225, 62, 14, 1]
    for n in numbers:
        sg = GetSpaceGroup(n)
        a, b, c, al, be, ga = cells[n]
        head = ("data_t%d\n_cell_length_a %g\n_cell_length_b %g\n_cell_length_c %g\n_cell_angle_alpha %g\n_cell_angle_beta %g\n"
                "_cell_angle_gamma %g\n" % (n, a, b, c, al, be, ga))
        site = "loop_\n_atom_site_label\n_atom_site_fract_x\n_atom_site_fract_y\n_atom_site_fract_z\nC1 0.1 0.2 0.3\n"
        oploop = "loop_\n_symmetry_equiv_pos_as_xyz\n" + "".join("'%s'\n" % render_op(o) for o in sg.symop_list)
        ways = {
            "number": "_symmetry_Int_Tables_number %d\n" % n,
            "number-new-tag": "_space_group_IT_number %d\n" % n,
            "hm": "_symmetry_space_group_name_H-M '%s'\n" % sg.short_name,
            "hm-full": "_space_group_name_H-M_alt '%s'\n" % sg.pdb_name,
            "ops": oploop,
            "ops+hall": "_space_group_name_Hall '-R 3 2\"'\n" + oploop,
            "hall+number": "_symmetry_space_group_name_Hall '%s'\n_symmetry_Int_Tables_number %d\n" % ("P 2ac 2ab", n),
        }
        for wi, (way, ident) in enumerate(sorted(ways.items())):
            for ti, tag in enumerate(tags):
                for ki, w in enumerate(words):
                    if quick and (wi + ti + ki) % 2 and w not in ("rhombohedral", "trigonal"):
                        continue
                    val = "'%s'" % w if "'" not in w else '"%s"' % w
                    if w == "":
                        val = "''"
                    text = head + ident + "%s %s\n" % (tag, val) + site
                    docs.append({"fmt": "cif", "text": text, "pos": ["tabulated-setting", n, way, tag], "payload": w, "mode": way})
    return docs


def parser_module_names():
    """module and format names of the parser package of the tree under examination"""
    d = os.path.join(common.REPO, "src", "diffpy", "structure", "parsers")
    try:
        mods = sorted(f[:-3] for f in os.listdir(d) if f.startswith("p_") and f.endswith(".py"))
    except OSError:
        mods = []
    return mods + [m[2:] for m in mods]


def adversarial_docs(ck, base_docs):
    """payloads in every field position (whitespace token) of every line of a valid document per format"""
    rng = ck.rng
    quick = ck.tier == "quick"
    docs = []
    pi = 0
    for fmt, text in base_docs:
        lines = text.split("\n")
        for li, line in enumerate(lines):
            toks = line.split()
            for ti in range(len(toks)):
                pays = [PAY[pi % len(PAY)]] if quick else PAY
                pi += 1
                for p in pays:
                    for mode in (("replace", "append") if not quick else (("replace", "append")[pi % 2],)):
                        tt = list(toks)
                        q = p
                        if fmt == "cif" and not line.lstrip().startswith(("_", "loop_", "data_")) or (fmt == "cif" and ti > 0):
                            q = '"%s"' % p if "'" in p else "'%s'" % p
                            if mode == "append":
                                q = q[0] + toks[ti].strip("'\"") + "+" + q[1:]
                        elif mode == "append":
                            q = toks[ti] + "+" + p
                        tt[ti] = q
                        # keep the leading whitespace / rest of the line
                        newline = line[:len(line) - len(line.lstrip())] + " ".join(tt)
                        doc = "\n".join(lines[:li] + [newline] + lines[li + 1:])
                        docs.append({"fmt": fmt, "text": doc, "pos": [li, ti], "payload": p, "mode": mode,
                                     "write": "xcfg" if fmt == "xcfg" else None})
    # context-breaking spellings on every word-like field (record keywords, format / space-group / element names):
    # a field that reaches a code template (`import %s`, `getattr(o, "%s")`, `'%s' % ...`) needs to close that
    # context before the payload can run
    BREAK = [("stmt", "%s;%s#"), ("asname", "%s;pm=%s#"), ("quote1", "%s');%s#"), ("quote2", '%s");%s#'), ("paren", "%s)or(%s")]
    for fmt, text in base_docs:
        if fmt == "cif":
            continue
        lines = text.split("\n")
        for li, line in enumerate(lines):
            toks = line.split()
            for ti, tok in enumerate(toks):
                try:
                    float(tok)
                    continue
                except ValueError:
                    pass
                if len(toks) <= 3:
                    # a name field (format / space group / species ...): the same context breakers behind the names the code
                    # itself derives from such a field or keeps in its parser package (`p_<format>` modules, format names)
                    for nm in ["p_" + tok] + parser_module_names():
                        for mode, tpl in BREAK[:2]:
                            tt = list(toks)
                            tt[ti] = tpl % (nm, PAY[0])
                            newline = line[:len(line) - len(line.lstrip())] + " ".join(tt)
                            docs.append({"fmt": fmt, "text": "\n".join(lines[:li] + [newline] + lines[li + 1:]), "pos": [li, ti],
                                         "payload": tt[ti], "mode": "break-name:" + mode, "write": "xcfg" if fmt == "xcfg" else None})
                for k, (mode, tpl) in enumerate(BREAK):
                    if quick and (li + ti + k) % 2 and mode not in ("stmt", "asname"):
                        continue
                    p = PAY[0] if quick else PAY[(li + ti + k) % len(PAY)]
                    tt = list(toks)
                    tt[ti] = tpl % (tok, p)
                    newline = line[:len(line) - len(line.lstrip())] + " ".join(tt)
                    docs.append({"fmt": fmt, "text": "\n".join(lines[:li] + [newline] + lines[li + 1:]), "pos": [li, ti],
                                 "payload": tt[ti], "mode": "break:" + mode, "write": "xcfg" if fmt == "xcfg" else None})
    # CIF operator positions
    for p in PAY_OP:
        for form in ("'x, y, z+%s'", "'%s, y, z'", "'x, 1/2+%s, z'", "'x, y, %s/2'", "'x, y, z' \n'x,y,1/%s'"):
            q = form % p
            if "'" in p:
                q = q.replace("'", '"', 1)[::-1].replace("'", '"', 1)[::-1] if q.count("'") - p.count("'") == 2 else q
                q = '"' + (form % p).strip("'").replace("' \n'", '"\n"') + '"'
            docs.append({"fmt": "cif", "text": CIF_BASE.replace("'-x, -y, z+1/2'", q), "pos": ["symop"], "payload": p, "mode": form})
    # XCFG auxiliary names (attribute-name sink) incl. dunder names, then written back (format-field sink)
    xc = [t for f, t in base_docs if f == "xcfg"]
    if xc:
        for name in ["__class__", "__dict__", "xyz", "lattice", "__import__('os').mkdir('PWNED')", "a.__class__.__init__.__globals__", "x]y", "{0}", "U11__", "__setattr__",
                     "element", "xyz_cartn", "__init__.__globals__[sys]"]:
            t = xc[0]
            if "auxiliary[0]" in t:
                import re
                t2 = re.sub(r"auxiliary\[0\] = \S+", "auxiliary[0] = %s" % name.replace("\\", "\\\\"), t, count=1)
            else:
                t2 = t
            docs.append({"fmt": "xcfg", "text": t2, "pos": ["auxiliary-name"], "payload": name, "mode": "aux", "write": "xcfg"})
    # XCFG species table: unknown symbols, extreme / contradictory masses (the mass and symbol lines precede each block)
    special = []
    if xc:
        import re
        mrx = re.compile(r"^(\d+\.\d+)\n([A-Z][a-z]?)$", re.M)
        for mm in mrx.finditer(xc[0]):
            for mass, sym in [("1e300", "Qq"), ("-5", "Qq"), ("nan", "Zz"), ("inf", "Xx9"), ("1e300", mm.group(2)), ("0.0001", "C"), ("12.0", "c"),
                              ("1e300", "__class__"), ("7", ""), ("1e300", "Uuo"), ("99999.9999", "D"), ("1", "Qq Rr")]:
                t2 = xc[0][:mm.start()] + mass + "\n" + sym + xc[0][mm.end():]
                special.append({"fmt": "xcfg", "text": t2, "pos": ["species"], "payload": "%s %s" % (mass, sym), "mode": "species", "write": "xcfg"})
                special.append({"fmt": "auto", "text": t2, "pos": ["species"], "payload": "%s %s" % (mass, sym), "mode": "species", "write": "xcfg"})
    special += tabulated_setting_cifs(quick)
    special += numeric_field_docs(ck, base_docs)
    # documents that make the parser RAISE (a hook or redirection must be restored on the error path too)
    for fmt in ("cif", "auto", "xcfg", "pdb", "discus", "pdffit", "xyz", "rawxyz"):
        for junk in ("garbage text 1 2 3\n", "data_x\n_cell_length_a 'unterminated\n", "", "loop_\n_a\n_b\n1\n", "\x00\x01\x02\n"):
            special.append({"fmt": fmt, "text": junk, "pos": ["junk"], "payload": junk[:20], "mode": "raise"})
    # after each failing CIF parse a good CIF must still parse (and nothing may have changed)
    special.append({"fmt": "cif", "text": CIF_BASE, "pos": ["valid-after-errors"], "payload": "", "mode": "valid"})
    # operator lists that match no tabulated setting (a screw axis away from the origin), in two orders and twice:
    # whatever the reader builds for them must not stay behind in the process
    custom = ["'x, y, z'\n'-x+1/4, -y, z+1/2'", "'-x+1/4, -y, z+1/2'\n'x, y, z'", "'x, y, z'\n'-x+1/4, -y, z+1/2'"]
    for k, ops in enumerate(custom):
        special.append({"fmt": "cif", "text": CIF_BASE.replace("'x, y, z'\n'-x, -y, z+1/2'", ops).replace("'P 1'", "'P 21 shifted'"), "pos": ["custom-operators", k],
                        "payload": ops.replace("\n", " "), "mode": "custom-ops"})
    docs += special
    if quick:
        # all formats in full, but cap the total
        rng.shuffle(docs)
        keep, per = [], {}
        for d in docs:
            k = d["fmt"]
            if per.get(k, 0) < 90 or d["pos"] in (["symop"], ["auxiliary-name"], ["species"], ["junk"], ["valid-after-errors"]) or d["pos"][:1] in (["tabulated-setting"], ["custom-operators"], ["numeric"]) or str(d.get("mode", "")).startswith("break-name"):
                keep.append(d)
                per[k] = per.get(k, 0) + 1
        docs = keep
    # the same through automatic detection
    auto = [dict(d, fmt="auto") for d in docs[::7 if quick else 2]]
    return docs + auto


def run_worker(job):
    p = subprocess.run([common.PY, "-m", "harness.c17"], cwd=VERIF, input=json.dumps(job), capture_output=True, text=True, timeout=3000)
    if p.returncode != 0:
        raise common.Broken("C17 worker failed: " + p.stderr[-1500:])
    return json.loads(p.stdout)


def run_parallel(job, n):
    """split the items over n fresh worker processes (each with its own working directory); results in order"""
    from concurrent.futures import ThreadPoolExecutor

    parts = []
    for i in range(n):
        cwd = os.path.join(job["cwd"], "w%d" % i)
        os.makedirs(cwd, exist_ok=True)
        parts.append(dict(job, cwd=cwd, ops=job["ops"][i::n], docs=job["docs"][i::n]))
    with ThreadPoolExecutor(max_workers=n) as ex:
        rs = list(ex.map(run_worker, parts))
    ops = [None] * len(job["ops"])
    docs = [None] * len(job["docs"])
    for i, r in enumerate(rs):
        ops[i::n] = r["ops"]
        docs[i::n] = r["docs"]
    left = []
    for i in range(n):
        cwd = os.path.join(job["cwd"], "w%d" % i)
        left += os.listdir(cwd)
        shutil.rmtree(cwd, ignore_errors=True)
    return {"ops": ops, "docs": docs, "setters_ok": all(r["setters_ok"] for r in rs),
            "benign_compile_exec": sum(r["benign_compile_exec"] for r in rs), "leftover": left}


def base_documents():
    from .c20 import make_structure
    s = make_structure(1)
    s[0].occupancy = 0.5
    docs = []
    for f in ("xyz", "rawxyz", "pdffit", "discus", "pdb", "xcfg"):
        docs.append((f, s.writeStr(f)))
    docs.append(("cif", CIF_BASE))
    # optional records the writers do not emit but the readers interpret
    disc = s.writeStr("discus").split("\n")
    docs.append(("discus", "\n".join(disc[:1] + ["format discus"] + disc[1:])))
    return docs


# ======================================================================================
# differential stream: the regular-expression matcher of the model (DS.Rx) against Python's `re`
# ======================================================================================

RX_ATOMS = ["a", "b", "x", "1", r"\.", r"\+", "-", "/", r"\d", ".", "[ab]", "[^a]", "[a-c]", r"[\d.]", "[+-]", "[xyz]", r"[^\d+]", "[A-C1]", r"\n", "[^\n]"]
RX_SUBJECT = "abcxyzXYAB+-./012 \n"


def gen_rx(rng, depth=0):
    k = rng.random()
    if depth >= 3 or k < 0.35:
        r = rng.choice(RX_ATOMS)
    elif k < 0.6:
        r = "".join(gen_rx(rng, depth + 1) for _ in range(rng.randrange(2, 4)))
    elif k < 0.78:
        r = "(?:" + "|".join(gen_rx(rng, depth + 1) if rng.random() < 0.9 else "" for _ in range(rng.randrange(2, 4))) + ")"
    elif k < 0.86:
        r = "(" + gen_rx(rng, depth + 1) + ")"
    else:
        r = rng.choice(["^", "$", r"\Z", r"\A"]) if depth else gen_rx(rng, depth + 1)
    if rng.random() < 0.35 and r not in ("^", "$", r"\Z", r"\A", ""):
        if len(r) > 1 and not (r.startswith(("(", "[")) and r.endswith((")", "]")) and r.count("(") <= 1 + r.count("(?:")) and not (len(r) == 2 and r[0] == "\\"):
            r = "(?:" + r + ")"
        r += rng.choice("?*+")
    return r


def rx_compare(pairs):
    """[(pattern text, subject)] -> (disagreements, n compared, n skipped): match at every position, search, split"""
    import re

    from translate import src_symop
    lines, meta = [], []
    skipped = 0
    for pat, subj in pairs:
        try:
            rc = re.compile(pat)
            tree, _ = src_symop.convert_pattern(pat)
        except (re.error, src_symop.pysrc.Untranslatable, RecursionError):
            skipped += 1
            continue
        words = " ".join(src_symop.re_to_words(tree))
        hx = "x" + subj.encode("ascii").hex()
        for pos in range(len(subj) + 1):
            m = rc.match(subj, pos)
            lines.append("rx.match %s %d %s" % (hx, pos, words))
            meta.append((pat, subj, "match@%d" % pos, "none" if m is None else "%d %d" % m.span()))
        m = rc.search(subj)
        lines.append("rx.search %s %s" % (hx, words))
        meta.append((pat, subj, "search", "none" if m is None else "%d %d" % m.span()))
        try:
            st, keep = src_symop.split_form(pat)
        except src_symop.pysrc.Untranslatable:
            st = None
        if st is not None:
            ps = rc.split(subj)
            lines.append("rx.split %s %d %s" % (hx, 1 if keep else 0, " ".join(src_symop.re_to_words(st))))
            meta.append((pat, subj, "split", "%d" % len(ps) + "".join(" x" + p.encode("ascii").hex() for p in ps)))
    out = common.driver(lines) if lines else []
    bad = []
    for (pat, subj, op, want), got in zip(meta, out):
        if got == "outside" and op == "split":
            continue            # a pattern that can match the empty text: split is outside the modelled subset
        if got != want:
            bad.append({"pattern": pat, "subject": subj, "op": op, "python": want, "model": got})
    return bad, len(lines), skipped


def rx_stream(ck):
    rng = ck.rng
    quick = ck.tier == "quick"
    pats = [r"(?i)([+-]?[xyz])", r"[+-]?(?:\d+\.?\d*|\.\d+)(?:/(?:\d+\.?\d*|\.\d+))?", r"[-+]?(\d+(\.\d*)?|\.\d+)([eE][-+]?\d+)?", r"^[+-]?\d+$", r"(?i)(?:a|B)+\Z"]
    # the patterns of the tree under examination, whatever they are now
    try:
        import re
        src = open(os.path.join(common.REPO, "src", "diffpy", "structure", "parsers", "p_cif.py"), encoding="utf-8").read()
        pats += [p for q, p in re.findall(r"""re\.(?:compile|split)\(\s*r?(["'])((?:[^"'\\]|\\.)*)\1""", src)]
    except OSError:
        pass
    n = 250 if quick else 4000
    for _ in range(n):
        p = gen_rx(rng)
        if rng.random() < 0.2:
            p = "(?i)" + p
        if rng.random() < 0.1:
            p = "(" + p + ")"
        pats.append(p)
    pairs = []
    for p in pats:
        for _ in range(4 if quick else 6):
            subj = "".join(rng.choice(RX_SUBJECT) for _ in range(rng.randrange(0, 9)))
            pairs.append((p, subj))
        pairs.append((p, "1/2+X-y3.5/.25-1./4" if "d" in p else "ab\n"))
    bad, ncmp, skipped = rx_compare(pairs)
    ck.coverage["evaluations"] += ncmp
    ck.coverage["traces_validated_against_impl"] += ncmp
    ck.coverage["rx_stream"] = {"patterns": len(pats), "comparisons": ncmp, "pairs_outside_subset": skipped, "disagreements": len(bad)}
    if bad:
        b = min(bad, key=lambda d: (len(d["pattern"]), len(d["subject"])))
        ck.fail("model:rx:%s" % b["op"].split("@")[0], "DS.Rx (%s) of %r on %r gives %r, Python re gives %r [%d disagreement(s)]" % (
            b["op"], b["pattern"], b["subject"], b["model"], b["python"], len(bad)),
            dict(b, kind="rx", theorem="differential stream rx.* (the matcher the source tie DS.Props.SrcSymOp rests on)"), no_failing_input=True)


def run(ck):
    sys.path.insert(0, VERIF)
    from translate import sinks as tsinks

    GEN = os.path.join(LEAN, "DS", "Gen")
    rep = tsinks.main(GEN, common.REPO)
    ok, info = ck.lean_obligations("DS.Props.C17")
    # `parseSymOp` IS the current source of getSymOp / _symop_constant (transliterated by translate/src_symop.py, T18)
    ck.symop_tie = ck.source_tie("DS.Props.SrcSymOp", groups=("symop",))
    ck.widen = 1 if ck.symop_tie[0] else 4      # a broken tie: four times as many operator strings
    ck.notes.append("sinks: %d reachable modules, %d functions, %d on the parse path, %d sinks; text/ast cross-check %s" % (
        len(rep["reachable_modules"]), rep["n_functions"], rep["n_on_path"], len(rep["sinks"]), rep["crosscheck_ok"]))
    wd = os.path.join(common.WORK, "c17_%d" % os.getpid())
    shutil.rmtree(wd, ignore_errors=True)
    os.makedirs(wd)
    try:
        _run(ck, rep, ok, info, wd)
    finally:
        shutil.rmtree(wd, ignore_errors=True)


def viol_key(where, viol):
    """`global-state:<what>` for a changed piece of process state, `audit:<format>:<event>` for an audit event"""
    real = [v for v in viol if v[0] != "global-state"]
    if real:
        # an effect outside the parser (directory, file, module, process) names the case rather than the compilation before it
        eff = [v for v in real if v[0] not in ("compile", "exec")]
        return "audit:%s:%s" % (where, (eff or real)[0][0])
    items = viol[0][1]
    for it in items:
        if it.startswith("diffpy.structure.spacegroups.SpaceGroupList["):
            # a tabulated SpaceGroup object was modified: name the field (or the operation list)
            if ": " in it:
                return "global-state:SpaceGroupList.%s" % it.split(": ", 1)[1].split(" ")[0]
            return "global-state:SpaceGroupList.%s" % it.rsplit(".", 1)[-1]
    what = items[0].replace(" (new)", "").replace(" (deleted)", "")
    return "global-state:%s" % what


def circ(a, b):
    d = abs((a - b) % 1.0)
    return min(d, 1.0 - d)


def _run(ck, rep, ok, info, wd):
    base = base_documents()
    ops = build_ops(ck)
    docs = adversarial_docs(ck, base)
    job = {"src": os.path.join(common.REPO, "src"), "cwd": wd, "warmup": [{"fmt": f, "text": t} for f, t in base],
           "ops": [o[0] for o in ops], "docs": docs, "forbidden_modules": FORBIDDEN_MODULES}
    res = run_parallel(job, 10 if ck.tier == "quick" else 14)
    if not res["setters_ok"]:
        ck.fail("allowlist:p_cif:_atom_setters", "P_cif._atom_setters has a value that is not the name of a _tr_* method",
                {"kind": "allow-list-support"}, no_failing_input=True)
    # model side (ASCII strings only)
    idx = [i for i, o in enumerate(ops) if all(ord(c) < 128 for c in o[0]) and "\n" not in o[0] or all(ord(c) < 128 for c in o[0])]
    lines = ["symtext.parse x" + ops[i][0].encode("ascii").hex() for i in idx]
    out = common.driver(lines)
    model = dict(zip(idx, out))
    nontrivial = set()
    nviol = 0
    agg = {}

    def fail(key, what, rep, no_failing_input=False):
        agg.setdefault(key, []).append((len(rep.get("input", rep.get("text", ""))), what, rep, no_failing_input))
    for i, (o, (real, viol)) in enumerate(zip(ops, res["ops"])):
        s, fam, exp = o
        ck.coverage["evaluations"] += 1
        nontrivial.add((fam, real[0], model.get(i, "-").split()[0] + model.get(i, "- -").split()[1] if i in model and model[i].startswith("err") else model.get(i, "-").split()[0]))
        # dynamic oracle
        if viol:
            nviol += 1
            fail(viol_key("getSymOp", viol), "getSymOp(%r) caused %r" % (s[:120], viol[:3]),
                    {"kind": "audit", "call": "getSymOp", "input": s, "events": viol, "outcome": real})
            continue
        # independent expectation by construction
        if exp == "reject" and real[0] != "SFE":
            fail("symop:accepts:%s" % fam, "getSymOp(%r) -> %r, the property requires a format error (not a number)" % (s[:120], real[:2]),
                    {"kind": "oracle", "call": "getSymOp", "input": s, "outcome": real})
            continue
        if isinstance(exp, tuple):
            good = real[0] == "ok" and [int(round(x)) for x in real[1]] == [v for row in exp[1] for v in row] and \
                all(abs(x - round(x)) < 1e-12 for x in real[1]) and all(circ(a, float(b)) < 1e-9 for a, b in zip(real[2], exp[2]))
            if not good:
                fail("symop:value", "getSymOp(%r) -> %r, expected R=%r t=%r" % (s[:120], real, exp[1], [str(x) for x in exp[2]]),
                        {"kind": "oracle", "call": "getSymOp", "input": s, "outcome": real, "expected": [exp[1], [str(x) for x in exp[2]]]})
                continue
        # the translation is folded into [0, 1) (`t -= floor(t)`; 1.0 itself only by float rounding of a tiny negative sum)
        if real[0] == "ok" and not all(0.0 <= x <= 1.0 for x in real[2]):
            fail("symop:range", "getSymOp(%r) -> translation %r outside [0, 1)" % (s[:120], real[2]),
                 {"kind": "oracle", "call": "getSymOp", "input": s, "outcome": real, "expected_kind": "range"})
            continue
        # model vs implementation
        if i in model:
            ck.coverage["traces_validated_against_impl"] += 1
            m = model[i].split()
            agree = False
            if m[0] == "ok" and real[0] == "ok":
                R = [int(x) for x in m[1:10]]
                t = [Fraction(x) for x in m[10:13]]
                agree = [int(round(x)) for x in real[1]] == R and all(circ(a, float(b)) < 1e-9 for a, b in zip(real[2], t))
            elif m[:2] == ["err", "format"]:
                agree = real[0] == "SFE"
            elif m[:2] == ["err", "index"]:
                agree = real[0] == "exc" and real[1] == "IndexError"
            if not agree:
                fail("model:symop:%s" % fam, "model %r, getSymOp(%r) -> %r" % (model[i], s[:120], real),
                        {"kind": "correspondence", "call": "getSymOp", "input": s, "model": model[i], "outcome": real},
                        no_failing_input=(real[0] in ("ok", "SFE") or (real[0] == "exc" and real[1] == "IndexError")))
    other_exc = {}
    for d, (real, viol) in zip(docs, res["docs"]):
        ck.coverage["evaluations"] += 1
        nontrivial.add((d["fmt"], tuple(d["pos"][:1]) if d["pos"] and isinstance(d["pos"][0], str) else "field", real[0], real[1] if real[0] == "exc" else ""))
        if real[0] == "exc":
            other_exc[real[1]] = other_exc.get(real[1], 0) + 1
        if viol:
            nviol += 1
            fail(viol_key(d["fmt"], viol), "parsing a %s document with %r at %r caused %r" % (d["fmt"], d["payload"][:60], d["pos"], viol[:3]),
                    {"kind": "audit", "format": d["fmt"], "text": d["text"], "write": d.get("write"), "events": viol, "outcome": real,
                     "payload": d["payload"], "position": d["pos"]})
    lenient = {}
    for d, (real, viol) in zip(docs, res["docs"]):
        if str(d.get("mode", "")).startswith("numeric:") and real[0] == "ok" and not is_number(d["payload"]):
            lenient.setdefault(d["fmt"], []).append(d["payload"])
    if lenient:
        ck.notes.append("numeric fields holding a number followed by other text that were read as that leading number without any effect "
                        "(documented behaviour of the readers, e.g. p_cif.leading_float; `1.2(3)` relies on it): %r" % (
                            {f: (len(v), min(v, key=len)) for f, v in sorted(lenient.items())},))
    ck.notes.append("compile/exec audit events not sharing any identifier with the input (library-internal templates, e.g. namedtuple): %d" % res["benign_compile_exec"])
    if other_exc:
        ck.notes.append("adversarial documents ending in an exception other than StructureFormatError (subject of C13, no effect observed): %r" % other_exc)
    for key, lst in sorted(agg.items()):
        n, what, rpl, nfi = min(lst, key=lambda t: t[0])
        rpl = dict(rpl, ncases=len(lst))
        ck.fail(key, "%s [%d case(s) with this key]" % (what, len(lst)), rpl, no_failing_input=nfi)
    rx_stream(ck)
    ck.tie_verdict(ck.symop_tie[0], ck.symop_tie[1], "p_cif.py getSymOp, _symop_constant, symvec and the two regular expressions")
    # leftovers in the working directory = effects
    left = res.get("leftover", []) + os.listdir(wd)
    attributed = {f for lst in agg.values() for _n, _w, r_, _nf in lst for ev in r_.get("events", []) if ev[0] == "new-files" for f in ev[1]}
    if set(left) - attributed:
        ck.fail("audit:files", "files created in the working directory: %r" % left[:5], {"kind": "audit", "files": left}, no_failing_input=True)
    if not ok:
        if not any("audit:" in (json.load(open(v[0])).get("key", "")) for v in ck.violations if v[0]):
            bad = [s for s in rep["sinks"] if s["onParsePath"] and s["tainted"]]
            ck.fail("lean-build", "Lean obligations of C17 no longer check: %r; sinks on the parse path with possibly file-derived arguments: %r" % (
                info["failed_modules"], [(s["module"], s["func"], s["kind"], s["derivation"][:60]) for s in bad][:8]),
                {"kind": "proof-obligation", "theorem": info["failed_modules"], "errors": info["errors"], "sinks": bad}, no_failing_input=True)
    ck.coverage["distinct_nontrivial"] += len(nontrivial)
    ck.coverage["rule"] = (
        "operator strings: seeded random accepted operators (1-4 terms per component: signed x/y/z in either case, literals d+, d+.d*, .d+, "
        "quotients, blanks) with the expected matrix/translation known by construction as exact fractions; %d expressions a Python evaluator accepts "
        "but the grammar rejects, each in 3 placements; %d payloads x 8 placements; structural cases. Documents: a valid document per input format "
        "(7 formats + auto) with a payload replacing / appended to every whitespace-separated field of every line, CIF operator positions, XCFG "
        "auxiliary names (then written back); every numeric field of every format (plus a second CIF with Cartesian coordinates, B values and "
        "standard uncertainties) with arithmetic-only ratios, letter-free calls spelled in 10 NFKC-equivalent alphabets and plain payloads ending "
        "in /1 (rotating; all of them in the thorough tier). Every real call runs under sys.addaudithook in a subprocess; a compile event whose "
        "text is a piece of the input or contains a field of it is a failure whatever the parse returns. distinct_nontrivial = distinct "
        "(family or format, position kind, outcome kind)" % (len(EVAL_ACCEPTS), len(PAY_OP)))
    ck.coverage["documents_per_format"] = {f: sum(1 for d in docs if d["fmt"] == f) for f in sorted({d["fmt"] for d in docs})}
    ck.coverage["samples"] = [{"op": ops[0][0], "model": model.get(0), "real": res["ops"][0][0]},
                              {"op": ops[200][0] if len(ops) > 200 else ops[-1][0], "real": res["ops"][min(200, len(ops) - 1)][0]},
                              {"doc": docs[0]["fmt"], "payload": docs[0]["payload"], "pos": docs[0]["pos"], "real": res["docs"][0][0]}]
    ck.coverage["trusted_base"] += ["translate/sinks.py (ast sink scan, name-based call graph, conservative taint; cross-checked by a text scan)",
                                    "reviewed allow-list in DS/Props/C17.lean (4 entries)", "CPython audit events (PEP 578)"]
    ck.coverage["trusted_base"] += ["translate/src_symop.py (strict statement templates of getSymOp/_symop_constant; patterns through CPython's re._parser)",
                                    "DS.Rx.mK as the reading of Python `re` on ASCII text (differential stream rx.*)",
                                    "DS.PyStr primitives as the reading of str/list/dict/float operations, floats read as exact fractions"]
    ck.assumptions += ["(b) shows absence of syntactic paths to sinks, not semantic non-interference; PyCifRW and numpy are outside the scan and covered by the audit hook only",
                       "model of getSymOp is ASCII-only; Unicode digits accepted by Python's \\d are exercised by the audit oracle only",
                       "literals longer than 20 digits (float overflow to inf/nan) are not generated",
                       "payloads that would not terminate when evaluated (9**9**9) are not generated: a seeded evaluator is recognised by the "
                       "compile event of a terminating text"]


def replay(path):
    r = json.load(open(path))
    if r.get("kind") == "source-tie" and r.get("module") == "DS.Props.SrcSymOp":
        ck = common.Check("C17", "quick", 0)
        ok, info = ck.source_tie("DS.Props.SrcSymOp", groups=("symop",))
        unt = {k: v["untranslatable"] for k, v in info.get("translator", {}).items() if isinstance(v, dict) and v.get("untranslatable")}
        print("source tie DS.Props.SrcSymOp:", "holds" if ok else "broken: theorems %r, not translatable %r" % (info.get("broken_theorems"), unt))
        return 0 if ok else 1
    if r.get("kind") == "rx":
        bad = rx_compare([(r["pattern"], r["subject"])])[0]
        print("rx disagreements:", bad[:3])
        return 1 if bad else 0
    wd = os.path.join(common.WORK, "c17_replay_%d" % os.getpid())
    shutil.rmtree(wd, ignore_errors=True)
    os.makedirs(wd)
    try:
        base = base_documents()
        job = {"src": os.path.join(common.REPO, "src"), "cwd": wd, "warmup": [{"fmt": f, "text": t} for f, t in base], "ops": [], "docs": [],
               "forbidden_modules": FORBIDDEN_MODULES}
        if r.get("call") == "getSymOp":
            job["ops"] = [r["input"]]
        elif "text" in r:
            job["docs"] = [{"fmt": r["format"], "text": r["text"], "write": r.get("write")}]
        else:
            print("no input in replay: %s" % r.get("what"))
            return 1
        res = run_worker(job)
        real, viol = (res["ops"] or res["docs"])[0]
        print("outcome:", real)
        print("audit violations:", viol)
        print("files:", os.listdir(wd))
        bad = bool(viol) or bool(os.listdir(wd))
        if r.get("kind") == "oracle" and r.get("call") == "getSymOp":
            bad = bad or real[0] != r.get("expected_kind", "SFE") and r["key"].startswith("symop:accepts")
            if r["key"] == "symop:range":
                bad = bad or (real[0] == "ok" and not all(0.0 <= x <= 1.0 for x in real[2]))
        return 1 if bad else 0
    finally:
        shutil.rmtree(wd, ignore_errors=True)
