"""C10 — a lattice's derived quantities are coherent after any update history.

Deciding method: Lean theorems over R (`DS.Props.C10`: every update path refreshes every cached
attribute, `coherent` by induction over operation lists, the two views, reciprocal parameters,
reciprocal of reciprocal, copy) + correspondence of the model's update-history machine (Float
instance) with real `Lattice` objects on random histories + the implementation-side oracle: after
every step every attribute is compared with a *fresh* `Lattice(a, b, c, alpha, beta, gamma, baserot)`
built from the current parameters (and with a first-principles reconstruction); untouched objects
must be bit-identical to their snapshots.
"""
import copy as _copy
import json
import math

from . import common
from .c01 import (MATS, NAMES, SCALARS, apply_op, bits, build, op_words, cell_ok, compare_attrs, ctor_words, differs, fail_once, first_principles, fl, flat,
                  gen_angles, gen_base, gen_lengths, gen_rot, impl_attrs, leanchecker, params_of_base, special_angles, special_cells, parse_attrs, repr_class, STRATA)

def valid_refs(ops):
    n = 0
    for op in ops:
        if "i" in op and not (0 <= op["i"] < n):
            return False
        if op["op"] in ("new", "newpar", "newbase", "copy", "recip"):
            n += 1
    return True


# ---------------------------------------------------------------------------------------------
# oracle (implementation only)

def fresh_of(lat):
    from diffpy.structure.lattice import Lattice

    a, b, c, al, be, ga = lat.abcABG()
    return Lattice(a, b, c, al, be, ga, baserot=[[float(x) for x in row] for row in lat.baserot])


def exact_equal(A, B):
    return all(A[n] == B[n] for n in SCALARS + MATS)


def oracle_step(world, snaps, op, t):
    """Statement of C10 evaluated on the real objects after `op` touched object `t`.
    `snaps` = attribute dicts of all objects before the step.  Returns list of (quantity, expected, observed)."""
    import numpy as np

    from diffpy.structure.lattice import Lattice

    bad = []
    T = world[t]
    got = impl_attrs(T)
    # (1) coherence with a freshly built lattice from the current parameters and orientation
    fr = impl_attrs(fresh_of(T))
    for n, e, o, _ in compare_attrs(fr, got):
        bad.append(("attribute %s equals that of a fresh Lattice(*abcABG(), baserot)" % n, e, o))
    # (2) the parameters are the ones the operation asked for
    k = op["op"]

    def chk(name, exp, obs, tol=1e-9):
        if differs(exp, obs, tol) is not None:
            bad.append((name, exp, obs))

    if k in ("setpar", "prop"):
        before = snaps[t]
        args = op["args"] if k == "setpar" else {op["name"]: op["value"]}
        exp = [float(args.get(n, before[n])) for n in NAMES]
        chk("abcABG() after %s" % k, [exp], [list(T.abcABG())], 0.0)
        chk("baserot after %s" % k, [list(map(float, r)) for r in args.get("baserot", before["baserot"])], got["baserot"], 0.0)
    elif k == "new":
        chk("abcABG() of Lattice()", [[1.0, 1.0, 1.0, 90.0, 90.0, 90.0]], [list(T.abcABG())], 0.0)
    elif k == "newpar":
        chk("abcABG() of Lattice(a,b,c,alpha,beta,gamma)", [op["abcABG"]], [list(T.abcABG())], 0.0)
    elif k in ("setbase", "newbase"):
        chk("base after %s" % k, op["base"], got["base"], 0.0)
        chk("abcABG() of the base", [list(params_of_base(op["base"]))], [list(T.abcABG())])
    elif k == "copy":
        if T is world[op["i"]]:
            bad.append(("copy is a new object", "distinct objects", "same object"))
        if not exact_equal(snaps[op["i"]], got):
            d = compare_attrs(snaps[op["i"]], got, 0.0)
            bad.append(("copy equals the original (%s)" % (d[0][0] if d else "?"), d[0][1] if d else None, d[0][2] if d else None))
    elif k == "recip":
        src = snaps[op["i"]]
        chk("reciprocal().abcABG() == (ar, br, cr, alphar, betar, gammar)",
            [[src[n] for n in ("ar", "br", "cr", "alphar", "betar", "gammar")]], [list(T.abcABG())])
        chk("reciprocal().base == recbase^T", [list(r) for r in zip(*src["recbase"])], got["base"])
        chk("reciprocal().reciprocal().base == base", src["base"], impl_attrs(T.reciprocal())["base"])
        chk("reciprocal().reciprocal() parameters", [[src[n] for n in NAMES]], [list(T.reciprocal().abcABG())])
    # (3) nothing else changed
    for j, s in enumerate(snaps):
        if j != t and not exact_equal(s, impl_attrs(world[j])):
            d = compare_attrs(s, impl_attrs(world[j]), 0.0)
            bad.append(("object %d untouched by %s on object %d (%s)" % (j, k, t, d[0][0] if d else "?"), d[0][1] if d else None, d[0][2] if d else None))
    # (4) the two views describe the same object
    R = np.array(T.baserot, dtype=float)
    proper = abs(np.linalg.det(R) - 1) < 1e-9 and np.abs(R @ R.T - np.eye(3)).max() < 1e-9
    if proper:
        vb = impl_attrs(Lattice(base=[[float(x) for x in row] for row in T.base]))
        for n, e, o, _ in compare_attrs(got, vb):
            bad.append(("attribute %s of Lattice(base=lat.base) equals that of lat" % n, e, o))
    else:
        bad.append(("baserot is a proper rotation", "R R^T = 1, det R = 1", R.tolist()))
    # (5) first principles
    a, b, c, al, be, ga = T.abcABG()
    for n, e, o, _ in compare_attrs(first_principles(a, b, c, al, be, ga, R.tolist()), got, 2e-9):
        bad.append(("attribute %s (first principles)" % n, e, o))
    # (6) reciprocal() of EVERY live object describes the reciprocal of its CURRENT state (nothing remembered from before
    #     an update, also for copies): parameters are the cached reciprocal parameters, base is dual to the current base,
    #     and its own reciprocal is the current lattice
    for j, L in enumerate(world):
        cur = got if j == t else impl_attrs(L)
        rec = L.reciprocal()
        ra = impl_attrs(rec)
        chk("object %d: reciprocal().abcABG() == current (ar, br, cr, alphar, betar, gammar)" % j,
            [[cur[n] for n in ("ar", "br", "cr", "alphar", "betar", "gammar")]], [list(rec.abcABG())])
        dual = (np.array(cur["base"]) @ np.array(ra["base"]).T).tolist()
        chk("object %d: base . reciprocal().base^T == 1" % j, np.eye(3).tolist(), dual)
        chk("object %d: reciprocal().reciprocal().base == current base" % j, cur["base"], impl_attrs(rec.reciprocal())["base"])
    return bad


def run_oracle(ops):
    """Execute a history on the real code with the oracle after every step.
    Returns None if everything holds, else (step, quantity, expected, observed)."""
    if not valid_refs(ops):
        return None
    world = []
    for s, op in enumerate(ops):
        snaps = [impl_attrs(L) for L in world]
        try:
            t = apply_op(world, op)
            bad = oracle_step(world, snaps, op, t)
        except Exception as ex:  # noqa: BLE001
            if op.get("expect_error"):
                return None
            return (s, "exception in %s" % op["op"], "no exception", repr(ex))
        if bad:
            return (s,) + tuple(bad[0])
    return None


def shrink(ops):
    """greedy removal of operations while the oracle still fails"""
    cur = list(ops)
    r = run_oracle(cur)
    if r is None:
        return cur, r
    cur = cur[: r[0] + 1]
    changed = True
    while changed:
        changed = False
        for i in range(len(cur) - 1, -1, -1):
            cand = cur[:i] + cur[i + 1:]
            # removing a creation shifts later object numbers down
            if cur[i]["op"] in ("new", "newpar", "newbase", "copy", "recip"):
                idx = sum(1 for o in cur[:i] if o["op"] in ("new", "newpar", "newbase", "copy", "recip"))
                cand2 = []
                okc = True
                for o in cand:
                    o = dict(o)
                    if "i" in o:
                        if o["i"] == idx:
                            okc = False
                            break
                        if o["i"] > idx:
                            o["i"] -= 1
                    cand2.append(o)
                if not okc:
                    continue
                cand = cand2
            rr = run_oracle(cand)
            if rr is not None and valid_refs(cand):
                cur = cand[: rr[0] + 1]
                changed = True
                break
    return cur, run_oracle(cur)


# ---------------------------------------------------------------------------------------------
# generator of histories

def gen_history(rng, nmax, with_error):
    """random history; every intermediate cell is well-conditioned (checked on a shadow of the parameters)."""
    ops = []
    shadow = []  # per object: [a,b,c,al,be,ga] (approximate, for validity filtering only)
    past = {}    # per object: parameter sets it had before an update

    def new_cell():
        a, b, c = gen_lengths(rng)
        al, be, ga = gen_angles(rng, rng.choice(STRATA))
        return [a, b, c, al, be, ga]

    def recip_params(p):
        d = first_principles(*p, None)
        return [d["ar"], d["br"], d["cr"], d["alphar"], d["betar"], d["gammar"]]

    n = rng.randrange(3, nmax + 1)
    while len(ops) < n:
        kinds = ["new", "newpar", "newbase"] if not shadow else (
            ["newpar", "newbase", "new"] * (1 if len(shadow) < 2 else 0) + ["copy"] * (1 if len(shadow) < 5 else 0) + ["recip"] * (3 if len(shadow) < 8 else 0)
            + ["setpar"] * 5 + ["prop"] * 4 + ["setbase"] * 3 + ["restore"] * 3)
        k = rng.choice(kinds)
        i = rng.randrange(len(shadow)) if shadow else 0
        if k == "restore":
            # one step back to EXACTLY the angles / lengths / parameters the object had at an earlier point of its history
            # (a value remembered from that point must not be mistaken for the present one)
            olds = [q for q in past.get(i, []) if q != shadow[i]]
            if not olds:
                continue
            q = rng.choice(olds)
            grp = rng.choice([[3, 4, 5], [3, 4, 5], [0, 1, 2], [0, 1, 2, 3, 4, 5]])
            pnew = list(shadow[i])
            for j in grp:
                pnew[j] = q[j]
            if not cell_ok(*pnew[3:]) or pnew == shadow[i]:
                continue
            chosen = [j for j in grp if pnew[j] != shadow[i][j]] if rng.random() < 0.5 else grp
            if len(chosen) == 1 and rng.random() < 0.5:
                ops.append({"op": "prop", "i": i, "name": NAMES[chosen[0]], "value": pnew[chosen[0]]})
            else:
                ops.append({"op": "setpar", "i": i, "args": {NAMES[j]: pnew[j] for j in chosen}})
            past.setdefault(i, []).append(list(shadow[i]))
            shadow[i] = pnew
            continue
        if k in ("setbase", "setpar", "prop") and shadow:
            past.setdefault(i, []).append(list(shadow[i]))
        if k == "new":
            ops.append({"op": "new"})
            shadow.append([1.0, 1.0, 1.0, 90.0, 90.0, 90.0])
        elif k == "newpar":
            p = new_cell()
            ops.append({"op": "newpar", "abcABG": p, "rot": gen_rot(rng) if rng.random() < 0.5 else None})
            shadow.append(p)
        elif k in ("newbase", "setbase"):
            B = gen_base(rng)
            p = list(params_of_base(B))
            if not cell_ok(*p[3:]):
                continue
            if k == "newbase":
                ops.append({"op": "newbase", "base": B})
                shadow.append(p)
            else:
                ops.append({"op": "setbase", "i": i, "base": B})
                shadow[i] = p
        elif k == "copy":
            ops.append({"op": "copy", "i": i})
            shadow.append(list(shadow[i]))
        elif k == "recip":
            p = recip_params(shadow[i])
            if not cell_ok(*p[3:]) or min(p[:3]) < 0.02:
                continue
            ops.append({"op": "recip", "i": i})
            shadow.append(p)
        elif k in ("setpar", "prop"):
            for _ in range(30):
                cand = new_cell()
                if k == "prop":
                    chosen = [rng.randrange(6)]
                else:
                    mask = rng.randrange(0, 128)
                    chosen = [j for j in range(6) if (mask >> j) & 1]
                p = list(shadow[i])
                for j in chosen:
                    p[j] = cand[j]
                if cell_ok(*p[3:]):
                    break
            else:
                continue
            if k == "prop":
                ops.append({"op": "prop", "i": i, "name": NAMES[chosen[0]], "value": p[chosen[0]]})
            else:
                args = {NAMES[j]: p[j] for j in chosen}
                if (mask >> 6) & 1:
                    args["baserot"] = gen_rot(rng)
                ops.append({"op": "setpar", "i": i, "args": args})
            shadow[i] = p
    if with_error and shadow:
        i = rng.randrange(len(shadow))
        e = rng.randrange(5)
        if e == 0:
            ops.append({"op": "setbase", "i": i, "base": [[1.0, 0.0, 0.0], [0.0, 1.0, 0.0], [2.0, -3.0, 0.0]], "expect_error": "LatticeError"})
        elif e == 1:
            ops.append({"op": "setbase", "i": i, "base": [[0.0, 2.0, 0.0], [2.0, 0.0, 0.0], [0.0, 0.5, 2.0]], "expect_error": "LatticeError"})
        elif e == 2:
            ops.append({"op": "setpar", "i": i, "args": {"alpha": 60.0, "beta": 60.0, "gamma": 150.0}, "expect_error": "ValueError"})
        elif e == 3:
            ops.append({"op": "prop", "i": i, "name": "b", "value": 0.0, "expect_error": "ZeroDivisionError"})
        else:
            ops.append({"op": "newbase", "base": [[1.0, 2.0, 3.0], [2.0, 4.0, 6.0], [0.0, 0.0, 1.0]], "expect_error": "LatticeError"})
    return ops


def qtag(q):
    """root-cause tag of an oracle quantity (attribute name / clause) used to report each cause once"""
    if " untouched by " in q:
        return "untouched"
    if q.startswith("object ") and ": " in q:
        return q.split(": ", 1)[1]
    return q.split(" equals")[0].split(" of Lattice(base")[0].split(" (")[0]


def special_histories(rng):
    """every special angle (see c01.special_angles), exactly and +-1e-9, in every angle position, reached through the
    constructor, through setLatPar and through a property assignment (all three routes for the exact value), followed by
    reciprocal() and by setLatBase of the object's own base (the two views)"""
    sweep, skipped = special_cells()
    out = []
    for n, (pos, x, eps, cell, cell0) in enumerate(sweep):
        routes = (0, 1, 2) if eps == 0.0 else (n % 3,)
        for r in routes:
            a, b, c = gen_lengths(rng)
            rot = gen_rot(rng) if (n + r) % 2 else None
            if r == 0:
                ops = [{"op": "newpar", "abcABG": [a, b, c] + list(cell), "rot": rot}]
            elif r == 1:
                args = {NAMES[3 + pos]: cell[pos]}
                if n % 2:
                    args["a"] = round(a * 1.5, 3)
                ops = [{"op": "newpar", "abcABG": [a, b, c] + list(cell0), "rot": rot}, {"op": "setpar", "i": 0, "args": args}]
            else:
                ops = [{"op": "newpar", "abcABG": [a, b, c] + list(cell0), "rot": rot},
                       {"op": "prop", "i": 0, "name": NAMES[3 + pos], "value": cell[pos]}]
            ops.append({"op": "recip", "i": 0})
            out.append(ops)
    return out, skipped


def kinds_of(ops):
    return "[%s]" % ",".join(o["op"] for o in ops)


# ---------------------------------------------------------------------------------------------
# constructor argument forms

def ctor_forms(ck, disagreements):
    from diffpy.structure.lattice import Lattice

    src = Lattice(2.0, 3.0, 4.0, 70.0, 80.0, 100.0)
    R = [[0.0, 1.0, 0.0], [-1.0, 0.0, 0.0], [0.0, 0.0, 1.0]]
    Bm = [[2.0, 0.0, 0.0], [1.0, 3.0, 0.0], [0.5, 0.5, 5.0]]
    vals = [3.0, 4.0, 5.0, 80.0, 95.0, 100.0, R, Bm]
    keys = NAMES + ["baserot", "base"]
    lines, meta = [], []
    for mask in range(256):
        for alat in ((0, 1) if mask & 1 else (0,)):
            lines.append("lat.ctorform %d %d" % (mask, alat))
            meta.append((mask, alat))
    outs = common.driver(lines)
    for (mask, alat), o in zip(meta, outs):
        kw = {keys[j]: vals[j] for j in range(8) if (mask >> j) & 1}
        if alat:
            kw["a"] = src
        ck.coverage["evaluations"] += 1
        ck.coverage["traces_validated_against_impl"] += 1
        try:
            L = Lattice(**kw)
            p = [round(x, 9) for x in L.abcABG()]
            if p == [1.0, 1.0, 1.0, 90.0, 90.0, 90.0]:
                got = "default"
            elif p == [round(x, 9) for x in src.abcABG()] and alat:
                got = "copy"
            elif p == [3.0, 4.0, 5.0, 80.0, 95.0, 100.0]:
                got = "par"
            elif differs(impl_attrs(L)["base"], Bm) is None:
                got = "base"
            else:
                got = "other"
            # oracle: the object is coherent and has the orientation asked for
            bad = oracle_step([L], [], {"op": "none"}, 0)
            if got == "par":
                want = R if (mask >> 6) & 1 else [[1.0, 0.0, 0.0], [0.0, 1.0, 0.0], [0.0, 0.0, 1.0]]
                if differs(impl_attrs(L)["baserot"], want) is not None:
                    bad.append(("baserot of the constructed lattice", want, impl_attrs(L)["baserot"]))
            if bad:
                fail_once(ck, "ctor:%d" % mask, "Lattice(%s): %s: expected %r observed %r" % (", ".join(sorted(kw)), bad[0][0], bad[0][1], bad[0][2]),
                          {"kind": "ctor", "mask": mask, "a_is_lattice": alat, "quantity": bad[0][0], "expected": bad[0][1], "observed": bad[0][2]},
                          dedupe="ctor:" + qtag(bad[0][0]))
        except Exception as ex:  # noqa: BLE001
            got = "err " + type(ex).__name__
        if got != o:
            disagreements.append(([], "constructor form Lattice(%s)%s: model %s impl %s" % (", ".join(sorted(kw)), " with a Lattice as a" if alat else "", o, got)))


# ---------------------------------------------------------------------------------------------
# the check

def run(ck):
    ok, info = ck.lean_obligations("DS.Props.C10")
    tie_ok, tie_info = ck.source_tie("DS.Props.SrcLattice")  # model = transliteration of lattice.py (rfl)
    quick = ck.tier == "quick"
    nhist = 80 if quick else 3000
    if not tie_ok:
        nhist *= 4  # broken source tie: widen the failing-input search
    nmax = 15 if quick else 40
    rng = ck.rng
    ck.coverage["rule"] = (
        "%d random histories of 3..%d operations on up to 8 objects mixing Lattice()/Lattice(6 parameters[, baserot])/Lattice(base=), copy construction, "
        "reciprocal(), setLatPar with a random subset of its 7 arguments, property assignments and setLatBase; every intermediate cell well-conditioned; "
        "after every step all 26 scalars + 8 arrays of the touched object compared model(Float) vs implementation vs a fresh Lattice of the current "
        "parameters vs first principles, the two views compared, all other objects compared bitwise with their snapshots; 1 in 8 histories ends with a "
        "rejected operation (error kinds compared); after every step reciprocal() of EVERY live object is compared with the current "
        "reciprocal parameters and checked dual to the current base; plus a deterministic sweep of every angle at which cosd/sind may "
        "hit the tree's current _EXACT_COSD table and all multiples of 15 degrees (exactly and +-1e-9, every angle position, via "
        "constructor / setLatPar / property); all 384 constructor argument forms; distinct_nontrivial = steps whose touched cell has a non-right angle"
        % (nhist, nmax))
    disagreements = []
    ctor_forms(ck, disagreements)
    drift_histories(ck)
    hists = [gen_history(rng, nmax, with_error=(h % 8 == 7)) for h in range(nhist)]
    sp_hists, sp_skipped = special_histories(rng)
    hists += sp_hists
    nhist = len(hists)
    ck.coverage["special_angles"] = {"angles": special_angles(), "histories": len(sp_hists), "skipped_no_valid_cell": sp_skipped}
    opcount = {}
    for lo in range(0, nhist, 500):
        chunk = hists[lo:lo + 500]
        outs = common.driver(["lat.hist " + " ".join(op_words(o) for o in ops) for ops in chunk])
        for ops, o in zip(chunk, outs):
            secs = o.split(" | ")
            world = []
            failed = False
            for s, op in enumerate(ops):
                opcount[op["op"]] = opcount.get(op["op"], 0) + 1
                snaps = [impl_attrs(L) for L in world]
                ck.coverage["evaluations"] += 1
                msec = secs[s] if s < len(secs) else "(missing)"
                try:
                    t = apply_op(world, op)
                except Exception as ex:  # noqa: BLE001
                    got = "err " + type(ex).__name__
                    ck.coverage["traces_validated_against_impl"] += 1
                    if op.get("expect_error"):
                        if msec != got:
                            disagreements.append((ops[: s + 1], "rejected %s: model %s impl %s" % (op["op"], msec[:40], got)))
                    else:
                        small, r = shrink_exception(ops[: s + 1])
                        fail_once(ck, "history:%s:%s" % (kinds_of(small), type(ex).__name__),
                                  "%s raised %r on a valid history %s" % (op["op"], ex, kinds_of(small)),
                                  {"kind": "history", "history": small, "step": len(small) - 1, "quantity": "exception", "expected": "no exception", "observed": repr(ex)})
                    failed = True
                    break
                if op.get("expect_error"):
                    disagreements.append((ops[: s + 1], "operation %s expected to be rejected (%s) was accepted" % (op["op"], op["expect_error"])))
                    failed = True
                    break
                T = world[t]
                if any(abs(x - 90.0) > 1e-6 for x in T.abcABG()[3:]):
                    ck.coverage["distinct_nontrivial"] += 1
                # oracle on the implementation
                bad = oracle_step(world, snaps, op, t)
                if bad:
                    small, r = shrink(ops[: s + 1])
                    if r is None:
                        small, r = ops[: s + 1], (s,) + tuple(bad[0])
                    fail_once(ck, "history:%s:%s" % (kinds_of(small), r[1].split(" equals")[0].split(" (")[0]),
                              "after the history %s: %s: expected %r, observed %r" % (kinds_of(small), r[1], r[2], r[3]),
                              {"kind": "history", "history": small, "step": r[0], "quantity": r[1], "expected": r[2], "observed": r[3]},
                              dedupe="history:" + qtag(r[1]))
                    failed = True
                    break
                # model vs implementation
                ck.coverage["traces_validated_against_impl"] += 1
                toks = msec.split()
                m = parse_attrs(toks[:-1]) if toks else None
                if m is None:
                    disagreements.append((ops[: s + 1], "step %d (%s): model answered %r" % (s, op["op"], msec[:60])))
                    failed = True
                    break
                d = compare_attrs(m, impl_attrs(T))
                if d:
                    disagreements.append((ops[: s + 1], "step %d (%s): attribute %s: model %r impl %r" % (s, op["op"], d[0][0], d[0][1], d[0][2])))
                    failed = True
                    break
                if toks[-1] != repr_class(repr(T)):
                    disagreements.append((ops[: s + 1], "step %d (%s): repr form: model %s impl %s" % (s, op["op"], toks[-1], repr(T)[:50])))
            if failed:
                continue
            # final state of every object
            fin = secs[len(ops):]
            if not fin or fin[0] != "end" or len(fin) != 1 + len(world):
                disagreements.append((ops, "final section of the model: %r" % (fin[:1],)))
                continue
            for j, L in enumerate(world):
                m = parse_attrs(fin[1 + j].split())
                d = compare_attrs(m, impl_attrs(L)) if m else [("unparsable", None, None, 0)]
                if d:
                    disagreements.append((ops, "final object %d: attribute %s: model %r impl %r" % (j, d[0][0], d[0][1], d[0][2])))
    # disagreement verdicts: the oracle held on these histories; search variants with every angle made non-right
    for ops, what in disagreements[:6]:
        found = None
        for variant in angle_variants(ops):
            r = run_oracle(variant)
            if r is not None:
                small, r2 = shrink(variant)
                found = (small, r2 or r)
                break
        if found:
            small, r = found
            fail_once(ck, "history:%s:%s" % (kinds_of(small), r[1].split(" equals")[0].split(" (")[0]),
                      "model and implementation disagree (%s); directed search: after %s: %s: expected %r observed %r" % (what[:100], kinds_of(small), r[1], r[2], r[3]),
                      {"kind": "history", "history": small, "step": r[0], "quantity": r[1], "expected": r[2], "observed": r[3], "found_by": what[:200]})
        else:
            fail_once(ck, "correspondence:%s" % what.split(":")[0].split(" (")[-1].rstrip(")"),
                      "model and implementation disagree on the history %s: %s; the fresh-lattice oracle holds on it and on its non-right variants" % (kinds_of(ops), what[:200]),
                      {"kind": "correspondence", "stream": "lat.hist", "history": ops, "detail": what}, no_failing_input=True)
    ck.coverage["input_histogram"] = opcount
    ck.coverage["samples"] = [hists[0][:4], hists[1][:3]]
    ck.coverage["trusted_base"] += ["harness/c10.py history generator and fresh-lattice / first-principles oracle (numpy)",
                                    "Lean Float instance of Elem as executable side"]
    ck.assumptions += ["IEEE-754 arithmetic, numpy and libm are modelled (theorems over R; correspondence tolerance 1e-9*scale)",
                       "a step that raises is outside the quantifier (the real object is then left half-updated); only the error kind is compared",
                       "in-place mutation of the array attributes by the caller is outside the model (the arrays are documented read-only)",
                       "objects are compared through their public attributes; intermediate cells are generated well-conditioned"]
    if ok and not quick:
        leanchecker(ck, "DS.Props.C10")
    ck.tie_verdict(tie_ok, tie_info, "lattice.py")
    if not ok and not ck.violations:
        fail_once(ck, "lean-build", "Lean obligations of C10 no longer check: %r" % info["failed_modules"],
                  {"kind": "proof-obligation", "theorem": info["failed_modules"], "errors": info["errors"]}, no_failing_input=True)


def drift_histories(ck):
    """long runs of updates that each change one parameter by less than any tolerance used inside the class (oracle only:
    the object must describe the parameters it reports, however they were reached)"""
    rng = ck.rng
    n = 0
    for name in ("a", "b", "c", "alpha", "beta", "gamma"):
        for via in ("prop", "setpar"):
            cell = [rng.uniform(3, 12), rng.uniform(3, 12), rng.uniform(3, 12), rng.uniform(70, 110), rng.uniform(70, 110), rng.uniform(70, 110)]
            ops = [{"op": "newpar", "abcABG": cell, "rot": None},
                   {"op": "drift", "i": 0, "name": name, "delta": rng.choice([5e-9, -4e-9, 9e-10, 3e-9]), "count": 3000 if ck.tier == "quick" else 20000, "via": via}]
            if rng.random() < 0.5:
                ops.insert(1, {"op": "copy", "i": 0})
            n += 1
            ck.coverage["evaluations"] += 1
            r = run_oracle(ops)
            if r is not None:
                fail_once(ck, "history:drift:%s" % name, "after %d updates of %s by %g each (%s): %s: expected %r, observed %r" % (
                    ops[-1]["count"], name, ops[-1]["delta"], via, r[1], r[2], r[3]),
                    {"kind": "history", "history": ops, "step": r[0], "quantity": r[1], "expected": r[2], "observed": r[3]})
    ck.coverage["drift_histories"] = n


def shrink_exception(ops):
    cur = list(ops)
    for i in range(len(cur) - 2, -1, -1):
        cand = cur[:i] + cur[i + 1:]
        if not valid_refs(cand) or any("i" in o for o in cur[i + 1:]) and cur[i]["op"] in ("new", "newpar", "newbase", "copy", "recip"):
            continue
        r = run_oracle(cand)
        if r is not None and r[1].startswith("exception"):
            cur = cand
    return cur, run_oracle(cur)


def angle_variants(ops):
    """the same history with right/table angles replaced by generic ones (directed search)"""
    for shift in (7.0, -11.0, 15.0):
        v = _copy.deepcopy(ops)
        for o in v:
            if o["op"] == "newpar":
                o["abcABG"][3:] = [x + shift if abs(x - 90.0) < 1e-6 or x in (60.0, 120.0) else x for x in o["abcABG"][3:]]
            elif o["op"] == "new":
                o.clear()
                o.update({"op": "newpar", "abcABG": [1.0, 1.0, 1.0, 90.0 + shift, 90.0 - shift, 90.0 + shift / 2], "rot": None})
            elif o["op"] == "setpar":
                for n in ("alpha", "beta", "gamma"):
                    if n in o["args"] and (abs(o["args"][n] - 90.0) < 1e-6 or o["args"][n] in (60.0, 120.0)):
                        o["args"][n] += shift
            elif o["op"] == "prop" and o["name"] in ("alpha", "beta", "gamma") and abs(o["value"] - 90.0) < 1e-6:
                o["value"] += shift
            elif o["op"] in ("newbase", "setbase"):
                B = o["base"]
                o["base"] = [[B[0][0], B[0][1] + 0.1 * shift / 7, B[0][2] + 0.2], [B[1][0] - 0.15, B[1][1], B[1][2] + 0.1], B[2]]
        yield v


def replay(path):
    common.use_repo()
    r = json.load(open(path))
    if r.get("kind") == "ctor":
        from diffpy.structure.lattice import Lattice

        src = Lattice(2.0, 3.0, 4.0, 70.0, 80.0, 100.0)
        R = [[0.0, 1.0, 0.0], [-1.0, 0.0, 0.0], [0.0, 0.0, 1.0]]
        Bm = [[2.0, 0.0, 0.0], [1.0, 3.0, 0.0], [0.5, 0.5, 5.0]]
        vals = [3.0, 4.0, 5.0, 80.0, 95.0, 100.0, R, Bm]
        kw = {(NAMES + ["baserot", "base"])[j]: vals[j] for j in range(8) if (r["mask"] >> j) & 1}
        if r.get("a_is_lattice"):
            kw["a"] = src
        try:
            bad = oracle_step([Lattice(**kw)], [], {"op": "none"}, 0)
        except Exception as ex:  # noqa: BLE001
            print("raises", repr(ex))
            return 0
        print("oracle:", bad[:2])
        return 1 if bad else 0
    if r.get("kind") != "history":
        print("replay names a %s (%s); nothing to execute on the implementation" % (r.get("kind"), r.get("theorem") or r.get("detail")))
        return 1
    res = run_oracle(r["history"])
    if res is None:
        print("holds after the history %s" % kinds_of(r["history"]))
        return 0
    print("FAILS at step %d of %s: %s: expected %r observed %r" % (res[0], kinds_of(r["history"]), res[1], res[2], res[3]))
    return 1
