"""C08, whole-column attribute assignment (`stru.xyz = v`, `stru.occupancy = v`, `stru.U = v` ...).

Model: DS.Column.setColumn (NumPy broadcasting of the value against (n,) + shape(attribute)), theorems in
DS.Props.C08Column.  Correspondence: the real setter on real structures against the model through the driver
(`col.set`).  Oracle (independent of both): numpy.broadcast_to on the value, atom identities / order / lattice
references unchanged, a selection sharing the atoms sees the assignment, a copy does not."""
import itertools

from . import common

# attribute -> shape of the per-atom value
ATTRS = {"xyz": (3,), "x": (), "z": (), "occupancy": (), "U": (3, 3), "Uisoequiv": (), "U12": (), "xyz_cartn": (3,)}


def value_shapes(n, item):
    """shapes of non-scalar values to try for n atoms and per-atom shape `item` (legal and illegal)"""
    full = (n,) + item
    cand = {item, full, (1,) + item, (n,) + (1,) * len(item), (1,) * (len(item) + 1), (n,), (n + 1,) + item, (2,) + item, (3,), (3, 3), (1,), (n, 1)}
    if item:
        cand.add(item[:-1] + (1,))
        cand.add((n,) + item[:-1] + (1,))
    return sorted(c for c in cand if len(c) >= 1 and all(d >= 1 for d in c))


def build(n, aniso):
    from diffpy.structure import Atom, Lattice, Structure

    s = Structure(lattice=Lattice(3.0, 4.0, 5.0, 90.0, 90.0, 90.0))   # orthogonal cell: Cartesian and fractional scale exactly
    for i in range(n):
        s.append(Atom("C", [0.0, 0.0, 0.0], label="a%d" % i, occupancy=1.0))
    for a in s:
        a.anisotropy = aniso
    return s


def per_atom(s, attr):
    import numpy

    return [numpy.asarray(getattr(a, attr), dtype=float).reshape(-1).tolist() for a in s]


def run(ck):
    import numpy

    rng = ck.rng
    cases = []
    ns = [0, 1, 2, 3, 4] if ck.tier == "quick" else [0, 1, 2, 3, 4, 5, 7]
    for n in ns:
        for attr, item in ATTRS.items():
            aniso = attr in ("U", "U12")
            if attr == "xyz_cartn":
                item_scale = None
            cases.append((n, attr, item, aniso, "scalar", None, rng.randrange(1, 50)))
            for vs in value_shapes(n, item):
                size = 1
                for d in vs:
                    size *= d
                data = [rng.randrange(1, 1000) for _ in range(size)]
                for form in (("list", "ndarray") if (len(cases) % 3 == 0 or ck.tier != "quick") else ("list",)):
                    cases.append((n, attr, item, aniso, form, vs, data))
    lines = []
    for n, attr, item, aniso, form, vs, data in cases:
        it = ",".join(map(str, item)) or "-"
        if form == "scalar":
            lines.append("col.set %d %s s %d" % (n, it, data))
        else:
            lines.append("col.set %d %s a %s %s" % (n, it, ",".join(map(str, vs)), ",".join(map(str, data))))
    try:
        outs = common.driver(lines)
    except common.DriverBroken as e:
        outs = [None] * len(lines)
        ck.notes.append("driver unavailable for col.set: %s" % str(e)[:200])
    nrun = 0
    for (n, attr, item, aniso, form, vs, data), mo in zip(cases, outs):
        nrun += 1
        s = build(n, aniso)
        scale = 1.0
        if attr == "xyz_cartn":
            scale = None
        if form == "scalar":
            value = float(data) / 64.0
            vdesc = "%r" % value
        else:
            arr = (numpy.array(data, dtype=float) / 64.0).reshape(vs)
            value = arr.tolist() if form == "list" else arr
            vdesc = "%s of shape %r" % (form, tuple(vs))
        ids = [id(a) for a in s]
        lat = s.lattice
        sel = s[:] if n else None
        cp = s.copy() if n else None
        before_other = {o: per_atom(s, o) for o in ("occupancy", "xyz") if o != attr and not (attr in ("x", "z", "xyz_cartn") and o == "xyz")}
        repl = {"kind": "column", "n": n, "attr": attr, "form": form, "shape": list(vs) if vs else None, "data": data}
        key = "column:%s:%s" % (attr, form if form == "scalar" else "x".join(map(str, vs)))
        try:
            setattr(s, attr, value)
            got = ("ok", per_atom(s, attr))
        except ValueError:
            got = ("ValueError", None)
        except Exception as e:  # noqa: BLE001
            ck.fail(key + ":" + type(e).__name__, "stru.%s = %s on %d atoms raised %r" % (attr, vdesc, n, e), dict(repl, observed=repr(e)))
            continue
        # oracle: numpy broadcasting of the value against (n,) + item
        if n == 0:
            want = ("ok", [])
        else:
            try:
                b = numpy.broadcast_to(numpy.asarray(value, dtype=float), (n,) + tuple(item))
                want = ("ok", [b[i].reshape(-1).tolist() for i in range(n)])
            except ValueError:
                want = ("ValueError", None)
        if attr == "xyz_cartn" and want[0] == "ok" and got[0] == "ok":
            pass   # Cartesian and fractional views of the same assignment: compared through the attribute itself
        if got[0] != want[0] or (got[0] == "ok" and any(
                len(g) != len(w) or any(abs(x - y) > 1e-9 * max(1.0, abs(y)) for x, y in zip(g, w)) for g, w in zip(got[1], want[1]))):
            ck.fail(key, "stru.%s = %s on %d atoms gives %s, broadcasting the value over the atoms gives %s" % (
                attr, vdesc, n, got[1] if got[0] == "ok" else got[0], want[1] if want[0] == "ok" else want[0]),
                dict(repl, observed=got, expected=want))
            continue
        if [id(a) for a in s] != ids or s.lattice is not lat or any(a.lattice is not lat for a in s):
            ck.fail(key + ":identity", "stru.%s = ... changed the atom sequence or a lattice reference" % attr, repl)
            continue
        if got[0] == "ok" and n:
            if per_atom(sel, attr) != got[1]:
                ck.fail(key + ":selection", "a selection sharing the atoms does not see stru.%s = ..." % attr, repl)
            if per_atom(cp, attr) == got[1] and any(v != per_atom(build(n, aniso), attr)[0] for v in got[1]):
                ck.fail(key + ":copy", "a copy made before stru.%s = ... changed with the original" % attr, repl)
            for o, bo in before_other.items():
                if per_atom(s, o) != bo:
                    ck.fail(key + ":other", "stru.%s = ... changed the attribute %s" % (attr, o), repl)
        # correspondence with the model (values are k/64: exact)
        if mo is not None:
            ck.coverage["traces_validated_against_impl"] += 1
            if got[0] == "ValueError":
                agree = mo == "ValueError"
            else:
                exp = [[int(round(v * 64)) for v in row] for row in got[1]]
                agree = mo == ("ok " + ";".join(",".join(map(str, r)) for r in exp)).rstrip() or (n == 0 and mo.strip() == "ok")
            if not agree:
                ck.fail("column-model:%s" % key, "model col.set gives %r, the implementation %s" % (mo[:120], got[1] if got[0] == "ok" else got[0]),
                        dict(repl, model=mo, theorem="correspondence stream col.set"), no_failing_input=True)
    ck.coverage["evaluations"] += nrun
    ck.coverage["column_assignments"] = nrun
    return nrun


def replay(r):
    """re-executes the assignment with every oracle of the run: broadcast value, identity of atoms and lattice, the selection
    sees it, the copy does not, other attributes unchanged"""
    import numpy

    common.use_repo()
    n, attr, form, vs, data = r["n"], r["attr"], r["form"], r.get("shape"), r["data"]
    item = ATTRS[attr]
    aniso = attr in ("U", "U12")
    s = build(n, aniso)
    if form == "scalar":
        value = float(data) / 64.0
    else:
        arr = (numpy.array(data, dtype=float) / 64.0).reshape(vs)
        value = arr.tolist() if form == "list" else arr
    ids = [id(a) for a in s]
    lat = s.lattice
    sel = s[:] if n else None
    cp = s.copy() if n else None
    before_other = {o: per_atom(s, o) for o in ("occupancy", "xyz") if o != attr and not (attr in ("x", "z", "xyz_cartn") and o == "xyz")}
    try:
        setattr(s, attr, value)
        got = ("ok", per_atom(s, attr))
    except ValueError:
        got = ("ValueError", None)
    except Exception as e:  # noqa: BLE001
        print("raises", repr(e))
        return 1
    if n == 0:
        want = ("ok", [])
    else:
        try:
            b = numpy.broadcast_to(numpy.asarray(value, dtype=float), (n,) + tuple(item))
            want = ("ok", [b[i].reshape(-1).tolist() for i in range(n)])
        except ValueError:
            want = ("ValueError", None)
    print("implementation:", got)
    print("broadcast     :", want)
    bad = got != want
    if [id(a) for a in s] != ids or s.lattice is not lat or any(a.lattice is not lat for a in s):
        print("the atom sequence or a lattice reference changed")
        bad = True
    if got[0] == "ok" and n:
        if per_atom(sel, attr) != got[1]:
            print("a selection sharing the atoms does not see the assignment")
            bad = True
        if per_atom(cp, attr) == got[1] and any(v != per_atom(build(n, aniso), attr)[0] for v in got[1]):
            print("a copy made before the assignment changed with the original")
            bad = True
        for o, bo in before_other.items():
            if per_atom(s, o) != bo:
                print("the attribute %s changed" % o)
                bad = True
    return 1 if bad else 0
